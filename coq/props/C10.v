(* C10 -- Produced traces are structurally well formed.

   Statements are in model/WfTrace.v (definitions of [wf_trace], driver trees, [drive]), proofs in
   proofs/WfProofs.v.  The trace type is parametric in the representation C of content ids. *)
From Aqua Require Import Base Trace Handler HandlerCases WfTrace WfCases WfProofs WfOpsProofs.
Open Scope N_scope.
Open Scope list_scope.

(* the executable check is the property *)
Theorem C10_wf_bool : forall C, C10_wf_bool_stmt C.
Proof. exact wf_trace_b_iff. Qed.

(* MAIN: for every driver forest and ALL previous/current traces (arbitrary, even ill-formed): if the
   TraceHandler accepted the whole call sequence, its result trace is a forest -- par sizes cover exactly the
   entries that follow, nested entries stay inside their parent, every fold's lore tiles the entries after the
   fold state (pars inside folds, folds inside pars and folds, several generations, early exits) *)
Theorem C10_wf_drive : forall C ceqb, C10_wf_drive_stmt C ceqb.
Proof. exact wf_drive. Qed.

(* value_pos clause, under the executor fact it needs: every iteration is started at the position of an
   earlier stream value entry of the result trace (the checked driver refuses anything else and otherwise is
   the driver) *)
Theorem C10_wf_drive_value_pos : forall C ceqb, C10_wf_drive_value_pos_stmt C ceqb.
Proof. exact wf_drive_value_pos. Qed.

(* generation clause: update_generation keeps the structure and the value positions; applied to every
   stream value entry with real generations it leaves no placeholder *)
Theorem C10_generations : forall C, C10_generations_stmt C.
Proof. exact generations_ok. Qed.

(* a run = a driver forest followed by the generation updates of the compaction *)
Theorem C10_full_drive : forall C ceqb, C10_full C ceqb.
Proof. exact full. Qed.

(* the API call sequence of a forest ([ops_dts], what the harness sends to the real TraceHandler), run with the op
   semantics of model/HandlerCases.v that the correspondence compares with the implementation, is [drive]; hence a
   call sequence that runs through leaves a well-formed result *)
Theorem C10_ops_tie : C10_ops_tie_stmt.
Proof. exact ops_tie. Qed.
Theorem C10_wf_run_ops : C10_wf_run_ops_stmt.
Proof. exact wf_run_ops. Qed.

(* the builder code read from /repo is the code the model mirrors *)
Theorem C10_source_tie :
  (forall s, next_by_table s = Some (ctor_next s)) /\
  (forall c n, finish_by_table c n = Some (ctor_finish c n)) /\
  (forall c n, setter_by_table "before_end" c n = Some (ctor_before_end c n) /\
               setter_by_table "after_start" c n = Some (ctor_after_start c n) /\
               setter_by_table "after_end" c n = Some (ctor_after_end c n)) /\
  wf_source_pins = true.
Proof. exact (conj ctor_next_agrees (conj ctor_finish_agrees (conj setters_agree wf_source_pins_ok))). Qed.

(* ---- non-vacuity ---- *)
Definition sc (x : string) : dt string := DCall (CallRaw (Some (Executed (VRScalar x)))).
Definition st (x : string) : dt string := DCall (CallRaw (Some (Executed (VRStream x 0)))).
Definition one (d : dt string) : dts string := DCons d DNil.

(* two stream values; a par whose right branch holds a stream fold over them written in the
   `(fold $s i (par body (next i)))` idiom, the body of the first iteration containing a nested par and a
   nested fold without `next` and generation updates in the middle of the run (a `new` scope ending);
   then a second generation started at a value inside the fold's own range
   (recursive stream); then a call *)
Definition ex_forest : dts string :=
  DCons (DAp (ApRaw [0])) (DCons (DAp (ApRaw [0]))
  (DCons (DPar (one (sc "left"))
               (one (DFold 1
                  (GCons (VPos 0)
                     (BHole DNil
                        (HParR (DCons (st "b0") (DCons (DGens [(6, 1); (0, 0)]) (DCons (DPar (one (sc "x")) (one (sc "y")))
                                   (one (DFold 2 (GCons (VPos 6) (BPlain (one (sc "inner"))) GNil))))))
                               (BHole DNil
                                  (HNextMore (VPos 1)
                                     (BHole DNil (HParR (one (st "b1")) (BHole DNil (HNextEnd (one (sc "last"))) DNil)) DNil)
                                     true)
                                  DNil))
                        DNil)
                  (GCons (VPos 13) (BHole (one (sc "g2")) (HNextEnd DNil) (one (sc "after"))) GNil)))))
  (one (sc "end")))).

Example C10_drive_nonvacuous :
  match drive_chk string String.eqb ex_forest (handler_from string [] []) with
  | Ok h =>
      let t := result_trace string h in
      wf_struct_b string t && vp_ok_b string t && (len_N t =? 18) &&
      existsb (fun s => match s with SFold [_; _; _] => true | _ => false end) t &&
      existsb (fun s => match s with SPar 1 13 => true | _ => false end) t
  | _ => false
  end = true.
Proof. vm_compute. reflexivity. Qed.

Example C10_full_nonvacuous :
  match drive_chk string String.eqb ex_forest (handler_from string [] []) with
  | Ok h =>
      match apply_generations string (map (fun p => (p, 0)) (stream_positions string (result_trace string h) 0)) h with
      | Some h' => wf_trace_b string (result_trace string h')
      | None => false
      end
  | _ => false
  end = true.
Proof. vm_compute. reflexivity. Qed.

(* layouts asserted by the repository's own tests (air/tests/test_module/instructions/fold.rs) are accepted *)
Definition lore (vp bp bl ap al : N) : fold_sub_lore :=
  {| fl_value_pos := vp; fl_descs := [ {| sd_pos := bp; sd_len := bl |}; {| sd_pos := ap; sd_len := al |} ] |}.
Definition stream_call (g : N) : state string := SCall (Executed (VRStream "c" g)).
Definition sent : state string := SCall (RequestSentBy (SPeer "p")).

(* fold_stream_seq_next_saves_call_result: fold[(v0: [3,1] [6,0]) (v1: [4,1] [5,1])] *)
Example C10_accepts_seq_next_layout :
  wf_trace_b string
    [SAp [0]; SAp [0]; SFold [lore 0 3 1 6 0; lore 1 4 1 5 1];
     stream_call 0; stream_call 1; stream_call 2; SCall (Executed (VRUnused "u"))] = true.
Proof. vm_compute. reflexivity. Qed.

(* fold_par_next_completes: the par(1,4) .. par(1,2) .. par(1,0) chain, iteration intervals not aligned with the pars *)
Example C10_accepts_par_next_layout :
  wf_trace_b string
    [SAp [0]; SAp [0]; SAp [0]; SFold [lore 0 4 2 10 0; lore 1 6 2 10 0; lore 2 8 2 10 0];
     SPar 1 4; stream_call 0; SPar 1 2; sent; SPar 1 0; sent; sent] = true.
Proof. vm_compute. reflexivity. Qed.

(* fold_stream_map: fold[(3: [6,2] [10,0]) (4: [8,2] [10,0])] after five entries *)
Example C10_accepts_stream_map_layout :
  wf_trace_b string
    [SCall (Executed (VRScalar "a")); stream_call 0; SCanon (CanonExecuted "k"); SAp [0]; SAp [0];
     SFold [lore 3 6 2 10 0; lore 4 8 2 10 0];
     SCall (Executed (VRScalar "a")); SCall (Executed (VRScalar "a")); SCall (Executed (VRScalar "a")); SCall (Executed (VRScalar "a"))] = true.
Proof. vm_compute. reflexivity. Qed.

(* and broken layouts are rejected: a par cutting through a nested par, a par reaching past the end, a lore with a gap, a lore entry dropped, a value
   position that is not an earlier stream entry, a placeholder generation *)
Example C10_rejects_broken_layouts :
  wf_trace_b string [SAp [0]; SPar 1 1; stream_call 0; SPar 1 0; sent; sent] = false /\
  wf_trace_b string [SAp [0]; SPar 1 5; stream_call 0; SPar 1 0; sent; sent] = false /\
  wf_trace_b string [SAp [0]; SAp [0]; SFold [lore 0 3 1 6 0; lore 1 4 1 6 0]; stream_call 0; stream_call 1; stream_call 2] = false /\
  wf_trace_b string [SAp [0]; SAp [0]; SFold [lore 0 3 1 6 0]; stream_call 0; stream_call 1; stream_call 2] = false /\
  wf_trace_b string [SAp [0]; sent; SFold [lore 1 3 1 4 0]; stream_call 0] = false /\
  wf_trace_b string [SAp [0]; SAp [0]; SFold [lore 3 3 1 4 0]; stream_call 0] = false /\
  wf_trace_b string [SAp [generation_stub]] = false.
Proof. vm_compute. repeat split; reflexivity. Qed.

Print Assumptions C10_wf_bool.
Print Assumptions C10_wf_drive.
Print Assumptions C10_wf_drive_value_pos.
Print Assumptions C10_generations.
Print Assumptions C10_full_drive.
Print Assumptions C10_ops_tie.
Print Assumptions C10_wf_run_ops.
Print Assumptions C10_source_tie.
