//! wftrace: the traces produced in a simulated history, for the C10 oracle (coq/model/WfCases.v).
//! A case is a history as for `exec` (script, peers, services, schedule); every run of the history is
//! executed by the real `air::execute_air`; the trace of every produced data is printed as a Coq term
//! `{| wc_kind; wc_trace : list (state N) |}` -- content ids are replaced by small numbers (C10 does
//! not look at them), everything else (par sizes, fold lore, generations, senders) is verbatim.
//!
//! input : {"script","peers","init","services","ops","drain": bool}
//! output: {"coq": [wcase...], "classes": [...], "info": [...]}

use air_interpreter_data::*;
use aquah::coqfmt as c;
use aquah::sim::*;
use serde_json::Value as J;
use std::collections::HashMap;
use std::io::BufRead;

struct Ids(HashMap<String, usize>);
impl Ids {
    fn get(&mut self, s: &str) -> usize {
        let n = self.0.len();
        *self.0.entry(s.to_string()).or_insert(n)
    }
}

fn gen_u32(g: &GenerationIdx) -> u32 {
    let u: usize = (*g).into();
    u as u32
}
fn pos_u32(p: TracePos) -> u32 {
    let u: usize = p.into();
    u as u32
}

fn state(ids: &mut Ids, s: &ExecutedState) -> String {
    match s {
        ExecutedState::Par(p) => format!("(SPar {} {})", p.left_size, p.right_size),
        ExecutedState::Call(CallResult::RequestSentBy(Sender::PeerId(p))) => format!("(SCall (RequestSentBy (SPeer {})))", c::s(&format!("p{}", ids.get(p)))),
        ExecutedState::Call(CallResult::RequestSentBy(Sender::PeerIdWithCallId { peer_id, call_id })) => {
            format!("(SCall (RequestSentBy (SPeerCall {} {})))", c::s(&format!("p{}", ids.get(peer_id))), call_id)
        }
        ExecutedState::Call(CallResult::Executed(ValueRef::Scalar(cid))) => format!("(SCall (Executed (VRScalar {})))", ids.get(&cid.get_inner())),
        ExecutedState::Call(CallResult::Executed(ValueRef::Stream { cid, generation })) => {
            format!("(SCall (Executed (VRStream {} {})))", ids.get(&cid.get_inner()), gen_u32(generation))
        }
        ExecutedState::Call(CallResult::Executed(ValueRef::Unused(cid))) => format!("(SCall (Executed (VRUnused {})))", ids.get(&cid.get_inner())),
        ExecutedState::Call(CallResult::Failed(cid)) => format!("(SCall (Failed {}))", ids.get(&cid.get_inner())),
        ExecutedState::Ap(a) => format!("(SAp {})", c::list(a.res_generations.iter().map(|g| format!("{}", gen_u32(g))))),
        ExecutedState::Canon(CanonResult::RequestSentBy(p)) => format!("(SCanon (CanonRequestSentBy {}))", c::s(&format!("p{}", ids.get(p)))),
        ExecutedState::Canon(CanonResult::Executed(cid)) => format!("(SCanon (CanonExecuted {}))", ids.get(&cid.get_inner())),
        ExecutedState::Fold(f) => format!(
            "(SFold {})",
            c::list(f.lore.iter().map(|e| format!(
                "{{| fl_value_pos := {}; fl_descs := {} |}}",
                pos_u32(e.value_pos),
                c::list(e.subtraces_desc.iter().map(|d| format!("{{| sd_pos := {}; sd_len := {} |}}", pos_u32(d.begin_pos), d.subtrace_len)))
            )))
        ),
    }
}

/// input classes of one trace (evidence only; the oracle is the Coq function)
fn shape(t: &ExecutionTrace) -> J {
    let mut pars = 0;
    let mut folds = 0;
    let mut lore_entries = 0;
    let mut max_lore = 0;
    let mut recursive = false; // an iteration whose value lies after the fold state (recursive stream)
    let mut multi_gen = false; // a fold with values of more than one generation
    let mut par_in_fold = false;
    let mut fold_in_fold = false;
    let mut nonempty_after = false;
    let mut fold_ranges: Vec<(usize, usize)> = vec![];
    for (i, s) in t.iter().enumerate() {
        match s {
            ExecutedState::Par(_) => {
                pars += 1;
                if fold_ranges.iter().any(|(a, b)| *a < i && i < *b) {
                    par_in_fold = true;
                }
            }
            ExecutedState::Fold(f) => {
                folds += 1;
                lore_entries += f.lore.len();
                max_lore = max_lore.max(f.lore.len());
                if fold_ranges.iter().any(|(a, b)| *a < i && i < *b) {
                    fold_in_fold = true;
                }
                let mut gens = vec![];
                let mut span = 0usize;
                for e in &f.lore {
                    let vp: usize = e.value_pos.into();
                    if vp > i {
                        recursive = true;
                    }
                    for d in &e.subtraces_desc {
                        span += d.subtrace_len as usize;
                    }
                    if e.subtraces_desc.len() == 2 && e.subtraces_desc[1].subtrace_len > 0 {
                        nonempty_after = true;
                    }
                    match t.get(e.value_pos) {
                        Some(ExecutedState::Ap(a)) => gens.push(a.res_generations.first().map(gen_u32)),
                        Some(ExecutedState::Call(CallResult::Executed(ValueRef::Stream { generation, .. }))) => gens.push(Some(gen_u32(generation))),
                        _ => gens.push(None),
                    }
                }
                gens.dedup();
                if gens.len() > 1 {
                    multi_gen = true;
                }
                fold_ranges.push((i, i + 1 + span));
            }
            _ => {}
        }
    }
    serde_json::json!({"len": t.len(), "pars": pars, "folds": folds, "lore_entries": lore_entries, "max_lore": max_lore,
        "recursive": recursive, "multi_gen": multi_gen, "par_in_fold": par_in_fold, "fold_in_fold": fold_in_fold, "nonempty_after": nonempty_after})
}

fn run_case(case: &J) -> J {
    let peers: Vec<String> = case["peers"].as_array().map(|a| a.iter().filter_map(|x| x.as_str().map(String::from)).collect()).unwrap_or_default();
    let script = Net::instantiate(case["script"].as_str().unwrap_or("(null)"), &peers);
    let services_json = Net::instantiate(&case["services"].to_string(), &peers);
    let services = Services::from_json(&serde_json::from_str(&services_json).unwrap_or(J::Null));
    let init = case["init"].as_u64().unwrap_or(0) as usize;
    let mut ops = ops_from_json(&case["ops"]);
    if air_parser::parse(&script).is_err() {
        return serde_json::json!({"error": "script does not parse"});
    }
    if case["drain"].as_bool().unwrap_or(false) {
        for _ in 0..40 {
            for p in 0..peers.len() {
                ops.push(Op::Return(p, 0));
            }
            ops.push(Op::Deliver(0, false));
        }
    }
    let mut net = Net::new(&script, &peers, init, services, case["particle_id"].as_str().unwrap_or("particle-1"));
    let mut ids = Ids(HashMap::new());
    let mut terms = vec![];
    let mut classes = vec![];
    let mut infos = vec![];
    for op in ops.iter() {
        let rec = match net.exec(op) {
            Some(r) => r,
            None => continue,
        };
        let out = &rec.out;
        let (kind, cls): (u32, String) = if out.panic.is_some() {
            (2, "panic".into())
        } else if out.data == rec.input.prev && ((1..10000).contains(&out.code) || (20000..30000).contains(&out.code)) {
            (1, format!("prev:{}", out.code))
        } else if out.data.is_empty() {
            (3, format!("empty:{}", out.code))
        } else {
            (0, format!("new:{}", out.code))
        };
        let new = decode_data(&out.data).ok();
        let (trace_t, sh) = match (&new, kind) {
            (Some(d), 0) => (c::list(d.data.trace.iter().map(|s| state(&mut ids, s))), shape(&d.data.trace)),
            (None, 0) => {
                // produced data that does not decode: not a C10 matter, but never silently dropped
                classes.push("undecodable".into());
                infos.push(serde_json::json!({"step": rec.step, "peer": rec.peer, "code": out.code}));
                terms.push("{| wc_kind := 3; wc_trace := [] |}".to_string());
                continue;
            }
            _ => ("[]".into(), J::Null),
        };
        terms.push(format!("{{| wc_kind := {}; wc_trace := {} |}}", kind, trace_t));
        classes.push(cls);
        infos.push(serde_json::json!({"step": rec.step, "peer": rec.peer, "code": out.code, "shape": sh}));
    }
    serde_json::json!({"coq": terms, "classes": classes, "info": infos, "runs": net.step, "script": script})
}

fn main() {
    quiet_panics();
    for line in std::io::stdin().lock().lines() {
        let line = match line {
            Ok(l) => l,
            Err(_) => break,
        };
        if line.trim().is_empty() {
            continue;
        }
        let case: J = serde_json::from_str(&line).unwrap_or(J::Null);
        println!("{}", run_case(&case));
    }
}
