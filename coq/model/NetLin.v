(* NetLin.v -- the approximation invariant (DESIGN appendix B) for STRAIGHT-LINE scripts on SEVERAL peers:
   definitions and statements.

   Straight-line scripts ([nlinear]): call with a literal target (or %init_peer_id%), literal service and
   function, literal or plain-scalar arguments; ap of a literal or a scalar to a scalar; seq, xor, match, mismatch,
   fail with a literal, null, never.  No par: the full trace of such a script is a LIST of call states.

   [nlin] reads the script like the sequential reading (model/SeqSem.v) with a CREDIT: the first k calls are
   answered by the service function at the peer they are addressed to; at the next call (the FRONTIER) it says what
   a run at peer [me] does there, given the state [fr] the merged trace holds at that position (nothing, or a
   RequestSentBy state).  With unlimited credit ([None]) it is the full sequential reading together with the
   executed states it leaves in the trace: [full_trace].

   [approx F d]: the trace of the data d is a PREFIX of the full trace, optionally followed by ONE
   RequestSentBy state standing for the next call; the CID stores hold what the trace refers to.

   Statements (proved in proofs/NetLinProofs.v, cited by props/C16.v, C04.v, C05.v, C07.v, C09.v, C19.v):
     the two-data step lemma [step_two_data_stmt];
     the network invariant [net_inv] over the honest histories of model/SeqLocal.v (every delivery order,
     duplication, re-delivery, delayed answers) and its corollaries.
   Definitions only. *)
From Aqua Require Import Base Json Air Trace Handler Values Scalars Lens Exec RunExec ExecStreams SeqSem SeqFrag SeqLocal KeepSpec.
Open Scope N_scope.
Open Scope list_scope.

Definition nenv (vs : vars_t) : env := {| vars := vs; iters := [] |}.

(* the state an answered call to q leaves in the trace (the content ids are the symbolic ones of Values.v) *)
Definition ntet (q s f : string) : tetraplet := {| tp_peer := q; tp_service := s; tp_function := f; tp_lens := "" |}.
Definition nl_not_json_msg : string := "<msg:service result is not JSON>".
(* inl: the result of a successful call; inr: the CallServiceFailed value of a failed one *)
Definition nl_value (a : service_answer) : json + json :=
  if negb (sa_ret_code a =? 0)%Z then inr (call_service_failed_value (sa_ret_code a) (sa_text a))
  else match sa_parsed a with
       | None => inr (call_service_failed_value 2147483647 nl_not_json_msg)
       | Some r => inl r
       end.
Definition nl_status (a : service_answer) : status :=
  if negb (sa_ret_code a =? 0)%Z then SeqSem.Failed (FService (sa_ret_code a))
  else match sa_parsed a with None => SeqSem.Failed FNotJson | Some _ => Done end.
Definition nl_cid (q : string) (j : json) (args : list json) (s f : string) : cid :=
  CService (CValue j) (CArgs args) (CTetraplet (ntet q s f)).
Definition nl_done (q s f : string) (args : list json) (out : call_output) (a : service_answer) : call_result cid :=
  match nl_value a with
  | inr fv => Trace.Failed (nl_cid q fv args s f)
  | inl r => match out with
             | OutNone => Executed (VRUnused (CValue r))
             | _ => Executed (VRScalar (nl_cid q r args s f))
             end
  end.
Definition nl_bind (vs : vars_t) (out : call_output) (a : service_answer) : vars_t :=
  match nl_value a, out with inl r, OutScalar x => set_var vs (v_name x) r | _, _ => vs end.

Definition pend_state (sd : sender) : state cid := SCall (RequestSentBy sd).
Definition is_pend (st : state cid) : bool := match st with SCall (RequestSentBy _) => true | _ => false end.
(* the number of executed / failed states of a trace *)
Definition exlen (t : list (state cid)) : nat := length (filter (fun st => negb (is_pend st)) t).
(* the sender of the RequestSentBy state a trace ends with *)
Definition tail_sender (t : list (state cid)) : option sender :=
  match last t (SPar 0 0) with SCall (RequestSentBy sd) => Some sd | _ => None end.

(* the stores hold what a state refers to *)
Definition closed_state (cs : cid_state) (st : state cid) : Prop :=
  match st with
  | SCall (Executed (VRScalar c)) | SCall (Trace.Failed c) =>
      exists j a t, c = CService (CValue j) (CArgs a) (CTetraplet t) /\
        cid_mem c (cs_services cs) = true /\ cid_mem (CValue j) (cs_values cs) = true /\
        cid_mem (CTetraplet t) (cs_tetraplets cs) = true
  | _ => True
  end.

Section NetLin.
  Variable svc : string -> string -> string -> list json -> service_answer.   (* peer, service, function, arguments *)
  Variable init : string.                                                      (* the init peer of the particle *)
  Variable ts ttl : N.

  Definition target_of (pa : peer_arg) : option string :=
    match pa with PInitPeerId => Some init | PLiteral q => Some q | _ => None end.

  (* straight-line scripts on several peers: SeqLocal.linear without the restriction to one target *)
  Fixpoint nlinear (i : instr) : bool :=
    match i with
    | INull | INever => true
    | IAp _ a (ApScalar _) => lin_ap a
    | ISeq a b | IXor a b => nlinear a && nlinear b
    | ICall _ t args out =>
        match target_of (t_peer t) with Some _ => true | None => false end &&
        match t_service t, t_function t with SLiteral _, SLiteral _ => true | _, _ => false end &&
        forallb lin_value args &&
        match out with OutStream _ => false | _ => true end
    | IMatch _ l r b | IMisMatch _ l r b => lin_value l && lin_value r && nlinear b
    | IFail _ (FLiteral _ _) => true
    | _ => false
    end.

  Definition svc_of (c : call_ev) : service_answer := svc (c_peer c) (c_service c) (c_fn c) (c_args c).

  (* ---------------------------------------------------------------------------------------- *)
  (* the reading with a credit *)
  Record nout := {
    o_exec : list (state cid);            (* the states of the answered calls, in order *)
    o_calls : list call_ev;               (* those calls (same length) *)
    o_front : list (state cid);           (* the state the run leaves at the frontier: none or one RequestSentBy *)
    o_req : option (N * call_ev);         (* the request the run issues there *)
    o_next : list string;                 (* the peer the run forwards the particle to *)
    o_vars : vars_t; o_st : status;
    o_credit : option nat;                (* what is left of the credit *)
    o_hit : bool;                         (* the evaluation stopped at a call it could not replay *)
    o_wait : option string                (* ... whose arguments nobody defines: the peer it is addressed to *)
  }.
  Definition nleaf (vs : vars_t) (st : status) (k : option nat) : nout :=
    {| o_exec := []; o_calls := []; o_front := []; o_req := None; o_next := []; o_vars := vs; o_st := st;
       o_credit := k; o_hit := false; o_wait := None |}.

  (* what a run at [me] does at a call to q it cannot replay.  [fr]: the sender of the RequestSentBy state the merged
     trace holds there; [ready]: the arguments are defined.  Result: the state left, "a request is issued", the
     next peers.  (Exec.v: resolved_call_execute / handle_prev_state; a pending own request whose answer is at hand
     is not a frontier: it is a credit.) *)
  Definition emit (me : string) (fr : option sender) (q : string) (id : N) (ready : bool)
    : list (state cid) * bool * list string :=
    let request := ([pend_state (SPeerCall me id)], true, []) in
    match fr with
    | Some (SPeerCall r cid) =>
        if String.eqb r me then ([pend_state (SPeerCall r cid)], false, [])           (* wait for the answer *)
        else if String.eqb q me && ready then request
        else ([pend_state (SPeerCall r cid)], false, [])
    | Some (SPeer r) =>
        if String.eqb q me && ready then request else ([pend_state (SPeer r)], false, [])
    | None =>
        if String.eqb q me then (if ready then request else ([], false, []))
        else ([pend_state (SPeer me)], false, [q])                                     (* forward *)
    end.

  Definition pred_credit (k : option nat) : option nat := match k with Some n => Some (pred n) | None => None end.

  Definition ncall (me : string) (k : option nat) (fr : option sender) (id : N) (vs : vars_t) (q s f : string)
             (args : list value) (out : call_output) : option nout :=
    match SeqSem.resolve_args init ts ttl (nenv vs) args with
    | ROk js =>
        let c := {| c_peer := q; c_service := s; c_fn := f; c_args := js |} in
        match k with
        | Some O =>
            let e := emit me fr q id true in
            Some {| o_exec := []; o_calls := []; o_front := fst (fst e);
                    o_req := if snd (fst e) then Some (id, c) else None; o_next := snd e;
                    o_vars := vs; o_st := Stuck; o_credit := Some O; o_hit := true; o_wait := None |}
        | _ =>
            let a := svc q s f js in
            Some {| o_exec := [SCall (nl_done q s f js out a)]; o_calls := [c]; o_front := []; o_req := None; o_next := [];
                    o_vars := nl_bind vs out a; o_st := nl_status a; o_credit := pred_credit k; o_hit := false;
                    o_wait := None |}
        end
    | RStuck =>
        let e := emit me fr q id false in
        Some {| o_exec := []; o_calls := []; o_front := fst (fst e); o_req := None; o_next := snd e;
                o_vars := vs; o_st := Stuck; o_credit := k; o_hit := true; o_wait := Some q |}
    | _ => None
    end.

  Definition nthen (la : nout) (lb : option nout) : option nout :=
    match lb with
    | Some lb => Some {| o_exec := o_exec la ++ o_exec lb; o_calls := o_calls la ++ o_calls lb; o_front := o_front lb;
                         o_req := o_req lb; o_next := o_next lb; o_vars := o_vars lb; o_st := o_st lb;
                         o_credit := o_credit lb; o_hit := o_hit lb; o_wait := o_wait lb |}
    | None => None
    end.

  Fixpoint nlin (me : string) (fuel : nat) (k : option nat) (fr : option sender) (id : N) (vs : vars_t) (i : instr)
           {struct fuel} : option nout :=
    match fuel with
    | O => None
    | S fuel' =>
      match i with
      | INull => Some (nleaf vs Done k)
      | INever => Some (nleaf vs Stuck k)
      | ICall _ t args out =>
          match target_of (t_peer t), t_service t, t_function t with
          | Some q, SLiteral s, SLiteral f => ncall me k fr id vs q s f args out
          | _, _, _ => None
          end
      | IAp _ a (ApScalar x) =>
          match SeqSem.resolve_ap init ts ttl (nenv vs) a with
          | ROk j => Some (nleaf (set_var vs (v_name x) j) Done k)
          | RStuck => Some (nleaf vs Stuck k)
          | _ => None
          end
      | ISeq a b =>
          match nlin me fuel' k fr id vs a with
          | Some la => match o_st la with
                       | Done => nthen la (nlin me fuel' (o_credit la) fr id (o_vars la) b)
                       | _ => Some la
                       end
          | None => None
          end
      | IXor a b =>
          match nlin me fuel' k fr id vs a with
          | Some la => match o_st la with
                       | SeqSem.Failed _ => nthen la (nlin me fuel' (o_credit la) fr id (o_vars la) b)
                       | _ => Some la
                       end
          | None => None
          end
      | IMatch _ l r body | IMisMatch _ l r body =>
          let want := match i with IMatch _ _ _ _ => true | _ => false end in
          match SeqSem.resolve_value init ts ttl (nenv vs) l with
          | ROk lv =>
              match SeqSem.resolve_value init ts ttl (nenv vs) r with
              | ROk rv => if Bool.eqb (json_eqb lv rv) want then nlin me fuel' k fr id vs body
                          else Some (nleaf vs (SeqSem.Failed (if want then FMatch else FMismatch)) k)
              | RStuck => Some (nleaf vs Stuck k)
              | _ => None
              end
          | RStuck => Some (nleaf vs Stuck k)
          | _ => None
          end
      | IFail _ (FLiteral code _) => Some (nleaf vs (SeqSem.Failed (FUser code)) k)
      | _ => None
      end
    end.

  (* the FULL sequential trace of the script: one Executed / Failed state per call the sequential reading makes, in
     order ([o_exec]), those calls ([o_calls]), the final status, and the peer of the call the reading is stuck at
     for want of arguments nobody defines ([o_wait]).  (The remaining fields are not used.) *)
  Definition full_trace (fuel : nat) (s : instr) : option nout := nlin init fuel None None 0 [] s.

  (* ---------------------------------------------------------------------------------------- *)
  (* approximation *)
  Definition tail_ok (F : nout) (n : nat) (tail : list (state cid)) : Prop :=
    tail = [] \/
    exists sd, tail = [pend_state sd] /\
      ((n < length (o_exec F))%nat \/ (n = length (o_exec F) /\ o_wait F <> None /\ exists r, sd = SPeer r)).

  Definition approx_trace (F : nout) (t : list (state cid)) : Prop :=
    exists n tail, t = firstn n (o_exec F) ++ tail /\ (n <= length (o_exec F))%nat /\ tail_ok F n tail.

  (* the trace is a prefix of the full trace plus at most one pending state; the stores are closed for it; the
     last call request id is arbitrary *)
  Definition approx (F : nout) (d : idata) : Prop :=
    approx_trace F (d_trace d) /\ Forall (closed_state (d_cids d)) (d_trace d).

  (* ---------------------------------------------------------------------------------------- *)
  (* the step lemma *)

  (* the sender at the frontier of the merged trace: of the longer trace; of the previous one when both end there *)
  Definition joined_tail (P C : list (state cid)) : option sender :=
    if (exlen C <? exlen P)%nat then tail_sender P
    else if (exlen P <? exlen C)%nat then tail_sender C
    else match tail_sender P with Some sd => Some sd | None => tail_sender C end.

  (* what the run at [me] leaves at position n of the full trace *)
  Definition frontier_at (F : nout) (me : string) (n : nat) (fr : option sender) (id : N)
    : list (state cid) * option (N * call_ev) * list string :=
    match nth_error (o_calls F) n with
    | Some c => let e := emit me fr (c_peer c) id true in
                (fst (fst e), if snd (fst e) then Some (id, c) else None, snd e)
    | None => match o_wait F with
              | Some q => let e := emit me fr q id false in (fst (fst e), None, snd e)
              | None => ([], None, [])
              end
    end.

  (* the call results handed to a run: none, or the answer to the pending request of the previous data, which the
     current data does not overtake *)
  Definition results_ok (F : nout) (me : string) (prev cur : idata) (rs : list (N * service_answer)) : Prop :=
    rs = [] \/
    exists id c, rs = [(id, svc_of c)] /\ tail_sender (d_trace prev) = Some (SPeerCall me id) /\
                 nth_error (o_calls F) (exlen (d_trace prev)) = Some c /\
                 (exlen (d_trace cur) <= exlen (d_trace prev))%nat.
  Definition nparams (me : string) : run_params :=
    {| rp_init_peer := init; rp_current_peer := me; rp_timestamp := ts; rp_ttl := ttl |}.

  (* the specification of one run at [me] on two approximations of F *)
  Definition step_spec (F : nout) (me : string) (prev cur : idata) (rs : list (N * service_answer))
             (code : Z) (d' : idata) (next : list string) (reqs : list (N * request)) : Prop :=
    let K := (Nat.max (exlen (d_trace prev)) (exlen (d_trace cur)) + match rs with [] => 0 | _ => 1 end)%nat in
    let fr := match rs with [] => joined_tail (d_trace prev) (d_trace cur) | _ => None end in
    let e := frontier_at F me K fr (d_lcid prev + 1) in
    d_trace d' = firstn K (o_exec F) ++ fst (fst e) /\
    map (fun r => (fst r, call_of_request me r)) reqs = match snd (fst e) with Some r => [r] | None => [] end /\
    next = snd e /\
    d_lcid d' = match snd (fst e) with Some _ => d_lcid prev + 1 | None => d_lcid prev end /\
    code_is_consistency_error code = false /\
    approx F d'.

  (* [runf]: RunExec.run1 or ExecStreams.run2 *)
  Definition step_two_data_with (runf : nat -> run_input -> RunExec.outcome) : Prop :=
    forall (s : instr) (fuel : nat) (F : nout) (me : string) (prev cur : idata) (rs : list (N * service_answer)),
      ret_codes_i32 svc ->
      nlinear s = true -> names_ok [] s <> None ->
      full_trace fuel s = Some F ->
      approx F prev -> approx F cur -> results_ok F me prev cur rs ->
      d_lcid prev < 4294967295 ->
      exists code d' next reqs signed,
        runf fuel {| ri_script := s; ri_params := nparams me; ri_prev := prev; ri_cur := cur; ri_results := rs |}
        = OutNewData code d' next reqs signed /\
        step_spec F me prev cur rs code d' next reqs.
  Definition step_two_data_stmt : Prop := step_two_data_with run1 /\ step_two_data_with run2.

  (* the full trace is the sequential reading: its calls are the calls of SeqSem.seq_eval, its status the reading's *)
  Definition full_is_reading_stmt : Prop :=
    forall (s : instr) (fuel : nat) (F : nout),
      nlinear s = true -> full_trace fuel s = Some F ->
      exists e, seq_eval (svc_answer svc) everything_known init ts ttl fuel empty_env s = Out (o_calls F) e (o_st F) /\
                length (o_exec F) = length (o_calls F).
  Definition reading_has_full_stmt : Prop :=
    forall (s : instr) (fuel : nat) cs e st,
      nlinear s = true ->
      seq_eval (svc_answer svc) everything_known init ts ttl fuel empty_env s = Out cs e st ->
      exists F, full_trace fuel s = Some F /\ o_calls F = cs /\ o_st F = st.

  (* ---------------------------------------------------------------------------------------- *)
  (* the network: the honest histories of model/SeqLocal.v (hosts, particles in flight, OStart / ODeliver with or
     without duplication / ORedeliver / OAnswer), with the run function as a parameter *)
  Definition host_run_with (runf : nat -> run_input -> RunExec.outcome) (fuel : nat) (s : instr) (n : net) (p : string)
             (cur : idata) (results : list (N * service_answer)) (answered : list (N * request)) : net :=
    match assoc (n_hosts n) p with
    | None => n
    | Some h =>
        let pending := filter (fun r => negb (existsb (fun a => fst a =? fst r) answered)) (h_pending h) in
        let log := n_log n ++ map (call_of_request p) answered in
        match runf fuel {| ri_script := s; ri_params := nparams p; ri_prev := h_prev h; ri_cur := cur; ri_results := results |} with
        | OutNewData _ d next reqs _ =>
            {| n_hosts := put_host (n_hosts n) p {| h_prev := d; h_pending := pending ++ reqs |};
               n_inflight := n_inflight n ++ map (fun q => (q, d)) next;
               n_delivered := n_delivered n; n_log := log |}
        | _ =>
            {| n_hosts := put_host (n_hosts n) p {| h_prev := h_prev h; h_pending := pending |};
               n_inflight := n_inflight n; n_delivered := n_delivered n; n_log := log |}
        end
    end.

  (* the run an operation triggers: peer, current data, call results, the answered requests *)
  Definition op_run (n : net) (o : op) : option (string * idata * list (N * service_answer) * list (N * request)) :=
    match o with
    | OStart => Some (init, empty_data, [], [])
    | ODeliver k _ => match nth_error (n_inflight n) k with Some (q, d) => Some (q, d, [], []) | None => None end
    | ORedeliver k => match nth_error (n_delivered n) k with Some (q, d) => Some (q, d, [], []) | None => None end
    | OAnswer p ids =>
        match assoc (n_hosts n) p with
        | None => None
        | Some h =>
            match filter (fun r => existsb (N.eqb (fst r)) ids) (h_pending h) with
            | [] => None
            | answered => Some (p, empty_data, map (answer_request svc p) answered, answered)
            end
        end
    end.

  Definition net_step_with (runf : nat -> run_input -> RunExec.outcome) (fuel : nat) (s : instr) (n : net) (o : op) : net :=
    match o with
    | OStart => host_run_with runf fuel s n init empty_data [] []
    | ODeliver k keep =>
        match nth_error (n_inflight n) k with
        | None => n
        | Some (q, d) =>
            let n1 := {| n_hosts := n_hosts n; n_inflight := if keep then n_inflight n else remove_nth (n_inflight n) k;
                         n_delivered := n_delivered n ++ [(q, d)]; n_log := n_log n |} in
            host_run_with runf fuel s n1 q d [] []
        end
    | ORedeliver k =>
        match nth_error (n_delivered n) k with
        | None => n
        | Some (q, d) => host_run_with runf fuel s n q d [] []
        end
    | OAnswer p ids =>
        match assoc (n_hosts n) p with
        | None => n
        | Some h =>
            let answered := filter (fun r => existsb (N.eqb (fst r)) ids) (h_pending h) in
            match answered with
            | [] => n
            | _ => host_run_with runf fuel s n p empty_data (map (answer_request svc p) answered) answered
            end
        end
    end.
  Definition history_with (runf : nat -> run_input -> RunExec.outcome) (fuel : nat) (s : instr) (peers : list string)
             (ops : list op) : net :=
    fold_left (net_step_with runf fuel s) ops (net_init peers).

  (* with run1 this is the network of SeqLocal.v *)
  Definition history_is_seqlocal_stmt : Prop :=
    forall fuel s peers ops, history_with run1 fuel s peers ops = history svc ts ttl fuel s init peers ops.

  (* the outcome of the run the operation o triggers in the state n *)
  Definition op_outcome (runf : nat -> run_input -> RunExec.outcome) (fuel : nat) (s : instr) (n : net) (o : op)
    : option RunExec.outcome :=
    match op_run n o with
    | Some (p, cur, rs, _) =>
        match assoc (n_hosts n) p with
        | Some h => Some (runf fuel {| ri_script := s; ri_params := nparams p; ri_prev := h_prev h; ri_cur := cur;
                                       ri_results := rs |})
        | None => None
        end
    | None => None
    end.

  (* THE NETWORK INVARIANT.  E = the number of service invocations so far. *)
  Definition host_inv (F : nout) (E : nat) (p : string) (h : host) : Prop :=
    approx F (h_prev h) /\ (exlen (d_trace (h_prev h)) <= E)%nat /\
    (* a call p executed is in its data *)
    (forall K c, (K < E)%nat -> nth_error (o_calls F) K = Some c -> c_peer c = p -> (K < exlen (d_trace (h_prev h)))%nat) /\
    (* pending host calls <-> the RequestSentBy(p, id) state at the end of p's data *)
    (h_pending h = [] \/
     (exists id rq c, h_pending h = [(id, rq)] /\
        d_trace (h_prev h) = firstn E (o_exec F) ++ [pend_state (SPeerCall p id)] /\
        nth_error (o_calls F) E = Some c /\ call_of_request p (id, rq) = c)) /\
    (* request ids *)
    (d_lcid (h_prev h) <= N.of_nat E + match h_pending h with [] => 0 | _ => 1 end).

  Definition net_inv (F : nout) (n : net) : Prop :=
    let E := length (n_log n) in
    n_log n = firstn E (o_calls F) /\ (E <= length (o_calls F))%nat /\
    (forall p h, assoc (n_hosts n) p = Some h -> host_inv F E p h) /\
    (forall q d, In (q, d) (n_inflight n) \/ In (q, d) (n_delivered n) ->
                 approx F d /\ (exlen (d_trace d) <= E)%nat).

  Definition net_invariant_with (runf : nat -> run_input -> RunExec.outcome) : Prop :=
    forall (s : instr) (fuel : nat) (F : nout) (peers : list string) (ops : list op),
      ret_codes_i32 svc -> nlinear s = true -> names_ok [] s <> None ->
      full_trace fuel s = Some F ->
      N.of_nat (length (o_calls F)) < 4294967295 ->
      net_inv F (history_with runf fuel s peers ops).
  Definition net_invariant_stmt : Prop := net_invariant_with run1 /\ net_invariant_with run2.

  (* ---------------------------------------------------------------------------------------- *)
  (* corollaries, for every honest history of a straight-line script *)
  Section Corollaries.
    Variable runf : nat -> run_input -> RunExec.outcome.

    Definition lin_premises (s : instr) (fuel : nat) (F : nout) : Prop :=
      ret_codes_i32 svc /\ nlinear s = true /\ names_ok [] s <> None /\ full_trace fuel s = Some F /\
      N.of_nat (length (o_calls F)) < 4294967295.

    (* C04: no run of the history ends with a data-consistency error: it returns new data, and its code is not in
       the generated consistency-error set *)
    Definition lin_no_consistency_error : Prop :=
      forall s fuel F peers ops o out, lin_premises s fuel F ->
        op_outcome runf fuel s (history_with runf fuel s peers ops) o = Some out ->
        exists code d next reqs signed, out = OutNewData code d next reqs signed /\
                                        code_is_consistency_error code = false.

    (* C05 / C16 / C19: the service invocations of the history are a PREFIX of the calls of the sequential reading, in
       its order: each call at most once, at the peer it is addressed to, with the reading's arguments *)
    Definition lin_log_is_prefix : Prop :=
      forall s fuel F peers ops, lin_premises s fuel F ->
        let n := history_with runf fuel s peers ops in
        n_log n = firstn (length (n_log n)) (o_calls F).

    (* ... and a request is pending at a host only for the next call of the reading, at its addressed peer *)
    Definition lin_pending_is_next : Prop :=
      forall s fuel F peers ops p h id rq, lin_premises s fuel F ->
        let n := history_with runf fuel s peers ops in
        assoc (n_hosts n) p = Some h -> In (id, rq) (h_pending h) ->
        h_pending h = [(id, rq)] /\
        nth_error (o_calls F) (length (n_log n)) = Some (call_of_request p (id, rq)) /\
        c_peer (call_of_request p (id, rq)) = p.

    (* C07: delivering to a peer a data it has merged already (its own stored data, or a data delivered to it
       before) once more: no request, no forwarding, the same trace *)
    Definition lin_redelivery_changes_nothing : Prop :=
      forall s fuel F peers ops p h (cur : idata), lin_premises s fuel F ->
        let n := history_with runf fuel s peers ops in
        assoc (n_hosts n) p = Some h ->
        (* the state of p after the particle [cur] was delivered and run once ... *)
        forall code d next reqs signed,
          approx F cur -> (exlen (d_trace cur) <= length (n_log n))%nat ->
          runf fuel {| ri_script := s; ri_params := nparams p; ri_prev := h_prev h; ri_cur := cur; ri_results := [] |}
          = OutNewData code d next reqs signed ->
          (* ... delivering cur (or d itself, or nothing) again changes nothing *)
          forall x, x = cur \/ x = d \/ x = empty_data \/ x = h_prev h ->
          exists code' d' signed',
            runf fuel {| ri_script := s; ri_params := nparams p; ri_prev := d; ri_cur := x; ri_results := [] |}
            = OutNewData code' d' [] [] signed' /\ d_trace d' = d_trace d /\ d_lcid d' = d_lcid d.

    (* C09: a step never shrinks the executed prefix of any host, and it stays a prefix of the full trace *)
    Definition lin_nothing_forgotten : Prop :=
      forall s fuel F peers ops o p h h', lin_premises s fuel F ->
        let n := history_with runf fuel s peers ops in
        assoc (n_hosts n) p = Some h ->
        assoc (n_hosts (net_step_with runf fuel s n o)) p = Some h' ->
        exists a b, (a <= b)%nat /\
          firstn a (o_exec F) = filter (fun st => negb (is_pend st)) (d_trace (h_prev h)) /\
          firstn b (o_exec F) = filter (fun st => negb (is_pend st)) (d_trace (h_prev h')).
  End Corollaries.

  (* C16_full of model/SeqLocal.v restricted to straight-line scripts (the network of SeqLocal.v, run1) *)
  Definition C16_full_linear_stmt : Prop :=
    forall (s : instr) (peers : list string) (ops : list op) (fuel : nat) (cs : list call_ev) (e : env) (st : status),
      ret_codes_i32 svc -> nlinear s = true -> names_ok [] s <> None ->
      seq_eval (svc_answer svc) everything_known init ts ttl fuel empty_env s = Out cs e st ->
      N.of_nat (length cs) < 4294967295 ->
      n_log (history svc ts ttl fuel s init peers ops) = firstn (length (n_log (history svc ts ttl fuel s init peers ops))) cs /\
      sub_multiset (n_log (history svc ts ttl fuel s init peers ops)) cs = true.
End NetLin.
