"""Translator piece for C10 (structure of produced traces): the decisive lines of the par / fold builders of
crates/air-lib/trace-handler that coq/model/Handler.v mirrors and coq/proofs/WfProofs.v reasons about.

    wf_ctor_next_table        CtorState::next: the (state, next state) arms, in source order
    wf_ctor_finish_table      SubTraceLoreCtor::finish: per state, the tracker calls it makes, in order
    wf_ctor_before_start      which tracker field from_before_start initialises with result_trace_next_pos()
    wf_ctor_setters           before_end / after_start / after_end: (function, tracker, field) they assign
    wf_lore_descs             into_subtrace_lore: the order of the two descriptors in subtraces_desc
    wf_tracker_len            PositionsTracker::len: the subtraction
    wf_par_track_formula      ParBuilder::track: the size of a subgraph (difference of result lengths)
    wf_par_track_assigns      ParBuilder::track: which field each SubgraphType assigns
    wf_par_build              ParBuilder::build: argument order of ExecutedState::par
    wf_inserter_insert        StateInserter::insert: the assignment
    wf_inserter_from_keeper   StateInserter::from_keeper: position taken BEFORE the placeholder is pushed
    wf_subtrace_desc_count    SUBTRACE_DESC_COUNT of the fold lore resolver

proofs/WfProofs.v proves [wf_source_tie] against these by computation: a change of any of them in the sources
breaks an obligation of C10."""
import re

from gen_model import TranslationError, coq_list, coq_str, read, strip_comments

CTOR = "crates/air-lib/trace-handler/src/state_automata/fold_fsm/lore_ctor.rs"
PARB = "crates/air-lib/trace-handler/src/state_automata/par_fsm/par_builder.rs"
INS = "crates/air-lib/trace-handler/src/state_automata/state_inserter.rs"
RESOLVER = "crates/air-lib/trace-handler/src/merger/fold_merger/fold_lore_resolver.rs"


def fn_body(src, name, rel):
    m = re.search(r"\bfn\s+" + re.escape(name) + r"\b", src)
    if not m:
        raise TranslationError("function %s not found in %s" % (name, rel))
    i = src.find("{", m.end())
    if i < 0:
        raise TranslationError("function %s in %s has no body" % (name, rel))
    depth, j = 1, i + 1
    while j < len(src) and depth > 0:
        depth += {"{": 1, "}": -1}.get(src[j], 0)
        j += 1
    return src[i:j]


def norm(x):
    return re.sub(r"\s+", " ", x).strip()


def pairs(ps):
    return coq_list(["(%s, %s)" % (coq_str(a), coq_str(b)) for a, b in ps])


def generate():
    out = []
    w = out.append
    w("(* ---- tools/genx_wf.py (C10) ---- *)")
    src = strip_comments(read(CTOR))

    body = fn_body(src, "next", CTOR)
    arms = re.findall(r"\b(BeforeStarted|BeforeCompleted|AfterStarted|AfterCompleted)\s*=>\s*(BeforeStarted|BeforeCompleted|AfterStarted|AfterCompleted)\b", body)
    if len(arms) != 4:
        raise TranslationError("CtorState::next: expected 4 arms, found %d" % len(arms))
    w("Definition wf_ctor_next_table : list (string * string) := %s." % pairs(arms))

    body = fn_body(src, "finish", CTOR)
    table = []
    for m in re.finditer(r"\b(BeforeStarted|BeforeCompleted|AfterStarted|AfterCompleted)\s*=>\s*\{(.*?)\}", body, flags=re.S):
        calls = re.findall(r"self\.(\w+)\s*\(\s*data_keeper\s*\)", m.group(2))
        table.append((m.group(1), calls))
    if len(table) != 4:
        raise TranslationError("SubTraceLoreCtor::finish: expected 4 arms, found %d" % len(table))
    w("Definition wf_ctor_finish_table : list (string * list string) := %s." %
      coq_list(["(%s, %s)" % (coq_str(s), coq_list([coq_str(c) for c in cs])) for s, cs in table]))

    body = fn_body(src, "from_before_start", CTOR)
    m = re.search(r"let\s+(\w+)\s*=\s*PositionsTracker\s*\{\s*(\w+)\s*:\s*data_keeper\.result_trace_next_pos\(\)", body)
    if not m:
        raise TranslationError("from_before_start: tracker initialisation not found")
    w("Definition wf_ctor_before_start : string * string := (%s, %s)." % (coq_str(m.group(1)), coq_str(m.group(2))))

    setters = []
    for fn in ("before_end", "after_start", "after_end"):
        b = fn_body(src, fn, CTOR)
        m = re.search(r"self\.(\w+)\.(\w+)\s*=\s*data_keeper\.result_trace_next_pos\(\)\s*;\s*self\.state\.next\(\)", b)
        if not m:
            raise TranslationError("%s: assignment followed by state.next() not found" % fn)
        setters.append((fn, m.group(1), m.group(2)))
    w("Definition wf_ctor_setters : list (string * string * string) := %s." %
      coq_list(["(%s, %s, %s)" % (coq_str(a), coq_str(b), coq_str(c)) for a, b, c in setters]))
    b = fn_body(src, "maybe_before_end", CTOR)
    m = re.search(r"if\s+self\.state\s*!=\s*CtorState::(\w+)\s*\{\s*return\s*;\s*\}\s*self\.(\w+)\.(\w+)\s*=\s*data_keeper\.result_trace_next_pos\(\)", b)
    if not m:
        raise TranslationError("maybe_before_end: guard not found")
    w("Definition wf_ctor_maybe_before_end : string * string * string := (%s, %s, %s)." %
      (coq_str(m.group(1)), coq_str(m.group(2)), coq_str(m.group(3))))

    body = fn_body(src, "into_subtrace_lore", CTOR)
    m = re.search(r"subtraces_desc\s*:\s*vec!\[\s*(\w+)\s*,\s*(\w+)\s*\]", body)
    descs = {}
    for d in re.finditer(r"let\s+(\w+)\s*=\s*SubTraceDesc\s*\{\s*begin_pos\s*:\s*self\.(\w+)\.start_pos\s*,\s*subtrace_len\s*:\s*self\.(\w+)\.len\(\)", body):
        if d.group(2) != d.group(3):
            raise TranslationError("into_subtrace_lore: descriptor %s mixes trackers" % d.group(1))
        descs[d.group(1)] = d.group(2)
    if not m or m.group(1) not in descs or m.group(2) not in descs:
        raise TranslationError("into_subtrace_lore: descriptor order not found")
    w("Definition wf_lore_descs : list string := %s." % coq_list([coq_str(descs[m.group(1)]), coq_str(descs[m.group(2)])]))

    i = src.find("impl PositionsTracker")
    if i < 0:
        raise TranslationError("impl PositionsTracker not found")
    body = fn_body(src[i:], "len", CTOR)
    m = re.search(r"\(\s*self\.(\w+)\s*-\s*self\.(\w+)\s*\)", body)
    if not m:
        raise TranslationError("PositionsTracker::len: subtraction not found")
    w("Definition wf_tracker_len : string * string := (%s, %s)." % (coq_str(m.group(1)), coq_str(m.group(2))))

    psrc = strip_comments(read(PARB))
    body = fn_body(psrc, "track", PARB)
    m1 = re.search(r"let\s+prev_states_count\s*=\s*self\.(\w+)\s*;", body)
    m2 = re.search(r"let\s+states_count\s*=\s*data_keeper\.(\w+)\(\)\s*;", body)
    m3 = re.search(r"let\s+resulted_states_count\s*=\s*(\w+)\s*-\s*(\w+)\s*;", body)
    m4 = re.search(r"self\.saved_states_count\s*=\s*data_keeper\.result_trace\.len\(\)", body)
    if not (m1 and m2 and m3 and m4):
        raise TranslationError("ParBuilder::track: shape not recognised")
    w("Definition wf_par_track_formula : list string := %s." %
      coq_list([coq_str(x) for x in (m1.group(1), m2.group(1), m3.group(1), m3.group(2))]))
    assigns = re.findall(r"SubgraphType::(\w+)\s*=>\s*self\.(\w+)\s*=\s*(\w+)\s*,", body)
    if len(assigns) != 2:
        raise TranslationError("ParBuilder::track: expected 2 assignments")
    w("Definition wf_par_track_assigns : list (string * string * string) := %s." %
      coq_list(["(%s, %s, %s)" % (coq_str(a), coq_str(b), coq_str(c)) for a, b, c in assigns]))
    body = fn_body(psrc, "build", PARB)
    m = re.search(r"ExecutedState::par\(\s*self\.(\w+)\s*,\s*self\.(\w+)\s*\)", body)
    if not m:
        raise TranslationError("ParBuilder::build: ExecutedState::par call not found")
    w("Definition wf_par_build : string * string := (%s, %s)." % (coq_str(m.group(1)), coq_str(m.group(2))))
    body = fn_body(psrc, "from_keeper", PARB)
    m = re.search(r"let\s+saved_states_count\s*=\s*data_keeper\.(\w+)\(\)", body)
    if not m:
        raise TranslationError("ParBuilder::from_keeper: saved_states_count not found")
    w("Definition wf_par_from_keeper : string := %s." % coq_str(m.group(1)))

    isrc = strip_comments(read(INS))
    body = fn_body(isrc, "insert", INS)
    m = re.search(r"data_keeper\.result_trace\[\s*self\.(\w+)\s*\]\s*=\s*(\w+)\s*;", body)
    if not m:
        raise TranslationError("StateInserter::insert: assignment not found")
    w("Definition wf_inserter_insert : string * string := (%s, %s)." % (coq_str(m.group(1)), coq_str(m.group(2))))
    body = fn_body(isrc, "from_keeper", INS)
    ip = body.find("result_trace_next_pos()")
    iq = body.find("result_trace.push(")
    mp = re.search(r"result_trace\.push\(\s*ExecutedState::par\(\s*(\d+)\s*,\s*(\d+)\s*\)\s*\)", body)
    if ip < 0 or iq < 0 or not mp:
        raise TranslationError("StateInserter::from_keeper: shape not recognised")
    w("Definition wf_inserter_from_keeper : bool * N * N := (%s, %s%%N, %s%%N)." % ("true" if ip < iq else "false", mp.group(1), mp.group(2)))

    rsrc = strip_comments(read(RESOLVER))
    m = re.search(r"const\s+SUBTRACE_DESC_COUNT\s*:\s*usize\s*=\s*(\d+)\s*;", rsrc)
    if not m:
        raise TranslationError("SUBTRACE_DESC_COUNT not found")
    w("Definition wf_subtrace_desc_count : N := %s%%N." % m.group(1))
    w("")
    return out
