"""C02 -- failed runs return the previous data untouched; outcomes follow the code ranges.

Two drivers:
 * `codes02` (own): honest multi-peer histories; every run, and at probed steps every MUTATED variant of the
   run's input (malformed / truncated / foreign-version data, bad call results, bad keys, unparsable or
   ill-scoped scripts, hard limits, tampered CID stores and signatures, and trace edits that keep the
   signatures valid so that an uncatchable error is raised inside execution after call results were
   applied), is checked by the Rust oracles (`oracles::c02` + `strong` of codes02.rs, written from the
   property text) and handed to Coq: CodesCases.check_case (the routing model predicts which stage fails,
   the code and the data relation) and CodesCases.c02_oracle (the property on the observation alone).
 * `exec` (shared): generated histories with the Rust oracle C02 on every run and the executor model in
   lock-step (ExecCases.check_case: the model decides by itself whether the run ends in an uncatchable
   error = previous data, or in new data with which trace)."""
import hashlib
import json

import airgen
import exec_common
import vlib

PID = "C02"
MODEL_TARGETS = ["model/CodesCases.vo", "model/ExecCases.vo"]
HARNESS_BINS = ["codes02", "exec"]
RULE = ("evaluations = runs of the real execute_air (honest runs of every history + mutated variants at probed steps); "
        "codes02 histories: directed scripts (uncatchable errors after results were applied: ShadowingIsNotAllowed, FoldStateNotFound "
        "through the validator hole, StreamSizeLimitExceeded, next peers collected before the error; uncaught catchable errors) and airgen "
        "scripts on 3 peers (depth 2-4, streams/canon/folds/new), random schedules; 30 mutations (see harness/src/bin/codes02.rs mutate); "
        "exec histories: airgen scripts, every run through oracle C02, 6 probed runs per history through the executor model; "
        "distinct = distinct (script, step, mutation, code, data kind) of runs that are non-trivial: a failing code with NON-EMPTY previous "
        "data (so that 'previous' differs from 'empty'), or a non-failing code in a run that consumed results / issued requests / has next peers")
PARTIAL = [
    "C02_fail_keeps_prev / C02_code_classes are stated for an ARBITRARY stream hook and compactification function (RunExec's section variables) "
    "and therefore carry the hypothesis compactify_ok (C02_internal_error_branch: outcome.rs execution_error_into_outcome answers a 2xxxx code with "
    "EMPTY data when compactification fails). For the model's own stage-2 executor and compactification (ExecStreams.stream_instr / finish_streams, "
    "i.e. run2) the hypothesis is now a theorem and the statements hold without it: C02_fail_keeps_prev_run2, C02_code_classes_run2, from "
    "C02_stream_pos_inv (every value of every live stream / stream map points at its own Ap / stream Call state of the result trace, pairwise "
    "different positions, unique table keys, fewer than STREAM_MAX_SIZE values per stream: holds initially and is preserved by every instruction, "
    "induction on the fuel over all instructions) and C02_finish_total / C02_compactify_total (no GenerationCompactificationError, no generation "
    "index overflow; no side condition is left). What this does not cover: it is a theorem about the executor MODEL; that the Rust executor is that "
    "model is the lock-step correspondence (sampled)",
    "signing failures (sign_produced_cids -> previous data + 20018; sign_result -> EMPTY data + 30001, a code in no documented class) are "
    "modelled as opaque booleans and are universally quantified; Ed25519 signing in fluence-keypair has no failing path, the only accepted key format",
    "C02_ok_data: 'includes everything executed in that run' is stated as: the data is the serialization of the final context's result trace, "
    "last request id and CID stores (data_of_ctx); that the result trace contains every state the run produced is the trace handler's append-only "
    "discipline (C10); on the implementation it is sampled by the `strong` oracle (requests issued, next peers, consumed results, last id) and by the "
    "executor lock-step (whole trace)",
    "the stages before execution are opaque fields of RunTop's world (as in C21/C22); which errors a stage can raise is not used by C02",
]
ASSUMPTIONS = [
    "codec: InterpreterDataEnvelope serialize/decode round-trips and a serialized envelope is never empty (hypothesis codec_ok of C02_ok_data; C27 for the envelope)",
    "the harness reads 'verify' and 'key pair' stage results off the unlimited twin run's code (cmd_limits::world_of), the other stages through the crates' public decoders",
]
KNOWN = set()

HEADER = "From Aqua Require Import Base RunTop CodesSpec CodesCases.\nOpen Scope N_scope.\n"
S = airgen.DEFAULT_SERVICES

BYTE_MUTS = ["cur_garbage", "cur_truncated", "prev_garbage", "prev_truncated", "cur_inner_garbage", "prev_inner_garbage",
             "cur_no_inner_field", "old_version", "air_garbage", "air_unscoped", "air_two_iterators", "cr_garbage", "cr_other_codec",
             "cr_unknown_id", "bad_key_format", "bad_key_bytes", "other_key", "hard_limit_air", "hard_limit_particle", "hard_limit_result"]
TRACE_MUTS = ["rsb_to_par", "rsb_to_ap", "rsb_to_canon", "scalar_to_stream", "swap_executed", "par_grow", "drop_last",
              "store_swap_values", "drop_sig", "prev_rsb_to_par"]
ALL_MUTS = BYTE_MUTS + TRACE_MUTS

# uncatchable / catchable errors raised after results were applied, next peers met before the error
DIRECTED = [
    # results for a, b, c applied one after the other; a remote call pending last: trace edits hit it after the results
    '(seq (call "@A" ("s" "num") [] a) (seq (call "@A" ("s" "id") [a] b) (par (call "@A" ("s" "tag") [b] c) (call "@B" ("s" "tag") [b]))))',
    # the second result meets a scalar that is already set: ShadowingIsNotAllowed
    '(seq (call "@A" ("s" "num") [] x) (seq (call "@A" ("s" "num") [] x) (call "@B" ("s" "tag") [x])))',
    # next outside its fold (accepted by the validator, C23 known finding): FoldStateNotFound at run time, after the fold's calls
    '(seq (call "@A" ("s" "arr") [] xs) (seq (fold xs i (seq (call "@A" ("s" "id") [i] y) (next i))) (next i)))',
    # unguarded recursive stream fold: StreamSizeLimitExceeded after the result was applied
    '(seq (call "@A" ("s" "num") [] x) (seq (ap x $s) (fold $s i (seq (ap i $s) (next i)))))',
    # a next peer is collected in the left branch, the right branch raises ShadowingIsNotAllowed
    '(seq (call "@A" ("s" "num") [] x) (par (call "@B" ("s" "tag") [x]) (call "@A" ("s" "num") [] x)))',
    # uncaught catchable errors after a consumed result: user error, service error, lens error
    '(seq (call "@A" ("s" "num") [] x) (fail 7 "boom"))',
    '(seq (call "@A" ("s" "obj") [] o) (seq (call "@A" ("s" "fail") [o]) (call "@B" ("s" "tag") [])))',
    '(seq (call "@A" ("s" "obj") [] o) (seq (call "@B" ("s" "tag") [o.$.f]) (call "@A" ("s" "id") [o.$.nonexistent] z)))',
    '(seq (call "@A" ("s" "num") [] x) (seq (call "@A" ("s" "id") [x] y) (match y 2 (call "@B" ("s" "tag") []))))',
    '(seq (call "@A" ("s" "num") [] x) (seq (mismatch x 1 (null)) (call "@B" ("s" "tag") [])))',
    '(seq (call "@A" ("s" "num") [] x) (seq (call "@A" ("s" "tag") [] t) (fold x i (seq (call "@B" ("s" "tag") [i]) (next i)))))',
    '(seq (call "@A" ("s" "num") [] x) (call x ("s" "tag") []))',
    # catchable errors in the very first run of a peer (empty previous data)
    '(seq (null) (fail 7 "first run"))',
    '(seq (call "@B" ("s" "tag") []) (xor (fail 1 "a") (match 1 2 (null))))',
    # (added after the seeded change C02-iterator-ap-keeps-iterable-position was missed) every way a value can reach a stream,
    # over several runs of one peer, so that the farewell step compactifies non-empty previous data: a compactification failure
    # answers a 2xxxx code with EMPTY data
    '(seq (call "@A" ("s" "arr") [] xs) (seq (fold xs x (seq (ap x $s) (next x))) (seq (call "@A" ("s" "tag") [] t) (call "@B" ("s" "tag") [t]))))',
    '(seq (call "@A" ("s" "arr2") [] xs) (seq (fold xs x (seq (ap x.$.[0] $s) (next x))) (seq (call "@A" ("s" "tag") [] t) (seq (canon "@A" $s #can) (call "@B" ("s" "id") [#can])))))',
    '(seq (call "@A" ("s" "obj") [] o) (seq (seq (ap o $s) (seq (ap o.$.l $s) (ap ("k" o.$.f) %m))) (seq (call "@A" ("s" "tag") [] t) (seq (fold $s i (seq (ap i $s2) (next i)) (null)) (call "@B" ("s" "tag") [t])))))',
    '(seq (call "@A" ("s" "tag") [] $a) (seq (canon "@A" $a #ca) (seq (fold #ca e (seq (ap e $s) (next e))) (seq (ap #ca $s) (seq (call "@A" ("s" "num") [] n) (call "@B" ("s" "tag") [n]))))))',
    '(new $s (seq (call "@A" ("s" "arr") [] xs) (seq (fold xs x (seq (ap x $s) (next x))) (seq (call "@A" ("s" "tag") [] t) (call "@B" ("s" "tag") [t])))))',
    # remote hop and back, results on both peers, canon and stream
    '(seq (call "@A" ("s" "num") [] x) (seq (call "@B" ("s" "tag") [x] $s) (seq (call "@B" ("s" "arr") [] $s) (seq (canon "@A" $s #can) (call "@A" ("s" "id") [#can] r)))))',
]


def codes_case(rng, script, ops, nprobe, nmut, peers=3):
    muts = rng.sample(ALL_MUTS, min(nmut, len(ALL_MUTS)))
    return {"driver": "codes02", "script": script, "peers": airgen.PEERS[:peers], "init": 0, "services": S, "ops": ops,
            "seed": rng.randrange(1 << 30), "probe_steps": sorted(rng.sample(range(0, 16), nprobe)), "mutations": muts}


def gen_cases(rng, tier, escalate=False):
    q = tier == "quick"
    mult = 4 if escalate else 1
    cases = []
    for s in DIRECTED:
        for k in range((1 if q else 4) * mult):
            ops = airgen.fifo_schedule(8) if k == 0 else airgen.gen_schedule(rng, n_ops=rng.choice([8, 14]))
            c = codes_case(rng, s, ops, 0, 0)
            c["probe_steps"] = None if k == 0 else sorted(rng.sample(range(0, 12), 4))
            c["mutations"] = ALL_MUTS if k == 0 else rng.sample(ALL_MUTS, 12)
            cases.append(c)
    for _ in range((14 if q else 400) * mult):
        prof = airgen.Profile(peers=3, depth=rng.choice([2, 3, 4]), streams=rng.random() < 0.6, canon=rng.random() < 0.5)
        script = airgen.gen_script(rng, prof)
        ops = airgen.gen_schedule(rng, n_ops=rng.choice([8, 14, 20]))
        cases.append(codes_case(rng, script, ops, 3 if q else 5, 8 if q else 12))
    # the directed scripts through the executor model as well (whole trace compared on every run)
    for s in DIRECTED:
        cases.append({"driver": "exec", "script": s, "peers": airgen.PEERS[:3], "init": 0, "services": S,
                      "ops": airgen.fifo_schedule(8), "oracles": ["C02"], "seed": rng.randrange(1 << 30)})
    for _ in range((8 if q else 160) * mult):
        prof = airgen.Profile(peers=3, depth=rng.choice([3, 4]), streams=rng.random() < 0.5)
        c = exec_common.history_case(rng, prof, oracles=["C02"])
        c["driver"] = "exec"
        c["probe_steps"] = sorted(rng.sample(range(0, 30), 6))
        cases.append(c)
    return cases


def _short(script):
    return hashlib.sha256(script.encode()).hexdigest()[:10]


def evaluate_codes(cases, result):
    if not cases:
        return
    outs = vlib.harness_lines("codes02", [json.dumps(c) for c in cases], timeout=1500)
    terms, owner = [], []
    for ci, o in enumerate(outs):
        if "error" in o:
            result["errors"].append(o["error"])
            continue
        result["evaluations"] += int(o.get("runs", len(o["coq"])))
        result["distribution"]["histories"] = result["distribution"].get("histories", 0) + 1
        for ti, t in enumerate(o["coq"]):
            terms.append(t)
            owner.append((ci, ti))
        for cl in o["classes"]:
            result["distribution"][cl] = result["distribution"].get(cl, 0) + 1
        for inf in o["info"]:
            code = inf.get("code", 0)
            failing = (1 <= code <= 9999) or (20000 <= code <= 29999)
            okc = code == 0 or code == 30000 or (10000 <= code <= 19999)
            nontrivial = (failing and inf.get("prev_len", 0) > 0) or \
                         (okc and (inf.get("results_in", 0) > 0 or (inf.get("requests") or 0) > 0 or inf.get("next", 0) > 0))
            if nontrivial:
                result["distinct"].add(json.dumps([_short(cases[ci]["script"]), inf.get("step"), inf.get("mutation"), code, inf.get("data")]))
            if failing and inf.get("results_in", 0) > 0 and code >= 20000:
                result["distribution"]["uncatchable error in a run that was handed call results"] = \
                    result["distribution"].get("uncatchable error in a run that was handed call results", 0) + 1
        for f in o.get("oracle_failures", []):
            case = dict(cases[ci], probe_steps=[f.get("step")], mutations=[f["mutation"]] if f.get("mutation") else [])
            result["oracle_fail"].append({"case": case, "detail": f, "key": f.get("key") if f.get("key") in KNOWN else None,
                                          "what": "property oracle false on the implementation: %s" % f.get("what", "")})
        if len(result["samples"]) < 3 and o["coq"]:
            result["samples"].append({"case": {k: v for k, v in cases[ci].items() if k != "services"}, "first_term": o["coq"][-1][:900]})
    if not terms:
        return
    fails, errs = vlib.coq_eval_cases("C02", HEADER, "case_t", {"model": "check_case", "oracle": "c02_oracle"}, terms, shard_size=600)
    result["errors"].extend(errs)
    for name in ("model", "oracle"):
        for i in fails[name]:
            ci, ti = owner[i]
            info = outs[ci]["info"][ti] if ti < len(outs[ci]["info"]) else {}
            m = info.get("mutation")
            case = dict(cases[ci], probe_steps=[info.get("step")], mutations=[m] if m and m != "none" else [])
            entry = {"case": case, "term_index": ti, "info": info, "term": terms[i][:3000]}
            if name == "oracle":
                entry["what"] = "CodesCases.c02_oracle is false on the implementation's observation (code %s, data %s)" % (info.get("code"), info.get("data"))
                entry["key"] = None
                result["oracle_fail"].append(entry)
            else:
                entry["what"] = "the routing model (CodesCases.check_case) disagrees with the implementation on this run"
                result["mismatch"].append(entry)


def evaluate(cases, result, tier):
    own = [c for c in cases if c.get("driver") != "exec"]
    shared = [c for c in cases if c.get("driver") == "exec"]
    evaluate_codes(own, result)
    if shared:
        exec_common.evaluate(shared, result, {"model": "check_case"}, tag="C02x",
                             oracle_key=lambda f: f.get("key") if f.get("key") in KNOWN else None)
