(* SeqLocal.v -- the statements of property C16: the executor model (model/Exec.v, RunExec.v: [run1], one run
   of the interpreter on one peer) iterated on one peer or over a network of hosts, against the sequential
   reading (model/SeqSem.v).  Definitions only. *)
From Aqua Require Import Base Json Air Trace Handler Values Scalars Lens Exec RunExec ExecStreams SeqSem SeqFrag.
From Coq Require Import Permutation.
Open Scope N_scope.
Open Scope list_scope.

Definition to_answer (a : service_answer) : answer := {| an_code := sa_ret_code a; an_value := sa_parsed a |}.


Section Statements.
  Variable svc : string -> string -> string -> list json -> service_answer.   (* peer, service, function, arguments *)
  Variable timestamp ttl : N.

  Definition svc_answer (p s f : string) (args : list json) : answer := to_answer (svc p s f args).
  Definition reading (known : call_ev -> bool) (init : string) (fuel : nat) (s : instr) : outcome :=
    seq_eval svc_answer known init timestamp ttl fuel empty_env s.

  (* the host of one peer (air/README.md): answers the requests of a run with its services *)
  Definition answer_request (p : string) (r : N * request) : N * service_answer :=
    (fst r, svc p (rq_service (snd r)) (rq_function (snd r)) (rq_args (snd r))).
  Definition call_of_request (p : string) (r : N * request) : call_ev :=
    {| c_peer := p; c_service := rq_service (snd r); c_fn := rq_function (snd r); c_args := rq_args (snd r) |}.

  (* ---------------------------------------------------------------------------------------- *)
  (* one peer: run, hand every requested answer back, run again, ... until a run requests nothing.
     The result is the list of the batches of calls the runs requested, in order. *)
  Fixpoint local_rounds_with (runf : nat -> run_input -> RunExec.outcome) (rounds fuel : nat) (p : string) (s : instr)
           (prev : idata) (results : list (N * service_answer)) : option (list (list call_ev)) :=
    match rounds with
    | O => None
    | S r =>
        let params := {| rp_init_peer := p; rp_current_peer := p; rp_timestamp := timestamp; rp_ttl := ttl |} in
        match runf fuel {| ri_script := s; ri_params := params; ri_prev := prev; ri_cur := empty_data; ri_results := results |} with
        | OutNewData _ d next reqs _ =>
            match next, reqs with
            | [], [] => Some []
            | [], _ => option_map (cons (map (call_of_request p) reqs))
                                  (local_rounds_with runf r fuel p s d (map (answer_request p) reqs))
            | _, _ => None
            end
        | _ => None
        end
    end.
  (* the executor of stage 1 (no stream instruction) and the complete one (ExecStreams.v) *)
  Definition local_rounds := local_rounds_with run1.
  Definition local_rounds2 := local_rounds_with run2.

  (* every call is addressed to p by a literal or by %init_peer_id% *)
  Fixpoint all_local (p : string) (i : instr) : bool :=
    match i with
    | ICall _ t _ _ => match t_peer t with PInitPeerId => true | PLiteral q => String.eqb q p | _ => false end
    | ISeq a b | IPar a b | IXor a b => all_local p a && all_local p b
    | IMatch _ _ _ b | IMisMatch _ _ _ b | INew _ _ b _ => all_local p b
    | IFoldScalar _ _ _ b l _ => all_local p b && match l with Some x => all_local p x | None => true end
    | _ => true
    end.

  (* what the service table promises about failures is true of the services *)
  Definition may_fail_sound (may_fail : string -> string -> bool) : Prop :=
    forall p s f args, may_fail s f = false -> sa_ret_code (svc p s f args) = 0%Z /\ sa_parsed (svc p s f args) <> None.

  (* the batches are requested in an order the reading allows: what is requested up to round k is reached
     when only the answers of the rounds before k are known *)
  Definition batches_ready (p : string) (fuel : nat) (s : instr) (batches : list (list call_ev)) : Prop :=
    forall k, (k < length batches)%nat ->
      sub_multiset (concat (firstn (S k) batches))
                   (calls_of (reading (known_in (concat (firstn k batches))) p fuel s)) = true.

  (* C16, single peer, the whole fragment: the iteration reaches quiescence and has then requested exactly
     the calls of the sequential reading, with equal argument values, in an order the reading allows *)
  Definition C16_local_full : Prop :=
    forall (may_fail : string -> string -> bool) (p : string) (s : instr) (fs : nat) (cs : list call_ev) (e : env) (st : status),
      may_fail_sound may_fail ->
      in_fragment may_fail s = true -> all_local p s = true ->
      reading everything_known p fs s = Out cs e st ->
      exists rounds fuel batches,
        local_rounds rounds fuel p s empty_data [] = Some batches /\
        Permutation (concat batches) cs /\
        batches_ready p fs s batches.

  (* the sub-fragment of the proved single-peer theorem: straight-line scripts -- call (target, service and
     function literal; arguments literals or plain scalars), ap of a literal or a plain scalar to a scalar, seq, xor,
     match / mismatch, fail, null, never *)
  Definition lin_value (v : value) : bool :=
    match v with
    | VInitPeerId | VTimestamp | VTTL | VLiteral _ | VNumber _ | VBoolean _ | VEmptyArray | VScalar _ => true
    | _ => false
    end.
  Definition lin_ap (a : ap_arg) : bool :=
    match a with
    | AInitPeerId | ATimestamp | ATTL | ALiteral _ | ANumber _ | ABoolean _ | AEmptyArray | AScalar _ => true
    | _ => false
    end.
  Fixpoint linear (p : string) (i : instr) : bool :=
    match i with
    | INull | INever => true
    | IAp _ a (ApScalar _) => lin_ap a
    | ISeq a b | IXor a b => linear p a && linear p b
    | ICall _ t args out =>
        match t_peer t with PInitPeerId => true | PLiteral q => String.eqb q p | _ => false end &&
        match t_service t, t_function t with SLiteral _, SLiteral _ => true | _, _ => false end &&
        forallb lin_value args &&
        match out with OutStream _ => false | _ => true end
    | IMatch _ l r b | IMisMatch _ l r b => lin_value l && lin_value r && linear p b
    | IFail _ (FLiteral _ _) => true
    | _ => false
    end.

  (* return codes are i32 (CallServiceResult.ret_code) *)
  Definition ret_codes_i32 : Prop :=
    forall p s f args, (-2147483648 <= sa_ret_code (svc p s f args) <= 2147483647)%Z.

  (* C16, single peer, straight-line scripts: every round requests exactly the next call of the sequential
     reading, so the rounds request the calls of the reading one by one, in its order, with its arguments *)
  Definition C16_local_linear_stmt : Prop :=
    forall (p : string) (s : instr) (fs : nat) (cs : list call_ev) (e : env) (st : status),
      ret_codes_i32 ->
      linear p s = true -> names_ok [] s <> None ->
      reading everything_known p fs s = Out cs e st ->
      N.of_nat (length cs) < 4294967295 ->               (* request ids are u32 *)
      exists rounds fuel,
        local_rounds rounds fuel p s empty_data [] = Some (map (fun c => [c]) cs) /\
        local_rounds2 rounds fuel p s empty_data [] = Some (map (fun c => [c]) cs).

  (* ---------------------------------------------------------------------------------------- *)
  (* several peers: hosts, particles in flight, histories *)
  Record host := { h_prev : idata; h_pending : list (N * request) }.
  Record net := {
    n_hosts : list (string * host);
    n_inflight : list (string * idata);          (* addressee, data *)
    n_delivered : list (string * idata);
    n_log : list call_ev                          (* every service invocation, in order *)
  }.
  Inductive op :=
  | OStart                                        (* the init peer runs the fresh particle *)
  | ODeliver (k : nat) (keep : bool)              (* message k is delivered; keep = a copy stays in flight (duplication) *)
  | ORedeliver (k : nat)                          (* an already delivered message arrives again *)
  | OAnswer (p : string) (ids : list N).          (* the host of p executes these pending requests and runs with the answers *)

  Fixpoint put_host (l : list (string * host)) (p : string) (h : host) : list (string * host) :=
    match l with
    | [] => []
    | (q, x) :: r => if String.eqb q p then (q, h) :: r else (q, x) :: put_host r p h
    end.

  (* the host contract: store the returned data, queue the requests, send the data to the next peers *)
  Definition host_run (fuel : nat) (s : instr) (init : string) (n : net) (p : string) (cur : idata)
             (results : list (N * service_answer)) (answered : list (N * request)) : net :=
    match assoc (n_hosts n) p with
    | None => n
    | Some h =>
        let params := {| rp_init_peer := init; rp_current_peer := p; rp_timestamp := timestamp; rp_ttl := ttl |} in
        let pending := filter (fun r => negb (existsb (fun a => fst a =? fst r) answered)) (h_pending h) in
        let log := n_log n ++ map (call_of_request p) answered in
        match run1 fuel {| ri_script := s; ri_params := params; ri_prev := h_prev h; ri_cur := cur; ri_results := results |} with
        | OutNewData _ d next reqs _ =>
            {| n_hosts := put_host (n_hosts n) p {| h_prev := d; h_pending := pending ++ reqs |};
               n_inflight := n_inflight n ++ map (fun q => (q, d)) next;
               n_delivered := n_delivered n; n_log := log |}
        | _ =>
            {| n_hosts := put_host (n_hosts n) p {| h_prev := h_prev h; h_pending := pending |};
               n_inflight := n_inflight n; n_delivered := n_delivered n; n_log := log |}
        end
    end.

  Fixpoint remove_nth {A} (l : list A) (k : nat) : list A :=
    match l, k with [], _ => [] | _ :: r, O => r | x :: r, S j => x :: remove_nth r j end.

  Definition net_step (fuel : nat) (s : instr) (init : string) (n : net) (o : op) : net :=
    match o with
    | OStart => host_run fuel s init n init empty_data [] []
    | ODeliver k keep =>
        match nth_error (n_inflight n) k with
        | None => n
        | Some (q, d) =>
            let n1 := {| n_hosts := n_hosts n; n_inflight := if keep then n_inflight n else remove_nth (n_inflight n) k;
                         n_delivered := n_delivered n ++ [(q, d)]; n_log := n_log n |} in
            host_run fuel s init n1 q d [] []
        end
    | ORedeliver k =>
        match nth_error (n_delivered n) k with
        | None => n
        | Some (q, d) => host_run fuel s init n q d [] []
        end
    | OAnswer p ids =>
        match assoc (n_hosts n) p with
        | None => n
        | Some h =>
            let answered := filter (fun r => existsb (N.eqb (fst r)) ids) (h_pending h) in
            match answered with
            | [] => n
            | _ => host_run fuel s init n p empty_data (map (answer_request p) answered) answered
            end
        end
    end.

  Definition net_init (peers : list string) : net :=
    {| n_hosts := map (fun p => (p, {| h_prev := empty_data; h_pending := [] |})) peers;
       n_inflight := []; n_delivered := []; n_log := [] |}.
  Definition history (fuel : nat) (s : instr) (init : string) (peers : list string) (ops : list op) : net :=
    fold_left (net_step fuel s init) ops (net_init peers).

  (* C16: in every honest history every service call any peer executes is one the sequential reading makes,
     with the same peer, service, function and argument values (as multisets).  From the approximation
     invariant of DESIGN appendix B; NOT proved -- decided by exploration (checks/C16.py). *)
  Definition C16_full : Prop :=
    forall (may_fail : string -> string -> bool) (s : instr) (init : string) (peers : list string) (ops : list op)
           (fs fuel : nat) (cs : list call_ev) (e : env) (st : status),
      may_fail_sound may_fail ->
      in_fragment may_fail s = true -> In init peers -> NoDup peers ->
      reading everything_known init fs s = Out cs e st ->
      sub_multiset (n_log (history fuel s init peers ops)) cs = true.
End Statements.
