(* MergeCases.v -- cases of C07 / C08 at the level of the TraceHandler: every round is one real
   `TraceHandler` driven through its public API by harness/src/bin/handler.rs (an [hcase] of
   HandlerCases.v: inputs, observations op by op, result trace).  A case is a short list of rounds
   built by lib/mergegen.py; [mc_kind] says which laws its rounds are arranged for.

   check_rounds      model (Handler.v) vs implementation, every round
   c07_oracle        the property C07 read on the IMPLEMENTATION's result traces only
   c08_oracle        the property C08 read on the IMPLEMENTATION's result traces only
   The oracles are written from the property texts (properties.jsonl, DESIGN appendix A), not from
   the model: they never call a merge function of Handler.v.
   Definitions only. *)
From Aqua Require Import Base Trace Handler HandlerCases.
Open Scope N_scope.
Open Scope list_scope.

Record mcase := { mc_kind : N; mc_rounds : list hcase }.
Definition case_t := mcase.

Definition check_rounds (c : case_t) : bool := forallb check_case (mc_rounds c).

Definition round (c : case_t) (i : nat) : option hcase := nth_error (mc_rounds c) i.
Definition result_of (c : case_t) (i : nat) : option htrace :=
  match round c i with Some h => hc_result h | None => None end.
Definition htrace_eqb := trace_eqb string String.eqb.
Definition hstate_eqb := state_eqb string String.eqb.

(* ---- what the property text lets differ between two merge orders ---- *)
(* C08: "identical except for who sent pending requests; with streams only the numbering of stream
   generations ... may differ" *)
Definition state_sim_b (a b : hstate) : bool :=
  match a, b with
  | SCall (RequestSentBy _), SCall (RequestSentBy _) => true
  | SCanon (CanonRequestSentBy _), SCanon (CanonRequestSentBy _) => true
  | SCall (Executed (VRStream x _)), SCall (Executed (VRStream y _)) => String.eqb x y
  | SAp [_], SAp [_] => true
  | _, _ => hstate_eqb a b
  end.
Definition trace_sim_b (a b : htrace) : bool := list_eqb state_sim_b a b.

(* knowledge = the executed / failed calls and executed canons, by content id (multiset) *)
Definition known_of (s : hstate) : option (N * string) :=
  match s with
  | SCall (Executed (VRScalar c)) | SCall (Executed (VRStream c _)) => Some (0, c)
  | SCall (Executed (VRUnused c)) => Some (1, c)
  | SCall (Failed c) => Some (2, c)
  | SCanon (CanonExecuted c) => Some (3, c)
  | _ => None
  end.
Fixpoint knowledge (t : htrace) : list (N * string) :=
  match t with
  | [] => []
  | s :: r => match known_of s with Some k => k :: knowledge r | None => knowledge r end
  end.
Definition known_eqb (a b : N * string) : bool := (fst a =? fst b) && String.eqb (snd a) (snd b).
Fixpoint remove_known (k : N * string) (l : list (N * string)) : option (list (N * string)) :=
  match l with
  | [] => None
  | x :: r => if known_eqb k x then Some r else option_map (cons x) (remove_known k r)
  end.
Fixpoint multiset_eqb (a b : list (N * string)) : bool :=
  match a with
  | [] => match b with [] => true | _ => false end
  | x :: r => match remove_known x b with Some b' => multiset_eqb r b' | None => false end
  end.
Definition same_knowledge (a b : htrace) : bool := multiset_eqb (knowledge a) (knowledge b).

Definition has_fold (t : htrace) : bool := existsb (fun s => match s with SFold _ => true | _ => false end) t.
Definition has_stream_state (t : htrace) : bool :=
  existsb (fun s => match s with SFold _ | SAp _ | SCall (Executed (VRStream _ _)) => true | _ => false end) t.

(* ---- states an honest interpreter can hold for ONE instruction instance: the information order
        of DESIGN appendix A (a pending request is below everything; results are comparable only
        when they are the same result, the generation of a stream value aside) ---- *)
Definition honest_state (s : hstate) : bool :=
  match s with SCall _ | SCanon _ => true | SAp [_] => true | _ => false end.
Definition compatible_b (a b : hstate) : bool :=
  match a, b with
  | SCall (RequestSentBy _), SCall _ | SCall _, SCall (RequestSentBy _) => true
  | SCall (Executed (VRScalar x)), SCall (Executed (VRScalar y)) => String.eqb x y
  | SCall (Executed (VRStream x _)), SCall (Executed (VRStream y _)) => String.eqb x y
  | SCall (Executed (VRUnused x)), SCall (Executed (VRUnused y)) => String.eqb x y
  | SCall (Failed x), SCall (Failed y) => String.eqb x y
  | SCanon (CanonRequestSentBy _), SCanon _ | SCanon _, SCanon (CanonRequestSentBy _) => true
  | SCanon (CanonExecuted x), SCanon (CanonExecuted y) => String.eqb x y
  | SAp [_], SAp [_] => true
  | _, _ => false
  end.
(* b carries at least what a carries *)
Definition state_le_b (a b : hstate) : bool :=
  match a, b with
  | SCall (RequestSentBy _), SCall _ => true
  | SCanon (CanonRequestSentBy _), SCanon _ => true
  | _, _ => state_sim_b a b
  end.

Definition single (t : htrace) : option hstate := match t with [s] => Some s | _ => None end.
Definition input_state (c : case_t) (i : nat) (prev : bool) : option hstate :=
  match round c i with Some h => single (if prev then hc_prev h else hc_cur h) | None => None end.

(* =====================================================================================
   kind 1: three states a b c of one instruction; rounds
     0 (a,b)  1 (b,a)  2 (a,a)  3 (r0,b)  4 (r0,a)  5 (b,c)  6 (r0,c)  7 (a,r5)  8 (a,nothing)
     9 (r1,a) 10 (r1,b)
   ===================================================================================== *)
Definition opt_trace_eqb := option_eqb htrace_eqb.
Definition opt_trace_sim (x y : option htrace) : bool :=
  match x, y with Some a, Some b => trace_sim_b a b | None, None => true | _, _ => false end.

Definition c07_states (c : case_t) : bool :=
  match input_state c 0 true, input_state c 0 false with
  | Some a, Some b =>
      (* merging data with itself, or with nothing, gives the data back *)
      (if honest_state a then opt_trace_eqb (result_of c 2) (Some [a]) && opt_trace_eqb (result_of c 8) (Some [a]) else true) &&
      (* re-delivering either input after the merge changes nothing *)
      (if honest_state a && honest_state b && compatible_b a b then
         match result_of c 0, result_of c 1 with
         | Some m, Some m' =>
             opt_trace_eqb (result_of c 3) (Some m) && opt_trace_eqb (result_of c 4) (Some m) &&
             opt_trace_eqb (result_of c 9) (Some m') && opt_trace_eqb (result_of c 10) (Some m')
         | _, _ => false               (* compatible states of honest data always merge *)
         end
       else true)
  | _, _ => true
  end.

Definition c08_states (c : case_t) : bool :=
  match input_state c 0 true, input_state c 0 false, input_state c 5 false with
  | Some a, Some b, Some cc =>
      let hon := honest_state a && honest_state b && honest_state cc in
      (* two orders *)
      (if hon && compatible_b a b then
         match result_of c 0, result_of c 1 with
         | Some [m], Some [m'] =>
             state_sim_b m m' && state_le_b a m && state_le_b b m && same_knowledge [m] [m']
         | _, _ => false
         end
       else true) &&
      (* whatever succeeds in both orders agrees *)
      (match result_of c 0, result_of c 1 with
       | Some m, Some m' => if hon then trace_sim_b m m' else true
       | _, _ => true
       end) &&
      (* two groupings *)
      (if hon && compatible_b a b && compatible_b b cc && compatible_b a cc then
         match result_of c 6, result_of c 7 with
         | Some [m], Some [m'] =>
             state_sim_b m m' && state_le_b a m && state_le_b b m && state_le_b cc m
         | _, _ => false
         end
       else true)
  | _, _, _ => true
  end.

(* =====================================================================================
   kind 2: one trace t (round 0 builds it); rounds 1 (t,t), 2 (t,nothing), 3 (nothing,t) driven
   by the same instruction tree re-emitting what it meets
   ===================================================================================== *)
Definition c07_replay (c : case_t) : bool :=
  match result_of c 0 with
  | Some t =>
      opt_trace_eqb (result_of c 1) (Some t) && opt_trace_eqb (result_of c 2) (Some t)
  | None => true
  end.
Definition c08_replay (c : case_t) : bool :=
  match result_of c 0 with
  | Some t =>
      (* the same data arriving as current data first: same knowledge; identical without stream states *)
      match result_of c 3 with
      | Some t' => same_knowledge t t' && (if has_stream_state t then true else trace_sim_b t t')
      | None => false
      end
  | None => true
  end.

(* =====================================================================================
   kind 3: two traces p, c of one script at different progress (rounds 0, 1 build them from
   nothing); rounds 2 (p,c)  3 (c,p)  4 (r2,c)  5 (r2,p)  6 (r2,r2)  7 (r2,r3)
   ===================================================================================== *)
Definition c07_progress (c : case_t) : bool :=
  match result_of c 0, result_of c 1, result_of c 2 with
  | Some p, Some q, Some m =>
      opt_trace_eqb (result_of c 4) (Some m) && opt_trace_eqb (result_of c 5) (Some m) &&
      opt_trace_eqb (result_of c 6) (Some m)
  | _, _, _ => true
  end.
Definition c08_progress (c : case_t) : bool :=
  match result_of c 0, result_of c 1 with
  | Some p, Some q =>
      match result_of c 2, result_of c 3 with
      | Some m, Some m' =>
          same_knowledge m m' &&
          (if has_fold m || has_fold m' then true else trace_sim_b m m') &&
          (* merging the two merges changes nothing but senders / generations *)
          (match result_of c 7 with
           | Some m2 => same_knowledge m m2 && (if has_fold m then true else trace_sim_b m m2)
           | None => false
           end)
      | None, None => true
      | _, _ => false                    (* defined in one order only *)
      end
  | _, _ => true
  end.

Definition c07_oracle (c : case_t) : bool :=
  if mc_kind c =? 1 then c07_states c
  else if mc_kind c =? 2 then c07_replay c
  else if mc_kind c =? 3 then c07_progress c
  else true.
Definition c08_oracle (c : case_t) : bool :=
  if mc_kind c =? 1 then c08_states c
  else if mc_kind c =? 2 then c08_replay c
  else if mc_kind c =? 3 then c08_progress c
  else true.

(* non-trivial: at least one round merged two non-empty traces successfully *)
Definition nontrivial (c : case_t) : bool :=
  existsb (fun h => match hc_prev h, hc_cur h, hc_result h with _ :: _, _ :: _, Some _ => true | _, _, _ => false end) (mc_rounds c).
