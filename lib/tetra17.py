"""C17 -- security tetraplets: an analyser that computes, FROM THE SCRIPT TEXT ALONE, which tetraplets every
argument of every call request must come with according to the property text, the oracle that compares them
with the CallRequestParams.tetraplets the hosts of the real interpreter received (harness/src/bin/tetra17.rs),
and a generator of scripts in the class the analyser decides.

Property text: "Each argument handed to a service comes with tetraplets naming the peer, service and function
that produced the value (the init peer with empty service and function for literals and built-ins) and the
exact lens applied to it.  This holds whether the value was produced locally, received from other peers, taken
from a fold iterator or a canonical stream."

Reading used by the oracle (nothing here looks at the Coq model or at the interpreter's sources):
  * every call site of an analysed script has its own (service, function) pair, so a request observed at a
    host names its call site; the producing call of every variable is known syntactically (single
    assignment, `new` scopes are lexical);
  * origin(value) = (resolved peer, service, function) of the call instruction that produced it, or
    (init peer, "", "") for literals, %init_peer_id%, %timestamp%, %ttl%, numbers, booleans, [];
  * lens(value) = the lenses applied on the way from the producing call's result to the argument, each
    rendered as written in the script (".$." + accessors joined by "."; an index taken from a scalar is
    rendered by the scalar's NAME, "[n]"), concatenated; one fold step over an array contributes ".$.[i]"
    for the i-th element; `ap` copies (origin, lens) unchanged; a value travelling through a stream and a
    canonicalised stream keeps its own (origin, lens);
  * a scalar / lens result / iterator argument comes with exactly ONE tetraplet, a canonicalised stream passed
    as a whole with one tetraplet per element, in element order;
  * where the text leaves room the oracle accepts every reading: `#can.$.[k].rest` may carry the lens of the
    selected element followed by either ".$.[k].rest" (the lens as written) or ".$.rest" (the part applied to
    the producing call's result; nothing when rest is empty); the error objects %last_error% / :error: may name
    the failing call or be a built-in of the init peer;
  * values are used only to IDENTIFY which element an argument is (services return distinct constants): the
    i of ".$.[i]" is the position of the observed argument in the producing call's array.

Deviations of the code that are known findings are tagged with their key (known_findings.txt); every other
difference is reported without a key."""
import json

UNKNOWN = ("<unknown>",)
LIT = ("<literal>",)


def jkey(v):
    return json.dumps(v, sort_keys=True)


def same(a, b):
    return a is not UNKNOWN and b is not UNKNOWN and jkey(a) == jkey(b)


# ------------------------------------------------------------------------------------------------
# s-expressions of AIR: lists for ( ), ("args", [..]) for [ ], strings for atoms (string literals keep
# their quotes)

class ParseError(Exception):
    pass


def tokenize(text):
    toks, i, n = [], 0, len(text)
    while i < n:
        c = text[i]
        if c.isspace():
            i += 1
        elif c == ";":
            while i < n and text[i] != "\n":
                i += 1
        elif c in "()":
            toks.append(c)
            i += 1
        elif c == '"':
            j = text.index('"', i + 1)
            toks.append(text[i:j + 1])
            i = j + 1
        elif c == "[":
            toks.append("[")
            i += 1
        elif c == "]":
            toks.append("]")
            i += 1
        else:
            j = i
            while j < n and not text[j].isspace() and text[j] not in '()"]':
                if text[j] == "[":
                    k = text.index("]", j)
                    j = k + 1
                else:
                    j += 1
            toks.append(text[i:j])
            i = j
    return toks


def parse(text):
    toks = tokenize(text)
    pos = [0]

    def rd():
        if pos[0] >= len(toks):
            raise ParseError("unexpected end")
        t = toks[pos[0]]
        pos[0] += 1
        if t == "(":
            out = []
            while toks[pos[0]] != ")":
                out.append(rd())
            pos[0] += 1
            return out
        if t == "[":
            out = []
            while toks[pos[0]] != "]":
                out.append(rd())
            pos[0] += 1
            return ("args", out)
        if t in (")", "]"):
            raise ParseError("unbalanced")
        return t
    r = rd()
    if pos[0] != len(toks):
        raise ParseError("trailing tokens")
    return r


# ------------------------------------------------------------------------------------------------
# lenses

def split_var(tok):
    """name, kind, accessors-or-None: kind is None (no lens), 'path' or 'length'."""
    if tok.endswith(".length"):
        return tok[:-len(".length")], "length", None
    k = tok.find(".$.")
    if k < 0:
        return tok, None, None
    name, rest = tok[:k], tok[k + 3:]
    accs, i = [], 0
    while i < len(rest):
        if rest[i] == ".":
            i += 1
        elif rest[i] == "[":
            j = rest.index("]", i)
            inner = rest[i + 1:j]
            accs.append(("idx", int(inner)) if inner.isdigit() else ("scalar", inner))
            i = j + 1
        else:
            j = i
            while j < len(rest) and rest[j] not in ".[":
                j += 1
            accs.append(("field", rest[i:j].rstrip("!")))
            i = j
    return name, "path", accs


def render_path(accs):
    def one(a):
        return "%s" % a[1] if a[0] == "field" else "[%s]" % a[1]
    return ".$." + ".".join(one(a) for a in accs)


class Stuck(Exception):
    """the lens cannot be applied to this value: at run time the call fails, no request is observed"""


def apply_path(v, accs, env_value):
    for a in accs:
        if v is UNKNOWN:
            return UNKNOWN
        if a[0] == "scalar":
            k = env_value(a[1])
            if k is UNKNOWN:
                return UNKNOWN
            a = ("idx", k) if isinstance(k, int) and not isinstance(k, bool) else ("field", k)
        if a[0] == "idx":
            if not isinstance(v, list) or not (0 <= a[1] < len(v)):
                raise Stuck()
            v = v[a[1]]
        else:
            if not isinstance(v, dict) or a[1] not in v:
                raise Stuck()
            v = v[a[1]]
    return v


# ------------------------------------------------------------------------------------------------
# the analyser: candidates are triples (origin, lens, value); origin is LIT or (peer name, service, function)

class Analysis:
    def __init__(self, script, peers, init, services):
        self.peers = peers
        self.init = peers[init]
        self.table = {(s[0], s[1]): s[2] for s in services}
        self.env = {}            # scalar / iterator name -> list of candidates (None: not analysable)
        self.streams = {}        # stream name -> list of candidates
        self.canons = {}         # canon name -> (stream name, peer)
        self.maps = {}           # stream map name -> list of (key, candidates of the value)
        self.canon_maps = {}     # canon map name -> (stream map name, peer)
        self.sites = {}          # (service, function) -> {"peer", "args": [spec]}
        self.dup_sites = set()
        self.failing = []        # origins of the call sites whose service fails
        self.notes = {}
        tree = parse(script)
        self._prepass(tree)
        self.walk(tree)

    def note(self, k):
        self.notes[k] = self.notes.get(k, 0) + 1

    # -- helpers
    def peer_name(self, s):
        return s[1:] if s.startswith("@") else s

    def known_value(self, name):
        c = self.env.get(name)
        if not c or len(c) != 1:
            return UNKNOWN
        return c[0][2]

    def str_operand(self, tok):
        """peer / service / function operand -> string or None"""
        if isinstance(tok, str) and tok.startswith('"'):
            return tok[1:-1]
        if tok == "%init_peer_id%":
            return "@" + self.init
        if isinstance(tok, str):
            try:
                cands = self.value_cands(tok)
            except Stuck:
                return None
            if cands and len(cands) == 1 and isinstance(cands[0][2], str):
                return cands[0][2]
        return None

    def value_cands(self, tok):
        """candidates of a scalar-like operand (variable, variable with a value-path lens); None when not analysable"""
        name, kind, accs = split_var(tok)
        if kind == "length" or name.startswith(("#", "$", "%", ":")):
            return None
        base = self.env.get(name)
        if base is None:
            return None
        if kind is None:
            return base
        out = []
        for (o, l, v) in base:
            try:
                out.append((o, l + render_path(accs), apply_path(v, accs, self.known_value)))
            except Stuck:
                pass
        if not out:
            raise Stuck()
        return out

    def iter_cands(self, cands):
        out = []
        for (o, l, v) in cands:
            if v is UNKNOWN:
                out.append((o, l + ".$.[*]", UNKNOWN))
            elif isinstance(v, list):
                for i, el in enumerate(v):
                    out.append((o, l + ".$.[%d]" % i, el))
        return out

    def literal_value(self, tok):
        if isinstance(tok, tuple):
            return [] if not tok[1] else UNKNOWN
        if tok.startswith('"'):
            return tok[1:-1]
        if tok in ("true", "false"):
            return tok == "true"
        if tok == "%init_peer_id%":
            return "@" + self.init
        try:
            return int(tok)
        except ValueError:
            try:
                return float(tok)
            except ValueError:
                return UNKNOWN

    def is_literal(self, tok):
        if isinstance(tok, tuple):
            return tok[0] == "args" and not tok[1]
        if tok.startswith('"') or tok in ("true", "false", "%init_peer_id%", "%timestamp%", "%ttl%"):
            return True
        try:
            float(tok)
            return True
        except ValueError:
            return False

    # -- argument specifications
    def arg_spec(self, tok):
        if self.is_literal(tok):
            return {"k": "lit", "value": self.literal_value(tok)}
        if isinstance(tok, tuple):
            return {"k": "unknown"}
        name, kind, accs = split_var(tok)
        if name in ("%last_error%", ":error:"):
            return {"k": "error", "lens": render_path(accs) if kind == "path" else ("" if kind is None else ".length")}
        if name.startswith("#%"):
            if name not in self.canon_maps:
                return {"k": "unknown"}
            mname, peer = self.canon_maps[name]
            pairs = self.maps.get(mname, [])
            if any(c is None for (_, c) in pairs):
                return {"k": "unknown"}
            if kind is None:
                return {"k": "map", "pairs": pairs}
            if kind == "length":
                return {"k": "map_length", "peer": peer}
            if len(accs) < 2 or accs[0][0] != "field" or accs[1][0] == "field":
                return {"k": "map_group"}           # a key group / a missing key: the text does not say
            elems = [c for (k, cs) in pairs if str(k) == accs[0][1] for c in cs]
            return {"k": "map_lens", "elems": elems, "rest": accs[2:], "written": render_path(accs)}
        if name.startswith("#"):
            if name not in self.canons:
                return {"k": "unknown"}
            sname, peer = self.canons[name]
            elems = self.stream_cands(sname)
            if elems is None:
                return {"k": "unknown"}
            if kind is None:
                return {"k": "canon", "elems": elems}
            if kind == "length":
                return {"k": "canon_length", "peer": peer}
            if not accs or accs[0][0] == "field":
                return {"k": "unknown"}
            return {"k": "canon_lens", "elems": elems, "first": accs[0], "rest": accs[1:], "written": render_path(accs)}
        if name.startswith("$"):
            return {"k": "unknown"}
        if kind == "length":
            base = self.env.get(name)
            if base is None:
                return {"k": "unknown"}
            return {"k": "length", "cands": base}
        try:
            cands = self.value_cands(tok)
        except Stuck:
            return {"k": "stuck"}
        if cands is None:
            return {"k": "unknown"}
        return {"k": "single", "cands": cands, "lensed": kind == "path"}

    def arg_value(self, spec):
        if spec["k"] == "lit":
            return spec["value"]
        if spec["k"] == "single" and len(spec["cands"]) == 1:
            return spec["cands"][0][2]
        return UNKNOWN

    # -- the walk
    def _prepass(self, t):
        if isinstance(t, list) and t:
            if t[0] == "call" and len(t) >= 3 and isinstance(t[2], list) and len(t[2]) == 2:
                s, f = t[2]
                if isinstance(s, str) and isinstance(f, str) and s.startswith('"') and f.startswith('"'):
                    b = self.table.get((s[1:-1], f[1:-1]))
                    p = t[1]
                    if b is not None and ("err" in b) and isinstance(p, str) and p.startswith('"'):
                        self.failing.append((self.peer_name(p[1:-1]), s[1:-1], f[1:-1]))
            for x in t:
                self._prepass(x)

    def bind(self, out, cands):
        if out is None:
            return
        if out.startswith("$"):
            self.streams.setdefault(out, []).append(cands)
        else:
            self.env[out] = cands

    def stream_cands(self, name):
        out = []
        for c in self.streams.get(name, []):
            if c is None:
                return None
            out.extend(c)
        return out

    def walk(self, t):
        if not isinstance(t, list) or not t:
            return
        op = t[0]
        if op in ("seq", "par", "xor"):
            for x in t[1:]:
                self.walk(x)
        elif op in ("match", "mismatch"):
            self.walk(t[3])
        elif op == "new":
            name = t[1]
            if name.startswith(("$", "#")):
                self.walk(t[2])
            else:
                saved = self.env.pop(name, "absent")
                self.walk(t[2])
                self.env.pop(name, None)
                if saved != "absent":
                    self.env[name] = saved
        elif op == "ap":
            src, dst = t[1], t[2]
            if isinstance(src, list):            # (ap (key value) %map)
                if len(src) == 2 and isinstance(dst, str) and dst.startswith("%"):
                    key, val = src
                    kv = self.literal_value(key) if isinstance(key, str) and self.is_literal(key) else UNKNOWN
                    if isinstance(val, (str, tuple)) and self.is_literal(val):
                        cands = [(LIT, "", self.literal_value(val))]
                    else:
                        try:
                            cands = self.value_cands(val) if isinstance(val, str) else None
                        except Stuck:
                            cands = None
                    self.maps.setdefault(dst, []).append((kv if kv is not UNKNOWN else None, cands if kv is not UNKNOWN else None))
                return
            if self.is_literal(src):
                cands = [(LIT, "", self.literal_value(src))]
            else:
                try:
                    cands = self.value_cands(src) if isinstance(src, str) else None
                except Stuck:
                    cands = None
            self.bind(dst, cands)
        elif op == "canon":
            peer = self.str_operand(t[1])
            if peer is not None and isinstance(t[3], str) and t[3].startswith("#%"):
                self.canon_maps[t[3]] = (t[2], self.peer_name(peer))
            elif peer is not None and isinstance(t[3], str) and t[3].startswith("#"):
                self.canons[t[3]] = (t[2], self.peer_name(peer))
        elif op == "fold":
            it, var = t[1], t[2]
            if isinstance(it, tuple):
                cands = []
            elif it.startswith("#") and not it.startswith("#%"):
                cn = self.canons.get(it)
                cands = self.stream_cands(cn[0]) if cn else None
            elif it.startswith("$"):
                cands = self.stream_cands(it)
            elif it.startswith(("#%", "%")):
                cands = None
            else:
                try:
                    base = self.value_cands(it)
                except Stuck:
                    base = None
                cands = self.iter_cands(base) if base is not None else None
            saved = self.env.pop(var, "absent")
            self.env[var] = cands
            for x in t[3:]:
                self.walk(x)
            self.env.pop(var, None)
            if saved != "absent":
                self.env[var] = saved
        elif op == "call":
            self.call(t)

    def call(self, t):
        peer = self.str_operand(t[1])
        svc = self.str_operand(t[2][0]) if isinstance(t[2], list) and len(t[2]) == 2 else None
        fn = self.str_operand(t[2][1]) if isinstance(t[2], list) and len(t[2]) == 2 else None
        args = t[3][1] if len(t) > 3 and isinstance(t[3], tuple) else []
        out = t[4] if len(t) > 4 else None
        specs = [self.arg_spec(a) for a in args]
        if peer is None or svc is None or fn is None:
            self.note("call site with an unresolvable triplet")
            self.bind(out, None)
            return
        pn = self.peer_name(peer)
        key = (svc, fn)
        if key in self.sites or key in self.dup_sites:
            self.dup_sites.add(key)
            self.sites.pop(key, None)
        else:
            self.sites[key] = {"peer": pn, "args": specs}
        b = self.table.get(key)
        if b is None:
            val = "%s.%s" % (svc, fn)
        elif "const" in b:
            val = b["const"]
        elif "echo" in b:
            k = b["echo"]
            val = self.arg_value(specs[k]) if k < len(specs) else None
        elif "peertag" in b:
            val = "%s@%s" % (fn, pn)
        elif "args" in b:
            vs = [self.arg_value(s) for s in specs]
            val = UNKNOWN if any(v is UNKNOWN for v in vs) else vs
        elif "err" in b:
            return                     # the call fails: no value
        else:
            val = UNKNOWN
        if isinstance(val, str) and val.startswith("@"):
            val = val            # a peer constant; the driver substitutes the real id, compare() maps it back
        self.bind(out, [((pn, svc, fn), "", val)])


# ------------------------------------------------------------------------------------------------
# the oracle

KNOWN_LENGTH = "length-functor-tetraplet"
KNOWN_CANON_LENS = "canon-element-lens-dropped"
KNOWN_ERROR_LENS = "error-object-lens-dropped"


def check_history(case, out, stats=None):
    """case: the input case; out: the output object of harness/src/bin/tetra17.rs.
    Returns the list of failures: {"what", "key", "site", "arg", "observed", "accepted"}."""
    stats = stats if stats is not None else {}

    def st(k, n=1):
        stats[k] = stats.get(k, 0) + n

    analyses = {}

    def analysis_for(peer):
        text = (case.get("scripts_by_peer") or {}).get(peer, case["script"])
        if text not in analyses:
            analyses[text] = Analysis(text, case["peers"], case.get("init", 0), case["services"])
        return analyses[text]

    ids = out.get("peer_ids", {})
    name_of = {v: k for k, v in ids.items()}
    init = case["peers"][case.get("init", 0)]

    def unpeer(v):
        """values as the analyser sees them: peer ids back to @names"""
        if isinstance(v, str):
            return "@" + name_of[v] if v in name_of else v
        if isinstance(v, list):
            return [unpeer(x) for x in v]
        if isinstance(v, dict):
            return {k: unpeer(x) for k, x in v.items()}
        return v

    def obs_t(t):
        return (name_of.get(t["peer_pk"], t["peer_pk"]), t["service_id"], t["function_name"], t["lens"])

    def exp_t(o, l):
        return (init, "", "", l) if o is LIT else (o[0], o[1], o[2], l)

    fails = []
    for r in out.get("requests", []):
        key = (r["service"], r["function"])
        an = analysis_for(r["peer"])
        site = an.sites.get(key)
        if site is None:
            st("requests of call sites outside the analysed class")
            continue
        st("requests checked")
        args = [unpeer(a) for a in r["args"]]
        tets = [[obs_t(t) for t in ts] for ts in r["tetraplets"]]

        def fail(i, what, accepted, k=None):
            fails.append({"what": what, "key": k, "site": list(key), "arg": i, "executing_peer": r["peer"], "step": r["step"],
                          "observed": tets[i] if i < len(tets) else None, "accepted": sorted(set(accepted))[:6] if accepted is not None else None})

        if len(tets) != len(args) or len(args) != len(site["args"]):
            fails.append({"what": "%d arguments, %d tetraplet lists, %d arguments in the script" % (len(args), len(tets), len(site["args"])),
                          "key": None, "site": list(key), "arg": None, "executing_peer": r["peer"], "step": r["step"]})
            continue
        for i, spec in enumerate(site["args"]):
            k, obs, val = spec["k"], tets[i], args[i]
            if k in ("unknown", "stuck"):
                st("arguments outside the analysed class")
                continue
            st("arguments checked")
            if k == "lit":
                st("arg/literal or built-in")
                if obs != [(init, "", "", "")]:
                    fail(i, "a literal / built-in argument does not come with exactly the init peer's literal tetraplet", [(init, "", "", "")])
                continue
            if k == "single":
                cands = [c for c in spec["cands"] if c[2] is UNKNOWN or same(c[2], val)]
                acc = [exp_t(o, l) for (o, l, v) in cands]
                wild = [a for a in acc if "[*]" in a[3]]
                exact = len(set(acc)) == 1 and not wild
                if not acc:
                    st("arguments whose value matches no producing call known from the script")
                    continue
                o0 = cands[0][0]
                st("arg/%s%s" % ("value path" if spec["lensed"] else "variable", " (exact expectation)" if exact else " (several candidates)"))
                if ".$.[" in acc[0][3] and not spec["lensed"]:
                    st("arg/fold iterator")
                if o0 is not LIT and o0[0] != r["peer"]:
                    st("arg/value produced on another peer than the one that passes it on")
                if len(obs) != 1:
                    fail(i, "a scalar argument comes with %d tetraplets" % len(obs), acc)
                elif obs[0] not in acc and not any(_wild_match(a, obs[0]) for a in wild):
                    what = _diagnose(obs[0], acc, r["peer"], init)
                    fail(i, what, acc)
                continue
            if k == "length":
                st("arg/.length of a scalar")
                acc = [exp_t(o, l + ".length") for (o, l, v) in spec["cands"]]
                if len(obs) == 1 and obs[0] in acc:
                    continue
                if obs == [("", "", "", ".length")]:
                    fail(i, "x.length comes with the tetraplet (\"\", \"\", \"\", \".length\"): peer, service and function of the producing call are lost", acc, KNOWN_LENGTH)
                else:
                    fail(i, "x.length comes with an unexpected tetraplet", acc)
                continue
            if k == "canon_length":
                st("arg/.length of a canon stream")
                acc = [(spec["peer"], "", "", ".length"), (init, "", "", ".length"), (init, "", "", "")]
                if len(obs) == 1 and obs[0] in acc:
                    continue
                if obs == [(r["peer"], ".length", "", "")]:
                    fail(i, "#canon.length comes with the tetraplet (executing peer, \".length\", \"\", \"\"): the lens is in the service field and the peer is whoever executes the call", acc, KNOWN_LENGTH)
                else:
                    fail(i, "#canon.length comes with an unexpected tetraplet", acc)
                continue
            if k == "canon":
                st("arg/canon stream as a whole")
                if not isinstance(val, list) or len(obs) != len(val):
                    fail(i, "a canon stream argument with %s elements comes with %d tetraplets" % (len(val) if isinstance(val, list) else "?", len(obs)), None)
                    continue
                st("canon elements checked", len(val))
                for j, el in enumerate(val):
                    acc = [exp_t(o, l) for (o, l, v) in spec["elems"] if v is UNKNOWN or same(v, el)]
                    if not acc:
                        st("canon elements whose value matches no appender known from the script")
                        continue
                    if obs[j] not in acc:
                        fails.append({"what": "element %d of a canon stream argument does not keep its own origin: %s" % (j, _diagnose(obs[j], acc, r["peer"], init)),
                                      "key": None, "site": list(key), "arg": i, "executing_peer": r["peer"], "step": r["step"],
                                      "observed": [obs[j]], "accepted": sorted(set(acc))[:6]})
                continue
            if k == "canon_lens":
                st("arg/lens into a canon stream")
                acc, dropped = [], []
                for (o, l, v) in spec["elems"]:
                    try:
                        sel = apply_path(v, spec["rest"], an.known_value)
                    except Stuck:
                        continue
                    if sel is UNKNOWN or same(sel, val):
                        acc.append(exp_t(o, l + spec["written"]))
                        acc.append(exp_t(o, l + (render_path(spec["rest"]) if spec["rest"] else "")))
                        if spec["rest"]:
                            dropped.append(exp_t(o, l))
                if not acc:
                    st("arguments whose value matches no producing call known from the script")
                    continue
                if len(obs) == 1 and obs[0] in acc:
                    continue
                if len(obs) == 1 and obs[0] in dropped:
                    fail(i, "#canon.$.[k].rest comes with the selected element's tetraplet unchanged: the part of the lens applied to the producing call's result is lost", acc, KNOWN_CANON_LENS)
                else:
                    fail(i, "a lens into a canon stream comes with an unexpected tetraplet", acc)
                continue
            if k == "map_group":
                st("arguments the text does not decide (key group of a canon stream map)")
                continue
            if k == "map":
                st("arg/canon stream map as a whole")
                n_vals = sum(len(v) for v in val.values()) if isinstance(val, dict) and all(isinstance(v, list) for v in val.values()) else None
                if n_vals is None or len(obs) != n_vals:
                    fail(i, "a canon stream map argument with %s values comes with %d tetraplets" % (n_vals, len(obs)), None)
                    continue
                # one tetraplet per value, each the value's own: as multisets (the object does not show the order)
                want = []
                for key, vs in val.items():
                    for el in vs:
                        want.append(sorted(set(exp_t(o, l) for (kk, cs) in spec["pairs"] if str(kk) == key
                                               for (o, l, v) in cs if v is UNKNOWN or same(v, el))))
                left = list(obs)
                bad = False
                for w in sorted(want, key=len):
                    hit = next((t for t in left if t in w), None) if w else None
                    if w and hit is None:
                        bad = True
                        break
                    if hit is not None:
                        left.remove(hit)
                st("canon map values checked", len(want))
                if bad:
                    fail(i, "the values of a canon stream map argument do not come with their own tetraplets", [t for w in want for t in w])
                continue
            if k == "map_length":
                st("arg/.length of a canon stream map")
                acc = [(spec["peer"], "", "", ".length"), (spec["peer"], "", "", "length"), (init, "", "", ".length"),
                       (init, "", "", "length"), (init, "", "", "")]
                if len(obs) == 1 and obs[0] in acc:
                    continue
                if obs == [(r["peer"], "", "", "length")]:
                    fail(i, "#%map.length comes with the tetraplet (executing peer, \"\", \"\", \"length\"): the peer is whoever executes the call", acc, KNOWN_LENGTH)
                else:
                    fail(i, "#%map.length comes with an unexpected tetraplet", acc)
                continue
            if k == "map_lens":
                st("arg/lens into a canon stream map")
                acc = []
                for (o, l, v) in spec["elems"]:
                    try:
                        sel = apply_path(v, spec["rest"], an.known_value)
                    except Stuck:
                        continue
                    if sel is UNKNOWN or same(sel, val):
                        acc.append(exp_t(o, l + spec["written"]))
                        if spec["rest"]:
                            acc.append(exp_t(o, l + render_path(spec["rest"])))
                            acc.append(exp_t(o, l + render_path(spec["rest"])[2:]))     # the applied part written without "$"
                        else:
                            acc.append(exp_t(o, l))
                if not acc:
                    st("arguments whose value matches no producing call known from the script")
                    continue
                if not (len(obs) == 1 and obs[0] in acc):
                    fail(i, "a lens into a canon stream map comes with an unexpected tetraplet: " + (_diagnose(obs[0], acc, r["peer"], init) if obs else "none"), acc)
                continue
            if k == "error":
                st("arg/%last_error% or :error:")
                origins = [LIT] + an.failing
                acc = [exp_t(o, spec["lens"]) for o in origins]
                if len(obs) == 1 and obs[0] in acc:
                    continue
                if spec["lens"] and len(obs) == 1 and obs[0] in [exp_t(o, "") for o in origins]:
                    fail(i, "a lens applied to %last_error% / :error: is not recorded in the tetraplet", acc, KNOWN_ERROR_LENS)
                else:
                    fail(i, "an error object argument comes with an unexpected tetraplet", acc)
                continue
    return fails


def _wild_match(a, obs):
    """a: accepted tetraplet whose lens has [*] wildcards (the array was not known): same origin, same lens shape"""
    import re
    if a[:3] != obs[:3]:
        return False
    pat = re.escape(a[3]).replace(re.escape("[*]"), r"\[\d+\]")
    return re.fullmatch(pat, obs[3]) is not None


def _diagnose(obs, acc, executing, init):
    a = acc[0]
    if obs[:3] != a[:3]:
        if obs[0] != a[0] and obs[1:3] == a[1:3]:
            return "the tetraplet names peer %s instead of the producing call's peer %s" % (obs[0], a[0])
        return "the tetraplet names (%s, %s, %s), the value was produced by (%s, %s, %s)" % (obs[:3] + a[:3])
    return "the tetraplet's lens is %r, the lens applied is %r" % (obs[3], a[3])


# ------------------------------------------------------------------------------------------------
# generator of scripts in the analysed class

class Gen:
    def __init__(self, rng, n_peers):
        self.r = rng
        self.peers = ["A", "B", "C", "D", "E"][:n_peers]
        self.n = 0
        self.services = []
        self.kinds = {}

    def kind(self, k):
        self.kinds[k] = self.kinds.get(k, 0) + 1

    def fresh(self, p):
        self.n += 1
        return "%s%d" % (p, self.n)

    def peer(self, avoid=None):
        ps = [p for p in self.peers if p != avoid] or self.peers
        return self.r.choice(ps)

    def producer(self, value_kind, peer=None, out=None, args="", via_var=None):
        """a call with its own (service, function) returning a fresh constant; returns (text, out name, value)"""
        k = self.fresh("")
        svc, fn = "s" + k, "f" + k
        if value_kind == "arr":
            val = ["a%s_%d" % (k, i) for i in range(self.r.choice([1, 2, 3, 4]))]
        elif value_kind == "arr2":
            val = [["b%s_%d_%d" % (k, i, j) for j in range(self.r.choice([1, 2, 3]))] for i in range(self.r.choice([1, 2, 3]))]
        elif value_kind == "obj":
            val = {"f": "v" + k, "n": self.r.choice([0, 1]), "key": "f", "l": ["p" + k, "q" + k, "r" + k][: self.r.choice([2, 3])],
                   "o": {"k": "w" + k, "arr": [{"x": "x%s_%d" % (k, i)} for i in range(2)]}}
        elif value_kind == "aoa":
            val = [{"tag": "g%s_%d" % (k, i), "items": ["c%s_%d_%d" % (k, i, j) for j in range(self.r.choice([1, 2, 3]))],
                    "sub": {"items": ["d%s_%d" % (k, i)]}} for i in range(self.r.choice([1, 2, 3]))]
        elif value_kind == "str":
            val = "t" + k
        elif value_kind == "idx":
            val = self.r.choice([0, 1])
        elif value_kind == "peer":
            val = "@" + self.peer()
        else:
            val = value_kind
        self.services.append([svc, fn, {"const": val}])
        peer = peer or self.peer()
        out = out if out is not None else self.fresh("x")
        target = via_var if via_var else '"@%s"' % peer
        return '(call %s ("%s" "%s") [%s] %s)' % (target, svc, fn, args, out), out, val

    def use(self, args, peer=None, out=""):
        k = self.fresh("")
        return '(call "@%s" ("u" "u%s") [%s]%s)' % (peer or self.peer(), k, " ".join(args), (" " + out) if out else "")

    def some_literals(self):
        return self.r.sample(['"lit"', "1", "true", "[]", "%init_peer_id%", "%timestamp%", "%ttl%", "-7", "2.5", '""'], self.r.choice([0, 1, 2]))

    def paths_into(self, val, name, idx_var=None):
        """lens expressions into a known value"""
        out = []
        if isinstance(val, dict):
            out += [name + ".$.f", name + ".$.l", name + ".$.l.[1]", name + ".$.o.k", name + ".$.o", name + ".$.o.arr.[1].x", name + ".$.o.arr.[0]"]
            if idx_var:
                out += [name + ".$.l.[%s]" % idx_var, name + ".$.o.arr.[%s].x" % idx_var]
        elif isinstance(val, list) and val:
            out += [name + ".$.[0]", name + ".$.[%d]" % (len(val) - 1)]
            if isinstance(val[0], list):
                out += [name + ".$.[0].[0]"]
            if idx_var and len(val) > 1:
                out += [name + ".$.[%s]" % idx_var]
        return out

    def seq(self, parts):
        parts = [p for p in parts if p]
        if not parts:
            return "(null)"
        t = parts[-1]
        for p in reversed(parts[:-1]):
            t = "(seq %s %s)" % (p, t)
        return t

    # ---- segments
    def seg_scalar(self):
        self.kind("scalar + lens paths, used on 1-3 other peers")
        p0 = self.peer()
        c, x, val = self.producer(self.r.choice(["obj", "arr", "arr2", "str"]), peer=p0)
        ci, n, _ = self.producer("idx", peer=self.peer())
        parts = [c, ci]
        for _ in range(self.r.choice([1, 2, 3])):
            ps = self.paths_into(val, x, n)
            args = [x] + self.r.sample(ps, min(len(ps), self.r.choice([1, 2, 3]))) + self.some_literals()
            if isinstance(val, list) and self.r.random() < 0.5:
                args.append(x + ".length")
            self.r.shuffle(args)
            parts.append(self.use(args))
        return self.seq(parts)

    def seg_hops(self):
        self.kind("value handed on through 2-4 peers")
        c, x, val = self.producer("obj")
        parts = [c]
        hops = self.r.choice([2, 3, 4])
        for h in range(hops):
            args = [x, x + ".$.o.k"] if h % 2 == 0 else [x + ".$.l.[0]", x]
            o = self.fresh("y")
            parts.append(self.use(args, out=o))
            parts.append(self.use([o, x + ".$.f"]))
        return self.seq(parts)

    def seg_fold(self):
        p = self.r.random()
        if p < 0.35:
            self.kind("fold over a scalar array")
            c, x, val = self.producer("arr")
            i = self.fresh("i")
            body = self.use([i, x] + self.some_literals())
            return self.seq([c, self.fold(x, i, body)])
        if p < 0.6:
            self.kind("fold over a lens result")
            c, x, val = self.producer("obj")
            i = self.fresh("i")
            src = self.r.choice([x + ".$.l", x + ".$.o.arr"])
            body = self.use([i] + ([i + ".$.x"] if src.endswith("arr") else []) + [x + ".$.f"])
            return self.seq([c, self.fold(src, i, body)])
        if p < 0.85:
            self.kind("nested folds over an array of arrays")
            c, x, val = self.producer("arr2")
            i, j = self.fresh("i"), self.fresh("j")
            inner = self.fold(i, j, self.use([j, i]), nested=True)
            return self.seq([c, self.fold(x, i, inner)])
        if p < 0.93:
            # (added after the seeded change C17-nested-fold-lens-appended-twice was missed) the iterable of the inner fold is a
            # lens applied to the ITERATOR of the enclosing fold (its own branch of create_scalar_wl_iterable)
            self.kind("nested fold over a lens of the outer fold's iterator")
            c, x, val = self.producer("aoa")
            i, j = self.fresh("i"), self.fresh("j")
            src = self.r.choice([i + ".$.items", i + ".$.sub.items"])
            inner = self.fold(src, j, self.use([j, i + ".$.tag"] + ([i] if self.r.random() < 0.5 else [])), nested=True)
            return self.seq([c, self.fold(x, i, inner)])
        self.kind("fold over a scalar array, iterator copied by ap and stored by a call")
        c, x, val = self.producer("arr2")
        i, y = self.fresh("i"), self.fresh("y")
        body = self.seq(["(ap %s %s)" % (i, y), self.use([y, y + ".$.[0]", i + ".$.[0]"])])
        return self.seq([c, self.fold(x, i, body)])

    def fold(self, src, i, body, nested=False):
        if self.r.random() < 0.25 and not nested:
            return "(fold %s %s (par %s (next %s)))" % (src, i, body, i)
        return "(fold %s %s (seq %s (next %s)))" % (src, i, body, i)

    def seg_canon(self):
        self.kind("stream -> canon: whole, indexed, lens, length, fold")
        s, cn = "$st" + self.fresh(""), "#can" + self.fresh("")
        prods = []
        mixed = False
        elem_kind = self.r.choice(["obj", "arr", "str", "mixed"])
        for _ in range(self.r.choice([1, 2, 3])):
            ek = self.r.choice(["obj", "arr", "str"]) if elem_kind == "mixed" else elem_kind
            q = self.r.random()
            if q < 0.6:
                c, _, _ = self.producer(ek, out=s)
                prods.append(c)
            elif q < 0.8:
                mixed = True
                c, x, val = self.producer(ek)
                ps = self.paths_into(val, x)
                src = self.r.choice(ps) if ps and self.r.random() < 0.5 else x
                prods.append(self.seq([c, "(ap %s %s)" % (src, s)]))
            else:
                mixed = True
                prods.append('(ap "lit%s" %s)' % (self.fresh(""), s))
        if mixed:
            elem_kind = "mixed"
        if len(prods) > 1 and self.r.random() < 0.4:
            t = prods[-1]
            for p in reversed(prods[:-1]):
                t = "(par %s %s)" % (p, t)
            filled = t
        else:
            filled = self.seq(prods)
        canon = '(canon "@%s" %s %s)' % (self.peer(), s, cn)
        uses = []
        opts = [cn, cn + ".$.[0]", cn + ".length"]
        if elem_kind == "obj":
            opts += [cn + ".$.[0].o.k", cn + ".$.[0].l.[1]", cn + ".$.[0].f"]
        if elem_kind == "arr":
            opts += [cn + ".$.[0].[0]"]
        for _ in range(self.r.choice([1, 2])):
            uses.append(self.use(self.r.sample(opts, self.r.choice([1, 2, 3])) + self.some_literals()))
        i = self.fresh("i")
        extra = [i + ".$.f"] if elem_kind == "obj" else ([i + ".$.[0]"] if elem_kind == "arr" else [])
        uses.append(self.fold(cn, i, self.use([i] + extra)))
        if self.r.random() < 0.3:
            j = self.fresh("i")
            uses.append("(fold %s %s (seq %s (next %s)))" % (s, j, self.use([j]), j))
        return self.seq([filled, canon] + uses)

    def seg_map(self):
        self.kind("stream map -> canon map: whole, key.[i], key.[i].path, length, key group, fold")
        k = self.fresh("")
        m, cm = "%m" + k, "#%cm" + k
        parts, keys = [], []
        for j in range(self.r.choice([1, 2, 3])):
            key = self.r.choice(["ka", "kb"]) + k
            q = self.r.random()
            if q < 0.6:
                c, x, val = self.producer("obj")
                parts += [c, '(ap ("%s" %s) %s)' % (key, x, m)]
            elif q < 0.8:
                c, x, val = self.producer("obj")
                parts += [c, '(ap ("%s" %s.$.o) %s)' % (key, x, m)]
            else:
                parts.append('(ap ("%s" "lit%s") %s)' % (key, self.fresh(""), m))
            keys.append((key, q))
        parts.append('(canon "@%s" %s %s)' % (self.peer(), m, cm))
        key0, q0 = keys[0]
        opts = [cm, cm + ".length", "%s.$.%s" % (cm, key0), "%s.$.%s.[0]" % (cm, key0)]
        if all(q < 0.6 for (kk, q) in keys if kk == key0):
            opts += ["%s.$.%s.[0].f" % (cm, key0), "%s.$.%s.[0].l.[1]" % (cm, key0)]
        for _ in range(self.r.choice([1, 2])):
            parts.append(self.use(self.r.sample(opts, self.r.choice([1, 2, 3])) + self.some_literals()))
        if self.r.random() < 0.4:
            i = self.fresh("i")
            parts.append(self.fold(cm, i, self.use([i, i + ".$.value"])))
        return self.seq(parts)

    def seg_new(self):
        self.kind("`new`-shadowed scalar name")
        c1, x, v1 = self.producer("obj")
        c2, _, v2 = self.producer("obj", out=x)
        inner = self.seq([c2, self.use([x, x + ".$.f"])])
        return self.seq([c1, self.use([x + ".$.o.k"]), "(new %s %s)" % (x, inner), self.use([x, x + ".$.l.[0]"])])

    def seg_ap(self):
        self.kind("values copied by ap (scalar, lens result, literal)")
        c, x, val = self.producer("obj")
        y, z, w, v = self.fresh("y"), self.fresh("y"), self.fresh("y"), self.fresh("y")
        parts = [c, "(ap %s %s)" % (x, y), "(ap %s.$.o %s)" % (x, z), '(ap "copied" %s)' % w, "(ap %s.$.arr %s)" % (z, v),
                 self.use([y, y + ".$.l.[0]", z, z + ".$.k", w, v + ".$.[1].x"])]
        i = self.fresh("i")
        parts.append(self.fold(v, i, self.use([i, i + ".$.x"])))
        return self.seq(parts)

    def seg_error(self):
        self.kind("%last_error% / :error: as arguments")
        k = self.fresh("")
        self.services.append(["s" + k, "f" + k, {"err": [self.r.choice([1, 2, 42]), "boom" + k]}])
        p = self.peer()
        failing = '(call "@%s" ("s%s" "f%s") [] %s)' % (p, k, k, self.fresh("x"))
        left = failing if self.r.random() < 0.7 else "(match 1 2 (null))"
        args = self.r.sample(["%last_error%", "%last_error%.$.message", "%last_error%.$.error_code", ":error:", ":error:.$.message",
                              ":error:.$.error_code"], self.r.choice([1, 2, 3]))
        return "(xor %s %s)" % (left, self.use(args, peer=p))

    def seg_var_target(self):
        self.kind("call addressed through a scalar (peer from a service result)")
        cp, pv, val = self.producer("peer")
        c, x, v = self.producer("obj", peer=val[1:], via_var=pv)
        return self.seq([cp, c, self.use([x, x + ".$.f", pv])])

    def seg_literals(self):
        self.kind("literal-only arguments")
        return self.use(['"s"', "0", "false", "[]", "%init_peer_id%", "%timestamp%", "%ttl%"][: self.r.choice([3, 5, 7])])

    def script(self, n_segments):
        segs = [self.seg_scalar, self.seg_hops, self.seg_fold, self.seg_fold, self.seg_canon, self.seg_canon, self.seg_new, self.seg_ap,
                self.seg_error, self.seg_var_target, self.seg_literals, self.seg_map]
        parts = [self.r.choice(segs)() for _ in range(n_segments)]
        if len(parts) > 2 and self.r.random() < 0.3:
            a = parts.pop()
            b = parts.pop()
            parts.append("(par %s %s)" % (b, a))
        return self.seq(parts)


def gen_case(rng, n_segments=None, schedule=None):
    g = Gen(rng, rng.choice([3, 3, 4, 5]))
    script = g.script(n_segments or rng.choice([1, 2, 3]))
    if schedule == "fifo" or (schedule is None and rng.random() < 0.4):
        ops, how = [["start"]], "fifo"
    else:
        ops, how = [["start"]], "random"
        for _ in range(rng.choice([6, 12, 20])):
            x = rng.random()
            if x < 0.45:
                ops.append(["d", rng.randrange(8)])
            elif x < 0.57:
                ops.append(["dup", rng.randrange(8)])
            elif x < 0.64:
                ops.append(["re", rng.randrange(8)])
            else:
                ops.append(["r", rng.randrange(5), 0 if rng.random() > 0.3 else rng.randrange(1, 16)])
    return {"script": script, "peers": g.peers, "init": rng.randrange(len(g.peers)), "services": g.services, "ops": ops,
            "drain": True, "how": how, "segments": g.kinds, "kind": "generated"}


def gen_tamper_case(rng):
    """one peer runs a script whose producing call has ANOTHER function name than in the script of the peer that
    executed it: the data it receives records a tetraplet that is not the tetraplet of its own call instruction.
    The interpreter must refuse that data (no request is observed there), or at least never hand a service an
    argument whose tetraplet names a call that is not in the receiving peer's script."""
    g = Gen(rng, 3)
    a, b, c = rng.sample(g.peers, 3)
    k = g.fresh("")
    out = rng.choice(["x" + k, "$st" + k])
    g.services.append(["s" + k, "f" + k, {"const": {"f": "v" + k, "l": ["p" + k, "q" + k]}}])
    g.services.append(["s" + k, "g" + k, {"const": {"f": "v" + k, "l": ["p" + k, "q" + k]}}])

    def script(fn):
        prod = '(call "@%s" ("s%s" "%s%s") [] %s)' % (a, k, fn, k, out)
        if out.startswith("$"):
            cn = "#can" + k
            i = "i" + k
            use = '(seq (canon "@%s" %s %s) (seq (call "@%s" ("u" "u%s") [%s]) (fold %s %s (seq (call "@%s" ("u" "w%s") [%s %s.$.f]) (next %s)))))' % (
                b, out, cn, b, k, cn, cn, i, c, k, i, i, i)
        else:
            use = '(seq (call "@%s" ("u" "u%s") [%s %s.$.f]) (call "@%s" ("u" "w%s") [%s.$.l.[0]]))' % (b, k, out, out, c, k, out)
        return "(seq %s %s)" % (prod, use)
    return {"script": script("f"), "scripts_by_peer": {b: script("g")}, "peers": g.peers, "init": g.peers.index(a), "services": g.services,
            "ops": [["start"]], "drain": True, "how": "fifo", "segments": {"receiving peer runs a script with another producing call": 1},
            "kind": "tamper"}
