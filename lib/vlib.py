"""Shared machinery of ./check: translator, Coq build and assumption audit, harness build/run,
evaluation of case files inside Coq, verdicts, replay files, known findings, evidence."""
import concurrent.futures
import fcntl
import hashlib
import json
import os
import random
import re
import shutil
import subprocess
import sys
import time

ROOT = os.path.dirname(os.path.dirname(os.path.abspath(__file__)))
COQ = os.path.join(ROOT, "coq")
CACHE = os.path.join(ROOT, ".cache")
HARNESS = os.path.join(ROOT, "harness")
TARGET = os.path.join(CACHE, "target")
REPO = os.environ.get("VERIF_REPO", "/repo")
AQUAH = os.path.join(TARGET, "debug", "aquah")
NPROC = 16

FORBIDDEN = re.compile(
    r"\b(Admitted|admit|Axiom|Axioms|Parameter|Parameters|Conjecture|Conjectures|Hypothesis|Hypotheses|Variables?)\b"
    r"|Unset\s+Guard|Unset\s+Positivity|Unset\s+Universe|bypass_check|type-in-type|impredicative-set|Admit\s+Obligations|native_compute")

# axioms of the standard library that a property file may depend on (none is expected today)
ALLOWED_AXIOMS = {
    "functional_extensionality_dep", "FunctionalExtensionality.functional_extensionality_dep",
    "Eqdep.Eq_rect_eq.eq_rect_eq", "eq_rect_eq", "JMeq_eq", "JMeq.JMeq_eq",
    "proof_irrelevance", "ProofIrrelevance.proof_irrelevance", "classic", "Classical_Prop.classic",
}

TRUSTED_BASE = [
    "Coq 8.16.1 kernel (coqc; coqchk in the thorough tier); vm_compute used for closed computations; native_compute not used",
    "axioms: none declared by this development; Print Assumptions of every property theorem is checked against an allow-list on every run",
    "translator /verif/tools/gen_model.py (+ tools/genx_*.py): regex-level reading of /repo's Rust sources into coq/gen/Generated.v",
    "correspondence: /verif/harness (Rust, path-dependent on /repo, calls the real crates natively) prints inputs and the implementation's observations as Coq terms; Coq evaluates the model on them with vm_compute; the printers/canonicalisers are trusted for the correspondence only",
    "modelled rather than verified: the Gallina model is hand-written; cryptography, hashing and third-party codecs are abstract (see DESIGN.md section 5)",
]


def log(*a):
    print(*a, flush=True)


def sh(cmd, timeout=None, cwd=None, env=None, input=None):
    t0 = time.time()
    try:
        p = subprocess.run(cmd, shell=isinstance(cmd, str), cwd=cwd, env=env, input=input,
                           stdout=subprocess.PIPE, stderr=subprocess.STDOUT, timeout=timeout, text=True)
        return p.returncode, p.stdout, time.time() - t0
    except subprocess.TimeoutExpired as e:
        out = e.stdout if isinstance(e.stdout, str) else (e.stdout or b"").decode("utf-8", "replace")
        return 124, (out or "") + "\nTIMEOUT", time.time() - t0


class Lock:
    def __init__(self, name):
        os.makedirs(CACHE, exist_ok=True)
        self.path = os.path.join(CACHE, name + ".lock")

    def __enter__(self):
        self.f = open(self.path, "w")
        fcntl.flock(self.f, fcntl.LOCK_EX)
        return self

    def __exit__(self, *a):
        fcntl.flock(self.f, fcntl.LOCK_UN)
        self.f.close()


# ------------------------------------------------------------------------------------------------
# translator + Coq

def run_translator():
    rc, out, _ = sh([sys.executable, os.path.join(ROOT, "tools", "gen_model.py")], timeout=120)
    return rc == 0, out.strip()


def coq_closure(pid):
    """Source files (relative to coq/) that props/<pid>.v depends on, transitively, by their Require lines."""
    seen, todo = set(), ["props/%s.v" % pid]
    index = {}
    for rel in coq_sources():
        index[os.path.basename(rel)[:-2]] = rel
    while todo:
        rel = todo.pop()
        if rel in seen or not os.path.exists(os.path.join(COQ, rel)):
            continue
        seen.add(rel)
        src = re.sub(r"\(\*.*?\*\)", "", open(os.path.join(COQ, rel)).read(), flags=re.S)
        for m in re.finditer(r"(?:From\s+Aqua\s+)?Require\s+(?:Import\s+|Export\s+)?([^.]*)\.", src):
            for name in m.group(1).split():
                name = name.split(".")[-1]
                if name in index:
                    todo.append(index[name])
    return sorted(seen)


def failed_sections_for(pid):
    """Translator sections that failed in the last run and whose definitions the property's Coq files mention."""
    st = os.path.join(CACHE, "translator_status.json")
    try:
        failed = json.load(open(st)).get("failed_sections", [])
    except (OSError, ValueError):
        return []
    if not failed:
        return []
    text = ""
    for rel in coq_closure(pid):
        if not rel.startswith("gen/"):
            text += open(os.path.join(COQ, rel)).read() + "\n"
    hits = []
    for f in failed:
        if isinstance(f, list):
            f = {"section": f[0], "why": f[1], "defines": []}
        names = f.get("defines") or []
        used = [n for n in names if re.search(r"\b%s\b" % re.escape(n), text)]
        if used or not names:
            hits.append((f["section"], f["why"], used))
    return hits


def coq_sources():
    fs = []
    for d in ("gen", "model", "proofs", "props"):
        p = os.path.join(COQ, d)
        if os.path.isdir(p):
            for f in sorted(os.listdir(p)):
                if f.endswith(".v"):
                    fs.append(os.path.join(d, f))
    return fs


def ensure_makefile():
    srcs = coq_sources()
    stamp = os.path.join(COQ, ".srclist")
    want = "\n".join(srcs)
    have = open(stamp).read() if os.path.exists(stamp) else None
    if want != have or not os.path.exists(os.path.join(COQ, "Makefile")):
        rc, out, _ = sh(["coq_makefile", "-f", "_CoqProject", "-o", "Makefile"] + srcs, cwd=COQ, timeout=120)
        if rc != 0:
            raise RuntimeError("coq_makefile failed: " + out)
        with open(stamp, "w") as f:
            f.write(want)


def coq_make(targets, timeout=1500):
    """make the given .vo targets (relative to coq/). Returns (ok, log)."""
    with Lock("coq"):
        ensure_makefile()
        rc, out, dt = sh(["make", "-j%d" % NPROC, "-k"] + list(targets), cwd=COQ, timeout=timeout)
    return rc == 0, out


def coq_prop(pid, timeout=1500):
    """(Re)compile props/<pid>.v and return (ok, log, assumptions) where assumptions maps the
    position of each Print Assumptions to 'closed' or the list of axiom names."""
    target = "props/%s.vo" % pid
    with Lock("coq"):
        ensure_makefile()
        for ext in (".vo", ".glob", ".vos", ".vok"):
            try:
                os.remove(os.path.join(COQ, "props", pid + ext))
            except OSError:
                pass
        rc, out, dt = sh(["make", "-j%d" % NPROC, target], cwd=COQ, timeout=timeout)
    return rc == 0, out, parse_assumptions(out)


def parse_assumptions(out):
    res = []
    lines = out.split("\n")
    i = 0
    while i < len(lines):
        l = lines[i]
        if l.startswith("Closed under the global context"):
            res.append("closed")
        elif l.startswith("Axioms:"):
            ax = []
            i += 1
            while i < len(lines) and (lines[i].startswith(" ") or re.match(r"^[A-Za-z_][\w.']*\s*:", lines[i])):
                m = re.match(r"^([A-Za-z_][\w.']*)\s*:", lines[i])
                if m:
                    ax.append(m.group(1))
                i += 1
            res.append(ax)
            continue
        i += 1
    return res


def theorem_names(pid):
    """Names of Theorem/Lemma/Example statements in props/<pid>.v and of Print Assumptions lines."""
    p = os.path.join(COQ, "props", pid + ".v")
    src = open(p).read()
    src_nc = re.sub(r"\(\*.*?\*\)", "", src, flags=re.S)
    thms = re.findall(r"^\s*(?:Theorem|Lemma|Corollary)\s+([\w']+)", src_nc, flags=re.M)
    examples = re.findall(r"^\s*Example\s+([\w']+)", src_nc, flags=re.M)
    printed = re.findall(r"^\s*Print Assumptions\s+([\w'.]+)\s*\.", src_nc, flags=re.M)
    return thms, examples, printed, hashlib.sha256(src.encode()).hexdigest()


def forbidden_scan():
    hits = []
    for rel in coq_sources():
        if rel.startswith("gen/"):
            continue
        src = open(os.path.join(COQ, rel)).read()
        nc = re.sub(r"\(\*.*?\*\)", lambda m: " " * len(m.group(0)), src, flags=re.S)
        # Section-local Variable/Hypothesis are allowed: track section nesting line by line
        depth = 0
        for ln, line in enumerate(nc.split("\n"), 1):
            if re.match(r"^\s*(Section|Module Type)\s+\w+", line):
                depth += 1
            elif re.match(r"^\s*End\s+\w+\s*\.", line) and depth > 0:
                depth -= 1
            for m in FORBIDDEN.finditer(line):
                w = m.group(0)
                if w.split()[0] in ("Variable", "Variables", "Hypothesis", "Hypotheses") and depth > 0:
                    continue
                # words inside string literals are not commands
                if line[:m.start()].count('"') % 2 == 1:
                    continue
                hits.append("%s:%d: %s" % (rel, ln, w))
    return hits


def coqchk(pid, timeout=900):
    rc, out, dt = sh(["coqchk", "-silent", "-o", "-Q", ".", "Aqua", "Aqua.props.%s" % pid], cwd=COQ, timeout=timeout)
    return rc == 0, out


# ------------------------------------------------------------------------------------------------
# harness

def build_harness(bins=None, timeout=1800):
    """cargo build of the harness library and the given driver binaries (all when None)."""
    env = dict(os.environ)
    env["CARGO_NET_OFFLINE"] = "true"
    cmd = ["cargo", "build", "--offline"]
    for b in (bins or []):
        cmd += ["--bin", b]
    with Lock("cargo"):
        rc, out, dt = sh(cmd, cwd=HARNESS, env=env, timeout=timeout)
    return rc == 0, out


def harness_lines(cmd, lines, shards=NPROC, timeout=900, args=()):
    """Run the driver binary <cmd> over the JSON lines, split over processes; returns the output objects in
    input order (one per input line)."""
    if not lines:
        return []
    shards = max(1, min(shards, len(lines)))
    chunks = [lines[i::shards] for i in range(shards)]

    def work(chunk):
        p = subprocess.run([os.path.join(TARGET, "debug", cmd)] + list(args), input="\n".join(chunk) + "\n", stdout=subprocess.PIPE,
                           stderr=subprocess.PIPE, text=True, timeout=timeout)
        outs = [l for l in p.stdout.split("\n") if l.strip()]
        if len(outs) != len(chunk):
            raise RuntimeError("harness %s: %d inputs, %d outputs, rc=%s, stderr=%s" % (
                cmd, len(chunk), len(outs), p.returncode, p.stderr[-2000:]))
        return [json.loads(o) for o in outs]

    with concurrent.futures.ThreadPoolExecutor(shards) as ex:
        results = list(ex.map(work, chunks))
    out = [None] * len(lines)
    for s, res in enumerate(results):
        for j, r in enumerate(res):
            out[s + j * shards] = r
    return out


# ------------------------------------------------------------------------------------------------
# evaluation of the model inside Coq

def coq_eval_cases(tag, header, typ, checks, terms, shard_size=150, timeout=900):
    """terms: list of Coq terms of type `typ`. checks: dict name -> Coq function `typ -> bool`.
    Returns dict name -> sorted list of indices on which the function is false, plus logs.
    One .v file per shard under .cache/cases/<tag>/, each run by its own coqc (vm_compute)."""
    d = os.path.join(CACHE, "cases", tag)
    shutil.rmtree(d, ignore_errors=True)
    os.makedirs(d, exist_ok=True)
    shards = [terms[i:i + shard_size] for i in range(0, len(terms), shard_size)]
    names = list(checks.keys())

    def work(k):
        path = os.path.join(d, "cases_%d.v" % k)
        with open(path, "w") as f:
            f.write(header + "\n")
            f.write("Definition cases : list (%s) := [\n" % typ)
            f.write(";\n".join(shards[k]))
            f.write("\n].\n")
            for n in names:
                f.write('Eval vm_compute in (failing (%s) cases).\n' % checks[n])
        rc, out, dt = sh(["coqc", "-noglob", "-Q", COQ, "Aqua", "-w", "-notation-overridden", path], timeout=timeout, cwd=d)
        return rc, out

    res = {n: [] for n in names}
    errors = []
    with concurrent.futures.ThreadPoolExecutor(NPROC) as ex:
        outs = list(ex.map(work, range(len(shards))))
    for k, (rc, out) in enumerate(outs):
        if rc != 0:
            errors.append("shard %d: rc=%d: %s" % (k, rc, out[-1500:]))
            continue
        found = re.findall(r"=\s*\[(.*?)\]\s*:\s*list N", out, flags=re.S)
        if len(found) != len(names):
            errors.append("shard %d: cannot parse coqc output: %s" % (k, out[-800:]))
            continue
        for n, body in zip(names, found):
            for m in re.finditer(r"\d+", body):
                res[n].append(k * shard_size + int(m.group(0)))
    return res, errors


def coq_print(header, expr, timeout=300):
    """Evaluate one expression and return Coq's printed answer (for replay files)."""
    d = os.path.join(CACHE, "cases", "print")
    os.makedirs(d, exist_ok=True)
    path = os.path.join(d, "p_%d.v" % os.getpid())
    with open(path, "w") as f:
        f.write(header + "\nEval vm_compute in (%s).\n" % expr)
    rc, out, dt = sh(["coqc", "-noglob", "-Q", COQ, "Aqua", "-w", "-notation-overridden", path], timeout=timeout, cwd=d)
    return out.strip()


# ------------------------------------------------------------------------------------------------
# known findings, replays, evidence

def known_findings(pid):
    """Lines `known: property=Cxx key=<key> <text>` of /verif/known_findings.txt."""
    res = []
    p = os.path.join(ROOT, "known_findings.txt")
    if not os.path.exists(p):
        return res
    for line in open(p):
        line = line.strip()
        m = re.match(r"known:\s+property=(\w+)\s+key=(\S+)\s+(.*)", line)
        if m and m.group(1) == pid:
            res.append({"key": m.group(2), "text": m.group(3)})
    return res


def write_replay(pid, payload):
    d = os.path.join(ROOT, "replays")
    os.makedirs(d, exist_ok=True)
    body = json.dumps(payload, indent=1, sort_keys=True, default=str)
    h = hashlib.sha256(body.encode()).hexdigest()[:12]
    path = os.path.join(d, "%s-%s.json" % (pid, h))
    with open(path, "w") as f:
        f.write(body)
    return path


def repo_state():
    rc, head, _ = sh(["git", "-C", REPO, "rev-parse", "HEAD"], timeout=30)
    rc2, diff, _ = sh(["git", "-C", REPO, "diff", "HEAD"], timeout=60)
    return {"head": head.strip(), "dirty_diff_sha256": hashlib.sha256(diff.encode()).hexdigest() if diff.strip() else None}


def write_evidence(pid, tier, seed, coverage, assumptions, wall_s, violations, level="proof"):
    d = os.path.join(ROOT, "evidence")
    os.makedirs(d, exist_ok=True)
    ev = {
        "property_id": pid, "tier": tier, "seed": int(seed), "level": level,
        "coverage": coverage, "assumptions": assumptions, "wall_s": round(wall_s, 2), "violations": int(violations),
    }
    with open(os.path.join(d, pid + ".json"), "w") as f:
        json.dump(ev, f, indent=1, sort_keys=True, default=str)
    return ev


def rng_for(pid, seed):
    return random.Random("%s/%s" % (pid, seed))


def corpus_cases(pid):
    d = os.path.join(ROOT, "corpus", pid)
    out = []
    if os.path.isdir(d):
        for f in sorted(os.listdir(d)):
            if f.endswith(".json"):
                try:
                    j = json.load(open(os.path.join(d, f)))
                    out.append(j["case"] if isinstance(j, dict) and "case" in j else j)
                except Exception:
                    pass
    return out


if __name__ == "__main__":
    # small CLI used while developing (takes the same locks as ./check):
    #   python3 lib/vlib.py make model/Foo.vo proofs/FooProofs.vo     build Coq targets
    #   python3 lib/vlib.py harness foo                                build driver binary foo
    #   python3 lib/vlib.py gen                                        run the translator
    a = sys.argv[1:]
    if a and a[0] == "make":
        ok_, out_ = coq_make(a[1:])
        print(out_[-6000:])
        sys.exit(0 if ok_ else 1)
    elif a and a[0] == "harness":
        ok_, out_ = build_harness(a[1:])
        print(out_[-6000:])
        sys.exit(0 if ok_ else 1)
    elif a and a[0] == "gen":
        ok_, out_ = run_translator()
        print(out_)
        sys.exit(0 if ok_ else 1)
