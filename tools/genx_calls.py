"""Translator piece for C19 (calls run only where addressed; forwarding): the decisive source lines of

  air/src/execution_step/instructions/call/resolved_call.rs     (the `if` that chooses handle_remote_call)
  air/src/execution_step/instructions/call/call_result_setter.rs (handle_remote_call: push + state)
  air/src/execution_step/instructions/call/prev_result_handler.rs (the two RequestSentBy arms)
  air/src/execution_step/instructions/canon_utils/mod.rs          (handle_unseen_canon / handle_canon_request_sent_by)
  air/src/farewell_step/outcome.rs                                (dedup of the next peers)

as Coq constants.  model/CallSpec.v compares them with what the executor model does
([c19_source_agrees], theorem C19_source_tie): a changed comparison operator, a dropped push, a new
place that pushes a next peer or a removed dedup breaks the obligation."""
import os
import re

import gen_model
from gen_model import CMP, TranslationError, coq_list, coq_str, read, strip_comments

RESOLVED = "air/src/execution_step/instructions/call/resolved_call.rs"
SETTER = "air/src/execution_step/instructions/call/call_result_setter.rs"
PREV = "air/src/execution_step/instructions/call/prev_result_handler.rs"
CANON = "air/src/execution_step/instructions/canon_utils/mod.rs"
OUTCOME = "air/src/farewell_step/outcome.rs"


def fn_body(src, name, rel):
    """Text between the braces of `fn name`."""
    m = re.search(r"\bfn\s+" + re.escape(name) + r"\b", src)
    if not m:
        raise TranslationError("fn %s not found in %s" % (name, rel))
    i = src.index("{", _sig_end(src, m.end()))
    depth, j = 1, i + 1
    while j < len(src) and depth > 0:
        depth += {"{": 1, "}": -1}.get(src[j], 0)
        j += 1
    return src[i + 1:j - 1]


def _sig_end(src, i):
    # skip the parameter list (balanced parentheses) and the return type up to the body brace
    depth = 0
    while i < len(src):
        c = src[i]
        if c == "(":
            depth += 1
        elif c == ")":
            depth -= 1
            if depth == 0:
                return i
        i += 1
    raise TranslationError("unbalanced signature")


def norm(s):
    return re.sub(r"\s+", " ", s).strip()


def statements(block):
    """Top-level `;`-terminated statements of a block, whitespace-normalised, `let x = ` kept out."""
    out, depth, cur = [], 0, ""
    for c in block:
        if c in "({[":
            depth += 1
        elif c in ")}]":
            depth -= 1
        if c == ";" and depth == 0:
            out.append(norm(cur))
            cur = ""
        else:
            cur += c
    if norm(cur):
        out.append(norm(cur))
    return [s for s in out if s]


def strip_as_str(e):
    return re.sub(r"\.as_str\(\)", "", norm(e))


def guarded_block(body, pattern, what):
    """`if <lhs> <op> <rhs> { block }` whose condition matches `pattern`; returns (lhs, op, rhs, block, end offset)."""
    for m in re.finditer(r"\bif\s+([^{}]+?)\s*(==|!=)\s*([^{}]+?)\s*\{", body):
        cond = m.group(0)
        if not re.search(pattern, cond):
            continue
        i = m.end()
        depth, j = 1, i
        while j < len(body) and depth > 0:
            depth += {"{": 1, "}": -1}.get(body[j], 0)
            j += 1
        return strip_as_str(m.group(1)), m.group(2), strip_as_str(m.group(3)), body[i:j - 1], j
    raise TranslationError("C19: %s not found" % what)


def call_guard():
    src = strip_comments(read(RESOLVED))
    body = fn_body(src, "execute", RESOLVED)
    # `let tetraplet = &self.tetraplet;` names the resolved triplet
    if not re.search(r"let\s+tetraplet\s*=\s*&self\.tetraplet\s*;", body):
        raise TranslationError("C19: resolved_call.rs::execute no longer binds `tetraplet = &self.tetraplet`")
    lhs, op, rhs, block, end = guarded_block(body, r"current_peer_id", "the current-peer comparison of ResolvedCall::execute")
    stmts = statements(block)
    ins = body.find("exec_ctx.call_requests.insert(")
    if ins < 0:
        raise TranslationError("C19: call_requests.insert not found in ResolvedCall::execute")
    if len(re.findall(r"call_requests\.insert\(", src)) != 1:
        raise TranslationError("C19: more than one call_requests.insert in resolved_call.rs")
    # should_execute test precedes the guard
    se = body.find("if !state.should_execute()")
    if se < 0 or se > body.find("current_peer_id"):
        raise TranslationError("C19: `if !state.should_execute()` does not precede the current-peer comparison")
    return (lhs, op, rhs), stmts, ins > end


def handle_remote_call():
    src = strip_comments(read(SETTER))
    body = fn_body(src, "handle_remote_call", SETTER)
    if re.search(r"\bif\b|\bmatch\b|\breturn\b", body):
        raise TranslationError("C19: handle_remote_call is no longer straight-line code")
    out = []
    for s in statements(body):
        s = re.sub(r"^let\s+\w+\s*=\s*", "", s)
        out.append(s)
    return out


def prev_state():
    src = strip_comments(read(PREV))
    body = fn_body(src, "handle_prev_state", PREV)
    m = re.search(r"RequestSentBy\(Sender::PeerIdWithCallId\s*\{\s*ref\s+peer_id\s*,\s*call_id\s*\}\)\s*if\s+(.+?)\s*(==|!=)\s*(.+?)\s*=>", body, flags=re.S)
    if not m:
        raise TranslationError("C19: the PeerIdWithCallId arm of handle_prev_state not recognised")
    own = (strip_as_str(m.group(1)), m.group(2), strip_as_str(m.group(3)))
    rest = body[m.end():]
    m2 = re.search(r"RequestSentBy\(\.\.\)\s*=>\s*\{", rest)
    if not m2:
        raise TranslationError("C19: the RequestSentBy(..) arm of handle_prev_state not recognised")
    arm = rest[m2.end():]
    m3 = re.search(r"let\s+is_current_peer\s*=\s*(.+?)\s*(==|!=)\s*(.+?)\s*;", arm, flags=re.S)
    if not m3:
        raise TranslationError("C19: is_current_peer not recognised")
    cur = (strip_as_str(m3.group(1)), m3.group(2), strip_as_str(m3.group(3)))
    m4 = re.search(r"if\s+is_current_peer\s*\{\s*return\s+Ok\(StateDescriptor::(\w+)\(", arm)
    m5 = re.search(r"Ok\(StateDescriptor::(\w+)\(met_result\.result\)\)\s*\}", arm[m4.end():] if m4 else "")
    if not m4 or not m5:
        raise TranslationError("C19: the outcomes of the RequestSentBy(..) arm not recognised")
    if "next_peer_pks" in body:
        raise TranslationError("C19: handle_prev_state touches next_peer_pks")
    return own, cur, [m4.group(1), m5.group(1)]


def canon():
    src = strip_comments(read(CANON))
    b1 = fn_body(src, "handle_unseen_canon", CANON)
    lhs, op, rhs, block, _ = guarded_block(b1, r"current_peer_id", "the current-peer comparison of handle_unseen_canon")
    stmts = [re.sub(r"^let\s+\w+\s*=\s*", "", s) for s in statements(block)]
    b2 = fn_body(src, "handle_canon_request_sent_by", CANON)
    lhs2, op2, rhs2, block2, _ = guarded_block(b2, r"current_peer_id", "the current-peer comparison of handle_canon_request_sent_by")
    if "next_peer_pks" in block2:
        raise TranslationError("C19: handle_canon_request_sent_by pushes a next peer")
    return (lhs, op, rhs), stmts, (lhs2, op2, rhs2)


def push_sites():
    sites = []
    root = os.path.join(gen_model.REPO, "air/src")
    for dp, dn, fn in sorted(os.walk(root)):
        dn.sort()
        for f in sorted(fn):
            if not f.endswith(".rs"):
                continue
            rel = os.path.relpath(os.path.join(dp, f), gen_model.REPO)
            src = strip_comments(read(rel))
            for m in re.finditer(r"next_peer_pks\s*\.\s*(push|extend|insert|append)\s*\(\s*([^)]*)\)", src):
                sites.append((rel, norm(m.group(2))))
            # any other mutable use (assignment, &mut) would be a new way to change the list
            for m in re.finditer(r"(&mut\s+\w+\.next_peer_pks|\.next_peer_pks\s*=[^=])", src):
                sites.append((rel, "<" + norm(m.group(0)) + ">"))
    return sites


def outcome():
    src = strip_comments(read(OUTCOME))
    body = fn_body(src, "populate_outcome_from_contexts", OUTCOME)
    m = re.search(r"let\s+next_peer_pks\s*=\s*(.+?);", body)
    if not m:
        raise TranslationError("C19: next_peer_pks of the outcome not recognised")
    if not re.search(r"InterpreterOutcome::new\(\s*ret_code,\s*error_message,\s*data,\s*next_peer_pks,", body):
        raise TranslationError("C19: the outcome is not built from the deduplicated next_peer_pks")
    d = fn_body(src, "dedup", OUTCOME)
    return norm(m.group(1)), statements(d)


def guard_term(g):
    return "(%s, %s, %s)" % (coq_str(g[0]), CMP[g[1]], coq_str(g[2]))


def generate():
    lines = ["(* --- tools/genx_calls.py: call routing and forwarding (C19) --- *)"]
    g, block, after = call_guard()
    lines.append("Definition c19_call_remote_guard : string * cmp_op * string := %s." % guard_term(g))
    lines.append("Definition c19_call_remote_block : list string := %s." % coq_list([coq_str(s) for s in block]))
    lines.append("Definition c19_request_insert_after_guard : bool := %s." % ("true" if after else "false"))
    lines.append("Definition c19_handle_remote_call : list string := %s." % coq_list([coq_str(s) for s in handle_remote_call()]))
    own, cur, arms = prev_state()
    lines.append("Definition c19_prev_own_request_guard : string * cmp_op * string := %s." % guard_term(own))
    lines.append("Definition c19_prev_sent_is_current_peer : string * cmp_op * string := %s." % guard_term(cur))
    lines.append("Definition c19_prev_sent_arms : list string := %s." % coq_list([coq_str(s) for s in arms]))
    cg, cblock, cg2 = canon()
    lines.append("Definition c19_canon_unseen_guard : string * cmp_op * string := %s." % guard_term(cg))
    lines.append("Definition c19_canon_unseen_block : list string := %s." % coq_list([coq_str(s) for s in cblock]))
    lines.append("Definition c19_canon_sent_guard : string * cmp_op * string := %s." % guard_term(cg2))
    lines.append("Definition c19_next_peer_push_sites : list (string * string) := %s." %
                 coq_list(["(%s, %s)" % (coq_str(a), coq_str(b)) for a, b in push_sites()]))
    o, d = outcome()
    lines.append("Definition c19_outcome_next_peers : string := %s." % coq_str(o))
    lines.append("Definition c19_dedup_body : list string := %s." % coq_list([coq_str(s) for s in d]))
    lines.append("")
    return lines


if __name__ == "__main__":
    print("\n".join(generate()))
