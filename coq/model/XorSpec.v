(* XorSpec.v -- statements of property C18 ("xor catches exactly the catchable failures and reports
   them faithfully") over the executor model Exec.v / RunExec.v.

   Mirrors: air/src/execution_step/instructions/xor.rs (Xor::execute), instructions/mod.rs
   (execute! macro = Exec.wrap_errors), execution_context/context.rs (set_errors =
   Exec.ctx_set_errors), instruction_error/error_descriptor.rs (ErrorDescriptor),
   instruction_error/last_error_descriptor.rs, instructions/fail.rs, farewell_step/outcome.rs
   (from_execution_error).
   Definitions (functions and [_stmt : Prop]) only; proofs are in proofs/XorProofs.v. *)
From Aqua Require Import Base Json Air Trace Handler Values Scalars Lens Exec RunExec.
Open Scope N_scope.
Open Scope list_scope.

(* ------------------------------------------------------------------------------------------ *)
(* the bookkeeping of Xor::execute around its two branches *)

(* ErrorDescriptor::disable_error_setting *)
Definition disable_error (x : ctx) : ctx := set_error x (x_error x) false.

(* xor.rs, Err(e) if e.is_catchable() arm, up to the call of the right branch:
   flush_subgraph_completeness; last_error_descriptor.meet_xor_right_branch;
   error_descriptor.set_original_execution_error(&e); error_descriptor.enable_error_setting *)
Definition xor_right_entry (c : catchable) (x1 : ctx) : ctx :=
  let x2 := flush_complete x1 in
  let x3 := set_last_error x2 (x_last_error x2) true in
  let ie := x_error x3 in
  set_error x3 {| ie_error := ie_error ie; ie_tetraplet := ie_tetraplet ie; ie_prov := ie_prov ie; ie_orig := Some c |} true.

(* ErrorDescriptor::clear_error_object_if_needed *)
Definition clear_error_if_needed (y : ctx) : ctx := if x_error_can_set y then set_error y no_error true else y.

(* xor.rs, after the right branch: clear_error_object_if_needed; if ok then enable_error_setting *)
Definition xor_after_right (r : xres) : xres :=
  match r with
  | XOk y => let y1 := clear_error_if_needed y in XOk (set_error y1 (x_error y1) true)
  | XErr e y => XErr e (clear_error_if_needed y)
  | XCrash s => XCrash s
  | XFuel => XFuel
  | XUnsupported w => XUnsupported w
  end.

(* an error object "carries" the code and the message of the catchable error c: it is what
   get_instruction_error_from_exec_error builds from c (error.to_error_code(), error.to_string()),
   for some instruction text and optional peer id *)
Definition carries (ie : instr_error) (c : catchable) : Prop :=
  exists (instruction : string) (peer : option string),
    ie_error ie = error_object (catchable_code c) (err_message (ECatch c)) instruction peer.

(* decidable rendering, used by the case files and the examples *)
Definition carries_b (ie : instr_error) (c : catchable) : bool :=
  match ie_error ie with
  | JObj kvs =>
      match obj_get "error_code" kvs, obj_get "message" kvs with
      | Some (JInt z), Some (JStr m) => (z =? catchable_code c)%Z && String.eqb m (err_message (ECatch c))
      | _, _ => false
      end
  | _ => false
  end.

(* ------------------------------------------------------------------------------------------ *)
(* the hypothesis under which the error object is the one of THIS failure: no instruction that
   SWALLOWS a catchable error inside the failing branch.  Two instructions do: par (a branch that
   fails catchably is recorded and the other branch / the continuation runs) and the fold over a
   stream (stream_execute_helpers.rs throw_error_if_not_catchable: a catchable error of an iteration
   is dropped).  Both leave ErrorDescriptor.error_can_be_set = false for everything that follows:
   nothing but an xor catching an error re-enables it -- finding "stale-error-after-swallow". *)

Definition opt_swallow_free (pf : instr -> bool) (l : option instr) : bool :=
  match l with Some i => pf i | None => true end.

Fixpoint swallow_free (i : instr) : bool :=
  match i with
  | IPar _ _ => false
  | IFoldStream _ _ _ _ _ _ | IFoldStreamMap _ _ _ _ _ _ => false
  | ISeq a b | IXor a b => swallow_free a && swallow_free b
  | IMatch _ _ _ b | IMisMatch _ _ _ b | INew _ _ b _ => swallow_free b
  | IFoldScalar _ _ _ b l _ => swallow_free b && opt_swallow_free swallow_free l
  | _ => true
  end.

Definition fs_swallow_free (fs : fold_state) : bool := swallow_free (fs_body fs) && opt_swallow_free swallow_free (fs_last fs).
(* the bodies of the folds under way (re-entered by `next`) *)
Definition iters_swallow_free (x : ctx) : bool := forallb (fun p => fs_swallow_free (snd p)) (x_iterables x).

(* :error: is in a state from which `fail :error:` re-raises what it shows: either it is not an
   error object (initial / cleared: no_error), or it is marked with the catchable it was built from *)
Definition err_ok (x : ctx) : Prop :=
  match ie_orig (x_error x) with
  | Some o => carries (x_error x) o
  | None => check_error_object (ie_error (x_error x)) = false
  end.

Definition good_ctx (x : ctx) : Prop :=
  x_error_can_set x = true /\ err_ok x /\ iters_swallow_free x = true.

(* what a faithful executor returns when started in a good context *)
Definition res_ok (r : xres) : Prop :=
  match r with
  | XOk y => good_ctx y
  | XErr (ECatch c) y => x_error_can_set y = false /\ carries (x_error y) c /\ iters_swallow_free y = true
  | _ => True
  end.

Definition faithful_run (run : instr -> ctx -> xres) : Prop :=
  forall i x, swallow_free i = true -> good_ctx x -> res_ok (run i x).

(* the same, for an instruction body BEFORE the execute! wrapper has been applied to it *)
Definition body_ok (r : xres) : Prop :=
  match r with
  | XOk y => good_ctx y
  | XErr (ECatch c) y => (x_error_can_set y = true \/ carries (x_error y) c) /\ iters_swallow_free y = true
  | _ => True
  end.

(* ------------------------------------------------------------------------------------------ *)
Section Spec.
  (* the stream instructions (stage 2 of the executor model) *)
  Variable esi : (instr -> ctx -> xres) -> instr -> ctx -> option xres.
  Variable finish : ctx -> ctx + uncatchable.

  Notation exec := (Exec.exec esi).

  (* hypothesis on the stream instructions for C18_faithful: given a faithful executor for their
     sub-instructions, their own bodies are faithful *)
  Definition esi_faithful : Prop :=
    forall run, faithful_run run ->
    forall i x r, swallow_free i = true -> good_ctx x -> esi run i x = Some r -> body_ok r.

  (* hypothesis on the stream instructions for C18_uncatchable_never_caught is not needed: the
     propagation statements below are about the instructions of Exec.v themselves *)

  (* ---------------------------------------------------------------------------------------- *)
  (* 1. which branch runs *)

  Definition C18_catch_stmt : Prop :=
    forall (fuel : nat) (l r : instr) (x : ctx),
      match exec fuel l (flush_complete x) with
      | XErr (ECatch c) x1 =>
          (* catchable failure: the right branch runs from [xor_right_entry c x1]; afterwards :error: is
             cleared unless an error is bubbling, and the execute! wrapper is applied *)
          exec (S fuel) (IXor l r) x =
            wrap_errors (xor_after_right (exec fuel r (xor_right_entry c x1))) "xor" false
      | XErr (EUncatch u) x1 =>
          (* uncatchable: never caught; whatever the right branch is, it does not run; the only
             bookkeeping is disable_error_setting of the wrapper *)
          forall r', exec (S fuel) (IXor l r') x = XErr (EUncatch u) (disable_error x1)
      | other =>
          (* success -- complete or waiting (XOk with x_complete = false) --, crash, out of fuel,
             unsupported: the result is the left branch's, whatever the right branch is *)
          forall r', exec (S fuel) (IXor l r') x = other
      end.

  (* what the right branch sees: :error: is the object left by the failing instruction (marked
     with the original catchable), %last_error% is as the left branch left it, both descriptors
     can be set again, the subgraph is complete, everything else is the left branch's context *)
  Definition C18_right_entry_stmt : Prop :=
    forall (c : catchable) (x1 : ctx),
      let x4 := xor_right_entry c x1 in
      ie_error (x_error x4) = ie_error (x_error x1) /\
      ie_tetraplet (x_error x4) = ie_tetraplet (x_error x1) /\
      ie_prov (x_error x4) = ie_prov (x_error x1) /\
      ie_orig (x_error x4) = Some c /\
      x_last_error x4 = x_last_error x1 /\
      x_error_can_set x4 = true /\ x_last_error_can_set x4 = true /\ x_complete x4 = true /\
      x_params x4 = x_params x1 /\ x_scalars x4 = x_scalars x1 /\ x_canons x4 = x_canons x1 /\
      x_iterables x4 = x_iterables x1 /\ x_next_peers x4 = x_next_peers x1 /\ x_lcid x4 = x_lcid x1 /\
      x_call_results x4 = x_call_results x1 /\ x_requests x4 = x_requests x1 /\ x_cids x4 = x_cids x1 /\
      x_tracker x4 = x_tracker x1 /\ x_fold_counter x4 = x_fold_counter x1 /\ x_ext x4 = x_ext x1 /\ x_handler x4 = x_handler x1 /\
      (* and `:error:` as an argument resolves to exactly that object *)
      (exists tets, resolve_value x4 (VError None) = POk (ie_error (x_error x1), tets, ie_prov (x_error x1))) /\
      (exists tets, resolve_value x4 (VLastError None) = POk (ie_error (x_last_error x1), tets, ie_prov (x_last_error x1))).

  (* ---------------------------------------------------------------------------------------- *)
  (* 2. the error object is the one of this failure *)

  Definition C18_faithful_stmt : Prop :=
    esi_faithful -> forall fuel, faithful_run (exec fuel).

  (* ... at an xor: *)
  Definition C18_faithful_xor_stmt : Prop :=
    esi_faithful ->
    forall (fuel : nat) (l : instr) (x : ctx) (c : catchable) (x1 : ctx),
      swallow_free l = true -> good_ctx x ->
      exec fuel l (flush_complete x) = XErr (ECatch c) x1 ->
      let x4 := xor_right_entry c x1 in
      carries (x_error x4) c /\
      (exists instruction peer tets,
          resolve_value x4 (VError None) =
          POk (error_object (catchable_code c) (err_message (ECatch c)) instruction peer, tets, ie_prov (x_error x1))) /\
      (exists kvs, ie_error (x_error x4) = JObj kvs /\
                   obj_get "error_code" kvs = Some (JInt (catchable_code c)) /\
                   obj_get "message" kvs = Some (JStr (err_message (ECatch c)))).

  (* a run starts in a good context, and successful par-free execution keeps it good *)
  Definition C18_good_ctx_initial_stmt : Prop := forall inp, good_ctx (initial_ctx inp).

  (* the unrestricted readings, both REFUTED by the model and by the code (finding
     "stale-error-after-swallow"):
     (a) any left branch, from a good context *)
  Definition C18_faithful_full : Prop :=
    forall (fuel : nat) (l : instr) (x : ctx) (c : catchable) (x1 : ctx),
      good_ctx x ->
      exec fuel l (flush_complete x) = XErr (ECatch c) x1 ->
      carries (x_error (xor_right_entry c x1)) c.
  (* (b) a swallow-free left branch, in any context reached by successfully executing a prefix
         [pre] of a script from the initial context of a run *)
  Definition C18_faithful_any_entry_full : Prop :=
    forall (fuel : nat) (inp : run_input) (pre l : instr) (x : ctx) (c : catchable) (x1 : ctx),
      exec fuel pre (initial_ctx inp) = XOk x ->
      swallow_free l = true ->
      exec fuel l (flush_complete x) = XErr (ECatch c) x1 ->
      carries (x_error (xor_right_entry c x1)) c.

  (* ---------------------------------------------------------------------------------------- *)
  (* 3. the uncaught twin: farewell_step/outcome.rs from_execution_error reports
        error.to_error_code() and error.to_string() of the error the execution ended with *)

  Definition run_error_message (fuel : nat) (inp : run_input) : string :=
    match exec fuel (ri_script inp) (initial_ctx inp) with
    | XErr e _ => err_message e
    | _ => ""
    end.

  Definition C18_uncaught_twin_stmt : Prop :=
    forall (fuel : nat) (inp : run_input) (c : catchable) (x : ctx),
      exec fuel (ri_script inp) (initial_ctx inp) = XErr (ECatch c) x ->
      run_error_message fuel inp = err_message (ECatch c) /\
      match run esi finish fuel inp with
      | OutNewData code _ _ _ _ => code = catchable_code c
      | OutPrevData code => exists u, finish x = inr u /\ code = uncatchable_code u   (* compaction failed afterwards *)
      | _ => False
      end.

  (* caught and uncaught side by side: the object a catch branch sees for a failure [c] has the
     code and message fields a run ending with the same [c] reports *)
  Definition C18_object_equals_twin_stmt : Prop :=
    forall (ie : instr_error) (c : catchable), carries ie c ->
    forall (fuel : nat) (inp : run_input) (x : ctx),
      exec fuel (ri_script inp) (initial_ctx inp) = XErr (ECatch c) x ->
      exists kvs, ie_error ie = JObj kvs /\
        obj_get "message" kvs = Some (JStr (run_error_message fuel inp)) /\
        forall code d nx rq sg, run esi finish fuel inp = OutNewData code d nx rq sg ->
                                obj_get "error_code" kvs = Some (JInt code).

  (* ---------------------------------------------------------------------------------------- *)
  (* 4. propagation: errors go through seq, new, match/mismatch, fold, next unchanged (only the
        wrapper's bookkeeping touches the context); uncatchable errors also go through xor and par *)

  Definition par_sub_complete (s : instr) : bool := match s with INext _ _ => false | _ => true end.   (* determine_subgraph_complete *)
  Definition err_through (e : exec_err) (y : ctx) (text : string) : xres :=
    XErr e (ctx_set_errors y e text None false).

  Definition C18_propagation_stmt : Prop :=
    forall (fuel : nat) (e : exec_err) (y : ctx),
      (* seq, first and second instruction *)
      (forall a b x, exec fuel a (flush_complete x) = XErr e y ->
                     exec (S fuel) (ISeq a b) x = err_through e y "seq") /\
      (forall a b x x1, exec fuel a (flush_complete x) = XOk x1 -> x_complete x1 = true -> exec fuel b x1 = XErr e y ->
                     exec (S fuel) (ISeq a b) x = err_through e y "seq") /\
      (* match / mismatch bodies *)
      (forall t lv rv b x eq, (dop l' <- resolve_value x lv; dop r' <- resolve_value x rv;
                               POk (json_values_equal (fst (fst l')) (fst (fst r')))) = POk eq ->
                     exec fuel b x = XErr e y ->
                     (eq = true -> exec (S fuel) (IMatch t lv rv b) x = err_through e y t) /\
                     (eq = false -> exec (S fuel) (IMisMatch t lv rv b) x = err_through e y t)) /\
      (* new (scalar) *)
      (forall t v b sp x, exec fuel b (set_scalars x (Scalars.meet_new_start vagg (x_scalars x) (v_name v))) = XErr e y ->
                     exists y', exec (S fuel) (INew t (NScalar v) b sp) x = err_through e y' t) /\
      (* fold over a scalar: an error of the body *)
      (forall t it iter b last sp x itb, create_fold_iterable x it = POk (FoldOver itb) ->
                     let x1 := all_fold_start x in
                     iter_get (x_iterables x1) (v_name iter) = None ->
                     exec fuel b (set_iterables x1 (iter_put (x_iterables x1) (v_name iter)
                              {| fs_iterable := itb; fs_type := IterScalar; fs_body := b; fs_last := last; fs_back_started := false |})) = XErr e y ->
                     exists y', exec (S fuel) (IFoldScalar t it iter b last sp) x = err_through e y' t).

  Definition C18_uncatchable_never_caught_stmt : Prop :=
    forall (fuel : nat) (u : uncatchable) (y : ctx),
      (* xor: from the left branch (the right one does not run) *)
      (forall l r x, exec fuel l (flush_complete x) = XErr (EUncatch u) y ->
                     exec (S fuel) (IXor l r) x = XErr (EUncatch u) (disable_error y)) /\
      (* xor: from the right branch, after a catch *)
      (forall l r x c x1, exec fuel l (flush_complete x) = XErr (ECatch c) x1 ->
                     exec fuel r (xor_right_entry c x1) = XErr (EUncatch u) y ->
                     exec (S fuel) (IXor l r) x = XErr (EUncatch u) (disable_error (clear_error_if_needed y))) /\
      (* par: from the left branch (the right one does not run) *)
      (forall a b x h1, meet_par_start cid (x_handler x) = Ok h1 ->
                     exec fuel a (set_complete (set_handler x h1) (par_sub_complete a)) = XErr (EUncatch u) y ->
                     exec (S fuel) (IPar a b) x = XErr (EUncatch u) (disable_error (make_incomplete y))) /\
      (* par: from the right branch, after a successful left one *)
      (forall a b x h1 y1 h2, meet_par_start cid (x_handler x) = Ok h1 ->
                     exec fuel a (set_complete (set_handler x h1) (par_sub_complete a)) = XOk y1 ->
                     meet_par_subgraph_end cid (x_handler y1) SLeft = Ok h2 ->
                     exec fuel b (set_complete (set_handler y1 h2) (par_sub_complete b)) = XErr (EUncatch u) y ->
                     exec (S fuel) (IPar a b) x = XErr (EUncatch u) (disable_error (make_incomplete y))) /\
      (* par: from the right branch, after a left one that failed catchably *)
      (forall a b x h1 c y1 h2, meet_par_start cid (x_handler x) = Ok h1 ->
                     exec fuel a (set_complete (set_handler x h1) (par_sub_complete a)) = XErr (ECatch c) y1 ->
                     meet_par_subgraph_end cid (x_handler (make_incomplete y1)) SLeft = Ok h2 ->
                     exec fuel b (set_complete (set_handler (make_incomplete y1) h2) (par_sub_complete b)) = XErr (EUncatch u) y ->
                     exec (S fuel) (IPar a b) x = XErr (EUncatch u) (disable_error (make_incomplete y))) /\
      (* the wrapper never converts: an uncatchable error leaves both error objects untouched *)
      (forall x text lp, x_error (ctx_set_errors x (EUncatch u) text None lp) = x_error x /\
                         x_last_error (ctx_set_errors x (EUncatch u) text None lp) = x_last_error x) /\
      (* and a run that ends with it returns the previous data with the uncatchable's code *)
      (forall inp, exec fuel (ri_script inp) (initial_ctx inp) = XErr (EUncatch u) y ->
                   run esi finish fuel inp = OutPrevData (uncatchable_code u)).
End Spec.

(* ------------------------------------------------------------------------------------------ *)
(* 5. source tie: what the model assumes about the decisive lines of the Rust sources, against what
      tools/genx_xor.py reads from /repo on every run (gen/Generated.v, names c18_...) *)

Definition json_keys (j : json) : list string := match j with JObj kvs => map fst kvs | _ => [] end.
Definition subset_s (a b : list string) : bool := forallb (fun x => existsb (String.eqb x) b) a.
Definition same_set_s (a b : list string) : bool := subset_s a b && subset_s b a && (length a =? length b)%nat.
Definition all_catchables : list catchable :=
  [CLocalServiceError 0 ""; CMatchValuesNotEqual; CMismatchValuesEqual; CVariableNotFound ""; CIncompatibleJValueType;
   CFoldIteratesOverNonArray JNull ""; CUserError JNull; CLambdaApplierError (ValueNotContainSuchField JNull "");
   CInvalidErrorObjectError; CVariableWasNotInitializedAfterNew ""; CLengthFunctorAppliedToNotArray JNull;
   CNonStringValueInTripletResolution "" JNull; CStreamMapError].

Definition C18_source_tie_stmt : Prop :=
  (* xor.rs: completeness is flushed, then the left branch is matched; the first arm is guarded by
     is_catchable, does the bookkeeping of [xor_right_entry], runs the right branch -- the only place it is
     run --, then [xor_after_right]; every other result is returned unchanged *)
  c18_xor_before_left = ["flush_subgraph_completeness"] /\
  c18_xor_catch_guard = "is_catchable" /\
  c18_xor_catch_arm = ["flush_subgraph_completeness"; "meet_xor_right_branch"; "set_original_execution_error";
                       "enable_error_setting"; "execute_right"; "clear_error_object_if_needed";
                       "enable_error_setting_if_ok"; "return:right_subgraph_result"] /\
  c18_xor_other_arms = ["res => res"] /\
  c18_xor_right_executions = (1, 1) /\
  (* execution_errors.rs: is_catchable = matches!(self, Catchable(_)); affects_error likewise *)
  c18_is_catchable_variants = ["Catchable"] /\
  c18_affects_error_arms = (["Catchable"], ["Uncatchable"]) /\
  c18_catchable_affects_error = "true" /\
  (* catchable_errors.rs: affects_last_error of the model = not one of the listed variants, for every variant *)
  forallb (fun c => Bool.eqb (affects_last_error (ECatch c))
                             (negb (existsb (String.eqb (catchable_name c)) c18_not_affecting_last_error))) all_catchables = true /\
  same_set_s (map catchable_name all_catchables) catchable_error_variants = true /\
  (* mod.rs: the execute! wrapper (Exec.wrap_errors) around every instruction but call *)
  c18_execute_macro_is_standard = true /\
  c18_execute_macro_unwrapped = ["Call"] /\
  same_set_s c18_execute_macro_wrapped
             ["Canon"; "CanonMap"; "CanonStreamMapScalar"; "Ap"; "ApMap"; "Fail"; "FoldScalar"; "FoldStream"; "FoldStreamMap";
              "Never"; "New"; "Next"; "Null"; "Par"; "Seq"; "Xor"; "Match"; "MisMatch"] = true /\
  (* context.rs set_errors (Exec.ctx_set_errors): %last_error%, then :error:, then disable *)
  c18_set_errors_sequence = ["last_error_descriptor.try_to_set_last_error_from_exec_error";
                             "error_descriptor.try_to_set_error_from_exec_error";
                             "error_descriptor.disable_error_setting"] /\
  c18_set_errors_peer_rule_is_standard = true /\
  c18_error_descriptor_is_standard = (true, true, true) /\
  (* the error object and the run's outcome are computed by the same two functions of the error *)
  c18_error_object_from = ["error.to_error_code()"; "&error.to_string()"] /\
  c18_run_outcome_from = ["error.to_error_code()"; "error.to_string()"] /\
  (* field names and the no-error object *)
  same_set_s (json_keys (error_object 0 "" "" (Some ""%string))) c18_error_object_fields_w_peerid = true /\
  same_set_s (json_keys (error_object 0 "" "" None)) c18_error_object_fields = true /\
  same_set_s (json_keys no_error_object) c18_no_error_object_fields = true /\
  no_error_object = JObj [("error_code"%string, JInt c18_no_error_code); ("message"%string, JStr c18_no_error_message)] /\
  (* the instructions that turn a catchable error into success are xor (catch), par and the fold over
     streams: the two that [swallow_free] excludes; only xor re-enables :error: *)
  c18_is_catchable_guard_sites = ["fold_stream/stream_execute_helpers.rs"; "par.rs"; "xor.rs"] /\
  c18_enable_error_setting_sites = ["xor.rs"] /\
  (* the code ranges the oracle relies on *)
  catchable_errors_start_id = 10000%Z /\ uncatchable_errors_start_id = 20000%Z /\ farewell_errors_start_id = 30000%Z.
