(* props/C22.v -- size limits are enforced exactly as configured.
   Only pinned statements, [exact], non-vacuity examples and Print Assumptions. *)
From Aqua Require Import Base RunTop RunTopProofs.
Open Scope N_scope.

(* the whole property, for every stage behaviour and every executor ([X], the fields of [world]) *)
Theorem C22 : forall X : Type, C22_full X.
Proof. exact C22_holds. Qed.

(* the model's three comparisons, its flag/ordering discipline and the list of places that read a
   limit are the ones found in /repo's sources today *)
Theorem C22_source_tie : limit_tables_agree = true /\ prep_table_agrees = true.
Proof. exact (conj limit_tables_ok prep_table_ok). Qed.

(* non-vacuity: a well-formed world on which hard mode rejects, and one on which soft mode flags *)
Definition C22_example_world : world nat :=
  {| w_air_len := 10; w_cur_len := 20; w_prev_empty := true; w_prev_env := ROk tt;
     w_cur_env := ROk min_as_version; w_prev_inner := ROk tt; w_cur_inner := ROk tt;
     w_verify := ROk tt; w_parse_air := ROk tt; w_call_results := ROk [5; 7];
     w_keypair := ROk tt; w_rest := 42%nat |}.
Example C22_nonvacuous :
  wf_world nat C22_example_world = true /\
  execute_air nat {| l_air := 10; l_particle := 20; l_result := 6; l_hard := true |} C22_example_world
    = Failed SizeLimitsExceded (Some SzCallResult) {| f_air := false; f_particle := false; f_result := true |} /\
  execute_air nat {| l_air := 9; l_particle := 20; l_result := 7; l_hard := false |} C22_example_world
    = Rest 42%nat {| f_air := true; f_particle := false; f_result := false |}.
Proof. vm_compute. repeat split. Qed.

Print Assumptions C22.
Print Assumptions C22_source_tie.
