(* CidCases.v -- executable comparison functions for the generated case files of C25:
   model/Cid.v against the real air_interpreter_cid ([check_case]) and the property itself
   evaluated on the implementation's observations only ([c25_oracle]).
   The outside-world functions of the model get, per case, the answers the harness collected:
   [parse_cid] is what the `cid` crate said about the id text, [sha256]/[blake3] are the digests the
   reference crates (sha2, blake3) computed for the value's canonical bytes. *)
From Aqua Require Import Base Json Cid.
Open Scope list_scope.
Open Scope N_scope.

Definition hexval (a : ascii) : N :=
  let n := N_of_ascii a in
  if (48 <=? n) && (n <=? 57) then n - 48
  else if (97 <=? n) && (n <=? 102) then n - 87
  else if (65 <=? n) && (n <=? 70) then n - 55
  else 0.
Fixpoint unhex (s : string) : list N :=
  match s with
  | String a (String b r) => (16 * hexval a + hexval b) :: unhex r
  | _ => []
  end.

(* the error variant the real verify returned *)
Inductive real_verify := RvOk | RvMalformed | RvCodec (c : N) | RvHashCode (h : N) | RvMismatch | RvInvalidJson.

Inductive case_t :=
| CVerify (raw : bool)                       (* verify_raw_value on the canonical text / verify_value on the value *)
          (cid : string)                     (* the id text handed to verify *)
          (parsed : option parsed_cid)       (* cid::Cid::from_str of that text *)
          (sha blake : list N)               (* reference digests of the value's canonical bytes *)
          (obs : real_verify)
| CIds (ids : list string)                   (* ids of ONE value built in several ways: all must be equal *)
| COrder (orders : list (list (string * json)))   (* one duplicate-free member list in several insertion orders *)
         (real_keys : list string)                (* member order of the real object when serialized *)
         (ids : list string)                      (* id of the object built in each order *)
| COwn (cid : string) (parsed : option parsed_cid) (blake : list N) (obs : real_verify).
                                             (* value_to_json_cid v, its parse, the reference digest, verify_value of it *)

Definition model_verify (raw : bool) (cid : string) (parsed : option parsed_cid) (sha blake : list N) : verify_result :=
  if raw then verify_raw_value (fun _ => parsed) (fun _ => sha) (fun _ => blake) cid []
  else verify_value (fun _ => parsed) (fun _ => sha) (fun _ => blake) (fun _ => []) cid JNull.

Definition result_matches (m : verify_result) (o : real_verify) : bool :=
  match m, o with
  | VerOk, RvOk => true
  | VerErr MalformedCid, RvMalformed => true
  | VerErr (UnsupportedCidCodec c), RvCodec d => c =? d
  | VerErr (UnsupportedHashCode h), RvHashCode g => h =? g
  | VerErr ValueMismatch, RvMismatch => true
  | _, _ => false
  end.

Fixpoint all_equal_str (l : list string) : bool :=
  match l with
  | a :: ((b :: _) as r) => String.eqb a b && all_equal_str r
  | _ => true
  end.

Definition obj_keys (j : json) : list string := match j with JObj l => map fst l | _ => [] end.

Fixpoint all_equal_json (l : list json) : bool :=
  match l with
  | a :: ((b :: _) as r) => json_eqb a b && all_equal_json r
  | _ => true
  end.

Definition check_case (c : case_t) : bool :=
  match c with
  | CVerify raw cid parsed sha blake obs => result_matches (model_verify raw cid parsed sha blake) obs
  | CIds ids => all_equal_str ids
  | COrder orders real_keys ids =>
      (* the model's object is the same for every order, and its member order is the real one *)
      all_equal_json (map jobj_of orders) &&
      forallb (fun o => list_eqb String.eqb (obj_keys (jobj_of o)) real_keys) orders &&
      all_equal_str ids
  | COwn cid parsed blake obs =>
      (* the model's id of the value is (v1, JSON codec, blake3 code, blake3 digest) *)
      match parsed with
      | Some p => (cid_version p =? 1) && (cid_codec p =? json_codec) && (cid_hash_code p =? blake3_256_code) &&
                  digest_eqb (cid_digest p) blake
      | None => false
      end && result_matches (model_verify false cid parsed [] blake) obs
  end.

(* the property: verification succeeds exactly for JSON-codec ids whose full SHA2-256 / BLAKE3-256
   digest matches; the id depends only on the value *)
Definition is_ok (o : real_verify) : bool := match o with RvOk => true | _ => false end.

Definition should_verify (parsed : option parsed_cid) (sha blake : list N) : bool :=
  match parsed with
  | None => false
  | Some p =>
      (cid_codec p =? 512) &&
      (((cid_hash_code p =? 18) && digest_eqb (cid_digest p) sha) ||
       ((cid_hash_code p =? 30) && digest_eqb (cid_digest p) blake))
  end.

Definition c25_oracle (c : case_t) : bool :=
  match c with
  | CVerify _ _ parsed sha blake obs => Bool.eqb (is_ok obs) (should_verify parsed sha blake)
  | CIds ids => all_equal_str ids
  | COrder _ _ ids => all_equal_str ids
  | COwn _ _ _ obs => is_ok obs
  end.
