(* Proofs about model/RunTop.v (C22, C21, routing part of C02). *)
From Coq Require Import Lia.
From Aqua Require Import Base RunTop.
Open Scope N_scope.

Ltac break_match :=
  match goal with
  | |- context [match ?x with _ => _ end] =>
      match type of x with
      | sumbool _ _ => destruct x
      | _ => let E := fresh "E" in destruct x eqn:E
      end
  end.

Ltac break_hyp :=
  match goal with
  | H : context [match ?x with _ => _ end] |- _ =>
      let E := fresh "E" in destruct x eqn:E
  end.

Section P.
  Variable X : Type.
  Notation world := (world X).
  Notation execute_air := (@execute_air X).

  Lemma max_u64_not_exceeded (n : N) : n <= 18446744073709551615 -> (18446744073709551615 <? n) = false.
  Proof. intros H. apply N.ltb_ge. exact H. Qed.

  Lemma result_exceeds_unlimited sizes :
    Forall (fun s => s <= 18446744073709551615) sizes -> result_exceeds (unlimited) sizes = false.
  Proof.
    unfold result_exceeds, unlimited; cbn [l_result].
    induction 1 as [|s ss Hs _ IH]; cbn [existsb]; [reflexivity|].
    rewrite (max_u64_not_exceeded _ Hs), IH. reflexivity.
  Qed.

  Lemma check_unlimited (w : world) :
    sizes_fit_u64 X w -> check_against_size_limits X unlimited w = inl no_flags.
  Proof.
    intros (Ha & Hp & _). unfold check_against_size_limits, air_exceeds, particle_exceeds, unlimited.
    cbn [l_air l_particle l_hard].
    rewrite (max_u64_not_exceeded _ Ha), (max_u64_not_exceeded _ Hp). reflexivity.
  Qed.

  (* ---------------- C22 ---------------- *)
  Lemma hard_rejects : C22_hard_stmt X.
  Proof.
    intros l w Hh. repeat split.
    - intros Ha. unfold execute_air, check_against_size_limits. rewrite Ha, Hh. reflexivity.
    - intros Ha Hp. unfold execute_air, check_against_size_limits. rewrite Ha, Hp, Hh. reflexivity.
    - intros Ha Hp sizes Hr He. unfold execute_air, check_against_size_limits.
      rewrite Ha, Hp, Hh. cbn [andb].
      unfold reached_result_check in Hr.
      destruct (prev_envelope X w); [|discriminate].
      destruct (cur_envelope X w) as [v|]; [|discriminate].
      destruct (version_lt_min v); [discriminate|].
      destruct (prev_inner X w); [|discriminate].
      destruct (cur_inner X w); [|discriminate].
      destruct (w_verify X w); [|discriminate].
      destruct (w_parse_air X w); [|discriminate].
      destruct (w_call_results X w) as [sz|]; [|discriminate].
      injection Hr as ->. rewrite He. reflexivity.
    - intros H. unfold execute_air, check_against_size_limits.
      destruct (air_exceeds l (w_air_len X w)) eqn:Ea; rewrite Hh; cbn [andb]; [eauto|].
      destruct (particle_exceeds l (w_cur_len X w)) eqn:Ep; cbn [andb]; [eauto|].
      destruct H as [H|[H|(sizes & Hs & He)]]; try discriminate.
      rewrite Hs.
      repeat (break_match; eauto).
      all: try (rewrite He in *; cbn in *; discriminate).
  Qed.

  Lemma existsb_false_forall {A} (f : A -> bool) l : existsb f l = false -> forall x, In x l -> f x = false.
  Proof.
    induction l as [|a l IH]; cbn; intros H x Hin; [contradiction|].
    apply orb_false_iff in H as [H1 H2]. destruct Hin as [->|Hin]; auto.
  Qed.

  Lemma err_in_not {A} allowed (r : res A) e :
    err_in allowed r = true -> r = RErr e -> existsb (prep_err_eqb e) allowed = true.
  Proof. intros H ->. exact H. Qed.

  Ltac wf_split H :=
    unfold wf_world in H;
    repeat match type of H with _ && _ = true => let H' := fresh "Hwf" in apply andb_prop in H as [H H'] end.

  (* no stage reports the two errors the routing itself raises *)
  Lemma stage_error_kinds (w : world) :
    wf_world X w = true ->
    forall l e s fl, execute_air l w = Failed e s fl ->
      (e = SizeLimitsExceded -> s <> None) /\
      (e = UnsupportedInterpreterVersion ->
         exists v, cur_envelope X w = ROk v /\ version_lt_min v = true).
  Proof.
    intros Hwf l e s fl. wf_split Hwf.
    unfold execute_air. unfold prev_envelope, cur_envelope, prev_inner, cur_inner.
    intros H.
    repeat (break_hyp; try (injection H as <- <- <-); try discriminate);
      try (split; intros; try discriminate; eauto; fail).
    all: repeat match goal with
         | Hs : ?r = RErr _, Hw : err_in _ ?r = true |- _ =>
             rewrite Hs in Hw; cbn in Hw; try discriminate Hw; clear Hs
         end.
    all: try (split; intros; subst; try discriminate; eauto; fail).
  Qed.

  Lemma below_no_effect : C22_below_stmt X.
  Proof.
    intros l w Ha Hp Hr Hfit Hwf.
    assert (Hrun : execute_air l w = execute_air unlimited w /\
                   forall o, execute_air l w = o -> with_flags X o no_flags = o).
    { unfold execute_air. rewrite (check_unlimited w Hfit).
      unfold check_against_size_limits. rewrite Ha, Hp. cbn [andb]. fold no_flags.
      destruct Hfit as (_ & _ & Hsz).
      destruct (w_call_results X w) as [sizes|ec] eqn:Ecr.
      - rewrite (Hr sizes eq_refl), (result_exceeds_unlimited _ Hsz). cbn [andb f_air f_particle no_flags].
        split; [reflexivity|]. intros o <-.
        repeat (break_match; try reflexivity).
      - split; [reflexivity|]. intros o <-. repeat (break_match; try reflexivity). }
    destruct Hrun as [Heq Hfl].
    split; [exact Heq|]. split.
    - intros e s fl H. split.
      + intros ->. destruct (stage_error_kinds w Hwf l _ _ _ H) as [Hs _].
        specialize (Hs eq_refl).
        revert H. unfold execute_air, check_against_size_limits. rewrite Ha, Hp. cbn [andb].
        destruct (w_call_results X w) as [sizes|ec] eqn:Ecr; [rewrite (Hr sizes eq_refl)|];
          cbn [andb]; repeat (break_match; try discriminate); intros H; inversion H; subst; try discriminate; congruence.
      + specialize (Hfl _ H). cbn in Hfl. injection Hfl as <-. reflexivity.
    - intros x fl H. specialize (Hfl _ H). cbn in Hfl. injection Hfl as <-. reflexivity.
  Qed.

  Lemma soft_is_unlimited : C22_soft_stmt X.
  Proof.
    intros l w Hs Hfit Hwf. split.
    - unfold execute_air. rewrite (check_unlimited w Hfit).
      unfold check_against_size_limits, expected_flags, reached_result_check. rewrite Hs.
      rewrite !andb_false_r.
      destruct Hfit as (_ & _ & Hsz).
      destruct (w_call_results X w) as [sizes|ec] eqn:Ecr.
      + rewrite (result_exceeds_unlimited _ Hsz). cbn [andb]. rewrite !andb_false_r.
        repeat (break_match; cbn [with_flags f_air f_particle no_flags]; try reflexivity; try discriminate).
      + repeat (break_match; cbn [with_flags f_air f_particle no_flags]; try reflexivity; try discriminate).
    - intros e s fl H ->.
      destruct (stage_error_kinds w Hwf l _ _ _ H) as [Hn _]. specialize (Hn eq_refl).
      revert H. unfold execute_air, check_against_size_limits. rewrite Hs, !andb_false_r.
      repeat (break_match; try discriminate);
        try match goal with H0 : _ && false = true |- _ => rewrite andb_false_r in H0; discriminate end;
        intros H; inversion H; subst; try discriminate; congruence.
  Qed.

  Theorem C22_holds : C22_full X.
  Proof. exact (conj hard_rejects (conj below_no_effect soft_is_unlimited)). Qed.

  (* ---------------- C21 ---------------- *)
  Lemma version_rejected : C21_reject_stmt X.
  Proof.
    intros l w v Hwf ((fl0 & Hc) & Hp) Hv. split.
    - intros Hlt. exists fl0. unfold execute_air. rewrite Hc, Hp, Hv, Hlt. reflexivity.
    - intros (fl & H).
      destruct (stage_error_kinds w Hwf l _ _ _ H) as [_ Hu].
      destruct (Hu eq_refl) as (v' & Hv' & Hlt). rewrite Hv in Hv'. injection Hv' as <-. exact Hlt.
  Qed.

  Lemma version_order : C21_order_stmt.
  Proof.
    intros v. unfold version_lt_min, triple_ltb, triple_eqb, v_triple.
    destruct min_version as [[a b] c].
    rewrite !orb_true_iff, !andb_true_iff, !orb_true_iff, !andb_true_iff, !N.ltb_lt, !N.eqb_eq.
    intuition lia.
  Qed.

  Lemma min_not_lt_min : version_lt_min min_as_version = false.
  Proof.
    unfold version_lt_min, min_as_version, triple_ltb, triple_eqb, v_triple.
    destruct min_version as [[a b] c]. cbn.
    rewrite !N.ltb_irrefl, !N.eqb_refl. reflexivity.
  Qed.

  Lemma version_supported : C21_supported_stmt X.
  Proof.
    intros l w v Hwf Hv Hlt e s fl H ->.
    destruct (stage_error_kinds w Hwf l _ _ _ H) as [_ Hu].
    destruct (Hu eq_refl) as (v' & Hv' & Hlt'). congruence.
  Qed.

  Lemma empty_current : C21_empty_stmt X.
  Proof.
    intros l w H0 Hwf. unfold cur_envelope, cur_inner. rewrite H0. cbn [N.eqb].
    split; [reflexivity|]. split; [reflexivity|]. split; [exact min_not_lt_min|].
    intros e s fl H.
    apply (version_supported l w min_as_version Hwf) with (s := s) (fl := fl); [|exact min_not_lt_min|exact H].
    unfold cur_envelope. rewrite H0. reflexivity.
  Qed.

  Theorem C21_holds : C21_full X.
  Proof. exact (conj version_rejected (conj version_order (conj empty_current version_supported))). Qed.
End P.

(* ties to the source (closed computations over Generated.v) *)
Lemma prep_table_ok : prep_table_agrees = true.   Proof. vm_compute. reflexivity. Qed.
Lemma limit_tables_ok : limit_tables_agree = true. Proof. vm_compute. reflexivity. Qed.
Lemma version_check_ok : version_check_agrees = true. Proof. vm_compute. reflexivity. Qed.
