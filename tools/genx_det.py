"""Translator piece for C20 (determinism): the catalogue of nondeterminism sources of the interpreter.

Scans the non-test sources of air/src and of the air-lib crates the interpreter links
(interpreter-data, -cid, -signatures, trace-handler, interpreter-interface, interpreter-value, polyplets)
for everything whose behaviour can differ between two executions on the same inputs:

  decl        a HashMap / HashSet / BiHashMap (or an alias / a newtype of one) is declared or constructed
  iter        a hash container is iterated: .iter() .iter_mut() .into_iter() .keys() .values() .values_mut()
              .into_values() .into_keys() .drain() .retain(), `for .. in <container>`
  debug_fmt   a hash container is rendered with {:?} (thiserror attribute of a variant that carries one)
  serialize   a hash container is serialised in iteration order (rkyv `AsVec`)
  clock rand thread_local env addr     SystemTime/Instant, rand/getrandom/RandomState, thread_local!,
              std::env / env!, {:p} / `as *const`

Every site is (file, enclosing item, kind, ordinal of the site among the sites of the same kind in that item):
independent of line numbers.  coq/model/DetSpec.v classifies every site; `C20_catalogue_closed` is proved by
vm_compute against this list, so a new iteration over a hash map in the sources (or a vanished one) breaks the
obligation of C20 until it is looked at.

Generated:
  farewell_unprocessed_prefix / _suffix / _sorted   the 30000 text and whether the call results are rendered sorted
  first_culprit_sorted : list (string * bool)        DataVerifier::verify, CidStore::verify, CidStore::verify_raw_value
                                                     visit their HashMap in key order (so the named culprit is stable)
  det_sites : list (string * string * string * N)
  det_hash_names : list string      the identifiers the scan treated as hash containers (for the reader)"""
import os
import re

import gen_model
from gen_model import TranslationError, coq_list, coq_str, strip_comments

DIRS = [
    "air/src",
    "crates/air-lib/interpreter-data/src",
    "crates/air-lib/interpreter-cid/src",
    "crates/air-lib/interpreter-signatures/src",
    "crates/air-lib/trace-handler/src",
    "crates/air-lib/interpreter-interface/src",
    "crates/air-lib/interpreter-value/src",
    "crates/air-lib/polyplets/src",
]

HASH_TYPES = ["HashMap", "HashSet", "BiHashMap"]
ITER_METHODS = ["iter", "iter_mut", "into_iter", "keys", "values", "values_mut", "into_values", "into_keys", "drain", "retain"]
# files that must be present with at least one site: the anchors of the property
MUST_HAVE = [
    ("air/src/farewell_step/outcome.rs", "dedup", "iter"),
    ("crates/air-lib/interpreter-data/src/cid_store.rs", "CidStore", "serialize"),
    ("crates/air-lib/interpreter-signatures/src/stores.rs", "SignatureStore", "serialize"),
    ("air/src/execution_step/execution_context/streams_variables.rs", "compactify", "iter"),
    ("air/src/execution_step/execution_context/stream_maps_variables.rs", "compactify", "iter"),
    ("air/src/execution_step/value_types/canon_stream_map.rs", "as_jvalue", "iter"),
    ("crates/air-lib/interpreter-data/src/interpreter_data/verification.rs", "verify", "iter"),
]


def rust_files():
    out = []
    for d in DIRS:
        root = os.path.join(gen_model.REPO, d)
        if not os.path.isdir(root):
            raise TranslationError("source directory %s not found" % d)
        for dp, dn, fn in os.walk(root):
            dn.sort()
            for f in sorted(fn):
                if not f.endswith(".rs"):
                    continue
                rel = os.path.relpath(os.path.join(dp, f), gen_model.REPO)
                parts = rel.split(os.sep)
                if "tests" in parts or f in ("tests.rs", "test.rs") or f.endswith("_tests.rs") or f.endswith("_test.rs"):
                    continue
                out.append(rel)
    return sorted(out)


def blank_strings(src):
    """string literals replaced by same-length blanks (so that words inside them are not code), except
    that the literal's text is kept for thiserror attributes (handled separately on the raw text)"""
    out = []
    i, n = 0, len(src)
    while i < n:
        ch = src[i]
        if ch == '"':
            j = i + 1
            while j < n and src[j] != '"':
                j += 2 if src[j] == "\\" else 1
            out.append('"' + " " * (j - i - 1) + '"')
            i = j + 1
        else:
            out.append(ch)
            i += 1
    return "".join(out)


def cut_tests(src):
    """drop `#[cfg(test)] mod NAME { ... }` blocks (and anything from a trailing `#[cfg(test)]` on)"""
    while True:
        m = re.search(r"#\[cfg\(test\)\]\s*(?:pub\s+)?mod\s+\w+\s*\{", src)
        if not m:
            break
        depth, j = 1, m.end()
        while j < len(src) and depth > 0:
            depth += {"{": 1, "}": -1}.get(src[j], 0)
            j += 1
        src = src[:m.start()] + src[j:]
    m = re.search(r"#\[cfg\(test\)\]\s*(?:pub\s+)?mod\s+\w+\s*;", src)
    if m:
        src = src[:m.start()] + src[m.end():]
    return src


ITEM = re.compile(r"\b(fn|struct|enum|type|trait)\s+([A-Za-z_]\w*)|^[ \t]*(?:unsafe[ \t]+)?impl(?:<[^>{]*>)?\s+(?:[\w:]+(?:<[^{]*?>)?\s+for\s+)?([A-Za-z_]\w*)", re.M)


def item_at(items, pos):
    name = "<top>"
    for p, n in items:
        if p <= pos:
            name = n
        else:
            break
    return name


FAREWELL = "air/src/farewell_step/errors.rs"


def farewell_message():
    """text of FarewellError::UnprocessedCallResult around its placeholder, and whether the call results are rendered
    through a BTreeMap (sorted by call id) or straight from the HashMap ({0:?})"""
    src = strip_comments(gen_model.read(FAREWELL))
    m = re.search(r'#\[error\(\s*"((?:[^"\\\\]|\\\\.)*)"\s*(?:,\s*([^\]]*?))?\s*\)\]\s*UnprocessedCallResult\s*\(\s*CallResults\s*\)', src, flags=re.S)
    if not m:
        raise TranslationError("FarewellError::UnprocessedCallResult(CallResults) with its #[error(..)] text not found")
    text, arg = m.group(1), (m.group(2) or "").strip().rstrip(",").strip()
    ph = re.findall(r"\{[^}]*\}", text)
    if len(ph) != 1:
        raise TranslationError("UnprocessedCallResult message: expected exactly one placeholder, found %r" % ph)
    pre, post = text.split(ph[0])
    if ph[0] == "{0:?}" and not arg:
        is_sorted = False
    elif ph[0] == "{}" and re.fullmatch(r"sorted_call_results\(\s*\.0\s*\)", arg):
        body = re.search(r"fn\s+sorted_call_results\s*\(\s*call_results\s*:\s*&CallResults\s*\)\s*->\s*String\s*\{(.*?)\n\}", src, flags=re.S)
        flat = re.sub(r"\s+", " ", body.group(1)).strip() if body else ""
        if flat != 'let sorted = call_results.iter().collect::<std::collections::BTreeMap<_, _>>(); format!("{sorted:?}")':
            raise TranslationError("sorted_call_results: body not recognised: %r" % flat)
        is_sorted = True
    else:
        raise TranslationError("UnprocessedCallResult message: rendering %r / %r not recognised" % (ph[0], arg))
    return ["Definition farewell_unprocessed_prefix : string := %s." % coq_str(pre),
            "Definition farewell_unprocessed_suffix : string := %s." % coq_str(post),
            "Definition farewell_unprocessed_sorted : bool := %s." % ("true" if is_sorted else "false")]


CID_STORE = "crates/air-lib/interpreter-data/src/cid_store.rs"
VERIFICATION = "crates/air-lib/interpreter-data/src/interpreter_data/verification.rs"


def fn_body(src, name, rel):
    m = re.search(r"\bfn\s+" + re.escape(name) + r"\b[^{;]*\{", src)
    if not m:
        raise TranslationError("function %s not found in %s" % (name, rel))
    depth, j = 1, m.end()
    while j < len(src) and depth > 0:
        depth += {"{": 1, "}": -1}.get(src[j], 0)
        j += 1
    return re.sub(r"\s+", " ", src[m.end():j - 1]).strip()


def first_culprit():
    """the three verification loops whose error names a culprit: do they visit their HashMap in KEY order?"""
    vs = strip_comments(gen_model.read(VERIFICATION))
    cs = strip_comments(gen_model.read(CID_STORE))
    verify = fn_body(vs, "verify", VERIFICATION)
    a = bool(re.search(r"let mut peers: Vec<_> = self\.grouped_cids\.iter\(\)\.collect\(\); peers\.sort_unstable_by\(\|a, b\| a\.0\.cmp\(b\.0\)\); "
                       r"for \(_, peer_info\) in peers \{", verify)) and "self.grouped_cids.values()" not in verify
    if not a and "for peer_info in self.grouped_cids.values()" not in verify:
        raise TranslationError("DataVerifier::verify: loop shape not recognised")
    out = [("DataVerifier::verify", a)]
    for fn, call in (("verify", "verify_value(cid, value)?;"), ("verify_raw_value", "verify_raw_value(cid, value.as_inner())?;")):
        # CidStore has both functions; `verify` of the store is the one whose body calls verify_value
        bodies = [re.sub(r"\s+", " ", b) for b in re.findall(r"pub fn " + fn + r"\(&self\) -> Result<\(\), CidStoreVerificationError> \{(.*?)\n    \}", cs, flags=re.S)]
        bodies = [b for b in bodies if call in b]
        if len(bodies) != 1:
            raise TranslationError("CidStore::%s not found (or not unique)" % fn)
        b = bodies[0]
        srt = ("let mut entries: Vec<_> = self.0.iter().collect(); entries.sort_unstable_by_key(|(cid, _)| cid.get_inner()); "
               "for (cid, value) in entries { " + call + " }") in b and "in &self.0" not in b
        if not srt and ("for (cid, value) in &self.0 { " + call + " }") not in b:
            raise TranslationError("CidStore::%s: loop shape not recognised" % fn)
        out.append(("CidStore::" + fn, srt))
    return ["Definition first_culprit_sorted : list (string * bool) := %s." %
            coq_list(["(%s, %s)" % (coq_str(n), "true" if v else "false") for n, v in out])]


def generate():
    files = rust_files()
    texts = {}
    raw = {}
    for rel in files:
        r = cut_tests(strip_comments(gen_model.read(rel)))
        raw[rel] = r
        texts[rel] = blank_strings(r)

    # ---- pass 1: which identifiers denote hash containers ----
    aliases = set()          # type aliases of hash containers (CallResults, CallRequests)
    newtypes = set()         # tuple structs around one (CidStore, SignatureStore): `.0` is the container
    hash_re = r"(?:%s)" % "|".join(HASH_TYPES)
    for rel, t in texts.items():
        for m in re.finditer(r"\btype\s+(\w+)\s*(?:<[^=]*>)?\s*=\s*(?:[\w:]+::)?" + hash_re + r"\s*<", t):
            aliases.add(m.group(1))
        for m in re.finditer(r"\bstruct\s+(\w+)\s*(?:<[^({]*>)?\s*\(\s*(?:#\[[^\]]*\]\s*)*(?:pub(?:\([^)]*\))?\s+)?(?:[\w:]+::)?" + hash_re + r"\s*<", t):
            newtypes.add(m.group(1))
    container_ty = r"(?:(?:[\w:]+::)?(?:%s))\b" % "|".join(HASH_TYPES + sorted(aliases) + sorted(newtypes))
    names = set()
    for rel, t in texts.items():
        # fields, parameters, typed lets:  name: [&mut] HashMap<..>
        for m in re.finditer(r"\b([a-z_]\w*)\s*:(?!:)\s*(?:&\s*(?:'\w+\s+)?(?:mut\s+)?)?" + container_ty, t):
            names.add(m.group(1))
        # lets initialised from a constructor / a collect into one
        for m in re.finditer(r"\blet\s+(?:mut\s+)?([a-z_]\w*)\s*(?::[^=;]*)?=\s*[^;]*?\b" + container_ty + r"\s*(?:::\s*<[^;]*?>\s*)?::\s*(?:new|with_capacity|from_iter|default|from)\b", t):
            names.add(m.group(1))
        for m in re.finditer(r"\blet\s+(?:mut\s+)?([a-z_]\w*)\s*(?::[^=;]*)?=\s*[^;]*?collect::<\s*" + container_ty, t):
            names.add(m.group(1))
    # functions returning a container: `let x = f(..)`
    ret_fns = set()
    for rel, t in texts.items():
        for m in re.finditer(r"\bfn\s+(\w+)\s*(?:<[^(]*>)?\s*\([^{;]*?\)\s*->\s*(?:&\s*(?:mut\s+)?)?" + container_ty, t):
            ret_fns.add(m.group(1))
    for rel, t in texts.items():
        for f in ret_fns:
            for m in re.finditer(r"\blet\s+(?:mut\s+)?([a-z_]\w*)\s*=\s*(?:\w+::)*" + re.escape(f) + r"\s*\(", t):
                names.add(m.group(1))
    names.discard("self")

    # ---- pass 2: sites ----
    sites = []

    def add(rel, items, pos, kind, counters):
        it = item_at(items, pos)
        k = (rel, it, kind)
        counters[k] = counters.get(k, 0) + 1
        sites.append((rel, it, kind, counters[k] - 1))

    for rel in files:
        t = texts[rel]
        items = []
        for m in ITEM.finditer(t):
            items.append((m.start(), m.group(2) or m.group(3)))
        found = []   # (pos, kind)
        # declarations / constructions
        for m in re.finditer(r"\b(?:" + hash_re + r"\b(?!\s*;)|hashset!|hashmap!)", t):
            line_start = t.rfind("\n", 0, m.start()) + 1
            if re.match(r"\s*use\b", t[line_start:m.start() + 1]):
                continue
            found.append((m.start(), "decl"))
        for a in sorted(aliases):
            for m in re.finditer(r"(?<![\w])" + a + r"\b(?!Repr|Format|De|Ser)", t):
                line_start = t.rfind("\n", 0, m.start()) + 1
                if re.match(r"\s*(?:pub\s+)?use\b", t[line_start:m.start() + 1]):
                    continue
                found.append((m.start(), "decl"))
        # iteration by method
        recv = r"((?:[A-Za-z_]\w*(?:\(\))?\s*\.\s*)*)([A-Za-z_]\w*|0)\s*\.\s*(%s)\s*\(" % "|".join(ITER_METHODS)
        for m in re.finditer(recv, t):
            last = m.group(2)
            if last in names or last == "0":
                if last == "0":
                    # `.0` of a newtype: only inside files that declare or wrap such a newtype
                    if not re.search(r"\bstruct\s+(?:%s)\b" % "|".join(sorted(newtypes) or ["\\b\\B"]), t) and not re.search(r"_map\.0|store\.0", m.group(0)):
                        continue
                found.append((m.start(3), "iter"))
        # iteration by for
        for m in re.finditer(r"\bfor\s+[^;{]*?\s+in\s+(&\s*(?:mut\s+)?)?((?:[A-Za-z_]\w*\s*\.\s*)*)([A-Za-z_]\w*|0)\s*\{", t):
            if m.group(3) in names or m.group(3) == "0":
                found.append((m.start(), "iter"))
        # rkyv AsVec
        for m in re.finditer(r"with\s*\(\s*(?:::)?rkyv::with::AsVec\s*\)", t):
            found.append((m.start(), "serialize"))
        # thiserror attribute with {:?} on a variant carrying a hash container
        r = raw[rel]
        for m in re.finditer(r"#\[error\(\s*\"((?:[^\"\\]|\\.)*)\"\s*\)\]\s*(\w+)\s*(\([^)]*\)|\{[^}]*\})?", r):
            if ":?" in m.group(1) and m.group(3) and re.search(container_ty, m.group(3)):
                found.append((m.start(), "debug_fmt"))
        # other sources
        for m in re.finditer(r"\b(?:SystemTime|Instant)\b|\bstd::time\b", t):
            found.append((m.start(), "clock"))
        for m in re.finditer(r"\brand::|\bgetrandom\b|\bRandomState\b|\bthread_rng\b|\bOsRng\b", t):
            found.append((m.start(), "rand"))
        for m in re.finditer(r"\bthread_local!", t):
            found.append((m.start(), "thread_local"))
        for m in re.finditer(r"\bstd::env\b|\benv::(?:var|args|vars)\b|\benv!\s*\(|\boption_env!\s*\(", t):
            found.append((m.start(), "env"))
        for m in re.finditer(r"as\s+\*const\b|as\s+\*mut\b|\bas_ptr\s*\(|\bptr_eq\s*\(", t):
            found.append((m.start(), "addr"))
        for m in re.finditer(r":p\}", r):
            found.append((m.start(), "addr"))
        counters = {}
        for pos, kind in sorted(set(found)):
            add(rel, items, pos, kind, counters)

    have = {(s[0], s[1], s[2]) for s in sites}
    for need in MUST_HAVE:
        if need not in have:
            raise TranslationError("C20 catalogue: the anchor site %s / %s / %s was not found (source changed shape?)" % need)

    out = ["(* ---- tools/genx_det.py (C20): catalogue of nondeterminism sources ---- *)"]
    out += farewell_message()
    out += first_culprit()
    out.append("Definition det_sites : list (string * string * string * N) := [")
    out.append(";\n".join("  (%s, %s, %s, %d%%N)" % (coq_str(a), coq_str(b), coq_str(c), d) for a, b, c, d in sites))
    out.append("].")
    out.append("Definition det_hash_names : list string := %s." % coq_list([coq_str(n) for n in sorted(names)]))
    out.append("Definition det_hash_newtypes : list string := %s." % coq_list([coq_str(n) for n in sorted(aliases | newtypes)]))
    return out


if __name__ == "__main__":
    print("\n".join(generate()))
