(* Json.v -- the JSON value type of the model.

   Mirrors crates/air-lib/interpreter-value (JValue) and serde_json::Value:
     Null | Bool | Number | String | Array | Object
   * Number is serde_json::Number: an integer in [-2^63, 2^64-1] ([JInt]) or a finite f64.
     A float is kept as its canonical (ryu / serde_json) text, [JFloat "1.5"]; the model never
     computes with floats, it only compares and prints them.
   * Object is a BTreeMap<String, JValue> (feature preserve_order is off): keys are unique and
     iterate in increasing byte order.  [JObj kvs] carries the association list in that order;
     [wf_json] states the invariant, [jobj_of] builds a well-formed object from any list
     (last binding of a key wins, as when parsing or inserting).
   Definitions only. *)
From Aqua Require Import Base.
Open Scope N_scope.

Inductive json :=
| JNull
| JBool (b : bool)
| JInt (z : Z)
| JFloat (repr : string)
| JStr (s : string)
| JArr (l : list json)
| JObj (kvs : list (string * json)).

(* byte-wise lexicographic order on strings: the order of Rust's `str` / BTreeMap keys *)
Fixpoint string_ltb (a b : string) : bool :=
  match a, b with
  | EmptyString, EmptyString => false
  | EmptyString, String _ _ => true
  | String _ _, EmptyString => false
  | String x a', String y b' =>
      let nx := N_of_ascii x in let ny := N_of_ascii y in
      if nx <? ny then true else if ny <? nx then false else string_ltb a' b'
  end.

Fixpoint json_eqb (a b : json) {struct a} : bool :=
  match a, b with
  | JNull, JNull => true
  | JBool x, JBool y => Bool.eqb x y
  | JInt x, JInt y => Z.eqb x y
  | JFloat x, JFloat y => String.eqb x y
  | JStr x, JStr y => String.eqb x y
  | JArr xs, JArr ys =>
      (fix go (xs ys : list json) : bool :=
         match xs, ys with
         | [], [] => true
         | x :: xs', y :: ys' => json_eqb x y && go xs' ys'
         | _, _ => false
         end) xs ys
  | JObj xs, JObj ys =>
      (fix go (xs ys : list (string * json)) : bool :=
         match xs, ys with
         | [], [] => true
         | (k, x) :: xs', (k', y) :: ys' => String.eqb k k' && json_eqb x y && go xs' ys'
         | _, _ => false
         end) xs ys
  | _, _ => false
  end.

(* keys strictly increasing *)
Fixpoint keys_sorted (ks : list string) : bool :=
  match ks with
  | [] => true
  | k :: rest => match rest with [] => true | k' :: _ => string_ltb k k' && keys_sorted rest end
  end.

Fixpoint wf_json (j : json) : bool :=
  match j with
  | JArr l => (fix go (l : list json) := match l with [] => true | x :: r => wf_json x && go r end) l
  | JObj kvs =>
      keys_sorted (map fst kvs) &&
      (fix go (l : list (string * json)) := match l with [] => true | (_, x) :: r => wf_json x && go r end) kvs
  | JInt z => ((-9223372036854775808) <=? z)%Z && (z <=? 18446744073709551615)%Z
  | _ => true
  end.

(* insertion into a sorted association list, replacing an existing binding *)
Fixpoint obj_insert (k : string) (v : json) (kvs : list (string * json)) : list (string * json) :=
  match kvs with
  | [] => [(k, v)]
  | (k', v') :: rest =>
      if String.eqb k k' then (k, v) :: rest
      else if string_ltb k k' then (k, v) :: kvs
      else (k', v') :: obj_insert k v rest
  end.

Definition jobj_of (kvs : list (string * json)) : json :=
  JObj (fold_left (fun acc kv => obj_insert (fst kv) (snd kv) acc) kvs []).

Fixpoint obj_get (k : string) (kvs : list (string * json)) : option json :=
  match kvs with
  | [] => None
  | (k', v) :: rest => if String.eqb k k' then Some v else obj_get k rest
  end.

Fixpoint json_size (j : json) : nat :=
  match j with
  | JArr l => S (fold_right (fun x acc => json_size x + acc)%nat 0%nat l)
  | JObj kvs => S (fold_right (fun kv acc => json_size (snd kv) + acc)%nat 0%nat kvs)
  | _ => 1%nat
  end.
