(* props/C12.v -- a peer never reorders the stream values it has already seen (stream level).
   Only pinned statements, [exact], non-vacuity examples and Print Assumptions.
   The statements quantify over every value type, every trace-position function, every stream and
   every sequence of appends.  Lifting them to consecutive runs of execute_air (values of the previous
   run are re-added under `Previous (stored generation)`) is done where the executor model lives. *)
From Aqua Require Import Base Stream StreamProofs StreamTie StreamTieProofs.
Open Scope N_scope.

(* iter enumerates previous, then current, then new; each by generation, then by insertion order *)
Theorem C12_iter_order : forall V : Type, C12_iter_order_stmt V.
Proof. exact StreamProofs.C12_iter_order. Qed.

(* compactify: dense renumbering from 0, previous < current < new, strictly monotone inside a source,
   the update list = exactly the values of the stream with their new numbers, in iteration order *)
Theorem C12_compactify_order : forall (V : Type) (pos_of : V -> N), C12_compactify_order_stmt V pos_of.
Proof. exact StreamProofs.C12_compactify_order. Qed.

(* the tags of compactify are the appends: (v, FromPrev, g, _) <-> v was added under GPrevious g *)
Theorem C12_tagged_sources : forall V : Type, C12_tagged_sources_stmt V.
Proof. exact StreamProofs.C12_tagged_sources. Qed.

(* run pair: values reloaded under their stored generations keep their relative order, strictly *)
Theorem C12_run_pair : forall V : Type, C12_run_pair_stmt V.
Proof. exact StreamProofs.C12_run_pair. Qed.

(* everything the peer already had stays in front of everything it learns in the next run *)
Theorem C12_seen_before_new : forall V : Type, C12_seen_before_new_stmt V.
Proof. exact StreamProofs.C12_seen_before_new. Qed.

(* all of it *)
Definition C12_streams_full : Prop :=
  (forall V : Type, C12_iter_order_stmt V) /\
  (forall (V : Type) (pos_of : V -> N), C12_compactify_order_stmt V pos_of) /\
  (forall V : Type, C12_tagged_sources_stmt V) /\
  (forall V : Type, C12_run_pair_stmt V) /\
  (forall V : Type, C12_seen_before_new_stmt V).
Theorem C12_streams : C12_streams_full.
Proof.
  exact (conj StreamProofs.C12_iter_order (conj StreamProofs.C12_compactify_order
        (conj StreamProofs.C12_tagged_sources (conj StreamProofs.C12_run_pair StreamProofs.C12_seen_before_new)))).
Qed.

(* the functions these theorems are about are the ones in /repo's sources today (tools/genx_stream.py re-reads
   them on every run): Stream::iter chains previous, current, new; compactify numbers previous from 0, current
   from |previous|, new from |previous| + |current| after removing the empty generations, generation =
   start + position; Generation::from_data maps PreviousData / CurrentData to Previous / Current; a state
   merged under scheme Previous or Both is PreviousData, under Current CurrentData (the rule by which the
   correspondence driver reconstructs the generations of replayed appends) *)
Theorem C12_source_tie :
  src_stream_fields = known_fields /\
  (forall (V : Type) (s : stream V), stream_iter V s = iter_by V src_stream_iter_chain s) /\
  (forall (V : Type) (s : stream V), compact_tagged V s = tagged_by V src_stream_compactify_steps s) /\
  src_stream_compactify_removes_empty_first = known_fields /\ src_update_generations_is_start_plus_position = true /\
  (forall src g, generation_by src_generation_from_data src g = Some (generation_from_data src g)) /\
  (forall in_prev in_cur, source_by src_value_source_of_scheme in_prev in_cur = driver_source_rule in_prev in_cur).
Proof.
  exact (conj fields_tie (conj iter_tie (conj (fun V s => proj1 (compactify_tie V s))
        (conj (proj1 (proj2 (compactify_tie unit (stream_new unit)))) (conj (proj2 (proj2 (compactify_tie unit (stream_new unit))))
        (conj generation_tie driver_rule_tie)))))).
Qed.

(* ---------------- non-vacuity ---------------- *)
Definition mk (l : list (N * generation)) : stream N :=
  match add_all N (stream_new N) l with SOk s => s | _ => stream_new N end.
Definition idpos (x : N) : N := x.

(* stream_definition.rs test generation_from_new_data_after_current_and_previous *)
Example C12_iter_example :
  stream_iter N (mk [(1, GNew); (2, GCurrent 0); (3, GPrevious 0)]) = [3; 2; 1].
Proof. vm_compute. reflexivity. Qed.

(* generations, then insertion order: previous 0 before previous 2 whatever the order of the appends *)
Example C12_iter_generations :
  stream_iter N (mk [(5, GPrevious 2); (6, GCurrent 1); (7, GPrevious 0); (8, GPrevious 2); (9, GNew); (10, GPrevious 0)])
  = [7; 10; 5; 8; 6; 9].
Proof. vm_compute. reflexivity. Qed.

(* stream_definition.rs test compactification_works_with_mixed_generations (values = their trace
   positions 0..5): the trace ends with generations 4,3,1,0,4,2 at positions 0..5 *)
Example C12_compactify_example :
  let s := mk [(0, GNew); (1, GCurrent 4); (2, GCurrent 0); (3, GPrevious 100); (4, GNew); (5, GCurrent 2)] in
  snd (stream_compactify N idpos s) =
    {| cp_updates := [(3, 0); (2, 1); (5, 2); (1, 3); (0, 4); (4, 4)]; cp_crash := None |} /\
  map (fun x => (t_val N x, t_old N x, t_new N x)) (compact_tagged N s) =
    [(3, 100, 0); (2, 0, 1); (5, 2, 2); (1, 4, 3); (0, 0, 4); (4, 0, 4)] /\
  stream_dense N (fst (stream_compactify N idpos s)) = true /\ stream_dense N s = false.
Proof. vm_compute. repeat split. Qed.

(* two runs: run 1 ends with generations a:0 b:1 c:2; run 2 reloads them as Previous 0/1/2, meets d in
   the other peer's data under Current 7 and produces e itself: a,b,c keep 0,1,2; d and e come after *)
Example C12_run_pair_example :
  let run1 := mk [(11, GCurrent 3); (12, GCurrent 5); (13, GNew)] in
  let gens1 := map (fun x => (t_val N x, t_new N x)) (compact_tagged N run1) in
  let run2 := mk [(11, GPrevious 0); (14, GCurrent 7); (12, GPrevious 1); (15, GNew); (13, GPrevious 2)] in
  gens1 = [(11, 0); (12, 1); (13, 2)] /\
  map (fun x => (t_val N x, t_new N x)) (compact_tagged N run2) = [(11, 0); (12, 1); (13, 2); (14, 3); (15, 4)].
Proof. vm_compute. split; reflexivity. Qed.

(* the hypothesis of compactify_order is satisfiable; a generation index that could not be renumbered is
   refused by Stream::add_value before it reaches the matrix (fix C01-stream-generation-resize; before it
   `GPrevious 4294967295` crashed in checked_add(1).unwrap()) *)
Example C12_compactify_bound_example :
  count_all N (mk [(1, GPrevious (stream_max_size - 24)); (2, GCurrent 9)]) = 2 /\
  stream_add_value N (stream_new N) 1 (GPrevious 4294967295) = SErr StreamSizeLimitExceeded /\
  stream_add_value N (stream_new N) 1 (GCurrent stream_max_size) = SErr StreamSizeLimitExceeded /\
  match stream_add_value N (stream_new N) 1 (GCurrent (stream_max_size - 1)) with SOk s => m_len (s_cur s) = stream_max_size | _ => False end.
Proof. vm_compute. repeat split. Qed.

Print Assumptions C12_iter_order.
Print Assumptions C12_compactify_order.
Print Assumptions C12_tagged_sources.
Print Assumptions C12_run_pair.
Print Assumptions C12_seen_before_new.
Print Assumptions C12_streams.
Print Assumptions C12_source_tie.
