"""Translator extension for C23: the grammar actions of air.lalrpop and va_lambda.lalrpop.

Emits into Generated.v
  parser_error_variants : list string      variants of ParserError (parser/errors.rs), declaration order
  grammar_actions : list (string * string * N * bool * bool)
        (grammar file, non-terminal, ordinal of the alternative, builds an Error node, pushes to `errors`)
  grammar_recovery_alternatives : N        number of alternatives whose symbol list is the recovery symbol `!`
  error_node_sites_outside_grammar : list string
        hand-written source lines (parser and lambda crates) that CONSTRUCT an Error node (expected: none)
Raises TranslationError when the shape of the files is not the one this reader understands.
"""
import os
import re
import sys

_main = sys.modules.get("__main__")
if _main is not None and hasattr(_main, "TranslationError") and hasattr(_main, "read"):
    gm = _main
else:
    import gen_model as gm

TranslationError = gm.TranslationError

GRAMMARS = [
    ("air.lalrpop", "crates/air-lib/air-parser/src/parser/air.lalrpop"),
    ("va_lambda.lalrpop", "crates/air-lib/lambda/parser/src/parser/va_lambda.lalrpop"),
]
# the enums whose unit variant `Error` is the parser's error node, with the file that declares them
ERROR_NODE_TYPES = [
    ("Instruction", "crates/air-lib/air-parser/src/ast/instructions.rs"),
    ("ValueAccessor", "crates/air-lib/lambda/ast/src/ast.rs"),
    ("RawLambdaAST", "crates/air-lib/lambda/parser/src/parser/lambda_parser.rs"),
]
HAND_WRITTEN_ROOTS = [
    "crates/air-lib/air-parser/src",
    "crates/air-lib/lambda/parser/src",
    "crates/air-lib/lambda/ast/src",
]
GENERATED_FILES = {"air.rs", "va_lambda.rs"}


def _strip_line_comments(src):
    out = []
    for line in src.split("\n"):
        i = 0
        in_str = False
        cut = None
        while i < len(line):
            ch = line[i]
            if ch == '"':
                in_str = not in_str
            elif not in_str and line.startswith("//", i):
                cut = i
                break
            i += 1
        out.append(line if cut is None else line[:cut])
    return "\n".join(out)


def _matching(src, i, open_ch, close_ch):
    """index just after the bracket matching src[i] (string literals skipped)"""
    assert src[i] == open_ch
    depth = 0
    in_str = False
    while i < len(src):
        ch = src[i]
        if in_str:
            if ch == '"':
                in_str = False
        elif ch == '"':
            in_str = True
        elif ch == open_ch:
            depth += 1
        elif ch == close_ch:
            depth -= 1
            if depth == 0:
                return i + 1
        i += 1
    raise TranslationError("unbalanced %s in grammar" % open_ch)


def _split_top(body):
    """split at commas that are outside (), [], {}, and string literals"""
    parts, cur, depth, in_str = [], [], 0, False
    for ch in body:
        if in_str:
            cur.append(ch)
            if ch == '"':
                in_str = False
            continue
        if ch == '"':
            in_str = True
        elif ch in "({[":
            depth += 1
        elif ch in ")}]":
            depth -= 1
            if depth < 0:
                raise TranslationError("unbalanced brackets inside a grammar rule")
        if ch == "," and depth == 0:
            parts.append("".join(cur))
            cur = []
        else:
            cur.append(ch)
    if "".join(cur).strip():
        parts.append("".join(cur))
    return [p for p in parts if p.strip()]


def _split_arrow(alt):
    """(symbols, action) at the first `=>` outside brackets and strings; action None for a bare symbol list"""
    depth, in_str = 0, False
    i = 0
    while i < len(alt):
        ch = alt[i]
        if in_str:
            if ch == '"':
                in_str = False
        elif ch == '"':
            in_str = True
        elif ch in "({[":
            depth += 1
        elif ch in ")}]":
            depth -= 1
        elif depth == 0 and alt.startswith("=>", i):
            return alt[:i], alt[i + 2:]
        i += 1
    return alt, None


def grammar_alternatives(fname, rel):
    src = _strip_line_comments(gm.read(rel))
    m = re.search(r"^grammar\b[^;]*;", src, flags=re.M | re.S)
    if not m:
        raise TranslationError("%s: no `grammar ...;` header" % fname)
    if not re.search(r"\berrors\s*:\s*&'\w+\s+mut\s+Vec<\s*ErrorRecovery<", m.group(0)):
        raise TranslationError("%s: the grammar no longer takes `errors: &mut Vec<ErrorRecovery<..>>`" % fname)
    pos = m.end()
    rules = []
    ext = re.search(r"^extern\s*\{", src, flags=re.M)
    if not ext:
        raise TranslationError("%s: no extern block" % fname)
    end_rules = ext.start()
    head = re.compile(r"\s*(?:pub(?:\([a-z]+\))?\s+)?([A-Za-z_][A-Za-z0-9_]*)\s*(?::\s*([^=]+?))?\s*=\s*", flags=re.S)
    while True:
        rest = src[pos:end_rules]
        if not rest.strip():
            break
        mm = head.match(src, pos, end_rules)
        if not mm:
            raise TranslationError("%s: cannot read a rule head near %r" % (fname, rest.strip()[:50]))
        name = mm.group(1)
        j = mm.end()
        if src[j] == "{":
            k = _matching(src, j, "{", "}")
            body = src[j + 1:k - 1]
            alts = _split_top(body)
            if not alts:
                raise TranslationError("%s: rule %s has no alternatives" % (fname, name))
            rules.append((name, alts))
            pos = k
            ms = re.match(r"\s*;", src[pos:end_rules])
            if ms:
                pos += ms.end()
        else:
            k = src.find(";", j, end_rules)
            if k < 0:
                raise TranslationError("%s: rule %s: alias without `;`" % (fname, name))
            rules.append((name, [src[j:k]]))
            pos = k + 1
    if not rules:
        raise TranslationError("%s: no rules recognised" % fname)
    out = []
    node_re = re.compile(r"\b(" + "|".join(t for t, _ in ERROR_NODE_TYPES) + r")::Error\b")
    n_recovery = 0
    for name, alts in rules:
        for k, alt in enumerate(alts):
            symbols, action = _split_arrow(alt)
            action = action or ""
            builds = bool(node_re.search(action))
            pushes = bool(re.search(r"\berrors\s*\.\s*push\s*\(", action))
            if symbols.strip() == "!":
                n_recovery += 1
                if not builds:
                    raise TranslationError("%s: recovery alternative of %s does not build an Error node: shape not recognised" % (fname, name))
            elif "!" in re.sub(r'"[^"]*"', "", symbols):
                raise TranslationError("%s: rule %s uses the recovery symbol inside a longer alternative" % (fname, name))
            out.append((fname, name, k, builds, pushes))
    return out, n_recovery


def check_error_node_types():
    for ty, rel in ERROR_NODE_TYPES:
        src = gm.strip_comments(gm.read(rel))
        m = re.search(r"\benum\s+" + ty + r"\b[^{]*\{", src)
        if not m:
            raise TranslationError("enum %s not found in %s" % (ty, rel))
        end = _matching(src, m.end() - 1, "{", "}")
        if not re.search(r"(^|[,{\s])Error\s*,", src[m.end() - 1:end]):
            raise TranslationError("enum %s has no unit variant Error" % ty)


def construction_sites():
    """lines of hand-written sources that use <ErrorNodeType>::Error other than as a match pattern"""
    sites = []
    pat = re.compile(r"\b(" + "|".join(t for t, _ in ERROR_NODE_TYPES) + r")::Error\b(?!\s*(=>|\|))")
    for root in HAND_WRITTEN_ROOTS:
        base = os.path.join(gm.REPO, root)
        if not os.path.isdir(base):
            raise TranslationError("directory %s not found" % root)
        for dp, dn, fn in sorted(os.walk(base)):
            dn.sort()
            if os.path.basename(dp) == "tests":
                dn[:] = []
                continue
            for f in sorted(fn):
                if not f.endswith(".rs") or f in GENERATED_FILES or f == "tests.rs":
                    continue
                rel = os.path.relpath(os.path.join(dp, f), gm.REPO)
                for ln, line in enumerate(gm.strip_comments(gm.read(rel)).split("\n"), 1):
                    if pat.search(line):
                        sites.append("%s:%d" % (rel, ln))
    return sites


def generate():
    out = []
    variants = gm.enum_variants("crates/air-lib/air-parser/src/parser/errors.rs", "ParserError")
    out.append("(* C23: tools/genx_grammar.py *)")
    out.append("Definition parser_error_variants : list string := %s." % gm.coq_list([gm.coq_str(v) for v in variants]))
    check_error_node_types()
    acts, nrec = [], 0
    for fname, rel in GRAMMARS:
        a, n = grammar_alternatives(fname, rel)
        if n == 0:
            raise TranslationError("%s: no recovery alternative found" % fname)
        acts += a
        nrec += n
    def b(x):
        return "true" if x else "false"
    items = ["(%s, %s, %d%%N, %s, %s)" % (gm.coq_str(f), gm.coq_str(nt), k, b(bu), b(pu)) for f, nt, k, bu, pu in acts]
    out.append("Definition grammar_actions : list (string * string * N * bool * bool) :=\n  [" + ";\n   ".join(items) + "].")
    out.append("Definition grammar_recovery_alternatives : N := %d%%N." % nrec)
    out.append("Definition error_node_sites_outside_grammar : list string := %s." % gm.coq_list([gm.coq_str(s) for s in construction_sites()]))
    out.append("")
    return out
