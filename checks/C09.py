"""C09 -- merging never forgets a result."""
import airgen
import exec_common
import sched04

PID = "C09"
MODEL_TARGETS = ["model/ExecCases.vo", "model/KeepSpec.vo"]
HARNESS_BINS = ["exec", "honest04"]
RULE = ("a case is one honest history; after EVERY run that returns new data (code 0, 10000-19999, 30000) the multiset of "
        "results of the produced trace -- executed call results (scalar and stream, by service-result id), Unused value ids, "
        "failed call results, executed canon results -- must contain the multiset of the previous trace and the multiset of the "
        "current trace (larger multiplicity of the two), harness/src/oracles.rs c09; the same inclusion and the inclusion of "
        "the five CID stores are evaluated in Coq (c09_oracle, c09_stores_oracle) on the runs given to the executor model. "
        "Streams of cases: bounded-exhaustive schedules (every interleaving, one duplication per message, every subset of "
        "pending results) for scripts of at most 6 instructions over 3 peers that put states at par / fold boundaries of traces "
        "of different shape; random schedules over 3-5 peers for larger scripts; lock-step with the model. evaluations = runs of "
        "execute_air; distinct non-trivial = (script, mode, explored states) with at least one run that merged two non-empty "
        "data. A separate stream of recursive stream folds exercises the known finding stream-fold-cursor-hole.")
PARTIAL = ["C09_full (every run of every script keeps every result) is kept as a Definition: it is REFUTED outside the scalar "
           "fragment by the known finding stream-fold-cursor-hole (recursive stream fold), replayed in corpus/C09",
           "C09_consumed_partial covers runs of the executor in which no stream / canon / stream-fold instruction is executed "
           "(hypothesis streams_off: the call, seq, par, xor, match, new, scalar fold fragment, calls may write to streams), and "
           "is conditional on windows_consumed (every par branch and the run end with both slider windows exhausted: a computable "
           "check, windows_consumed_b, on the driver forest of that run); fold / canon / ap states are covered at the merger level "
           "(C09_state_keep_merger_*) and by exploration only",
           "windows_consumed itself is not proved for honest histories in general (it follows from the approximation invariant of "
           "DESIGN appendix B); that invariant is proved ONLY for straight-line scripts on several peers (call with literal target/service/function and literal or plain-scalar arguments, ap of a literal or scalar, seq, xor, match, mismatch, fail, null, never; model/NetLin.v): C09_linear_nothing_forgotten -- in every honest "
           "history of SeqLocal's network the executed/failed states a host holds are a prefix of the full sequential trace that "
           "never shrinks across a step (run1 and run2); elsewhere the oracle measures the conclusion on every run instead"]
ASSUMPTIONS = ["symbolic content ids: Values.cid_eqb decides equality (collision resistance of the hash, DESIGN section 5)",
               "services are deterministic functions of (peer, service, function, arguments); the host follows air/README.md"]
ORACLES = ("C09",)


def profiles(rng, recursive=False):
    kw = dict(peers=rng.choice([3, 4, 5]), depth=rng.choice([3, 3, 4]), recursive_streams=recursive)
    r = rng.random()
    if r < 0.3:
        kw.update(par_weight=7)                                            # states at par boundaries
    elif r < 0.5:
        kw.update(streams=False, canon=False, stream_folds=False, par_weight=5)
    elif r < 0.7:
        kw.update(xor_weight=5, failing=True)                              # Failed states
    return airgen.Profile(**kw)


def gen_cases(rng, tier, escalate=False):
    codes = [c for _, _, c in sched04.consistency_codes()]
    quick = tier == "quick"
    mul = 3 if escalate else 1
    cases = []
    hand = sched04.HAND_SMALL
    budget = 4000 if quick else 30000
    for s in hand:
        cases.append(sched04.exhaustive_case(s, ORACLES, codes, budget))
    for k in range((40 if quick else 400) * mul):
        kw = rng.choice([dict(recursive_streams=False), dict(streams=False, canon=False), dict(par_weight=7, recursive_streams=False),
                         dict(folds=False, new=False, recursive_streams=False)])
        s = sched04.small_script(rng, kw, max_instr=6)
        cases.append(sched04.exhaustive_case(s, ORACLES, codes, budget))
    for k in range((400 if quick else 6000) * mul):
        prof = profiles(rng)
        script = airgen.gen_script(rng, prof)
        ops = sched04.random_schedule(rng, rng.choice([10, 20, 40]), peers=prof.peers)
        cases.append(sched04.path_case(script, ops, ORACLES, codes, prof.peers))
    for k in range((8 if quick else 80) * mul):
        prof = profiles(rng)
        c = exec_common.history_case(rng, prof, n_ops=rng.choice([8, 14]), oracles=["C09"])
        c["kind"] = "exec"
        cases.append(c)
    # separate stream: recursive stream folds (known finding stream-fold-cursor-hole)
    for k in range((30 if quick else 400) * mul):
        prof = profiles(rng, recursive=True)
        prof.stream_folds = True
        prof.streams = True
        script = airgen.gen_script(rng, prof)
        ops = sched04.random_schedule(rng, rng.choice([10, 20]), peers=prof.peers)
        cases.append(sched04.path_case(script, ops, ORACLES, codes, prof.peers, stream="recursive_folds"))
    return cases


def evaluate(cases, result, tier):
    honest = [c for c in cases if c.get("kind", "honest") == "honest"]
    for stream in ("ordinary", "recursive_folds", "corpus"):
        sel = [c for c in honest if c.get("stream", "ordinary") == stream]
        sched04.run_honest(sel, result, "C09", stream_name=stream)
    ex = [c for c in cases if c.get("kind") == "exec"]
    if ex:
        hdr = exec_common.HEADER
        try:
            exec_common.HEADER = hdr + "From Aqua Require Import KeepSpec.\n"
            n0 = len(result["oracle_fail"])
            exec_common.evaluate(ex, result, {"model": "check_case", "oracle_c09": "c09_oracle", "oracle_c09_stores": "c09_stores_oracle"},
                                 tag="C09", shard_size=30)
            for f in result["oracle_fail"][n0:]:
                d = f.get("detail") or {"key": "result-forgotten"}
                if f.get("check", "").startswith("oracle_c09_stores"):
                    f["key"] = None
                else:
                    f["key"] = sched04.classify("C09", f["case"].get("script", ""), {"key": d.get("key", "result-forgotten")})
        finally:
            exec_common.HEADER = hdr
