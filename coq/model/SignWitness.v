(* SignWitness.v -- one REAL run (printed by harness/src/bin/exec.rs, run 11 of corpus/C03/stream_fold_hole_signature.json):
   peer D merges its previous data with data of A.  A's data carries four results signed by A (gate, visit(b), visit(a),
   visit(c)); D's fold over the stream $s skips the value c that the fold body itself appended (DESIGN 7-11, the cursor hole),
   so A's Executed state visit(c) is not re-emitted: the output trace attributes three results to A while the signature kept
   for A is over four.  The executor model reproduces the run (ExecCases.check_case = true).  Definitions only. *)
From Aqua Require Import Base Json Air Trace Handler Values Scalars Lens Exec RunExec ExecStreams ExecCases.
Open Scope N_scope.
Open Scope list_scope.

Definition hole_peer_a : string := "12D3KooWMC3q8kEiNVwWvgSucAgoS2VgEA6BR4vtfDvDThaUDUHz".
Definition hole_script : instr :=
    (ISeq (IPar (ICall "call ""12D3KooWLLz6Wrz31r689j9XL8KTgELAg2P3Y7neNKKkxHKLGjNt"" (""s"" ""va"") [] $s" {| t_peer := (PLiteral "12D3KooWLLz6Wrz31r689j9XL8KTgELAg2P3Y7neNKKkxHKLGjNt");
    t_service := (SLiteral "s"); t_function := (SLiteral "va") |} [] (OutStream {| v_name := "$s";
    v_pos := 85 |})) (ICall "call ""12D3KooWDH1nDTtHGHfNZQwnjNDEjPWwjEC7NKzPSUb7tZpH2num"" (""s"" ""vb"") [] $s" {| t_peer := (PLiteral "12D3KooWDH1nDTtHGHfNZQwnjNDEjPWwjEC7NKzPSUb7tZpH2num");
    t_service := (SLiteral "s"); t_function := (SLiteral "vb") |} [] (OutStream {| v_name := "$s";
    v_pos := 164 |}))) (ISeq (ICall "call ""12D3KooWMC3q8kEiNVwWvgSucAgoS2VgEA6BR4vtfDvDThaUDUHz"" (""s"" ""gate"") [] g" {| t_peer := (PLiteral "12D3KooWMC3q8kEiNVwWvgSucAgoS2VgEA6BR4vtfDvDThaUDUHz");
    t_service := (SLiteral "s"); t_function := (SLiteral "gate") |} [] (OutScalar {| v_name := "g";
    v_pos := 251 |})) (ISeq (IFoldStream "fold $s i" {| v_name := "$s"; v_pos := 265 |} {| v_name := "i";
    v_pos := 268 |} (ISeq (IXor (IMatch "match i ""a""" (VScalar {| v_name := "i";
    v_pos := 287 |}) (VLiteral "a") (IAp "ap ""c"" $s" (ALiteral "c") (ApStream {| v_name := "$s";
    v_pos := 301 |}))) INull) (ISeq (ICall "call ""12D3KooWMC3q8kEiNVwWvgSucAgoS2VgEA6BR4vtfDvDThaUDUHz"" (""s"" ""visit"") [i] w" {| t_peer := (PLiteral "12D3KooWMC3q8kEiNVwWvgSucAgoS2VgEA6BR4vtfDvDThaUDUHz");
    t_service := (SLiteral "s"); t_function := (SLiteral "visit") |} [(VScalar {| v_name := "i"; v_pos := 395 |})] (OutScalar {| v_name := "w";
    v_pos := 398 |})) (ISeq (ICall "call ""12D3KooWBaXCcqHv6v7axUADaJ43Rxff762tf98oFFaF4vFSLxct"" (""s"" ""note"") [i] " {| t_peer := (PLiteral "12D3KooWBaXCcqHv6v7axUADaJ43Rxff762tf98oFFaF4vFSLxct");
    t_service := (SLiteral "s"); t_function := (SLiteral "note") |} [(VScalar {| v_name := "i";
    v_pos := 481 |})] OutNone) (INext "next i" {| v_name := "i"; v_pos := 491 |})))) (Some INull) {| sp_left := 259;
    sp_right := 504 |}) (ICall "call ""12D3KooWBaXCcqHv6v7axUADaJ43Rxff762tf98oFFaF4vFSLxct"" (""s"" ""end"") [] " {| t_peer := (PLiteral "12D3KooWBaXCcqHv6v7axUADaJ43Rxff762tf98oFFaF4vFSLxct");
    t_service := (SLiteral "s"); t_function := (SLiteral "end") |} [] OutNone)))).
Definition hole_case : case_t :=
  let script := hole_script in
    {| ec_input := {| ri_script := script; ri_params := {| rp_init_peer := "12D3KooWMC3q8kEiNVwWvgSucAgoS2VgEA6BR4vtfDvDThaUDUHz";
    rp_current_peer := "12D3KooWBaXCcqHv6v7axUADaJ43Rxff762tf98oFFaF4vFSLxct"; rp_timestamp := 1700000000; rp_ttl := 3600 |};
    ri_prev := {| d_trace := [(SPar 1 1); (SCall (RequestSentBy (SPeer "12D3KooWMC3q8kEiNVwWvgSucAgoS2VgEA6BR4vtfDvDThaUDUHz")));
    (SCall (Executed (VRStream (CService (CValue (JStr "b")) (CArgs []) (CTetraplet {| tp_peer := "12D3KooWDH1nDTtHGHfNZQwnjNDEjPWwjEC7NKzPSUb7tZpH2num";
    tp_service := "s"; tp_function := "vb"; tp_lens := "" |})) 0)));
    (SCall (Executed (VRScalar (CService (CValue (JInt 1%Z)) (CArgs []) (CTetraplet {| tp_peer := "12D3KooWMC3q8kEiNVwWvgSucAgoS2VgEA6BR4vtfDvDThaUDUHz";
    tp_service := "s"; tp_function := "gate"; tp_lens := "" |}))))); (SFold [{| fl_value_pos := 2; fl_descs := [{| sd_pos := 5; sd_len := 2 |};
    {| sd_pos := 7; sd_len := 0 |}] |}]);
    (SCall (Executed (VRScalar (CService (CValue (JStr "b")) (CArgs [(JStr "b")]) (CTetraplet {| tp_peer := "12D3KooWMC3q8kEiNVwWvgSucAgoS2VgEA6BR4vtfDvDThaUDUHz";
    tp_service := "s"; tp_function := "visit"; tp_lens := "" |})))));
    (SCall (RequestSentBy (SPeerCall "12D3KooWBaXCcqHv6v7axUADaJ43Rxff762tf98oFFaF4vFSLxct" 1)))]; d_lcid := 1;
    d_cids := {| cs_values := [(CValue (JInt 1%Z)); (CValue (JStr "b"))];
    cs_tetraplets := [(CTetraplet {| tp_peer := "12D3KooWDH1nDTtHGHfNZQwnjNDEjPWwjEC7NKzPSUb7tZpH2num"; tp_service := "s"; tp_function := "vb";
    tp_lens := "" |}); (CTetraplet {| tp_peer := "12D3KooWMC3q8kEiNVwWvgSucAgoS2VgEA6BR4vtfDvDThaUDUHz"; tp_service := "s"; tp_function := "visit";
    tp_lens := "" |}); (CTetraplet {| tp_peer := "12D3KooWMC3q8kEiNVwWvgSucAgoS2VgEA6BR4vtfDvDThaUDUHz"; tp_service := "s"; tp_function := "gate";
    tp_lens := "" |})]; cs_canon_elems := []; cs_canon_results := [];
    cs_services := [(CService (CValue (JStr "b")) (CArgs [(JStr "b")]) (CTetraplet {| tp_peer := "12D3KooWMC3q8kEiNVwWvgSucAgoS2VgEA6BR4vtfDvDThaUDUHz";
    tp_service := "s"; tp_function := "visit"; tp_lens := "" |}));
    (CService (CValue (JStr "b")) (CArgs []) (CTetraplet {| tp_peer := "12D3KooWDH1nDTtHGHfNZQwnjNDEjPWwjEC7NKzPSUb7tZpH2num"; tp_service := "s";
    tp_function := "vb"; tp_lens := "" |}));
    (CService (CValue (JInt 1%Z)) (CArgs []) (CTetraplet {| tp_peer := "12D3KooWMC3q8kEiNVwWvgSucAgoS2VgEA6BR4vtfDvDThaUDUHz"; tp_service := "s";
    tp_function := "gate"; tp_lens := "" |}))] |} |}; ri_cur := {| d_trace := [(SPar 1 1);
    (SCall (Executed (VRStream (CService (CValue (JStr "a")) (CArgs []) (CTetraplet {| tp_peer := "12D3KooWLLz6Wrz31r689j9XL8KTgELAg2P3Y7neNKKkxHKLGjNt";
    tp_service := "s"; tp_function := "va"; tp_lens := "" |})) 1)));
    (SCall (Executed (VRStream (CService (CValue (JStr "b")) (CArgs []) (CTetraplet {| tp_peer := "12D3KooWDH1nDTtHGHfNZQwnjNDEjPWwjEC7NKzPSUb7tZpH2num";
    tp_service := "s"; tp_function := "vb"; tp_lens := "" |})) 0)));
    (SCall (Executed (VRScalar (CService (CValue (JInt 1%Z)) (CArgs []) (CTetraplet {| tp_peer := "12D3KooWMC3q8kEiNVwWvgSucAgoS2VgEA6BR4vtfDvDThaUDUHz";
    tp_service := "s"; tp_function := "gate"; tp_lens := "" |}))))); (SFold [{| fl_value_pos := 2; fl_descs := [{| sd_pos := 5; sd_len := 2 |};
    {| sd_pos := 7; sd_len := 0 |}] |}; {| fl_value_pos := 1; fl_descs := [{| sd_pos := 7; sd_len := 3 |}; {| sd_pos := 10; sd_len := 0 |}] |};
    {| fl_value_pos := 7; fl_descs := [{| sd_pos := 10; sd_len := 2 |}; {| sd_pos := 12; sd_len := 0 |}] |}]);
    (SCall (Executed (VRScalar (CService (CValue (JStr "b")) (CArgs [(JStr "b")]) (CTetraplet {| tp_peer := "12D3KooWMC3q8kEiNVwWvgSucAgoS2VgEA6BR4vtfDvDThaUDUHz";
    tp_service := "s"; tp_function := "visit"; tp_lens := "" |})))));
    (SCall (RequestSentBy (SPeer "12D3KooWMC3q8kEiNVwWvgSucAgoS2VgEA6BR4vtfDvDThaUDUHz"))); (SAp [2]);
    (SCall (Executed (VRScalar (CService (CValue (JStr "a")) (CArgs [(JStr "a")]) (CTetraplet {| tp_peer := "12D3KooWMC3q8kEiNVwWvgSucAgoS2VgEA6BR4vtfDvDThaUDUHz";
    tp_service := "s"; tp_function := "visit"; tp_lens := "" |})))));
    (SCall (RequestSentBy (SPeer "12D3KooWMC3q8kEiNVwWvgSucAgoS2VgEA6BR4vtfDvDThaUDUHz")));
    (SCall (Executed (VRScalar (CService (CValue (JStr "c")) (CArgs [(JStr "c")]) (CTetraplet {| tp_peer := "12D3KooWMC3q8kEiNVwWvgSucAgoS2VgEA6BR4vtfDvDThaUDUHz";
    tp_service := "s"; tp_function := "visit"; tp_lens := "" |})))));
    (SCall (RequestSentBy (SPeer "12D3KooWMC3q8kEiNVwWvgSucAgoS2VgEA6BR4vtfDvDThaUDUHz")))]; d_lcid := 4; d_cids := {| cs_values := [(CValue (JInt 1%Z));
    (CValue (JStr "b")); (CValue (JStr "a")); (CValue (JStr "c"))];
    cs_tetraplets := [(CTetraplet {| tp_peer := "12D3KooWDH1nDTtHGHfNZQwnjNDEjPWwjEC7NKzPSUb7tZpH2num"; tp_service := "s"; tp_function := "vb";
    tp_lens := "" |}); (CTetraplet {| tp_peer := "12D3KooWLLz6Wrz31r689j9XL8KTgELAg2P3Y7neNKKkxHKLGjNt"; tp_service := "s"; tp_function := "va";
    tp_lens := "" |}); (CTetraplet {| tp_peer := "12D3KooWMC3q8kEiNVwWvgSucAgoS2VgEA6BR4vtfDvDThaUDUHz"; tp_service := "s"; tp_function := "visit";
    tp_lens := "" |}); (CTetraplet {| tp_peer := "12D3KooWMC3q8kEiNVwWvgSucAgoS2VgEA6BR4vtfDvDThaUDUHz"; tp_service := "s"; tp_function := "gate";
    tp_lens := "" |})]; cs_canon_elems := []; cs_canon_results := [];
    cs_services := [(CService (CValue (JStr "b")) (CArgs [(JStr "b")]) (CTetraplet {| tp_peer := "12D3KooWMC3q8kEiNVwWvgSucAgoS2VgEA6BR4vtfDvDThaUDUHz";
    tp_service := "s"; tp_function := "visit"; tp_lens := "" |}));
    (CService (CValue (JStr "a")) (CArgs [(JStr "a")]) (CTetraplet {| tp_peer := "12D3KooWMC3q8kEiNVwWvgSucAgoS2VgEA6BR4vtfDvDThaUDUHz"; tp_service := "s";
    tp_function := "visit"; tp_lens := "" |}));
    (CService (CValue (JStr "c")) (CArgs [(JStr "c")]) (CTetraplet {| tp_peer := "12D3KooWMC3q8kEiNVwWvgSucAgoS2VgEA6BR4vtfDvDThaUDUHz"; tp_service := "s";
    tp_function := "visit"; tp_lens := "" |}));
    (CService (CValue (JStr "b")) (CArgs []) (CTetraplet {| tp_peer := "12D3KooWDH1nDTtHGHfNZQwnjNDEjPWwjEC7NKzPSUb7tZpH2num"; tp_service := "s";
    tp_function := "vb"; tp_lens := "" |}));
    (CService (CValue (JStr "a")) (CArgs []) (CTetraplet {| tp_peer := "12D3KooWLLz6Wrz31r689j9XL8KTgELAg2P3Y7neNKKkxHKLGjNt"; tp_service := "s";
    tp_function := "va"; tp_lens := "" |}));
    (CService (CValue (JInt 1%Z)) (CArgs []) (CTetraplet {| tp_peer := "12D3KooWMC3q8kEiNVwWvgSucAgoS2VgEA6BR4vtfDvDThaUDUHz"; tp_service := "s";
    tp_function := "gate"; tp_lens := "" |}))] |} |}; ri_results := [] |}; ec_obs := {| eo_kind := 0; eo_code := 0%Z; eo_trace := [(SPar 1 1);
    (SCall (Executed (VRStream (CService (CValue (JStr "a")) (CArgs []) (CTetraplet {| tp_peer := "12D3KooWLLz6Wrz31r689j9XL8KTgELAg2P3Y7neNKKkxHKLGjNt";
    tp_service := "s"; tp_function := "va"; tp_lens := "" |})) 1)));
    (SCall (Executed (VRStream (CService (CValue (JStr "b")) (CArgs []) (CTetraplet {| tp_peer := "12D3KooWDH1nDTtHGHfNZQwnjNDEjPWwjEC7NKzPSUb7tZpH2num";
    tp_service := "s"; tp_function := "vb"; tp_lens := "" |})) 0)));
    (SCall (Executed (VRScalar (CService (CValue (JInt 1%Z)) (CArgs []) (CTetraplet {| tp_peer := "12D3KooWMC3q8kEiNVwWvgSucAgoS2VgEA6BR4vtfDvDThaUDUHz";
    tp_service := "s"; tp_function := "gate"; tp_lens := "" |}))))); (SFold [{| fl_value_pos := 2; fl_descs := [{| sd_pos := 5; sd_len := 2 |};
    {| sd_pos := 7; sd_len := 0 |}] |}; {| fl_value_pos := 1; fl_descs := [{| sd_pos := 7; sd_len := 3 |}; {| sd_pos := 10; sd_len := 0 |}] |}]);
    (SCall (Executed (VRScalar (CService (CValue (JStr "b")) (CArgs [(JStr "b")]) (CTetraplet {| tp_peer := "12D3KooWMC3q8kEiNVwWvgSucAgoS2VgEA6BR4vtfDvDThaUDUHz";
    tp_service := "s"; tp_function := "visit"; tp_lens := "" |})))));
    (SCall (RequestSentBy (SPeerCall "12D3KooWBaXCcqHv6v7axUADaJ43Rxff762tf98oFFaF4vFSLxct" 1))); (SAp [2]);
    (SCall (Executed (VRScalar (CService (CValue (JStr "a")) (CArgs [(JStr "a")]) (CTetraplet {| tp_peer := "12D3KooWMC3q8kEiNVwWvgSucAgoS2VgEA6BR4vtfDvDThaUDUHz";
    tp_service := "s"; tp_function := "visit"; tp_lens := "" |})))));
    (SCall (RequestSentBy (SPeerCall "12D3KooWBaXCcqHv6v7axUADaJ43Rxff762tf98oFFaF4vFSLxct" 2)))]; eo_lcid := 2; eo_next := [];
    eo_requests := [(2, {| rq_service := "s"; rq_function := "note"; rq_args := [(JStr "a")];
    rq_tetraplets := [[{| tp_peer := "12D3KooWLLz6Wrz31r689j9XL8KTgELAg2P3Y7neNKKkxHKLGjNt"; tp_service := "s"; tp_function := "va";
    tp_lens := "" |}]] |})]; eo_signed := []; eo_cids := {| cs_values := [(CValue (JInt 1%Z)); (CValue (JStr "b")); (CValue (JStr "a"));
    (CValue (JStr "c"))]; cs_tetraplets := [(CTetraplet {| tp_peer := "12D3KooWDH1nDTtHGHfNZQwnjNDEjPWwjEC7NKzPSUb7tZpH2num"; tp_service := "s";
    tp_function := "vb"; tp_lens := "" |}); (CTetraplet {| tp_peer := "12D3KooWLLz6Wrz31r689j9XL8KTgELAg2P3Y7neNKKkxHKLGjNt"; tp_service := "s";
    tp_function := "va"; tp_lens := "" |}); (CTetraplet {| tp_peer := "12D3KooWMC3q8kEiNVwWvgSucAgoS2VgEA6BR4vtfDvDThaUDUHz"; tp_service := "s";
    tp_function := "visit"; tp_lens := "" |}); (CTetraplet {| tp_peer := "12D3KooWMC3q8kEiNVwWvgSucAgoS2VgEA6BR4vtfDvDThaUDUHz"; tp_service := "s";
    tp_function := "gate"; tp_lens := "" |})]; cs_canon_elems := []; cs_canon_results := [];
    cs_services := [(CService (CValue (JStr "b")) (CArgs [(JStr "b")]) (CTetraplet {| tp_peer := "12D3KooWMC3q8kEiNVwWvgSucAgoS2VgEA6BR4vtfDvDThaUDUHz";
    tp_service := "s"; tp_function := "visit"; tp_lens := "" |}));
    (CService (CValue (JStr "a")) (CArgs [(JStr "a")]) (CTetraplet {| tp_peer := "12D3KooWMC3q8kEiNVwWvgSucAgoS2VgEA6BR4vtfDvDThaUDUHz"; tp_service := "s";
    tp_function := "visit"; tp_lens := "" |}));
    (CService (CValue (JStr "c")) (CArgs [(JStr "c")]) (CTetraplet {| tp_peer := "12D3KooWMC3q8kEiNVwWvgSucAgoS2VgEA6BR4vtfDvDThaUDUHz"; tp_service := "s";
    tp_function := "visit"; tp_lens := "" |}));
    (CService (CValue (JStr "b")) (CArgs []) (CTetraplet {| tp_peer := "12D3KooWDH1nDTtHGHfNZQwnjNDEjPWwjEC7NKzPSUb7tZpH2num"; tp_service := "s";
    tp_function := "vb"; tp_lens := "" |}));
    (CService (CValue (JStr "a")) (CArgs []) (CTetraplet {| tp_peer := "12D3KooWLLz6Wrz31r689j9XL8KTgELAg2P3Y7neNKKkxHKLGjNt"; tp_service := "s";
    tp_function := "va"; tp_lens := "" |}));
    (CService (CValue (JInt 1%Z)) (CArgs []) (CTetraplet {| tp_peer := "12D3KooWMC3q8kEiNVwWvgSucAgoS2VgEA6BR4vtfDvDThaUDUHz"; tp_service := "s";
    tp_function := "gate"; tp_lens := "" |}))] |} |} |}.
