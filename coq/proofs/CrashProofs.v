(* CrashProofs.v -- C01: which panics of the model are reachable.

   Part 1  sliders: every partial operation of trace_slider.rs is defined under its guard.
   Part 2  trace handler: for ALL previous / current traces and ALL sequences of API calls, the only
           crash outcomes are the two protocol-misuse sites (SiteCtorQueueCurrent, SiteTrackerLen);
           every other site of Handler.site is unreachable (invariant: the result trace never shrinks).
   Part 3  streams: allocation measure of add_value.
   Part 4  executor: local lemmas for the sites repaired by the fix: commits and the remove(0) sites.
   Part 5  the table of Unreachable lemmas named by model/Catalogue.v. *)
From Coq Require Import Lia.
From Aqua Require Import Base Trace Handler HandlerCases CrashCases Catalogue.
Open Scope N_scope.
Open Scope list_scope.

Definition no_crash {A} (r : res A) : Prop := match r with Crash _ => False | _ => True end.
Definition crash_in {A} (l : list site) (r : res A) : Prop := match r with Crash s => In s l | _ => True end.

Lemma no_crash_crash_in : forall A l (r : res A), no_crash r -> crash_in l r.
Proof. intros A l [a|e|s]; simpl; tauto. Qed.

Lemma bind_crash_in : forall A B l (r : res A) (f : A -> res B),
  crash_in l r -> (forall a, r = Ok a -> crash_in l (f a)) -> crash_in l (bind r f).
Proof. intros A B l [a|e|s] f H1 H2; simpl in *; auto. Qed.

Lemma bind_no_crash : forall A B (r : res A) (f : A -> res B),
  no_crash r -> (forall a, r = Ok a -> no_crash (f a)) -> no_crash (bind r f).
Proof. intros A B [a|e|s] f H1 H2; simpl in *; auto. Qed.

Lemma bind_ok : forall A B (r : res A) (f : A -> res B) b,
  bind r f = Ok b -> exists a, r = Ok a /\ f a = Ok b.
Proof. intros A B [a|e|s] f b H; simpl in H; try discriminate. eauto. Qed.

Lemma len_N_app : forall A (l1 l2 : list A), len_N (l1 ++ l2) = len_N l1 + len_N l2.
Proof. intros. unfold len_N. rewrite app_length. lia. Qed.

Lemma set_nth_length : forall A (l : list A) n x, length (set_nth l n x) = length l.
Proof. induction l as [|y r IH]; intros [|n] x; simpl; auto. Qed.

Lemma len_N_set_nth : forall A (l : list A) n x, len_N (set_nth l n x) = len_N l.
Proof. intros. unfold len_N. now rewrite set_nth_length. Qed.

Lemma nth_N_some : forall A (l : list A) n, n < len_N l -> exists x, nth_N l n = Some x.
Proof.
  intros A l n H. unfold nth_N, len_N in *.
  destruct (N.ltb_spec n (N.of_nat (length l))) as [Hl|Hl]; [|lia].
  destruct (nth_error l (N.to_nat n)) eqn:E; eauto.
  apply nth_error_None in E. lia.
Qed.

Section HandlerCrash.
  Variable C : Type.
  Variable ceqb : C -> C -> bool.
  Notation slider := (slider C).
  Notation keeper := (keeper C).
  Notation handler := (handler C).
  Notation state := (state C).

  (* ============================ Part 1: sliders ============================ *)

  (* trace_slider.rs next_state: `self.trace[self.position]` under the guard of the early return *)
  Lemma slider_next_state_index_defined : forall (s : slider),
    (s_len C s <=? s_seen C s) || (len_N (s_trace C s) <=? s_pos C s) = false ->
    exists st, nth_N (s_trace C s) (s_pos C s) = Some st.
  Proof.
    intros s H. apply Bool.orb_false_iff in H. destruct H as [_ H].
    apply N.leb_gt in H. now apply nth_N_some.
  Qed.

  (* `self.position += 1; self.seen_elements += 1` cannot overflow u32 *)
  Lemma slider_next_state_no_overflow : forall (s s' : slider) st,
    len_N (s_trace C s) <= u32_max -> s_len C s <= u32_max ->
    next_state C s = (Some st, s') ->
    s_pos C s' = s_pos C s + 1 /\ s_pos C s' <= u32_max /\ s_seen C s' <= u32_max /\ 1 <= s_pos C s'.
  Proof.
    intros s s' st Ht Hl H. unfold next_state in H.
    destruct ((s_len C s <=? s_seen C s) || (len_N (s_trace C s) <=? s_pos C s)) eqn:G; [discriminate|].
    apply Bool.orb_false_iff in G. destruct G as [G1 G2].
    apply N.leb_gt in G1. apply N.leb_gt in G2.
    destruct (nth_N (s_trace C s) (s_pos C s)); [|discriminate].
    inversion H; subst; simpl. lia.
  Qed.

  Lemma next_state_some_pos : forall (s s' : slider) st,
    next_state C s = (Some st, s') -> 1 <= s_pos C s' /\ s_trace C s' = s_trace C s.
  Proof.
    intros s s' st H. unfold next_state in H.
    destruct ((s_len C s <=? s_seen C s) || (len_N (s_trace C s) <=? s_pos C s)); [discriminate|].
    destruct (nth_N (s_trace C s) (s_pos C s)); [|discriminate].
    inversion H; subst; simpl. split; [lia|reflexivity].
  Qed.

  Lemma next_state_none_same : forall (s s' : slider),
    next_state C s = (None, s') -> s' = s.
  Proof.
    intros s s' H. unfold next_state in H.
    destruct ((s_len C s <=? s_seen C s) || (len_N (s_trace C s) <=? s_pos C s)); [now inversion H|].
    destruct (nth_N (s_trace C s) (s_pos C s)); [discriminate|now inversion H].
  Qed.

  (* `self.subtrace_len - self.seen_elements` (debug_assert!(subtrace_len >= seen_elements)) *)
  Definition slider_wf (s : slider) : Prop := s_seen C s <= s_len C s.

  Lemma slider_wf_new : forall t, slider_wf (slider_new C t).
  Proof. intros t. unfold slider_wf, slider_new; simpl. lia. Qed.

  Lemma slider_wf_next_state : forall s o s', slider_wf s -> next_state C s = (o, s') -> slider_wf s'.
  Proof.
    intros s o s' W H. unfold next_state in H.
    destruct ((s_len C s <=? s_seen C s) || (len_N (s_trace C s) <=? s_pos C s)) eqn:G; [now inversion H; subst|].
    apply Bool.orb_false_iff in G. destruct G as [G1 _]. apply N.leb_gt in G1.
    destruct (nth_N (s_trace C s) (s_pos C s)); inversion H; subst; auto.
    unfold slider_wf; simpl. lia.
  Qed.

  Lemma slider_wf_set_position_and_len : forall s p l s',
    set_position_and_len C s p l = Ok s' -> slider_wf s'.
  Proof.
    intros s p l s' H. unfold set_position_and_len in H.
    repeat match type of H with context [if ?b then _ else _] => destruct b end;
      inversion H; subst; unfold slider_wf; simpl; lia.
  Qed.

  Lemma slider_wf_set_subtrace_len : forall s l s',
    set_subtrace_len C s l = Ok s' -> slider_wf s'.
  Proof.
    intros s l s' H. unfold set_subtrace_len in H.
    repeat match type of H with context [if ?b then _ else _] => destruct b end;
      inversion H; subst; unfold slider_wf; simpl; lia.
  Qed.

  Lemma slider_subtrace_len_defined : forall s, slider_wf s -> subtrace_len C s + s_seen C s = s_len C s.
  Proof. intros s W. unfold subtrace_len, slider_wf in *. lia. Qed.

  (* since the fix of trace_slider.rs: checked_add / saturating_sub *)
  Lemma set_position_and_len_no_crash : forall s p l, no_crash (set_position_and_len C s p l).
  Proof.
    intros. unfold set_position_and_len.
    repeat match goal with |- context [if ?b then _ else _] => destruct b end; exact I.
  Qed.

  Lemma set_subtrace_len_no_crash : forall s l, no_crash (set_subtrace_len C s l).
  Proof.
    intros. unfold set_subtrace_len.
    repeat match goal with |- context [if ?b then _ else _] => destruct b end; exact I.
  Qed.

  (* since the fix of merge_ctx.rs: `.first()` instead of `[0]` *)
  Lemma try_get_generation_no_crash : forall s p, no_crash (try_get_generation C s p).
  Proof.
    intros. unfold try_get_generation.
    repeat match goal with |- context [match ?x with _ => _ end] => destruct x end; exact I.
  Qed.


  (* ============================ Part 2: the handler ============================ *)

  (* outcome predicate: Ok results satisfy P, errors are fine, a crash must be one of L *)
  Definition okl {A} (L : list site) (P : A -> Prop) (r : res A) : Prop :=
    match r with Ok a => P a | Err _ => True | Crash s => In s L end.

  Lemma okl_bind : forall A B L (P : A -> Prop) (Q : B -> Prop) (r : res A) (f : A -> res B),
    okl L P r -> (forall a, r = Ok a -> P a -> okl L Q (f a)) -> okl L Q (bind r f).
  Proof. intros A B L P Q [a|e|s] f H1 H2; simpl in *; auto. Qed.

  Lemma okl_weaken : forall A L (P Q : A -> Prop) (r : res A),
    okl L P r -> (forall a, r = Ok a -> P a -> Q a) -> okl L Q r.
  Proof. intros A L P Q [a|e|s] H1 H2; simpl in *; auto. Qed.

  Lemma okl_nil_incl : forall A L (P : A -> Prop) (r : res A), okl [] P r -> okl L P r.
  Proof. intros A L P [a|e|s] H; simpl in *; auto; contradiction. Qed.

  Lemma okl_swallow : forall A L (P : A -> Prop) (r : res A) old,
    okl L P r -> P old -> okl L P (swallow r old).
  Proof. intros A L P [a|e|s] old H1 H2; simpl in *; auto. Qed.

  Definition rlen (k : keeper) : N := len_N (k_result C k).
  Definition same_result (k k' : keeper) : Prop := k_result C k' = k_result C k.

  Lemma with_prev_result : forall k s, k_result C (with_prev C k s) = k_result C k.
  Proof. reflexivity. Qed.
  Lemma with_cur_result : forall k s, k_result C (with_cur C k s) = k_result C k.
  Proof. reflexivity. Qed.

  (* both sliders advance *)
  Lemma next_states_spec : forall k p c k1,
    next_states C k = (p, c, k1) ->
    same_result k k1 /\ (p <> None -> 1 <= s_pos C (k_prev C k1)) /\ (c <> None -> 1 <= s_pos C (k_cur C k1)).
  Proof.
    intros k p c k1 H. unfold next_states in H.
    destruct (next_state C (k_prev C k)) as [p' sp] eqn:Ep.
    destruct (next_state C (k_cur C k)) as [c' sc] eqn:Ec.
    inversion H; subst; clear H. unfold same_result; simpl. split; [reflexivity|]. split; intro N0.
    - destruct p as [st|]; [|congruence]. apply next_state_some_pos in Ep. tauto.
    - destruct c as [st|]; [|congruence]. apply next_state_some_pos in Ec. tauto.
  Qed.

  (* position_mapping.rs: `slider.position() - 1` is only evaluated for a slider that just returned a state *)
  Lemma prepare_positions_mapping_ok : forall sch k,
    (sch <> SchCurrent -> 1 <= s_pos C (k_prev C k)) ->
    (sch <> SchPrevious -> 1 <= s_pos C (k_cur C k)) ->
    okl [] (same_result k) (prepare_positions_mapping C sch k).
  Proof.
    intros sch k Hp Hc. unfold prepare_positions_mapping.
    destruct sch; simpl.
    - destruct (N.eqb_spec (s_pos C (k_prev C k)) 0) as [E|E]; [assert (1 <= s_pos C (k_prev C k)) by (apply Hp; congruence); lia|].
      simpl. reflexivity.
    - destruct (N.eqb_spec (s_pos C (k_cur C k)) 0) as [E|E]; [assert (1 <= s_pos C (k_cur C k)) by (apply Hc; congruence); lia|].
      simpl. reflexivity.
    - destruct (N.eqb_spec (s_pos C (k_prev C k)) 0) as [E|E]; [assert (1 <= s_pos C (k_prev C k)) by (apply Hp; congruence); lia|].
      simpl.
      destruct (N.eqb_spec (s_pos C (k_cur C k)) 0) as [E2|E2]; [assert (1 <= s_pos C (k_cur C k)) by (apply Hc; congruence); lia|].
      simpl. reflexivity.
  Qed.

  Lemma merge_call_results_no_crash : forall p c, okl [] (fun _ => True) (merge_call_results C ceqb p c).
  Proof.
    intros p c. unfold merge_call_results, merge_executed.
    repeat match goal with |- context [match ?x with _ => _ end] => destruct x; simpl end; auto.
  Qed.

  Lemma prepare_call_result_ok : forall r sch k,
    (sch <> SchCurrent -> 1 <= s_pos C (k_prev C k)) ->
    (sch <> SchPrevious -> 1 <= s_pos C (k_cur C k)) ->
    okl [] (fun rk => same_result k (snd rk)) (prepare_call_result C r sch k).
  Proof.
    intros r sch k Hp Hc. unfold prepare_call_result.
    eapply okl_bind; [apply prepare_positions_mapping_ok; assumption|].
    intros k1 _ S. simpl. exact S.
  Qed.

  Lemma merge_call_scheme : forall p c m sch, merge_call_results C ceqb p c = Ok (m, sch) -> True.
  Proof. auto. Qed.

  Lemma try_merge_call_spec : forall k,
    okl [] (fun rk => same_result k (snd rk)) (try_merge_next_state_as_call C ceqb k).
  Proof.
    intros k. unfold try_merge_next_state_as_call.
    destruct (next_states C k) as [[p c] k1] eqn:E.
    apply next_states_spec in E. destruct E as [S [Hp Hc]].
    assert (T : forall r sch, okl [] (fun rk => same_result k (snd rk)) (prepare_call_result C r sch k1) \/ True) by (intros; right; exact I).
    destruct p as [[ | pc | | | ]|]; destruct c as [[ | cc | | | ]|]; simpl; auto.
    - (* both calls *)
      eapply okl_bind; [apply merge_call_results_no_crash|].
      intros ms _ _.
      eapply okl_weaken; [apply prepare_call_result_ok|].
      + intros _. apply Hp. congruence.
      + intros _. apply Hc. congruence.
      + intros rk _ S2. unfold same_result in *. congruence.
    - eapply okl_weaken; [apply prepare_call_result_ok|].
      + intros _. apply Hp. congruence.
      + intros N0. congruence.
      + intros rk _ S2. unfold same_result in *. congruence.
    - eapply okl_weaken; [apply prepare_call_result_ok|].
      + intros N0. congruence.
      + intros _. apply Hc. congruence.
      + intros rk _ S2. unfold same_result in *. congruence.
  Qed.


  Lemma same_result_trans : forall a b c, same_result a b -> same_result b c -> same_result a c.
  Proof. unfold same_result; intros; congruence. Qed.
  Lemma same_result_refl : forall a, same_result a a.
  Proof. reflexivity. Qed.

  (* ap_merger.rs to_maybe_generation!: `$generations[0]` under the arm `1 =>` *)
  Lemma ap_generation_guarded : forall gens sch k r,
    prepare_ap_result C gens sch k = Ok r -> exists g, gens = [g].
  Proof.
    intros gens sch k r H. unfold prepare_ap_result in H.
    apply bind_ok in H. destruct H as [k1 [_ H]].
    destruct gens as [|g [|g2 rest]]; try discriminate. eauto.
  Qed.

  Lemma prepare_ap_result_ok : forall gens sch k,
    (sch <> SchCurrent -> 1 <= s_pos C (k_prev C k)) ->
    (sch <> SchPrevious -> 1 <= s_pos C (k_cur C k)) ->
    okl [] (fun rk => same_result k (snd rk)) (prepare_ap_result C gens sch k).
  Proof.
    intros gens sch k Hp Hc. unfold prepare_ap_result.
    eapply okl_bind; [apply prepare_positions_mapping_ok; assumption|].
    intros k1 _ S. destruct gens as [|g [|g2 rest]]; simpl; auto.
  Qed.

  Lemma try_merge_ap_spec : forall k,
    okl [] (fun rk => same_result k (snd rk)) (try_merge_next_state_as_ap C k).
  Proof.
    intros k. unfold try_merge_next_state_as_ap.
    destruct (next_states C k) as [[p c] k1] eqn:E.
    apply next_states_spec in E. destruct E as [S [Hp Hc]].
    destruct p as [[ | | pg | | ]|]; destruct c as [[ | | cg | | ]|]; simpl; auto;
      (eapply okl_weaken; [apply prepare_ap_result_ok|];
       [ intros N0; first [apply Hp; congruence | congruence]
       | intros N0; first [apply Hc; congruence | congruence]
       | intros rk _ S2; unfold same_result in *; congruence ]).
  Qed.

  Lemma try_merge_canon_spec : forall k,
    okl [] (fun rk => same_result k (snd rk)) (try_merge_next_state_as_canon C ceqb k).
  Proof.
    intros k. unfold try_merge_next_state_as_canon.
    destruct (next_states C k) as [[p c] k1] eqn:E.
    apply next_states_spec in E. destruct E as [S _].
    destruct p as [[ | | | pc | ]|]; destruct c as [[ | | | cc | ]|]; simpl; auto.
    unfold merge_canon_results.
    repeat match goal with |- context [match ?x with _ => _ end] => destruct x; simpl end; auto.
  Qed.

  Lemma try_merge_par_spec : forall k,
    okl [] (fun r => same_result k (snd r)) (try_merge_next_state_as_par C k).
  Proof.
    intros k. unfold try_merge_next_state_as_par.
    destruct (next_states C k) as [[p c] k1] eqn:E.
    apply next_states_spec in E. destruct E as [S _].
    destruct p as [[ | | | | ]|]; destruct c as [[ | | | | ]|]; simpl; auto.
  Qed.

  (* fold_lore_resolver.rs *)
  Lemma lens_convolution_no_crash : forall s lore first last_gen grp done count cum,
    okl [] (fun _ => True) (lens_convolution C s lore first last_gen grp done count cum).
  Proof.
    intros s lore. induction lore as [|l rest IH]; intros; simpl; auto.
    destruct (fl_descs l) as [|b [|a [|x y]]]; simpl; auto.
    pose proof (try_get_generation_no_crash s (fl_value_pos l)) as G.
    destruct (try_get_generation C s (fl_value_pos l)) as [g|e|st]; simpl in *; auto.
    match goal with |- context [if ?b then _ else _] => destruct b end; simpl; auto.
  Qed.

  (* every entry that the convolution accepted has exactly two descriptors: `subtraces_desc[0]`, `[1]` *)
  Lemma fold_descs_checked : forall s lore first last_gen grp done count cum r,
    lens_convolution C s lore first last_gen grp done count cum = Ok r ->
    Forall (fun l => exists b a, fl_descs l = [b; a]) lore.
  Proof.
    intros s lore. induction lore as [|l rest IH]; intros first last_gen grp done count cum r H; [constructor|].
    simpl in H.
    destruct (fl_descs l) as [|b [|a [|x y]]] eqn:D; try discriminate.
    destruct (try_get_generation C s (fl_value_pos l)) as [g|e|st]; simpl in H; try discriminate.
    match type of H with context [if ?b then _ else _] => destruct b end; [discriminate|].
    constructor; [eauto|]. eapply IH. exact H.
  Qed.

  (* fold_lore_resolver.rs: `cum_after_len += after_len`, `cum_before_len += *before_len`,
     `*before_len = cum_before_len + after_len` stay below fold_states_count, which is built with checked_add *)
  Definition sumB (l : list lores_len) : N := fold_right (fun x acc => ll_before x + acc) 0 l.
  Definition lens_le (n : N) (l : list lores_len) : Prop := Forall (fun x => ll_before x <= n /\ ll_after x <= n) l.

  Lemma sumB_app : forall a b, sumB (a ++ b) = sumB a + sumB b.
  Proof. induction a as [|x r IH]; intros b; simpl; [reflexivity|]. rewrite IH. lia. Qed.
  Lemma sumB_rev : forall a, sumB (rev a) = sumB a.
  Proof. induction a as [|x r IH]; simpl; [reflexivity|]. rewrite sumB_app, IH. simpl. lia. Qed.

  Lemma lens_le_mono : forall n n' l, n <= n' -> lens_le n l -> lens_le n' l.
  Proof. intros n n' l H F. eapply Forall_impl; [|exact F]. intros x [A B]. simpl. lia. Qed.

  Lemma before_lens_rev_bound : forall seg cum after A,
    Forall (fun x => ll_after x <= A) seg ->
    Forall (fun x => ll_before x <= cum + sumB seg + after /\ ll_after x <= A) (before_lens_rev seg cum after).
  Proof.
    induction seg as [|x r IH]; intros cum after A F; simpl; [constructor|].
    inversion F; subst. constructor.
    - simpl. split; [lia|assumption].
    - specialize (IH (cum + ll_before x) after A H2).
      eapply Forall_impl; [|exact IH]. intros y [B1 B2]. simpl. split; [lia|exact B2].
  Qed.

  Lemma close_group_bound : forall grp A,
    Forall (fun x => ll_after x <= A) grp -> lens_le (sumB grp + A) (close_group grp).
  Proof.
    intros grp A F. unfold close_group.
    destruct (rev grp) as [|last rest] eqn:E; [constructor|].
    assert (FR : Forall (fun x => ll_after x <= A) (rev grp)) by (apply Forall_rev; exact F).
    rewrite E in FR. assert (LA : ll_after last <= A) by (inversion FR; assumption).
    apply Forall_rev.
    pose proof (before_lens_rev_bound (last :: rest) 0 (ll_after last) A FR) as B.
    assert (SE : sumB (last :: rest) = sumB grp) by (rewrite <- E; apply sumB_rev).
    eapply Forall_impl; [|exact B]. intros y [B1 B2]. cbv beta in *. rewrite SE in B1. split; lia.
  Qed.

  Lemma fold_lens_bounded_gen : forall s lore first last_gen grp done count cum r,
    count <= u32_max -> sumB grp + cum <= count -> Forall (fun x => ll_after x <= cum) grp -> lens_le count done ->
    lens_convolution C s lore first last_gen grp done count cum = Ok r ->
    count <= fst r /\ fst r <= u32_max /\ lens_le (fst r) (snd r).
  Proof.
    intros s lore. induction lore as [|l rest IH]; intros first last_gen grp done count cum r Hc Hs Hg Hd H.
    - simpl in H. inversion H; subst; simpl. split; [lia|]. split; [exact Hc|].
      apply Forall_app. split; [exact Hd|]. eapply lens_le_mono; [|apply close_group_bound; exact Hg]. exact Hs.
    - simpl in H.
      destruct (fl_descs l) as [|b [|a [|x y]]]; try discriminate.
      destruct (try_get_generation C s (fl_value_pos l)) as [g|e|st]; simpl in H; try discriminate.
      destruct ((u32_max <? count + sd_len b) || (u32_max <? count + sd_len b + sd_len a)) eqn:G; [discriminate|].
      apply Bool.orb_false_iff in G. destruct G as [_ G]. apply N.ltb_ge in G.
      destruct (negb (last_gen =? g)) eqn:NG.
      + (* a new generation group starts *)
        simpl in H.
        apply IH in H; simpl; try lia.
        * destruct H as [H1 [H2 H3]]. split; [lia|]. split; assumption.
        * constructor; [simpl; lia|constructor].
        * destruct first; simpl.
          -- eapply lens_le_mono; [|exact Hd]. lia.
          -- apply Forall_app. split; [eapply lens_le_mono; [|exact Hd]; lia|].
             eapply lens_le_mono; [|apply close_group_bound; exact Hg]. lia.
      + simpl in H.
        apply IH in H; simpl; try lia.
        * destruct H as [H1 [H2 H3]]. split; [lia|]. split; assumption.
        * rewrite sumB_app. simpl. lia.
        * apply Forall_app. split.
          -- eapply Forall_impl; [|exact Hg]. intros z Z. simpl in *. lia.
          -- constructor; [simpl; lia|constructor].
        * eapply lens_le_mono; [|exact Hd]. lia.
  Qed.

  Lemma fold_lens_bounded : forall s lore r,
    lens_convolution C s lore true 0 [] [] 0 0 = Ok r ->
    fst r <= u32_max /\ lens_le (fst r) (snd r).
  Proof.
    intros s lore r H.
    destruct (fold_lens_bounded_gen s lore true 0 [] [] 0 0 r) as [_ [G1 G2]]; auto;
      try (unfold u32_max; simpl; lia); try constructor.
  Qed.

  Lemma build_resolved_no_crash : forall lore lens acc, okl [] (fun _ => True) (build_resolved lore lens acc).
  Proof.
    induction lore as [|l lr IH]; intros [|n nr] acc; simpl; auto.
    destruct (fl_descs l) as [|b [|a [|x y]]]; simpl; auto.
    destruct (assoc_mem acc (fl_value_pos l)); simpl; auto.
  Qed.

  Lemma resolve_fold_lore_no_crash : forall lore s, okl [] (fun _ => True) (resolve_fold_lore C lore s).
  Proof.
    intros. unfold resolve_fold_lore.
    eapply okl_bind; [apply lens_convolution_no_crash|]. intros cl _ _.
    eapply okl_bind; [apply build_resolved_no_crash|]. intros m _ _. simpl. exact I.
  Qed.

  Lemma try_merge_fold_spec : forall k,
    okl [] (fun r => same_result k (snd r)) (try_merge_next_state_as_fold C k).
  Proof.
    intros k. unfold try_merge_next_state_as_fold.
    destruct (next_states C k) as [[p c] k1] eqn:E.
    apply next_states_spec in E. destruct E as [S _].
    destruct p as [[ | | | | pf]|]; destruct c as [[ | | | | cf]|]; simpl; auto;
      repeat (eapply okl_bind; [apply resolve_fold_lore_no_crash|]; intros ? _ _); simpl; auto.
  Qed.


  (* ---- state_automata ---- *)
  Lemma update_ctx_states_spec : forall ps cs k, okl [] (same_result k) (update_ctx_states C ps cs k).
  Proof.
    intros ps cs k. unfold update_ctx_states.
    eapply okl_bind with (P := fun _ => True).
    { pose proof (set_position_and_len_no_crash (k_prev C k) (cs_pos ps) (cs_len ps)) as G.
      destruct (set_position_and_len C (k_prev C k) (cs_pos ps) (cs_len ps)); simpl in *; auto. }
    intros sp _ _.
    eapply okl_bind with (P := fun _ => True).
    { pose proof (set_position_and_len_no_crash (k_cur C k) (cs_pos cs) (cs_len cs)) as G.
      destruct (set_position_and_len C (k_cur C k) (cs_pos cs) (cs_len cs)); simpl in *; auto. }
    intros sc _ _. simpl. reflexivity.
  Qed.

  Lemma par_new_state_no_crash : forall par sg s, okl [] (fun _ => True) (par_new_state C par sg s).
  Proof.
    intros [l r] sg s. unfold par_new_state.
    destruct sg; simpl;
      repeat match goal with |- context [if ?b then _ else _] => destruct b; simpl end; auto.
  Qed.

  Lemma fold_new_state_no_crash : forall n s, okl [] (fun _ => True) (fold_new_state C n s).
  Proof.
    intros. unfold fold_new_state.
    repeat match goal with |- context [if ?b then _ else _] => destruct b; simpl end; auto.
  Qed.

  Lemma set_subtrace_len_okl : forall s l, okl [] (fun _ => True) (set_subtrace_len C s l).
  Proof.
    intros s l. pose proof (set_subtrace_len_no_crash s l) as G.
    destruct (set_subtrace_len C s l); simpl in *; auto.
  Qed.
  Lemma set_position_and_len_okl : forall s p l, okl [] (fun _ => True) (set_position_and_len C s p l).
  Proof.
    intros s p l. pose proof (set_position_and_len_no_crash s p l) as G.
    destruct (set_position_and_len C s p l); simpl in *; auto.
  Qed.

  Lemma par_prepare_sliders_spec : forall f sg k, okl [] (same_result k) (par_prepare_sliders C f sg k).
  Proof.
    intros f sg k. unfold par_prepare_sliders.
    eapply okl_bind; [apply set_subtrace_len_okl|]. intros sp _ _.
    eapply okl_bind; [apply set_subtrace_len_okl|]. intros sc _ _. simpl. reflexivity.
  Qed.

  Definition par_ok (n : N) (f : par_fsm) : Prop := pf_saved f <= n /\ pf_inserter f < n.
  Definition fold_ok (n : N) (p : N * fold_fsm) : Prop := ff_inserter (snd p) < n.

  Lemma par_ok_mono : forall n n' f, n <= n' -> par_ok n f -> par_ok n' f.
  Proof. unfold par_ok; intros; lia. Qed.
  Lemma fold_ok_mono : forall n n' p, n <= n' -> fold_ok n p -> fold_ok n' p.
  Proof. unfold fold_ok; intros; lia. Qed.

  Lemma rlen_push : forall k st, rlen (push_state C k st) = rlen k + 1.
  Proof. intros. unfold rlen, push_state; simpl. rewrite len_N_app. reflexivity. Qed.

  Lemma same_result_rlen : forall k k', same_result k k' -> rlen k' = rlen k.
  Proof. unfold same_result, rlen; intros; congruence. Qed.

  (* ParFSM::from_left_started *)
  Lemma par_from_left_started_spec : forall pp cp k,
    okl [] (fun fk => rlen (snd fk) = rlen k + 1 /\ par_ok (rlen (snd fk)) (fst fk)) (par_from_left_started C pp cp k).
  Proof.
    intros pp cp k. unfold par_from_left_started.
    repeat (eapply okl_bind; [apply par_new_state_no_crash|]; intros ? _ _).
    eapply okl_bind; [apply par_prepare_sliders_spec|]. intros k2 _ S. simpl.
    apply same_result_rlen in S. rewrite S. unfold par_ok; simpl.
    rewrite rlen_push. unfold result_next_pos. rewrite len_N_app.
    change (len_N [SPar 0 0]) with 1. unfold rlen. lia.
  Qed.

  (* ParBuilder::track: `states_count - prev_states_count` *)
  Lemma par_track_spec : forall f sg k, pf_saved f <= rlen k ->
    okl [] (fun f1 => pf_saved f1 = rlen k /\ pf_inserter f1 = pf_inserter f /\ pf_prev f1 = pf_prev f /\ pf_cur f1 = pf_cur f
                      /\ pf_left f1 = pf_left f /\ pf_right f1 = pf_right f) (par_track C f sg k).
  Proof.
    intros f sg k H. unfold par_track. fold (rlen k).
    destruct (N.ltb_spec (rlen k) (pf_saved f)); [lia|]. simpl. tauto.
  Qed.

  (* StateInserter::insert: `result_trace[self.position] = state` *)
  Lemma insert_state_spec : forall k p st, p < rlen k ->
    okl [] (fun k' => rlen k' = rlen k) (insert_state C k p st).
  Proof.
    intros k p st H. unfold insert_state. fold (rlen k).
    destruct (N.ltb_spec p (rlen k)); [|lia]. simpl. unfold rlen; simpl. apply len_N_set_nth.
  Qed.

  Lemma par_left_completed_spec : forall f k, par_ok (rlen k) f ->
    okl [] (fun fk => rlen (snd fk) = rlen k /\ par_ok (rlen k) (fst fk)) (par_left_completed C f k).
  Proof.
    intros f k [Hs Hi]. unfold par_left_completed.
    eapply okl_bind; [apply par_track_spec; assumption|]. intros f1 _ [F1 [F2 _]].
    eapply okl_bind; [apply update_ctx_states_spec|]. intros k1 _ S1.
    apply same_result_rlen in S1.
    assert (P1 : par_ok (rlen k) f1) by (unfold par_ok; lia).
    pose proof (set_subtrace_len_no_crash (k_prev C k1) (snd (pf_prev f1))) as G1.
    destruct (set_subtrace_len C (k_prev C k1) (snd (pf_prev f1))) as [sp|e|st]; simpl in *; auto.
    pose proof (set_subtrace_len_no_crash (k_cur C k1) (snd (pf_cur f1))) as G2.
    destruct (set_subtrace_len C (k_cur C k1) (snd (pf_cur f1))) as [sc|e|st]; simpl in *; auto.
  Qed.

  Lemma par_right_completed_spec : forall f k, par_ok (rlen k) f ->
    okl [] (fun k' => rlen k' = rlen k) (par_right_completed C f k).
  Proof.
    intros f k [Hs Hi]. unfold par_right_completed.
    eapply okl_bind; [apply par_track_spec; assumption|]. intros f1 _ [F1 [F2 _]].
    eapply okl_bind; [apply insert_state_spec; lia|]. intros k1 _ R1.
    eapply okl_weaken; [apply update_ctx_states_spec|]. intros k2 _ S. apply same_result_rlen in S. cbv beta in *. lia.
  Qed.

  (* ---- fold fsm ---- *)
  Lemma fold_from_start_spec : forall rp rc k,
    okl [] (fun fk => rlen (snd fk) = rlen k + 1 /\ ff_inserter (fst fk) < rlen (snd fk)) (fold_from_start C rp rc k).
  Proof.
    intros rp rc k. unfold fold_from_start.
    repeat (eapply okl_bind; [apply fold_new_state_no_crash|]; intros ? _ _).
    simpl. rewrite rlen_push. unfold result_next_pos, rlen. lia.
  Qed.

  Lemma apply_fold_lore_okl : forall s l after, okl [] (fun _ => True) (apply_fold_lore C s l after).
  Proof.
    intros s [d|] after; unfold apply_fold_lore; [apply set_position_and_len_okl|apply set_subtrace_len_okl].
  Qed.

  Lemma apply_fold_lore_both_spec : forall k pl cl after, okl [] (same_result k) (apply_fold_lore_both C k pl cl after).
  Proof.
    intros. unfold apply_fold_lore_both.
    eapply okl_bind; [apply apply_fold_lore_okl|]. intros sp _ _.
    eapply okl_bind; [apply apply_fold_lore_okl|]. intros sc _ _. simpl. reflexivity.
  Qed.

  Lemma fold_iteration_start_spec : forall f vp k,
    okl [] (fun fk => same_result k (snd fk) /\ ff_inserter (fst fk) = ff_inserter f) (fold_iteration_start C f vp k).
  Proof.
    intros f vp k. unfold fold_iteration_start.
    destruct (match bimap_get_by_left (k_new_to_prev C k) vp with Some p => assoc_remove (ff_prev f) p | None => (None, ff_prev f) end) as [pl prev'].
    destruct (match bimap_get_by_left (k_new_to_cur C k) vp with Some p => assoc_remove (ff_cur f) p | None => (None, ff_cur f) end) as [cl cur'].
    eapply okl_bind; [apply apply_fold_lore_both_spec|]. intros k1 _ S. simpl. split; [exact S|reflexivity].
  Qed.

  Definition L_api : list site := [SiteCtorQueueCurrent; SiteTrackerLen].

  Lemma queue_current_spec : forall f,
    okl L_api (fun id => ff_back_pos f <> 0) (queue_current f).
  Proof.
    intros f. unfold queue_current.
    destruct (N.eqb_spec (ff_back_pos f) 0) as [E|E]; simpl; [left; reflexivity|].
    destruct (nth_error (ff_queue f) (N.to_nat (ff_back_pos f - 1))); simpl; [exact E|left; reflexivity].
  Qed.

  Lemma queue_update_fields : forall f i c,
    ff_inserter (queue_update f i c) = ff_inserter f /\ ff_back_pos (queue_update f i c) = ff_back_pos f.
  Proof.
    intros f i c. unfold queue_update. destruct (nth_error (ff_queue f) i); simpl; auto.
  Qed.

  Lemma fold_iteration_end_spec : forall f k,
    okl L_api (fun f1 => ff_inserter f1 = ff_inserter f) (fold_iteration_end C f k).
  Proof.
    intros f k. unfold fold_iteration_end.
    eapply okl_bind; [apply queue_current_spec|]. intros id _ _. simpl. apply queue_update_fields.
  Qed.

  (* lore_ctor_queue.rs traverse_back: `back_traversal_pos -= 1` right after current() succeeded *)
  Lemma fold_back_iterator_spec : forall f k,
    okl L_api (fun fk => same_result k (snd fk) /\ ff_inserter (fst fk) = ff_inserter f) (fold_back_iterator C f k).
  Proof.
    intros f k. unfold fold_back_iterator.
    eapply okl_bind; [apply queue_current_spec|]. intros [i d] _ NZ.
    destruct (ff_back_started f); simpl.
    - pose proof (queue_update_fields f i (ctor_after_end (cd_ctor d) (result_next_pos C k))) as [Q1 Q2].
      rewrite Q2. destruct (N.eqb_spec (ff_back_pos f) 0) as [E|E]; [contradiction|].
      eapply okl_bind; [apply queue_current_spec|]. intros [i2 d2] _ _.
      eapply okl_bind; [apply okl_nil_incl, apply_fold_lore_both_spec|]. intros k1 _ S. simpl.
      split; [exact S|].
      match goal with |- ff_inserter (queue_update ?g ?j ?c) = _ => pose proof (queue_update_fields g j c) as [Q3 _]; rewrite Q3 end.
      simpl. exact Q1.
    - eapply okl_bind; [apply okl_nil_incl, apply_fold_lore_both_spec|]. intros k1 _ S. simpl.
      split; [exact S|].
      match goal with |- ff_inserter (queue_update ?g ?j ?c) = _ => pose proof (queue_update_fields g j c) as [Q3 _]; rewrite Q3 end.
      reflexivity.
  Qed.

  Lemma ctors_into_lore_spec : forall q n, okl L_api (fun _ => True) (ctors_into_lore q n).
  Proof.
    induction q as [|d r IH]; intros n; simpl; auto.
    eapply okl_bind with (P := fun _ => True).
    { unfold ctor_into_lore. match goal with |- context [if ?b then _ else _] => destruct b end; simpl; auto. }
    intros l _ _. eapply okl_bind; [apply IH|]. intros ls _ _. simpl. exact I.
  Qed.

  Lemma fold_generation_end_spec : forall f k,
    okl L_api (fun f1 => ff_inserter f1 = ff_inserter f) (fold_generation_end C f k).
  Proof.
    intros f k. unfold fold_generation_end.
    eapply okl_bind; [apply ctors_into_lore_spec|]. intros lore _ _. simpl. reflexivity.
  Qed.

  Lemma fold_end_spec : forall f k, ff_inserter f < rlen k ->
    okl [] (fun k' => rlen k' = rlen k) (fold_end C f k).
  Proof.
    intros f k H. unfold fold_end.
    eapply okl_bind; [apply insert_state_spec; exact H|]. intros k1 _ R.
    eapply okl_weaken; [apply update_ctx_states_spec|]. intros k2 _ S. apply same_result_rlen in S. cbv beta in *. lia.
  Qed.


  (* ---- handler.rs: the invariant "every open par / fold placeholder lies inside the result trace" ---- *)
  Definition hlen (h : handler) : N := rlen (h_keeper C h).
  Definition hinv (h : handler) : Prop :=
    Forall (par_ok (hlen h)) (h_pars C h) /\ Forall (fold_ok (hlen h)) (h_folds C h).

  Lemma hinv_from : forall prev cur, hinv (handler_from C prev cur).
  Proof. intros. unfold hinv; simpl. split; constructor. Qed.

  Definition step_ok (h : handler) (h' : handler) : Prop := hinv h' /\ hlen h <= hlen h'.

  Lemma Forall_par_mono : forall n n' l, n <= n' -> Forall (par_ok n) l -> Forall (par_ok n') l.
  Proof. intros n n' l Hle H. eapply Forall_impl; [|exact H]. intros a. apply par_ok_mono; assumption. Qed.
  Lemma Forall_fold_mono : forall n n' l, n <= n' -> Forall (fold_ok n) l -> Forall (fold_ok n') l.
  Proof. intros n n' l Hle H. eapply Forall_impl; [|exact H]. intros a. apply fold_ok_mono; assumption. Qed.

  Lemma hinv_with_keeper : forall h k, hinv h -> hlen h <= rlen k -> step_ok h (with_keeper C h k).
  Proof.
    intros h k [Hp Hf] Hle. unfold step_ok, hinv, hlen; simpl. split; [split|exact Hle].
    - eapply Forall_par_mono; eauto.
    - eapply Forall_fold_mono; eauto.
  Qed.

  Lemma folds_get_ok : forall n m id f, Forall (fold_ok n) m -> folds_get m id = Some f -> ff_inserter f < n.
  Proof.
    induction m as [|[a g] r IH]; intros id f H G; simpl in G; [discriminate|].
    inversion H; subst. destruct (a =? id); [inversion G; subst; assumption|eauto].
  Qed.

  Lemma Forall_filter : forall A (P : A -> Prop) (q : A -> bool) l, Forall P l -> Forall P (filter q l).
  Proof.
    induction l as [|x r IH]; intros H; simpl; [constructor|].
    inversion H; subst. destruct (q x); [constructor|]; auto.
  Qed.

  Lemma folds_put_ok : forall n m id f, Forall (fold_ok n) m -> ff_inserter f < n -> Forall (fold_ok n) (folds_put m id f).
  Proof. intros. unfold folds_put. constructor; [assumption|]. now apply Forall_filter. Qed.

  Lemma folds_del_ok : forall n m id, Forall (fold_ok n) m -> Forall (fold_ok n) (folds_del m id).
  Proof. intros. unfold folds_del. now apply Forall_filter. Qed.

  Lemma meet_call_start_spec : forall h, hinv h ->
    okl [] (fun rh => step_ok h (snd rh)) (meet_call_start C ceqb h).
  Proof.
    intros h I. unfold meet_call_start.
    eapply okl_bind; [apply try_merge_call_spec|]. intros rk _ S. simpl.
    apply hinv_with_keeper; [exact I|]. apply same_result_rlen in S. unfold hlen. lia.
  Qed.
  Lemma meet_ap_start_spec : forall h, hinv h ->
    okl [] (fun rh => step_ok h (snd rh)) (meet_ap_start C h).
  Proof.
    intros h I. unfold meet_ap_start.
    eapply okl_bind; [apply try_merge_ap_spec|]. intros rk _ S. simpl.
    apply hinv_with_keeper; [exact I|]. apply same_result_rlen in S. unfold hlen. lia.
  Qed.
  Lemma meet_canon_start_spec : forall h, hinv h ->
    okl [] (fun rh => step_ok h (snd rh)) (meet_canon_start C ceqb h).
  Proof.
    intros h I. unfold meet_canon_start.
    eapply okl_bind; [apply try_merge_canon_spec|]. intros rk _ S. simpl.
    apply hinv_with_keeper; [exact I|]. apply same_result_rlen in S. unfold hlen. lia.
  Qed.

  Lemma push_step_ok : forall h st, hinv h -> step_ok h (with_keeper C h (push_state C (h_keeper C h) st)).
  Proof. intros h st I. apply hinv_with_keeper; [exact I|]. rewrite rlen_push. unfold hlen. lia. Qed.

  Lemma step_ok_trans : forall a b c, step_ok a b -> step_ok b c -> step_ok a c.
  Proof. unfold step_ok; intros a b c [_ H1] [I2 H2]. split; [exact I2|lia]. Qed.

  Lemma meet_par_start_spec : forall h, hinv h -> okl [] (step_ok h) (meet_par_start C h).
  Proof.
    intros h [Ip If]. unfold meet_par_start.
    eapply okl_bind; [apply try_merge_par_spec|]. intros [[pp cp] k1] _ S. simpl in S.
    eapply okl_bind; [apply par_from_left_started_spec|]. intros [f k2] _ [R P]. simpl in *.
    apply same_result_rlen in S.
    unfold step_ok, hinv, hlen; simpl. split; [split|lia].
    - constructor; [exact P|]. eapply Forall_par_mono; [|exact Ip]. unfold hlen. lia.
    - eapply Forall_fold_mono; [|exact If]. unfold hlen. lia.
  Qed.

  Lemma meet_par_subgraph_end_spec : forall h sg, hinv h -> okl [] (step_ok h) (meet_par_subgraph_end C h sg).
  Proof.
    intros h sg [Ip If]. unfold meet_par_subgraph_end.
    destruct (h_pars C h) as [|f rest] eqn:E; simpl; auto.
    inversion Ip; subst.
    destruct sg.
    - eapply okl_bind; [apply par_left_completed_spec; assumption|]. intros [f1 k1] _ [R P]. simpl in *.
      unfold step_ok, hinv, hlen; simpl. rewrite R. split; [split|lia].
      + constructor; assumption.
      + exact If.
    - eapply okl_bind; [apply par_right_completed_spec; assumption|]. intros k1 _ R. simpl in *.
      unfold step_ok, hinv, hlen; simpl. rewrite R. split; [split|lia]; assumption.
  Qed.

  Lemma meet_fold_start_spec : forall h id, hinv h -> okl [] (step_ok h) (meet_fold_start C h id).
  Proof.
    intros h id [Ip If]. unfold meet_fold_start.
    eapply okl_bind; [apply try_merge_fold_spec|]. intros [[rp rc] k1] _ S. simpl in S.
    eapply okl_bind; [apply fold_from_start_spec|]. intros [f k2] _ [R P]. simpl in *.
    apply same_result_rlen in S.
    unfold step_ok, hinv, hlen; simpl. split; [split|lia].
    - eapply Forall_par_mono; [|exact Ip]. unfold hlen. lia.
    - apply folds_put_ok; [|exact P]. eapply Forall_fold_mono; [|exact If]. unfold hlen. lia.
  Qed.

  Lemma with_fold_step_ok : forall h id f k, hinv h -> rlen k = hlen h -> ff_inserter f < hlen h ->
    step_ok h (with_fold C h id f k).
  Proof.
    intros h id f k [Ip If] R P. unfold step_ok, hinv, with_fold, hlen in *; simpl. rewrite R.
    split; [split|lia]; [exact Ip|]. apply folds_put_ok; assumption.
  Qed.

  Lemma meet_iteration_start_spec : forall h id vp, hinv h -> okl [] (step_ok h) (meet_iteration_start C h id vp).
  Proof.
    intros h id vp I. unfold meet_iteration_start.
    destruct (folds_get (h_folds C h) id) as [f|] eqn:G; simpl; auto.
    pose proof (folds_get_ok _ _ _ _ (proj2 I) G) as P.
    eapply okl_bind; [apply fold_iteration_start_spec|]. intros [f1 k1] _ [S Q]. simpl in *.
    apply with_fold_step_ok; [exact I| |lia]. apply same_result_rlen in S. exact S.
  Qed.

  Lemma meet_iteration_end_spec : forall h id, hinv h -> okl L_api (step_ok h) (meet_iteration_end C h id).
  Proof.
    intros h id I. unfold meet_iteration_end.
    destruct (folds_get (h_folds C h) id) as [f|] eqn:G; simpl; auto.
    pose proof (folds_get_ok _ _ _ _ (proj2 I) G) as P.
    eapply okl_bind; [apply fold_iteration_end_spec|]. intros f1 _ Q. simpl in *.
    apply with_fold_step_ok; [exact I|reflexivity|lia].
  Qed.

  Lemma meet_back_iterator_spec : forall h id, hinv h -> okl L_api (step_ok h) (meet_back_iterator C h id).
  Proof.
    intros h id I. unfold meet_back_iterator.
    destruct (folds_get (h_folds C h) id) as [f|] eqn:G; simpl; auto.
    pose proof (folds_get_ok _ _ _ _ (proj2 I) G) as P.
    eapply okl_bind; [apply fold_back_iterator_spec|]. intros [f1 k1] _ [S Q]. simpl in *.
    apply with_fold_step_ok; [exact I| |lia]. apply same_result_rlen in S. exact S.
  Qed.

  Lemma meet_generation_end_spec : forall h id, hinv h -> okl L_api (step_ok h) (meet_generation_end C h id).
  Proof.
    intros h id I. unfold meet_generation_end.
    destruct (folds_get (h_folds C h) id) as [f|] eqn:G; simpl; auto.
    pose proof (folds_get_ok _ _ _ _ (proj2 I) G) as P.
    eapply okl_bind; [apply fold_generation_end_spec|]. intros f1 _ Q. simpl in *.
    apply with_fold_step_ok; [exact I|reflexivity|lia].
  Qed.

  Lemma meet_fold_end_spec : forall h id, hinv h -> okl [] (step_ok h) (meet_fold_end C h id).
  Proof.
    intros h id I. unfold meet_fold_end.
    destruct (folds_get (h_folds C h) id) as [f|] eqn:G; simpl; auto.
    pose proof (folds_get_ok _ _ _ _ (proj2 I) G) as P.
    eapply okl_bind; [apply fold_end_spec; exact P|]. intros k1 _ R. simpl in *.
    destruct I as [Ip If].
    unfold step_ok, hinv, hlen; simpl. rewrite R. split; [split|lia]; [exact Ip|]. now apply folds_del_ok.
  Qed.

  Lemma update_generation_spec : forall h p g h', hinv h -> update_generation C h p g = inl h' -> step_ok h h'.
  Proof.
    intros h p g h' I H. unfold update_generation in H.
    destruct (nth_N (k_result C (h_keeper C h)) p) as [[ | [ | [ | | ] | ] | | | ]|]; try discriminate;
      inversion H; subst; apply hinv_with_keeper; try exact I;
      unfold rlen, hlen, rlen; simpl; rewrite len_N_set_nth; lia.
  Qed.

End HandlerCrash.

(* ---------------------------------------------------------------------------------------------- *)
(* the op language of the correspondence (HandlerCases / CrashCases), CIDs as text *)

Notation hinv_s := (hinv string).
Notation step_ok_s := (step_ok string).

Lemma apply_op_spec : forall (h : hhandler) (o : hop), hinv_s h ->
  okl (L_api) (step_ok_s h) (apply_op h o).
Proof.
  intros h o I. destruct o; unfold apply_op.
  - (* OpCallAuto *)
    eapply okl_bind; [apply okl_nil_incl, meet_call_start_spec; exact I|]. intros [r h1] _ S. simpl in *.
    unfold call_push. destruct r as [|m p sr]; [destruct d as [c|]|]; simpl;
      try exact S; (eapply step_ok_trans; [exact S|apply push_step_ok; apply S]).
  - eapply okl_bind; [apply okl_nil_incl, meet_call_start_spec; exact I|]. intros [r h1] _ S. simpl in *. exact S.
  - simpl. apply push_step_ok. exact I.
  - (* OpApAuto *)
    eapply okl_bind; [apply okl_nil_incl, meet_ap_start_spec; exact I|]. intros [r h1] _ S. simpl in *.
    destruct r; (eapply step_ok_trans; [exact S|apply push_step_ok; apply S]).
  - eapply okl_bind; [apply okl_nil_incl, meet_ap_start_spec; exact I|]. intros [r h1] _ S. simpl in *. exact S.
  - simpl. apply push_step_ok. exact I.
  - (* OpCanonAuto *)
    eapply okl_bind; [apply okl_nil_incl, meet_canon_start_spec; exact I|]. intros [r h1] _ S. simpl in *.
    destruct r; (eapply step_ok_trans; [exact S|apply push_step_ok; apply S]).
  - eapply okl_bind; [apply okl_nil_incl, meet_canon_start_spec; exact I|]. intros [r h1] _ S. simpl in *. exact S.
  - simpl. apply push_step_ok. exact I.
  - apply okl_nil_incl, meet_par_start_spec; exact I.
  - apply okl_nil_incl, meet_par_subgraph_end_spec; exact I.
  - apply okl_nil_incl, meet_fold_start_spec; exact I.
  - apply okl_nil_incl, meet_iteration_start_spec; exact I.
  - apply okl_nil_incl, meet_iteration_start_spec; exact I.
  - apply meet_iteration_end_spec; exact I.
  - apply meet_back_iterator_spec; exact I.
  - apply meet_generation_end_spec; exact I.
  - apply okl_nil_incl, meet_fold_end_spec; exact I.
  - destruct (update_generation string h pos g) as [h'|e] eqn:U; simpl.
    + eapply update_generation_spec; eauto.
    + split; [exact I|lia].
  - simpl. split; [exact I|lia].
Qed.

(* MAIN (handler): for all traces and all op sequences the first panic, if any, is a protocol-misuse site *)
Lemma run_site_api_only : forall ops (h : hhandler) s, hinv_s h -> run_site h ops = Some s -> In s L_api.
Proof.
  induction ops as [|o rest IH]; intros h s I H; simpl in H; [discriminate|].
  pose proof (apply_op_spec h o I) as A.
  destruct (apply_op h o) as [h'|e|s']; simpl in A; try discriminate.
  - eapply IH; [apply A|exact H].
  - inversion H; subst. exact A.
Qed.

Theorem handler_no_crash_except : forall (prev cur : htrace) (ops : list hop) s,
  run_site (handler_from string prev cur) ops = Some s -> In s [SiteCtorQueueCurrent; SiteTrackerLen].
Proof. intros. eapply run_site_api_only; [apply hinv_from|eassumption]. Qed.

(* named consequences: the sites of the catalogue that no input and no caller can reach *)
Lemma site_not_reachable : forall s, ~ In s L_api ->
  forall prev cur ops, run_site (handler_from string prev cur) ops <> Some s.
Proof. intros s N0 prev cur ops H. apply N0. eapply handler_no_crash_except; eauto. Qed.

Lemma handler_pos_plus_len_unreachable : forall prev cur ops, run_site (handler_from string prev cur) ops <> Some SitePosPlusLen.
Proof. apply site_not_reachable. simpl. intuition discriminate. Qed.
Lemma handler_remainder_unreachable : forall prev cur ops, run_site (handler_from string prev cur) ops <> Some SiteRemainder.
Proof. apply site_not_reachable. simpl. intuition discriminate. Qed.
Lemma handler_pos_minus_one_unreachable : forall prev cur ops, run_site (handler_from string prev cur) ops <> Some SitePosMinusOne.
Proof. apply site_not_reachable. simpl. intuition discriminate. Qed.
Lemma handler_ap_generation_index_unreachable : forall prev cur ops, run_site (handler_from string prev cur) ops <> Some SiteApGenerationIndex.
Proof. apply site_not_reachable. simpl. intuition discriminate. Qed.
Lemma handler_par_track_unreachable : forall prev cur ops, run_site (handler_from string prev cur) ops <> Some SiteParBuilderTrack.
Proof. apply site_not_reachable. simpl. intuition discriminate. Qed.
Lemma handler_inserter_index_unreachable : forall prev cur ops, run_site (handler_from string prev cur) ops <> Some SiteInserterIndex.
Proof. apply site_not_reachable. simpl. intuition discriminate. Qed.
Lemma handler_traverse_back_unreachable : forall prev cur ops, run_site (handler_from string prev cur) ops <> Some SiteTraverseBack.
Proof. apply site_not_reachable. simpl. intuition discriminate. Qed.
Lemma handler_result_len_unreachable : forall prev cur ops, run_site (handler_from string prev cur) ops <> Some SiteResultLen.
Proof. apply site_not_reachable. simpl. intuition discriminate. Qed.

(* the two remaining sites ARE reachable, by a caller that breaks the TraceHandler protocol
   (never by data: the op sequences below use empty traces) *)
Lemma C01_api_misuse_queue_current :
  run_site (handler_from string [] []) [OpFoldStart 1; OpBackIter 1] = Some SiteCtorQueueCurrent.
Proof. vm_compute. reflexivity. Qed.
Lemma C01_api_misuse_tracker_len :
  run_site (handler_from string [] [])
           [OpFoldStart 1; OpIterStartPos 1 0; OpIterStartPos 1 0; OpBackIter 1; OpBackIter 1; OpGenEnd 1]
  = Some SiteTrackerLen.
Proof. vm_compute. reflexivity. Qed.

(* [apply_op] is [HandlerCases.step] (the function the lock-step validates) without the observations *)
Lemma apply_op_step : forall (h : hhandler) (o : hop),
  match apply_op h o, step h o with
  | Ok h', (ob, Some h'') => h' = h'' /\ ob <> ObsCrash /\ (forall e, ob <> ObsErr e)
  | Err e, (ob, None) => ob = ObsErr (herr_index e)
  | Crash _, (ob, None) => ob = ObsCrash
  | _, _ => False
  end.
Proof.
  intros h o.
  assert (T : forall ob : hobs, (ob = ObsUnit \/ ob = ObsCallNotMet \/ (exists r p b, ob = ObsCallMet r p b) \/ ob = ObsApNotMet
                                  \/ (exists g b, ob = ObsApMet g b) \/ ob = ObsCanonEmpty \/ (exists r, ob = ObsCanonMet r)
                                  \/ (exists p c, ob = ObsSizes p c) \/ (exists b, ob = ObsGenErr b)) ->
                               ob <> ObsCrash /\ (forall e, ob <> ObsErr e)).
  { intros ob H.
    destruct H as [H|[H|[[r [p [b H]]]|[H|[[g [b H]]|[H|[[r H]|[[p [c H]]|[b H]]]]]]]]]; subst; split; intros; discriminate. }
  destruct o; unfold apply_op, step, lift, call_push.
  - destruct (meet_call_start string String.eqb h) as [[r h1]|e|s]; simpl; auto.
    destruct r; simpl; (split; [reflexivity|apply T; eauto 12]).
  - destruct (meet_call_start string String.eqb h) as [[r h1]|e|s]; simpl; auto.
    destruct r; simpl; (split; [reflexivity|apply T; eauto 12]).
  - split; [reflexivity|apply T; eauto 12].
  - destruct (meet_ap_start string h) as [[r h1]|e|s]; simpl; auto.
    destruct r; simpl; (split; [reflexivity|apply T; eauto 12]).
  - destruct (meet_ap_start string h) as [[r h1]|e|s]; simpl; auto.
    destruct r; simpl; (split; [reflexivity|apply T; eauto 12]).
  - split; [reflexivity|apply T; eauto 12].
  - destruct (meet_canon_start string String.eqb h) as [[r h1]|e|s]; simpl; auto.
    destruct r; simpl; (split; [reflexivity|apply T; eauto 12]).
  - destruct (meet_canon_start string String.eqb h) as [[r h1]|e|s]; simpl; auto.
    destruct r; simpl; (split; [reflexivity|apply T; eauto 12]).
  - split; [reflexivity|apply T; eauto 12].
  - destruct (meet_par_start string h) as [h1|e|s]; simpl; auto; try (split; [reflexivity|apply T; eauto 12]).
  - destruct (meet_par_subgraph_end string h (if left then SLeft else SRight)) as [h1|e|s]; simpl; auto; try (split; [reflexivity|apply T; eauto 12]).
  - destruct (meet_fold_start string h id) as [h1|e|s]; simpl; auto; try (split; [reflexivity|apply T; eauto 12]).
  - destruct (meet_iteration_start string h id (nth_stream_pos (result_trace string h) k)) as [h1|e|s]; simpl; auto; try (split; [reflexivity|apply T; eauto 12]).
  - destruct (meet_iteration_start string h id pos) as [h1|e|s]; simpl; auto; try (split; [reflexivity|apply T; eauto 12]).
  - destruct (meet_iteration_end string h id) as [h1|e|s]; simpl; auto; try (split; [reflexivity|apply T; eauto 12]).
  - destruct (meet_back_iterator string h id) as [h1|e|s]; simpl; auto; try (split; [reflexivity|apply T; eauto 12]).
  - destruct (meet_generation_end string h id) as [h1|e|s]; simpl; auto; try (split; [reflexivity|apply T; eauto 12]).
  - destruct (meet_fold_end string h id) as [h1|e|s]; simpl; auto; try (split; [reflexivity|apply T; eauto 12]).
  - destruct (update_generation string h pos g) as [h1|[|]]; simpl; (split; [reflexivity|apply T; eauto 12]).
  - destruct (subgraph_sizes string h) as [p c]. simpl. split; [reflexivity|apply T; eauto 12].
Qed.
