(* Validator.v -- executable model of air-parser's scope validator (C23).

   Mirrors crates/air-lib/air-parser/src/parser/validator.rs (VariableValidator, AfterNextCheckMachine,
   ValidatorErrorBuilder), span.rs (the order on spans) and the order in which the grammar actions of
   air.lalrpop call the validator (bottom-up, left to right: post-order).  Definitions only.

   The grammar actions hand the span of EVERY instruction to the validator; the syntax tree keeps the
   span only for fold and new.  The spans therefore come as a second tree of the same shape ([stree]),
   printed by the harness from the real lexer's token stream. *)
From Aqua Require Import Base Air.
Open Scope N_scope.
Open Scope list_scope.

(* ------------------------------------------------------------------------------------------ *)
(* span.rs *)

Definition span_eqb (a b : span) : bool := (sp_left a =? sp_left b) && (sp_right a =? sp_right b).
Definition span_min (a : span) : N := N.min (sp_left a) (sp_right a).
(* impl Ord for Span: Less when the smaller end is smaller, Equal when identical, Greater otherwise
   (not a total order on spans that start together; instruction spans never do) *)
Definition span_cmp (a b : span) : comparison :=
  if span_min a <? span_min b then Lt else if span_eqb a b then Eq else Gt.
Definition span_ltb (a b : span) : bool := match span_cmp a b with Lt => true | _ => false end.
Definition span_gtb (a b : span) : bool := match span_cmp a b with Gt => true | _ => false end.
(* Span::contains_position / contains_span: strict on both sides *)
Definition contains_position (s : span) (p : pos) : bool := (sp_left s <? p) && (p <? sp_right s).
Definition contains_span (s t : span) : bool := contains_position s (sp_left t) && contains_position s (sp_right t).

(* spans.sort(): stable insertion sort by span_cmp *)
Fixpoint insert_span (x : span) (l : list span) : list span :=
  match l with
  | [] => [x]
  | y :: r => if span_gtb x y then y :: insert_span x r else x :: l
  end.
Definition sort_spans (l : list span) : list span := fold_right insert_span [] l.

(* ------------------------------------------------------------------------------------------ *)
(* MultiMap<&str, V> (multimap 0.9.1): a HashMap<K, Vec<V>>.  Modelled as the list of inserted
   (key, value) pairs in insertion order. *)
Definition mm (V : Type) := list (string * V).
Definition mm_insert {V} (m : mm V) (k : string) (v : V) : mm V := m ++ [(k, v)].
Definition mm_get_vec {V} (m : mm V) (k : string) : list V :=
  map snd (filter (fun p => String.eqb (fst p) k) m).
(* MultiMap::iter(): one pair per key, carrying the FIRST value of the key's vector (the order of
   the keys is the hash map's and is not modelled: results are compared as multisets) *)
Fixpoint mm_iter {V} (m : mm V) : list (string * V) :=
  match m with
  | [] => []
  | p :: r => p :: filter (fun q => negb (String.eqb (fst q) (fst p))) (mm_iter r)
  end.
(* MultiMap::iter_all(): every key with its whole vector *)
Definition mm_iter_all {V} (m : mm V) : list (string * list V) :=
  map (fun p => (fst p, mm_get_vec m (fst p))) (mm_iter m).

Fixpoint assoc {V} (k : string) (l : list (string * V)) : option V :=
  match l with
  | [] => None
  | p :: r => if String.eqb (fst p) k then Some (snd p) else assoc k r
  end.

(* ------------------------------------------------------------------------------------------ *)
(* AfterNextCheckMachine *)

Inductive check_kind :=
| PivotalNext (n : string) | Merging | PopStack1 | PopStack2 | Replacing | ReplacingWithCheck (n : string)
| Xoring | PopStack1ReplacingWithCheck (n : string) | Simple.

Record machine := {
  m_stack : list (check_kind * span);          (* head = top of the Vec *)
  m_potential : list (string * span);          (* potentially_malformed_spans: HashMap *)
  m_malformed : list span;
  m_enabled : bool }.

Definition machine0 : machine := {| m_stack := []; m_potential := []; m_malformed := []; m_enabled := true |}.
Definition m_set_stack (m : machine) (s : list (check_kind * span)) : machine :=
  {| m_stack := s; m_potential := m_potential m; m_malformed := m_malformed m; m_enabled := m_enabled m |}.
(* disable *)
Definition m_disable (m : machine) : machine :=
  {| m_stack := []; m_potential := m_potential m; m_malformed := m_malformed m; m_enabled := false |}.
Definition is_pivotal (k : check_kind) : bool := match k with PivotalNext _ => true | _ => false end.

(* process_replacing *)
Definition process_replacing (m : machine) (sp : span) : machine :=
  match m_stack m with
  | (PivotalNext n, _) :: r => m_set_stack m ((PivotalNext n, sp) :: r)
  | _ :: r => m_set_stack m ((Replacing, sp) :: r)
  | [] => m_disable m
  end.

(* process_xoring: right = pop, left = pop *)
Definition process_xoring (m : machine) (sp : span) : machine :=
  match m_stack m with
  | (rk, _) :: (lk, _) :: rest =>
      match lk, rk with
      | PivotalNext _, PivotalNext _ => m_disable m
      | PivotalNext n, _ => m_set_stack m ((PivotalNext n, sp) :: rest)
      | _, PivotalNext n => m_set_stack m ((PivotalNext n, sp) :: rest)
      | _, _ => m_set_stack m ((Xoring, sp) :: rest)
      end
  | _ => m_disable m
  end.

(* entry(k).or_insert(v) *)
Definition or_insert (l : list (string * span)) (k : string) (v : span) : list (string * span) :=
  match assoc k l with Some _ => l | None => l ++ [(k, v)] end.

(* process_merging *)
Definition process_merging (m : machine) (sp : span) : machine :=
  match m_stack m with
  | (rk, _) :: (lk, _) :: rest =>
      match lk, rk with
      | PivotalNext l, PivotalNext r =>
          if String.eqb l r then m_set_stack m ((PivotalNext l, sp) :: rest)
          else {| m_stack := (Merging, sp) :: rest; m_potential := or_insert (m_potential m) l sp;
                  m_malformed := m_malformed m; m_enabled := m_enabled m |}
      | PivotalNext l, _ =>
          {| m_stack := (Merging, sp) :: rest; m_potential := or_insert (m_potential m) l sp;
             m_malformed := m_malformed m; m_enabled := m_enabled m |}
      | _, PivotalNext r => m_set_stack m ((PivotalNext r, sp) :: rest)
      | _, _ => m_set_stack m ((Merging, sp) :: rest)
      end
  | _ => m_disable m
  end.

(* after_next_check *)
Definition after_next_check (m : machine) (name : string) : machine :=
  match assoc name (m_potential m) with
  | Some sp => {| m_stack := m_stack m; m_potential := m_potential m; m_malformed := m_malformed m ++ [sp]; m_enabled := m_enabled m |}
  | None => m
  end.
Definition remove_potential (m : machine) (name : string) : machine :=
  {| m_stack := m_stack m; m_potential := filter (fun p => negb (String.eqb (fst p) name)) (m_potential m);
     m_malformed := m_malformed m; m_enabled := m_enabled m |}.

(* replacing_with_check_common *)
Definition replacing_with_check_common (m : machine) (name : string) (sp : span) (kind : check_kind) : machine :=
  match m_stack m with
  | (PivotalNext p, _) :: r =>
      if String.eqb p name
      then m_set_stack (remove_potential (after_next_check m name) name) ((Simple, sp) :: r)
      else m_set_stack (after_next_check m name) ((PivotalNext p, sp) :: r)
  | _ :: r => m_set_stack (after_next_check m name) ((kind, sp) :: r)
  | [] => {| m_stack := []; m_potential := m_potential m; m_malformed := m_malformed m; m_enabled := false |}
  end.

(* met_instruction_kind *)
Definition met_instruction_kind (m : machine) (kind : check_kind) (sp : span) : machine :=
  if negb (m_enabled m) then m else
  match kind with
  | Replacing => process_replacing m sp
  | Xoring => process_xoring m sp
  | Merging => process_merging m sp
  | ReplacingWithCheck n => replacing_with_check_common m n sp kind
  | PopStack1ReplacingWithCheck n => replacing_with_check_common (m_set_stack m (tl (m_stack m))) n sp kind
  | PivotalNext _ | Simple => m_set_stack m ((kind, sp) :: m_stack m)
  | PopStack1 => m_set_stack m ((kind, sp) :: tl (m_stack m))
  | PopStack2 => m_set_stack m ((kind, sp) :: tl (tl (m_stack m)))
  end.

(* ------------------------------------------------------------------------------------------ *)
(* The calls the grammar actions make (air.lalrpop, non-terminal Instr).  One event per instruction,
   carrying what the callback is given. *)

Inductive event :=
| EvCall (t : triplet) (args : list value) (out : call_output) (sp : span)   (* met_call *)
| EvCanon (c : var) (sp : span)                                              (* met_canon *)
| EvCanonMap (c : var) (sp : span)                                           (* met_canon_map *)
| EvCanonMapScalar (s : var) (sp : span)                                     (* met_canon_map_scalar *)
| EvAp (a : ap_arg) (r : ap_result) (sp : span)                              (* met_ap *)
| EvApMap (k : map_key) (m : var) (sp : span)                                (* met_ap_map *)
| EvMerging (sp : span)                                                      (* seq, par: met_merging_instr *)
| EvSimple (sp : span)                                                       (* never, null: met_simple_instr *)
| EvNew (a : new_arg) (sp : span)                                            (* met_new *)
| EvFail (f : fail_arg) (sp : span)                                          (* met_fail_literal *)
| EvFoldScalar (it : fold_iterable) (iter : var) (has_last : bool) (sp : span)  (* met_fold_scalar *)
| EvFoldStream (s : var) (iter : var) (has_last : bool) (sp : span)          (* meet_fold_stream *)
| EvFoldStreamMap (m : var) (iter : var) (has_last : bool) (sp : span)       (* meet_fold_stream_map *)
| EvNext (iter : var) (sp : span)                                            (* met_next *)
| EvXoring (sp : span)                                                       (* xor: met_xoring_instr *)
| EvMatch (l r : value) (sp : span)                                          (* met_match *)
| EvMisMatch (l r : value) (sp : span).                                      (* met_mismatch *)

Inductive stree := S0 (sp : span) | S1 (sp : span) (k : stree) | S2 (sp : span) (k1 k2 : stree).
Definition stree_span (s : stree) : span := match s with S0 sp | S1 sp _ | S2 sp _ _ => sp end.

(* the tree of callbacks; [post] is the order in which an LR parser runs the actions *)
Inductive etree := E0 (e : event) | E1 (e : event) (k : etree) | E2 (e : event) (k1 k2 : etree).
Fixpoint post (t : etree) : list event :=
  match t with
  | E0 e => [e]
  | E1 e k => post k ++ [e]
  | E2 e a b => post a ++ post b ++ [e]
  end.

Definition is_some {A} (o : option A) : bool := match o with Some _ => true | None => false end.

(* which callback each alternative of Instr issues.  An Error node has no callback (and the
   callbacks of whatever the recovery dropped are not recoverable from the tree): None *)
Fixpoint skeleton (i : instr) (s : stree) : option etree :=
  match i, s with
  | ICall _ t args out, S0 sp => Some (E0 (EvCall t args out sp))
  | IAp _ a r, S0 sp => Some (E0 (EvAp a r sp))
  | IApMap _ k _ m, S0 sp => Some (E0 (EvApMap k m sp))
  | ICanon _ _ _ c, S0 sp => Some (E0 (EvCanon c sp))
  | ICanonMap _ _ _ c, S0 sp => Some (E0 (EvCanonMap c sp))
  | ICanonStreamMapScalar _ _ _ sc, S0 sp => Some (E0 (EvCanonMapScalar sc sp))
  | ISeq a b, S2 sp sa sb | IPar a b, S2 sp sa sb =>
      match skeleton a sa, skeleton b sb with Some x, Some y => Some (E2 (EvMerging sp) x y) | _, _ => None end
  | IXor a b, S2 sp sa sb =>
      match skeleton a sa, skeleton b sb with Some x, Some y => Some (E2 (EvXoring sp) x y) | _, _ => None end
  | IMatch _ l r b, S1 sp sb =>
      match skeleton b sb with Some x => Some (E1 (EvMatch l r sp) x) | None => None end
  | IMisMatch _ l r b, S1 sp sb =>
      match skeleton b sb with Some x => Some (E1 (EvMisMatch l r sp) x) | None => None end
  | IFail _ f, S0 sp => Some (E0 (EvFail f sp))
  | IFoldScalar _ it iter b None _, S1 sp sb =>
      match skeleton b sb with Some x => Some (E1 (EvFoldScalar it iter false sp) x) | None => None end
  | IFoldScalar _ it iter b (Some l) _, S2 sp sb sl =>
      match skeleton b sb, skeleton l sl with Some x, Some y => Some (E2 (EvFoldScalar it iter true sp) x y) | _, _ => None end
  | IFoldStream _ st iter b None _, S1 sp sb =>
      match skeleton b sb with Some x => Some (E1 (EvFoldStream st iter false sp) x) | None => None end
  | IFoldStream _ st iter b (Some l) _, S2 sp sb sl =>
      match skeleton b sb, skeleton l sl with Some x, Some y => Some (E2 (EvFoldStream st iter true sp) x y) | _, _ => None end
  | IFoldStreamMap _ st iter b None _, S1 sp sb =>
      match skeleton b sb with Some x => Some (E1 (EvFoldStreamMap st iter false sp) x) | None => None end
  | IFoldStreamMap _ st iter b (Some l) _, S2 sp sb sl =>
      match skeleton b sb, skeleton l sl with Some x, Some y => Some (E2 (EvFoldStreamMap st iter true sp) x y) | _, _ => None end
  | INever, S0 sp | INull, S0 sp => Some (E0 (EvSimple sp))
  | INew _ a b _, S1 sp sb =>
      match skeleton b sb with Some x => Some (E1 (EvNew a sp) x) | None => None end
  | INext _ iter, S0 sp => Some (E0 (EvNext iter sp))
  | _, _ => None
  end.

Definition events (i : instr) (s : stree) : option (list event) := option_map post (skeleton i s).

(* ------------------------------------------------------------------------------------------ *)
(* what each callback looks at: the names it passes to met_variable_name, in order *)

(* met_lambda *)
Definition names_lambda (l : lambda) : list string :=
  match l with
  | LFunctorLength => []
  | LValuePath accs => flat_map (fun a => match a with FieldAccessByScalar n => [n] | _ => [] end) accs
  end.
(* met_scalar_wl, met_canon_stream_wl, met_canon_stream_map_wl, met_variable_wl *)
Definition names_var_l (v : var_l) : list string := vl_name v :: names_lambda (vl_lambda v).
(* met_peer_id_resolvable_value *)
Definition names_peer (p : peer_arg) : list string :=
  match p with
  | PInitPeerId | PLiteral _ => []
  | PScalar v => [v_name v]
  | PScalarL v | PCanonL v | PCanonMapL v => names_var_l v
  end.
(* met_string_resolvable_value *)
Definition names_string_arg (p : string_arg) : list string :=
  match p with
  | SLiteral _ => []
  | SScalar v => [v_name v]
  | SScalarL v | SCanonL v | SCanonMapL v => names_var_l v
  end.
(* met_instr_arg_value and met_matchable (same cases) *)
Definition names_value (v : value) : list string :=
  match v with
  | VScalar x | VCanon x | VCanonMap x => [v_name x]
  | VScalarL x | VCanonL x | VCanonMapL x => names_var_l x
  | _ => []
  end.
(* the match of met_ap *)
Definition names_ap_arg (a : ap_arg) : list string :=
  match a with
  | AScalar x | ACanon x | ACanonMap x => [v_name x]
  | AScalarL x | ACanonL x | ACanonMapL x => names_var_l x
  | _ => []
  end.
(* met_map_key *)
Definition names_map_key (k : map_key) : list string :=
  match k with
  | KLiteral _ | KInt _ => []
  | KScalar x => [v_name x]
  | KScalarL x | KCanonL x => names_var_l x
  end.
(* the match of met_fold_scalar *)
Definition names_fold_iterable (f : fold_iterable) : list string :=
  match f with
  | FIScalar x | FICanon x | FICanonMap x => [v_name x]
  | FIScalarL x | FICanonMapL x => names_var_l x
  | FIEmptyArray => []
  end.
Definition new_arg_name (a : new_arg) : string :=
  match a with NScalar v | NStream v | NStreamMap v | NCanon v | NCanonMap v => v_name v end.

Definition ev_span (e : event) : span :=
  match e with
  | EvCall _ _ _ sp | EvCanon _ sp | EvCanonMap _ sp | EvCanonMapScalar _ sp | EvAp _ _ sp | EvApMap _ _ sp
  | EvMerging sp | EvSimple sp | EvNew _ sp | EvFail _ sp | EvFoldScalar _ _ _ sp | EvFoldStream _ _ _ sp
  | EvFoldStreamMap _ _ _ sp | EvNext _ sp | EvXoring sp | EvMatch _ _ sp | EvMisMatch _ _ sp => sp
  end.
(* names handed to met_variable_name.  Not looked at by any callback: the value of an ap into a map,
   the argument of fail, the peer and the source of the three canon forms, lenses of :error: / %last_error% *)
Definition ev_uses (e : event) : list string :=
  match e with
  | EvCall t args _ _ =>
      names_peer (t_peer t) ++ names_string_arg (t_service t) ++ names_string_arg (t_function t) ++ flat_map names_value args
  | EvAp a _ _ => names_ap_arg a
  | EvApMap k _ _ => names_map_key k
  | EvFoldScalar it _ _ _ => names_fold_iterable it
  | EvFoldStream s _ _ _ | EvFoldStreamMap s _ _ _ => [v_name s]
  | EvMatch l r _ | EvMisMatch l r _ => names_value l ++ names_value r
  | _ => []
  end.
(* names handed to met_variable_name_definition *)
Definition ev_defs (e : event) : list string :=
  match e with
  | EvCall _ _ (OutScalar v) _ | EvCall _ _ (OutStream v) _ => [v_name v]
  | EvCanon c _ | EvCanonMap c _ | EvCanonMapScalar c _ => [v_name c]
  | EvAp _ (ApScalar v) _ | EvAp _ (ApStream v) _ => [v_name v]
  | EvApMap _ m _ => [v_name m]
  | EvNew a _ => [new_arg_name a]
  | _ => []
  end.
(* met_iterator_definition *)
Definition ev_iter (e : event) : option string :=
  match e with
  | EvFoldScalar _ i _ _ | EvFoldStream _ i _ _ | EvFoldStreamMap _ i _ _ => Some (v_name i)
  | _ => None
  end.
Definition ev_next (e : event) : option string := match e with EvNext i _ => Some (v_name i) | _ => None end.
Definition ev_new (e : event) : option string := match e with EvNew a _ => Some (new_arg_name a) | _ => None end.
Definition ev_fail0 (e : event) : bool := match e with EvFail (FLiteral 0%Z _) _ => true | _ => false end.
(* the kind handed to the after-next machine *)
Definition ev_kind (e : event) : check_kind :=
  match e with
  | EvMerging _ => Merging
  | EvXoring _ => Xoring
  | EvNew _ _ | EvMatch _ _ _ | EvMisMatch _ _ _ => Replacing
  | EvNext i _ => PivotalNext (v_name i)
  | EvFoldScalar _ _ has_last _ => if has_last then PopStack2 else PopStack1
  | EvFoldStream _ i has_last _ | EvFoldStreamMap _ i has_last _ =>
      if has_last then PopStack1ReplacingWithCheck (v_name i) else ReplacingWithCheck (v_name i)
  | _ => Simple
  end.

(* ------------------------------------------------------------------------------------------ *)
(* VariableValidator *)

Record vstate := {
  met_variable_definitions : list (string * span);       (* HashMap: at most one entry per name *)
  met_iterator_definitions : mm span;
  unresolved_variables : mm span;
  unresolved_iterables : mm span;
  multiple_next_candidates : mm span;
  not_iterators_candidates : list (string * span);
  unsupported_map_keys : list (string * string * span);  (* no code pushes to it *)
  unsupported_literal_errcodes : list span;
  after_next_machine : machine }.

Definition vstate0 : vstate :=
  {| met_variable_definitions := []; met_iterator_definitions := []; unresolved_variables := [];
     unresolved_iterables := []; multiple_next_candidates := []; not_iterators_candidates := [];
     unsupported_map_keys := []; unsupported_literal_errcodes := []; after_next_machine := machine0 |}.

(* contains_variable *)
Definition contains_variable (st : vstate) (key : string) (ks : span) : bool :=
  match assoc key (met_variable_definitions st) with Some fs => span_ltb fs ks | None => false end
  || existsb (fun s => span_ltb s ks) (mm_get_vec (met_iterator_definitions st) key).

(* met_variable_name *)
Definition met_variable_name (st : vstate) (name : string) (sp : span) : vstate :=
  if contains_variable st name sp then st else
  {| met_variable_definitions := met_variable_definitions st; met_iterator_definitions := met_iterator_definitions st;
     unresolved_variables := mm_insert (unresolved_variables st) name sp;
     unresolved_iterables := unresolved_iterables st; multiple_next_candidates := multiple_next_candidates st;
     not_iterators_candidates := not_iterators_candidates st; unsupported_map_keys := unsupported_map_keys st;
     unsupported_literal_errcodes := unsupported_literal_errcodes st; after_next_machine := after_next_machine st |}.

(* met_variable_name_definition: keep the entry unless it is Greater than the new span *)
Fixpoint define_name (l : list (string * span)) (name : string) (sp : span) : list (string * span) :=
  match l with
  | [] => [(name, sp)]
  | p :: r => if String.eqb (fst p) name then (if span_gtb (snd p) sp then (name, sp) :: r else p :: r)
              else p :: define_name r name sp
  end.

(* everything a callback does after its met_variable_name calls (the pieces touch different fields) *)
Definition apply_rest (st : vstate) (e : event) : vstate :=
  let sp := ev_span e in
  {| met_variable_definitions := fold_left (fun l n => define_name l n sp) (ev_defs e) (met_variable_definitions st);
     met_iterator_definitions := match ev_iter e with Some i => mm_insert (met_iterator_definitions st) i sp | None => met_iterator_definitions st end;
     unresolved_variables := unresolved_variables st;
     unresolved_iterables := match ev_next e with Some i => mm_insert (unresolved_iterables st) i sp | None => unresolved_iterables st end;
     multiple_next_candidates := match ev_next e with Some i => mm_insert (multiple_next_candidates st) i sp | None => multiple_next_candidates st end;
     not_iterators_candidates := match ev_new e with Some n => not_iterators_candidates st ++ [(n, sp)] | None => not_iterators_candidates st end;
     unsupported_map_keys := unsupported_map_keys st;
     unsupported_literal_errcodes := if ev_fail0 e then unsupported_literal_errcodes st ++ [sp] else unsupported_literal_errcodes st;
     after_next_machine := met_instruction_kind (after_next_machine st) (ev_kind e) sp |}.

(* one callback: first the uses (every met_* looks its arguments up before it records anything) *)
Definition step (st : vstate) (e : event) : vstate :=
  apply_rest (fold_left (fun s n => met_variable_name s n (ev_span e)) (ev_uses e) st) e.

Definition run_events (evs : list event) : vstate := fold_left step evs vstate0.

(* ------------------------------------------------------------------------------------------ *)
(* finalize / ValidatorErrorBuilder.  Constructors of [vkind] are the variants of ParserError
   (errors.rs) that carry a message; the harness prints them as K<variant>. *)

Inductive vkind :=
| KLambdaAppliedToStream | KUndefinedVariable | KUndefinedIterable | KAmbiguousFailLastError
| KIteratorRestrictionNotAllowed | KMultipleIterableValuesForOneIterator | KMultipleNextInFold
| KUnsupportedMapKeyType | KUnsupportedLiteralErrCodes | KFoldHasInstructionAfterNext.

Record verror := { ve_kind : vkind; ve_span : span; ve_name : string }.

Definition sorted_iterator_spans (st : vstate) (key : string) : list span :=
  sort_spans (mm_get_vec (met_iterator_definitions st) key).
(* find_closest_fold_span (the definitions were sorted by ValidatorErrorBuilder::new) *)
Definition find_closest_fold_span (st : vstate) (key : string) (ks : span) : option span :=
  last (map Some (filter (fun s => contains_span s ks) (sorted_iterator_spans st key))) None.

(* check_undefined_variables: unresolved_variables.iter() -- the first span of each name only *)
Definition check_undefined_variables (st : vstate) : list verror :=
  flat_map (fun p => if contains_variable st (fst p) (snd p) then []
                     else [{| ve_kind := KUndefinedVariable; ve_span := snd p; ve_name := fst p |}])
           (mm_iter (unresolved_variables st)).
(* check_undefined_iterables: unresolved_iterables.iter() -- the first next of each name only *)
Definition check_undefined_iterables (st : vstate) : list verror :=
  flat_map (fun p => match find_closest_fold_span st (fst p) (snd p) with
                     | None => [{| ve_kind := KUndefinedIterable; ve_span := snd p; ve_name := fst p |}]
                     | Some _ => [] end)
           (mm_iter (unresolved_iterables st)).
(* check_multiple_next_in_fold *)
Definition check_multiple_next_in_fold (st : vstate) : list verror :=
  flat_map (fun kv =>
      snd (fold_left (fun (acc : list span * list verror) sp =>
             match find_closest_fold_span st (fst kv) sp with
             | None => acc
             | Some fs => if existsb (span_eqb fs) (fst acc)
                          then (fst acc, snd acc ++ [{| ve_kind := KMultipleNextInFold; ve_span := sp; ve_name := fst kv |}])
                          else (fs :: fst acc, snd acc)
             end) (snd kv) ([], [])))
    (mm_iter_all (multiple_next_candidates st)).
(* check_new_on_iterators *)
Definition check_new_on_iterators (st : vstate) : list verror :=
  flat_map (fun p => match find_closest_fold_span st (fst p) (snd p) with
                     | Some _ => [{| ve_kind := KIteratorRestrictionNotAllowed; ve_span := snd p; ve_name := fst p |}]
                     | None => [] end)
           (not_iterators_candidates st).
(* check_iterator_for_multiple_definitions *)
Definition check_iterator_for_multiple_definitions (st : vstate) : list verror :=
  flat_map (fun kv =>
      snd (fold_left (fun (acc : option span * list verror) sp =>
             match fst acc with
             | Some prev => if contains_span prev sp
                            then (Some prev, snd acc ++ [{| ve_kind := KMultipleIterableValuesForOneIterator; ve_span := sp; ve_name := fst kv |}])
                            else (Some sp, snd acc)
             | None => (Some sp, snd acc)
             end) (sort_spans (snd kv)) (None, [])))
    (mm_iter_all (met_iterator_definitions st)).
Definition check_for_unsupported_map_keys (st : vstate) : list verror :=
  map (fun p => {| ve_kind := KUnsupportedMapKeyType; ve_span := snd p; ve_name := snd (fst p) |}) (unsupported_map_keys st).
Definition check_for_unsupported_literal_errcodes (st : vstate) : list verror :=
  map (fun sp => {| ve_kind := KUnsupportedLiteralErrCodes; ve_span := sp; ve_name := EmptyString |}) (unsupported_literal_errcodes st).
Definition check_after_next_instr (st : vstate) : list verror :=
  map (fun sp => {| ve_kind := KFoldHasInstructionAfterNext; ve_span := sp; ve_name := EmptyString |})
      (m_malformed (after_next_machine st)).

Definition finalize (st : vstate) : list verror :=
  check_undefined_variables st ++ check_undefined_iterables st ++ check_multiple_next_in_fold st ++
  check_new_on_iterators st ++ check_iterator_for_multiple_definitions st ++ check_for_unsupported_map_keys st ++
  check_for_unsupported_literal_errcodes st ++ check_after_next_instr st.

Definition validate_events (evs : list event) : list verror := finalize (run_events evs).
(* None: the span tree does not have the shape of the instruction tree, or the tree has an Error node *)
Definition validate (i : instr) (s : stree) : option (list verror) := option_map validate_events (events i s).

(* the ParserError variants with a message, in declaration order (tie to Generated.parser_error_variants) *)
Definition vkind_name (k : vkind) : string :=
  match k with
  | KLambdaAppliedToStream => "LambdaAppliedToStream" | KUndefinedVariable => "UndefinedVariable"
  | KUndefinedIterable => "UndefinedIterable" | KAmbiguousFailLastError => "AmbiguousFailLastError"
  | KIteratorRestrictionNotAllowed => "IteratorRestrictionNotAllowed"
  | KMultipleIterableValuesForOneIterator => "MultipleIterableValuesForOneIterator"
  | KMultipleNextInFold => "MultipleNextInFold" | KUnsupportedMapKeyType => "UnsupportedMapKeyType"
  | KUnsupportedLiteralErrCodes => "UnsupportedLiteralErrCodes" | KFoldHasInstructionAfterNext => "FoldHasInstructionAfterNext"
  end%string.
Definition all_vkinds : list vkind :=
  [KLambdaAppliedToStream; KUndefinedVariable; KUndefinedIterable; KAmbiguousFailLastError; KIteratorRestrictionNotAllowed;
   KMultipleIterableValuesForOneIterator; KMultipleNextInFold; KUnsupportedMapKeyType; KUnsupportedLiteralErrCodes;
   KFoldHasInstructionAfterNext].
Definition vkind_code (k : vkind) : N :=
  match k with
  | KLambdaAppliedToStream => 0 | KUndefinedVariable => 1 | KUndefinedIterable => 2 | KAmbiguousFailLastError => 3
  | KIteratorRestrictionNotAllowed => 4 | KMultipleIterableValuesForOneIterator => 5 | KMultipleNextInFold => 6
  | KUnsupportedMapKeyType => 7 | KUnsupportedLiteralErrCodes => 8 | KFoldHasInstructionAfterNext => 9
  end.
(* the variant list of the source is "LexerError" followed by exactly these *)
Definition parser_error_variants_agree : bool :=
  list_eqb String.eqb parser_error_variants ("LexerError"%string :: map vkind_name all_vkinds).

(* ------------------------------------------------------------------------------------------ *)
(* The parse filter of air_parser.rs::parse (and lambda_parser.rs::parse, same shape):
     match result { Ok(r) if errors.is_empty() => Ok(r), Ok(_) => Err(..), Err(e) => Err(..) }
   where [errors] holds what the grammar actions pushed followed by the validator's errors. *)
Definition parse_filter {T} (result : option T) (pushed : nat) (validator_errors : list verror) : option T :=
  match result with
  | Some r => match pushed, validator_errors with O, [] => Some r | _, _ => None end
  | None => None
  end.

(* Error nodes of a tree: Instruction::Error and, inside lenses, ValueAccessor::Error.
   (Fail::Error is the legitimate `(fail :error:)`, not an error node.) *)
Definition lambda_err_nodes (l : lambda) : nat :=
  match l with
  | LFunctorLength => 0%nat
  | LValuePath accs => length (filter (fun a => match a with AccessorError => true | _ => false end) accs)
  end.
Definition olambda_err_nodes (l : option lambda) : nat := match l with Some x => lambda_err_nodes x | None => 0%nat end.
Definition varl_err_nodes (v : var_l) : nat := lambda_err_nodes (vl_lambda v).
Definition peer_err_nodes (p : peer_arg) : nat :=
  match p with PScalarL v | PCanonL v | PCanonMapL v => varl_err_nodes v | _ => 0%nat end.
Definition sarg_err_nodes (p : string_arg) : nat :=
  match p with SScalarL v | SCanonL v | SCanonMapL v => varl_err_nodes v | _ => 0%nat end.
Definition value_err_nodes (v : value) : nat :=
  match v with
  | VError l | VLastError l => olambda_err_nodes l
  | VScalarL x | VCanonL x | VCanonMapL x => varl_err_nodes x
  | _ => 0%nat
  end.
Definition ap_arg_err_nodes (a : ap_arg) : nat :=
  match a with
  | AError l | ALastError l => olambda_err_nodes l
  | AScalarL x | ACanonL x | ACanonMapL x => varl_err_nodes x
  | _ => 0%nat
  end.
Definition list_sum (l : list nat) : nat := fold_right Nat.add 0%nat l.
Definition own_err_nodes (i : instr) : nat :=
  match i with
  | ICall _ t args _ => (peer_err_nodes (t_peer t) + sarg_err_nodes (t_service t) + sarg_err_nodes (t_function t)
                         + list_sum (map value_err_nodes args))%nat
  | IAp _ a _ => ap_arg_err_nodes a
  | IApMap _ k a _ => ((match k with KScalarL v | KCanonL v => varl_err_nodes v | _ => 0 end) + ap_arg_err_nodes a)%nat
  | ICanon _ p _ _ | ICanonMap _ p _ _ | ICanonStreamMapScalar _ p _ _ => peer_err_nodes p
  | IMatch _ l r _ | IMisMatch _ l r _ => (value_err_nodes l + value_err_nodes r)%nat
  | IFail _ (FScalarL v) | IFail _ (FCanonL v) => varl_err_nodes v
  | IFoldScalar _ (FIScalarL v) _ _ _ _ | IFoldScalar _ (FICanonMapL v) _ _ _ _ => varl_err_nodes v
  | IError => 1%nat
  | _ => 0%nat
  end.
Fixpoint err_nodes (i : instr) : nat :=
  (own_err_nodes i +
   match i with
   | ISeq a b | IPar a b | IXor a b => err_nodes a + err_nodes b
   | IMatch _ _ _ b | IMisMatch _ _ _ b | INew _ _ b _ => err_nodes b
   | IFoldScalar _ _ _ b l _ | IFoldStream _ _ _ b l _ | IFoldStreamMap _ _ _ b l _ =>
       err_nodes b + match l with Some x => err_nodes x | None => 0 end
   | _ => 0
   end)%nat.

(* the generated table of grammar alternatives: (file, non-terminal, ordinal, builds an Error node, pushes to errors) *)
Definition ga_builds (a : string * string * N * bool * bool) : bool := snd (fst a).
Definition ga_pushes (a : string * string * N * bool * bool) : bool := snd a.
Definition grammar_actions_disciplined : bool :=
  forallb (fun a => implb (ga_builds a) (ga_pushes a)) grammar_actions.
(* the table is not vacuous: both grammars have recovery alternatives, and no hand-written file builds an Error node *)
Definition grammar_table_sane : bool :=
  (3 <=? N.of_nat (length (filter ga_builds grammar_actions))) &&
  match error_node_sites_outside_grammar with [] => true | _ => false end.

(* ------------------------------------------------------------------------------------------ *)
(* The property, written from its text over the tree alone (no validator notion):
   every variable used is defined earlier in the text or is an enclosing fold iterator;
   every next refers to an enclosing fold. *)

Inductive use_site :=
| UCallTriplet | UCallArg | UApArg | UApMapKey | UApMapValue | UCanonPeer | UMatchValue
| UFoldIterable | UFailArg | UErrorLens.

(* a use: name, position of the token (None: a scalar inside a lens of :error:/%last_error%, for which the
   tree records no position -- such a use is only required to have SOME definition or fold) *)
Record occurrence := { o_name : string; o_pos : option pos; o_site : use_site }.
Definition occ (s : use_site) (n : string) (p : pos) : occurrence := {| o_name := n; o_pos := Some p; o_site := s |}.

Definition lens_scalars (l : lambda) : list string :=
  match l with
  | LFunctorLength => []
  | LValuePath accs => flat_map (fun a => match a with FieldAccessByScalar n => [n] | _ => [] end) accs
  end.
Definition occ_var (s : use_site) (v : var) : list occurrence := [occ s (v_name v) (v_pos v)].
Definition occ_var_l (s : use_site) (v : var_l) : list occurrence :=
  occ s (vl_name v) (vl_pos v) :: map (fun n => occ s n (vl_pos v)) (lens_scalars (vl_lambda v)).
Definition occ_error_lens (l : option lambda) : list occurrence :=
  match l with
  | Some x => map (fun n => {| o_name := n; o_pos := None; o_site := UErrorLens |}) (lens_scalars x)
  | None => []
  end.
Definition occ_peer (s : use_site) (p : peer_arg) : list occurrence :=
  match p with
  | PInitPeerId | PLiteral _ => []
  | PScalar v => occ_var s v
  | PScalarL v | PCanonL v | PCanonMapL v => occ_var_l s v
  end.
Definition occ_string_arg (s : use_site) (p : string_arg) : list occurrence :=
  match p with
  | SLiteral _ => []
  | SScalar v => occ_var s v
  | SScalarL v | SCanonL v | SCanonMapL v => occ_var_l s v
  end.
Definition occ_value (s : use_site) (v : value) : list occurrence :=
  match v with
  | VError l | VLastError l => occ_error_lens l
  | VScalar x | VCanon x | VCanonMap x => occ_var s x
  | VScalarL x | VCanonL x | VCanonMapL x => occ_var_l s x
  | _ => []
  end.
Definition occ_ap_arg (s : use_site) (a : ap_arg) : list occurrence :=
  match a with
  | AError l | ALastError l => occ_error_lens l
  | AScalar x | ACanon x | ACanonMap x => occ_var s x
  | AScalarL x | ACanonL x | ACanonMapL x => occ_var_l s x
  | _ => []
  end.

(* the variables an instruction reads itself (not those of its sub-instructions).  The source stream /
   map of canon is left out on purpose: the code documents that a never-written stream is an empty
   stream there, so the oracle does not count it as a use that needs a definition. *)
Definition own_uses (i : instr) : list occurrence :=
  match i with
  | ICall _ t args _ =>
      occ_peer UCallTriplet (t_peer t) ++ occ_string_arg UCallTriplet (t_service t) ++
      occ_string_arg UCallTriplet (t_function t) ++ flat_map (occ_value UCallArg) args
  | IAp _ a _ => occ_ap_arg UApArg a
  | IApMap _ k a _ =>
      match k with
      | KLiteral _ | KInt _ => []
      | KScalar v => occ_var UApMapKey v
      | KScalarL v | KCanonL v => occ_var_l UApMapKey v
      end ++ occ_ap_arg UApMapValue a
  | ICanon _ p _ _ | ICanonMap _ p _ _ | ICanonStreamMapScalar _ p _ _ => occ_peer UCanonPeer p
  | IMatch _ l r _ | IMisMatch _ l r _ => occ_value UMatchValue l ++ occ_value UMatchValue r
  | IFail _ f =>
      match f with
      | FScalar v => occ_var UFailArg v
      | FScalarL v | FCanonL v => occ_var_l UFailArg v
      | _ => []
      end
  | IFoldScalar _ it _ _ _ _ =>
      match it with
      | FIScalar v | FICanon v | FICanonMap v => occ_var UFoldIterable v
      | FIScalarL v | FICanonMapL v => occ_var_l UFoldIterable v
      | FIEmptyArray => []
      end
  | IFoldStream _ s _ _ _ _ | IFoldStreamMap _ s _ _ _ _ => occ_var UFoldIterable s
  | _ => []
  end.
(* definition sites: call output, ap result (also into a map), the three canon results, the argument of new *)
Definition own_defs (i : instr) : list (string * pos) :=
  match i with
  | ICall _ _ _ (OutScalar v) | ICall _ _ _ (OutStream v) => [(v_name v, v_pos v)]
  | IAp _ _ (ApScalar v) | IAp _ _ (ApStream v) => [(v_name v, v_pos v)]
  | IApMap _ _ _ m => [(v_name m, v_pos m)]
  | ICanon _ _ _ c | ICanonMap _ _ _ c | ICanonStreamMapScalar _ _ _ c => [(v_name c, v_pos c)]
  | INew _ a _ _ => match a with NScalar v | NStream v | NStreamMap v | NCanon v | NCanonMap v => [(v_name v, v_pos v)] end
  | _ => []
  end.
Definition own_folds (i : instr) : list (string * span) :=
  match i with
  | IFoldScalar _ _ it _ _ sp | IFoldStream _ _ it _ _ sp | IFoldStreamMap _ _ it _ _ sp => [(v_name it, sp)]
  | _ => []
  end.
Definition own_nexts (i : instr) : list (string * pos) :=
  match i with INext _ it => [(v_name it, v_pos it)] | _ => [] end.

Section Collect.
  Context {A : Type} (own : instr -> list A).
  (* sub-instructions first (the order is irrelevant to the property) *)
  Fixpoint collect (i : instr) : list A :=
    match i with
    | ISeq a b | IPar a b | IXor a b => collect a ++ collect b
    | IMatch _ _ _ b | IMisMatch _ _ _ b | INew _ _ b _ => collect b
    | IFoldScalar _ _ _ b l _ | IFoldStream _ _ _ b l _ | IFoldStreamMap _ _ _ b l _ =>
        collect b ++ match l with Some x => collect x | None => [] end
    | _ => []
    end ++ own i.
End Collect.
Definition uses : instr -> list occurrence := collect own_uses.
Definition defs : instr -> list (string * pos) := collect own_defs.
Definition folds : instr -> list (string * span) := collect own_folds.
Definition nexts : instr -> list (string * pos) := collect own_nexts.

Definition before (d : pos) (u : option pos) : Prop := match u with Some p => d < p | None => True end.
Definition inside (s : span) (u : option pos) : Prop := match u with Some p => sp_left s < p /\ p < sp_right s | None => True end.
Definition before_b (d : pos) (u : option pos) : bool := match u with Some p => d <? p | None => true end.
Definition inside_b (s : span) (u : option pos) : bool := match u with Some p => contains_position s p | None => true end.

Definition use_scoped (t : instr) (u : occurrence) : Prop :=
  (exists d, In d (defs t) /\ fst d = o_name u /\ before (snd d) (o_pos u)) \/
  (exists f, In f (folds t) /\ fst f = o_name u /\ inside (snd f) (o_pos u)).
Definition next_scoped (t : instr) (n : string * pos) : Prop :=
  exists f, In f (folds t) /\ fst f = fst n /\ inside (snd f) (Some (snd n)).
Definition well_scoped (t : instr) : Prop :=
  (forall u, In u (uses t) -> use_scoped t u) /\ (forall n, In n (nexts t) -> next_scoped t n).

Definition use_scoped_b (t : instr) (u : occurrence) : bool :=
  existsb (fun d => String.eqb (fst d) (o_name u) && before_b (snd d) (o_pos u)) (defs t) ||
  existsb (fun f => String.eqb (fst f) (o_name u) && inside_b (snd f) (o_pos u)) (folds t).
Definition next_scoped_b (t : instr) (n : string * pos) : bool :=
  existsb (fun f => String.eqb (fst f) (fst n) && inside_b (snd f) (Some (snd n))) (folds t).
Definition well_scoped_b (t : instr) : bool :=
  forallb (use_scoped_b t) (uses t) && forallb (next_scoped_b t) (nexts t).

(* ------------------------------------------------------------------------------------------ *)
(* Layout of the positions in a tree the parser produced (hypothesis of the partial theorems, checked on
   every tree the harness prints): an instruction's span is non-empty, its own tokens lie strictly inside
   it and before its first sub-instruction, sub-instructions lie strictly inside and follow each other,
   and the span stored in fold/new nodes is the span handed to the validator. *)
Definition var_l_pos (v : var_l) : pos := vl_pos v.
Definition own_positions (i : instr) : list pos :=
  flat_map (fun o => match o_pos o with Some p => [p] | None => [] end) (own_uses i) ++
  map snd (own_defs i) ++ map snd (own_nexts i) ++
  match i with
  | IFoldScalar _ _ it _ _ _ | IFoldStream _ _ it _ _ _ | IFoldStreamMap _ _ it _ _ _ => [v_pos it]
  | _ => []
  end.
Definition own_span_ok (i : instr) (sp : span) : bool :=
  match i with
  | IFoldScalar _ _ _ _ _ s | IFoldStream _ _ _ _ _ s | IFoldStreamMap _ _ _ _ _ s | INew _ _ _ s => span_eqb s sp
  | _ => true
  end.
Definition header_ok (i : instr) (sp : span) (limit : pos) : bool :=
  (sp_left sp <? sp_right sp) && own_span_ok i sp &&
  forallb (fun p => (sp_left sp <? p) && (p <? limit)) (own_positions i).
Definition kid_in (sp : span) (k : stree) : bool :=
  (sp_left sp <? sp_left (stree_span k)) && (sp_right (stree_span k) <? sp_right sp).

Fixpoint wf_layout_b (i : instr) (s : stree) : bool :=
  match i, s with
  | ISeq a b, S2 sp sa sb | IPar a b, S2 sp sa sb | IXor a b, S2 sp sa sb =>
      header_ok i sp (sp_left (stree_span sa)) && kid_in sp sa && kid_in sp sb &&
      (sp_right (stree_span sa) <=? sp_left (stree_span sb)) && wf_layout_b a sa && wf_layout_b b sb
  | IMatch _ _ _ b, S1 sp sb | IMisMatch _ _ _ b, S1 sp sb | INew _ _ b _, S1 sp sb =>
      header_ok i sp (sp_left (stree_span sb)) && kid_in sp sb && wf_layout_b b sb
  | IFoldScalar _ _ _ b None _, S1 sp sb | IFoldStream _ _ _ b None _, S1 sp sb | IFoldStreamMap _ _ _ b None _, S1 sp sb =>
      header_ok i sp (sp_left (stree_span sb)) && kid_in sp sb && wf_layout_b b sb
  | IFoldScalar _ _ _ b (Some l) _, S2 sp sb sl | IFoldStream _ _ _ b (Some l) _, S2 sp sb sl
  | IFoldStreamMap _ _ _ b (Some l) _, S2 sp sb sl =>
      header_ok i sp (sp_left (stree_span sb)) && kid_in sp sb && kid_in sp sl &&
      (sp_right (stree_span sb) <=? sp_left (stree_span sl)) && wf_layout_b b sb && wf_layout_b l sl
  | ICall _ _ _ _, S0 sp | IAp _ _ _, S0 sp | IApMap _ _ _ _, S0 sp | ICanon _ _ _ _, S0 sp | ICanonMap _ _ _ _, S0 sp
  | ICanonStreamMapScalar _ _ _ _, S0 sp | IFail _ _, S0 sp | INever, S0 sp | INull, S0 sp | INext _ _, S0 sp =>
      header_ok i sp (sp_right sp)
  | _, _ => false
  end.
Definition wf_layout (i : instr) (s : stree) : Prop := wf_layout_b i s = true.

(* ------------------------------------------------------------------------------------------ *)
(* Statements *)

(* (i) an accepted tree has no Error node.  [fired]: the grammar alternatives whose actions ran;
   hypothesis [built]: Error nodes are only built by grammar actions (the translator checks that no
   hand-written source file constructs one). *)
Definition C23_no_error_nodes_stmt : Prop :=
  forall (fired : list (string * string * N * bool * bool)) (t r : instr) (verrs : list verror),
    (forall a, In a fired -> In a grammar_actions) ->
    (err_nodes t <= length (filter ga_builds fired))%nat ->
    parse_filter (Some t) (length (filter ga_pushes fired)) verrs = Some r ->
    r = t /\ err_nodes r = 0%nat /\ verrs = [].

(* (ii) the scoping statement of the property, and what the validator really guarantees *)
Definition C23_scoped_full : Prop :=
  forall t s, wf_layout t s -> validate t s = Some [] -> well_scoped t.
Definition C23_refuted_stmt : Prop :=
  exists t s, wf_layout t s /\ validate t s = Some [] /\ ~ well_scoped t.

(* sites in leaf instructions that the validator looks at *)
Definition leaf_checked_site (s : use_site) : bool :=
  match s with UCallTriplet | UCallArg | UApArg | UApMapKey => true | _ => false end.
(* every variable read by a call or an ap (arguments, triplet, map key, and scalars inside their lenses) has a
   definition site earlier in the text, or SOME fold with that iterator name starts earlier (not necessarily enclosing) *)
Definition C23_scoped_partial_stmt : Prop :=
  forall t s, wf_layout t s -> validate t s = Some [] ->
  forall u, In u (uses t) -> leaf_checked_site (o_site u) = true ->
  exists p, o_pos u = Some p /\
    ((exists d, In d (defs t) /\ fst d = o_name u /\ snd d < p) \/
     (exists f, In f (folds t) /\ fst f = o_name u /\ sp_left (snd f) < p)).

(* (iii) next *)
Definition C23_next_full : Prop :=
  forall t s, wf_layout t s -> validate t s = Some [] -> forall n, In n (nexts t) -> next_scoped t n.
Definition C23_next_refuted_stmt : Prop :=
  exists t s, wf_layout t s /\ validate t s = Some [] /\ exists n, In n (nexts t) /\ ~ next_scoped t n.
(* only the textually first next of each iterator name is guaranteed to be inside a fold on that name *)
Definition C23_next_partial_stmt : Prop :=
  forall t s, wf_layout t s -> validate t s = Some [] ->
  forall n, In n (nexts t) -> (forall m, In m (nexts t) -> fst m = fst n -> snd n <= snd m) -> next_scoped t n.

(* a tree (with its instruction spans) that the validator accepts although it is not well scoped *)
Definition refutes_scoping (w : instr * stree) : Prop :=
  wf_layout (fst w) (snd w) /\ validate (fst w) (snd w) = Some [] /\ ~ well_scoped (fst w).
Definition refutes_next (w : instr * stree) (n : string * pos) : Prop :=
  wf_layout (fst w) (snd w) /\ validate (fst w) (snd w) = Some [] /\ In n (nexts (fst w)) /\ ~ next_scoped (fst w) n.
