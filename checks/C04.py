"""C04 -- honest executions never hit data-consistency errors, whatever the schedule."""
import airgen
import exec_common
import sched04

PID = "C04"
MODEL_TARGETS = ["model/ExecCases.vo", "model/KeepSpec.vo"]
HARNESS_BINS = ["exec", "honest04"]
RULE = ("a case is one honest history (all peers run the same generated well-scoped script, services are deterministic "
        "functions of (peer, service, function, arguments)). Three streams: (1) bounded-exhaustive: depth-first search over "
        "EVERY applicable schedule operation of every reachable network state -- any in-flight message delivered next, every "
        "message duplicated at most once, every non-empty subset of a peer's pending call results handed back -- for scripts "
        "of at most 6 instructions over 3 peers (hand-written par/xor/stream/canon/fold shapes + generated ones), network states "
        "memoised; (2) random schedules over 3-5 peers for larger scripts (streams, canon, scalar and stream folds, new, failing "
        "services under xor) with held-back, batched and one-by-one call results, duplicates, overtaking and re-deliveries; "
        "(3) lock-step: every run of a sample of histories is also given to the executor model (check_case) and the Coq oracle "
        "c04_oracle is evaluated on the implementation's code. Oracle: the ret_code of no run is in the GENERATED list of "
        "data-consistency error codes (tools/genx_consistency.py). evaluations = runs of execute_air; distinct non-trivial = "
        "(script, mode, explored states) with at least one run that merged two non-empty data. A separate stream with "
        "%last_error% as a call argument exercises the known finding last-error-as-call-argument.")
PARTIAL = ["C04_full (no data-consistency error in any honest history, any schedule) is a history-level statement kept as a "
           "Definition in model/KeepSpec.v: it is DECIDED by the state-level theorems (C04_call_compat, C04_canon_compat, "
           "C04_merger_compat: states that approximate one full state always merge, for call, canon and ap states, all inputs) "
           "plus exploration (bounded-exhaustive schedules for small scripts, random schedules for larger ones, lock-step with "
           "the executor model); the approximation invariant that lifts the state-level theorems to histories (DESIGN "
           "appendix B) is PROVED ONLY for straight-line scripts on several peers (call with literal target/service/function and literal or plain-scalar arguments, ap of a literal or scalar, seq, xor, match, mismatch, fail, null, never; model/NetLin.v): C04_linear_histories -- in every honest history of SeqLocal's "
           "network (start, every delivery order, duplication, re-delivery, delayed answers) every run returns new data with a "
           "code outside the generated consistency-error set, for run1 and run2; par, folds, new, lenses, streams, canon and "
           "variable targets are NOT covered by a history-level theorem",
           "par/fold state machines, fold lore resolution and stream generation bookkeeping on honest data are covered by the "
           "exploration only (the handler-level theorem of C09 covers the call/par fragment)",
           "signature and CID-store verification errors (codes of PreparationError) are only observed on the real code: the "
           "executor model starts after the preparation step"]
ASSUMPTIONS = ["services are deterministic functions of (peer, service, function, arguments)",
               "the host follows air/README.md: stores the returned data, feeds it back as prev_data, returns each result under the id it was requested with",
               "symbolic content ids: Values.cid_eqb decides equality (collision resistance of the hash, DESIGN section 5)"]
ORACLES = ("C04",)


def profiles(rng, last_error=False):
    kw = dict(peers=rng.choice([3, 4, 5]), depth=rng.choice([3, 3, 4]), last_error=last_error)
    r = rng.random()
    if r < 0.25:
        kw.update(streams=False, canon=False, stream_folds=False)          # scalars only: par/xor/fold-scalar nests
    elif r < 0.5:
        kw.update(par_weight=6)                                            # many par boundaries
    elif r < 0.7:
        kw.update(xor_weight=5, failing=True)                              # failing services under xor
    return airgen.Profile(**kw)


def gen_cases(rng, tier, escalate=False):
    codes = [c for _, _, c in sched04.consistency_codes()]
    quick = tier == "quick"
    mul = 3 if escalate else 1
    cases = []
    # (1) bounded-exhaustive
    hand = sched04.HAND_SMALL
    n_gen = (40 if quick else 400) * mul
    budget = 4000 if quick else 30000
    for s in hand:
        cases.append(sched04.exhaustive_case(s, ORACLES, codes, budget))
    for k in range(n_gen):
        kw = rng.choice([dict(), dict(streams=False, canon=False), dict(par_weight=6), dict(folds=False, new=False)])
        s = sched04.small_script(rng, kw, max_instr=6)
        cases.append(sched04.exhaustive_case(s, ORACLES, codes, budget))
    # (2) random schedules for larger scripts
    for k in range((400 if quick else 6000) * mul):
        prof = profiles(rng)
        script = airgen.gen_script(rng, prof)
        ops = sched04.random_schedule(rng, rng.choice([10, 20, 40]), peers=prof.peers)
        cases.append(sched04.path_case(script, ops, ORACLES, codes, prof.peers))
    # (3) lock-step with the executor model + the Coq oracle
    for k in range((8 if quick else 80) * mul):
        prof = profiles(rng)
        c = exec_common.history_case(rng, prof, n_ops=rng.choice([8, 14]), oracles=[])
        c["kind"] = "exec"
        cases.append(c)
    # separate stream: %last_error% as a call argument (known finding last-error-as-call-argument)
    for k in range((30 if quick else 400) * mul):
        prof = profiles(rng, last_error=True)
        script = airgen.gen_script(rng, prof)
        ops = sched04.random_schedule(rng, rng.choice([10, 20]), peers=prof.peers)
        cases.append(sched04.path_case(script, ops, ORACLES, codes, prof.peers, stream="last_error"))
    return cases


def evaluate(cases, result, tier):
    honest = [c for c in cases if c.get("kind", "honest") == "honest"]
    for stream in ("ordinary", "last_error", "corpus"):
        sel = [c for c in honest if c.get("stream", "ordinary") == stream]
        sched04.run_honest(sel, result, "C04", stream_name=stream)
    ex = [c for c in cases if c.get("kind") == "exec"]
    if ex:
        hdr = exec_common.HEADER
        try:
            exec_common.HEADER = hdr + "From Aqua Require Import KeepSpec.\n"
            n0 = len(result["oracle_fail"])
            exec_common.evaluate(ex, result, {"model": "check_case", "oracle_c04": "c04_oracle"}, tag="C04", shard_size=30)
            for f in result["oracle_fail"][n0:]:
                info = f.get("info", {})
                f["key"] = sched04.classify("C04", f["case"].get("script", ""), {"code": info.get("code"), "msg": "argument_hash"})
        finally:
            exec_common.HEADER = hdr
