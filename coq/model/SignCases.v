(* SignCases.v -- C03 on one real run of `air::execute_air` (harness/src/bin/exec.rs prints the inputs and the
   observation as terms of ExecCases.case_t):
     c03_check          the executor model against the implementation, projected on what C03 talks about:
                        outcome kind and code, the CIDs the current peer signs, the references of the trace, the stores
     c03_attr_agrees    SignSpec.attributed_cids on the REAL output trace against the harness's own reading of
                        verification.rs (eo_signed)
     c03_oracle_*       the property evaluated on the implementation's observation only. *)
From Aqua Require Import Base Json Air Trace Handler Values Scalars Lens Exec RunExec ExecStreams ExecCases SignSpec.
From Aqua Require Stream.
Open Scope N_scope.
Open Scope list_scope.

(* The value of a Failed state made for a service result that is not JSON embeds serde_json's error text; the model
   writes an opaque token instead (Exec.update_state_with_service_result).  Both sides are normalised before they are
   compared: ret_code i32::MAX marks exactly these values. *)
Definition norm_value (j : json) : json :=
  match j with
  | JObj [(m, JStr _); (r, JInt 2147483647)] =>
      if String.eqb m "message" && String.eqb r "ret_code"
      then JObj [("message"%string, JStr "<service result is not JSON>"%string); ("ret_code"%string, JInt 2147483647)]
      else j
  | _ => j
  end.
Fixpoint norm_cid (c : cid) : cid :=
  match c with
  | CValue j => CValue (norm_value j)
  | CService v a t => CService (norm_cid v) a t
  | CCanonElem v t p => CCanonElem (norm_cid v) t (match p with Some (b, c') => Some (b, norm_cid c') | None => None end)
  | CCanonResult t vs => CCanonResult t (map norm_cid vs)
  | c => c
  end.
Definition norm_cids (l : list cid) : list cid := map norm_cid l.
Definition norm_state (cs : cid_state) : cid_state :=
  {| cs_values := norm_cids (cs_values cs); cs_tetraplets := norm_cids (cs_tetraplets cs);
     cs_canon_elems := norm_cids (cs_canon_elems cs); cs_canon_results := norm_cids (cs_canon_results cs);
     cs_services := norm_cids (cs_services cs) |}.
Definition ref_eqb (a b : ref) : bool := Bool.eqb (fst a) (fst b) && cid_eqb (snd a) (snd b).
Definition norm_refs (tr : list (state cid)) : list ref := map (fun r => (fst r, norm_cid (snd r))) (refs tr).

Definition own_peer (c : case_t) : string := rp_current_peer (ri_params (ec_input c)).

Definition c03_check (c : case_t) : bool :=
  let o := ec_obs c in
  (* preparation errors (signature / CID store verification, versions, ...) precede the executor: run2 starts after them *)
  if (eo_kind o =? 1) && (1 <=? eo_code o)%Z && (eo_code o <=? 9999)%Z then true else
  match model_outcome c with
  | OutUnsupported _ => true
  | OutFuel => false
  | OutCrash _ => eo_kind o =? 2
  | OutPrevData code => (eo_kind o =? 1) && (code =? eo_code o)%Z
  | OutNewData code d next reqs signed =>
      (eo_kind o =? 0) && (code =? eo_code o)%Z &&
      multiset_eq_cid (norm_cids signed) (norm_cids (eo_signed o)) &&
      list_eqb ref_eqb (norm_refs (d_trace d)) (norm_refs (eo_trace o)) &&
      cid_state_eq (norm_state (d_cids d)) (norm_state (eo_cids o))
  end.

(* the spec's attribution function reads the real trace the way the harness's copy of collect_peers_cids_from_trace does *)
Definition c03_attr_agrees (c : case_t) : bool :=
  let o := ec_obs c in
  if eo_kind o =? 0 then multiset_eq_cid (attributed_cids (eo_trace o) (own_peer c)) (eo_signed o) else true.

(* ---- the property on the implementation's observation ---- *)
(* every CID referenced by the trace or by a stored aggregate is present in the produced stores, every stored item
   is content of the right kind (the symbolic reading of CidInfo::verify + the trace references) *)
Definition c03_oracle_closed (c : case_t) : bool :=
  let o := ec_obs c in
  if eo_kind o =? 0 then store_closed (eo_trace o) (eo_cids o) else true.
(* the verifier's lookups for the produced trace succeed (no `expect` of collect_peers_cids_from_trace can fire) *)
Definition c03_oracle_attr (c : case_t) : bool :=
  let o := ec_obs c in
  if eo_kind o =? 0 then attr_totalb (eo_trace o) else true.

(* measurements for the evidence: which shapes a run exercises (bit mask) *)
Definition has_state (p : state cid -> bool) (tr : list (state cid)) : bool := existsb p tr.
Definition c03_shape (c : case_t) : N :=
  let o := ec_obs c in
  let i := ec_input c in
  let me := own_peer c in
  let failed := has_state (fun s => match s with SCall (Failed _) => true | _ => false end) in
  let canon := has_state (fun s => match s with SCanon (CanonExecuted _) => true | _ => false end) in
  let unused := has_state (fun s => match s with SCall (Executed (VRUnused _)) => true | _ => false end) in
  let stream := has_state (fun s => match s with SCall (Executed (VRStream _ _)) => true | _ => false end) in
  let foreign := existsb (fun r => match ref_peer r with Some p => negb (String.eqb p me) | None => false end) (refs (eo_trace o)) in
  (if failed (eo_trace o) then 1 else 0) + (if canon (eo_trace o) then 2 else 0) + (if unused (eo_trace o) then 4 else 0) +
  (if stream (eo_trace o) then 8 else 0) + (if foreign then 16 else 0) +
  (if match eo_signed o with [] => false | _ => true end then 32 else 0) +
  (if negb (Stream.is_nil (d_trace (ri_prev i))) && negb (Stream.is_nil (d_trace (ri_cur i))) then 64 else 0) +
  (if existsb (fun ra => match sa_parsed (snd ra) with None => true | Some _ => false end) (ri_results i) then 128 else 0).

(* everything above in one pass (one vm_compute per shard of cases): bit 0 c03_check is false, 1 c03_attr_agrees is false,
   2 c03_oracle_closed is false, 3 c03_oracle_attr is false, 4 the model does not support the run; bits 8.. = c03_shape *)
Definition c03_all (c : case_t) : N :=
  (if c03_check c then 0 else 1) + (if c03_attr_agrees c then 0 else 2) + (if c03_oracle_closed c then 0 else 4) +
  (if c03_oracle_attr c then 0 else 8) + (if is_supported c then 0 else 16) + 256 * c03_shape c.
