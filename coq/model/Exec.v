(* Exec.v -- the instruction executor (air/src/execution_step), stage 1.

   Modelled faithfully: call (triplet/argument resolution, tetraplets, previous-state handling,
   service results, remote calls), seq, par, xor, match, mismatch, fail (all forms), null, never,
   ap to scalars, new on scalars, folds over scalars / lens results / canon streams, next,
   %last_error% and :error:, subgraph completeness, the error descriptors.
   Stage 2 (streams, canon, stream folds, new on streams) is in ExecStreams.v once model/Stream.v
   is wired in; until then those instructions answer [XUnsupported] (counted by the checks,
   never compared).  Stream maps / canon maps: [XUnsupported].

   Every function names the Rust function it mirrors.  `&mut ExecutionCtx` + `&mut TraceHandler`
   is the record [ctx] passed along; an `Err(e)` that leaves the context modified is
   [XErr e ctx'].  Error MESSAGES are opaque tokens "<msg:Variant>" (C18 handles message
   fidelity separately); error CODES are exact.
   Definitions only. *)
From Aqua Require Import Base Json Air Trace Handler Values Scalars Lens.
From Aqua Require Stream.
Open Scope N_scope.
Open Scope list_scope.

(* ------------------------------------------------------------------------------------------ *)
(* errors *)

Inductive catchable :=
| CLocalServiceError (ret_code : Z) (message : string)
| CMatchValuesNotEqual
| CMismatchValuesEqual
| CVariableNotFound (name : string)
| CIncompatibleJValueType
| CFoldIteratesOverNonArray (v : json) (what : string)
| CUserError (error : json)
| CLambdaApplierError (e : lambda_error)
| CInvalidErrorObjectError
| CVariableWasNotInitializedAfterNew (name : string)
| CLengthFunctorAppliedToNotArray (v : json)
| CNonStringValueInTripletResolution (name : string) (v : json)
| CStreamMapError.

Definition catchable_name (c : catchable) : string :=
  match c with
  | CLocalServiceError _ _ => "LocalServiceError" | CMatchValuesNotEqual => "MatchValuesNotEqual"
  | CMismatchValuesEqual => "MismatchValuesEqual" | CVariableNotFound _ => "VariableNotFound"
  | CIncompatibleJValueType => "IncompatibleJValueType"
  | CFoldIteratesOverNonArray _ _ => "FoldIteratesOverNonArray" | CUserError _ => "UserError"
  | CLambdaApplierError _ => "LambdaApplierError" | CInvalidErrorObjectError => "InvalidErrorObjectError"
  | CVariableWasNotInitializedAfterNew _ => "VariableWasNotInitializedAfterNew"
  | CLengthFunctorAppliedToNotArray _ => "LengthFunctorAppliedToNotArray"
  | CNonStringValueInTripletResolution _ _ => "NonStringValueInTripletResolution"
  | CStreamMapError => "StreamMapError"
  end%string.

Inductive uncatchable :=
| UTraceError (e : herr)
| UGenerationCompactificationError | UIntConversionError
| UFoldStateNotFound (name : string) | UIterableShadowing (name : string) | UMultipleIterableValues (name : string)
| UCallResultNotCorrespondToInstr | UShadowingIsNotAllowed (name : string) | UScalarsStateCorrupted
| UCidError | UValueForCidNotFound (what : string) | UStreamDontHaveSuchGeneration
| UMalformedCallServiceFailed | UStreamSizeLimitExceeded | UStreamMapKeyError | UStreamMapError
| UCanonStreamMapError | UInstructionParametersMismatch (param : string) | USigningError
| UTetrapletSerializationFailed | UCallArgumentsSerializationFailed.

Definition uncatchable_name (u : uncatchable) : string :=
  match u with
  | UTraceError _ => "TraceError" | UGenerationCompactificationError => "GenerationCompactificationError"
  | UIntConversionError => "IntConversionError" | UFoldStateNotFound _ => "FoldStateNotFound"
  | UIterableShadowing _ => "IterableShadowing" | UMultipleIterableValues _ => "MultipleIterableValues"
  | UCallResultNotCorrespondToInstr => "CallResultNotCorrespondToInstr"
  | UShadowingIsNotAllowed _ => "ShadowingIsNotAllowed" | UScalarsStateCorrupted => "ScalarsStateCorrupted"
  | UCidError => "CidError" | UValueForCidNotFound _ => "ValueForCidNotFound"
  | UStreamDontHaveSuchGeneration => "StreamDontHaveSuchGeneration"
  | UMalformedCallServiceFailed => "MalformedCallServiceFailed" | UStreamSizeLimitExceeded => "StreamSizeLimitExceeded"
  | UStreamMapKeyError => "StreamMapKeyError" | UStreamMapError => "StreamMapError"
  | UCanonStreamMapError => "CanonStreamMapError" | UInstructionParametersMismatch _ => "InstructionParametersMismatch"
  | USigningError => "SigningError" | UTetrapletSerializationFailed => "TetrapletSerializationFailed"
  | UCallArgumentsSerializationFailed => "CallArgumentsSerializationFailed"
  end%string.

(* generate_to_error_code!: start id + position of the variant in the generated enum order *)
Definition code_in (names : list string) (start : Z) (n : string) : Z :=
  match index_of (String.eqb n) names with Some i => (start + Z.of_N i)%Z | None => (-1)%Z end.
Definition catchable_code (c : catchable) : Z := code_in catchable_error_variants catchable_errors_start_id (catchable_name c).
Definition uncatchable_code (u : uncatchable) : Z := code_in uncatchable_error_variants uncatchable_errors_start_id (uncatchable_name u).

Inductive exec_err := ECatch (c : catchable) | EUncatch (u : uncatchable).
Definition err_code (e : exec_err) : Z := match e with ECatch c => catchable_code c | EUncatch u => uncatchable_code u end.
Definition is_catchable (e : exec_err) : bool := match e with ECatch _ => true | _ => false end.
Definition is_joinable (e : exec_err) : bool := match e with ECatch (CVariableNotFound _) => true | _ => false end.
Definition affects_last_error (e : exec_err) : bool :=
  match e with ECatch CMatchValuesNotEqual | ECatch CMismatchValuesEqual => false | ECatch _ => true | EUncatch _ => false end.
Definition affects_error (e : exec_err) : bool := is_catchable e.
(* the message is opaque at this level *)
Definition err_message (e : exec_err) : string :=
  ("<msg:" ++ match e with ECatch c => catchable_name c | EUncatch u => uncatchable_name u end ++ ">")%string.

(* ------------------------------------------------------------------------------------------ *)
(* InstructionError (instruction_error_definition.rs) *)

Record instr_error := { ie_error : json; ie_tetraplet : option tetraplet; ie_prov : provenance; ie_orig : option catchable }.

Definition no_error_object : json := JObj [("error_code"%string, JInt 0); ("message"%string, JStr ""%string)].
Definition no_error : instr_error :=
  {| ie_error := no_error_object; ie_tetraplet := None; ie_prov := ProvLiteral; ie_orig := None |}.

(* error_from_raw_fields / error_from_raw_fields_w_peerid (keys in BTreeMap order) *)
Definition error_object (code : Z) (msg instruction : string) (peer : option string) : json :=
  JObj (app [("error_code"%string, JInt code); ("instruction"%string, JStr instruction); ("message"%string, JStr msg)]
            match peer with Some p => [("peer_id"%string, JStr p)] | None => [] end).

(* get_instruction_error_from_exec_error *)
Definition instr_error_from_exec_error (e : exec_err) (instruction : string) (peer : option string)
           (t : option tetraplet) : instr_error :=
  {| ie_error := error_object (err_code e) (err_message e) instruction peer;
     ie_tetraplet := t; ie_prov := ProvLiteral; ie_orig := None |}.

(* check_error_object *)
Definition check_error_object (j : json) : bool :=
  match j with
  | JObj kvs =>
      match obj_get "error_code" kvs with
      | Some (JInt z) =>
          if (z =? 0)%Z then false
          else match obj_get "message" kvs with Some (JStr _) => true | _ => false end
      | _ => false
      end
  | _ => false
  end.

(* ------------------------------------------------------------------------------------------ *)
(* values in the context *)

Record canon_wp := { cw_values : list vagg; cw_tetraplet : tetraplet; cw_cid : cid }.   (* CanonStreamWithProvenance *)

Inductive iterable :=
| ItResolvedCall (v : vagg) (cursor len : N)                                     (* IterableResolvedCall *)
| ItLambdaResult (items : list json) (t : tetraplet) (p : provenance) (cursor : N) (* IterableLambdaResult *)
| ItCanon (values : list vagg) (cursor : N)                                     (* CanonStreamIterableIngredients *)
| ItVec (values : list vagg) (cursor : N).                                      (* IterableVecResolvedCall (streams) *)

Definition it_len (i : iterable) : N :=
  match i with
  | ItResolvedCall _ _ l => l
  | ItLambdaResult items _ _ _ => len_N items
  | ItCanon vs _ | ItVec vs _ => len_N vs
  end.
Definition it_cursor (i : iterable) : N :=
  match i with ItResolvedCall _ c _ | ItLambdaResult _ _ _ c | ItCanon _ c | ItVec _ c => c end.
Definition it_with_cursor (i : iterable) (c : N) : iterable :=
  match i with
  | ItResolvedCall v _ l => ItResolvedCall v c l
  | ItLambdaResult a b p _ => ItLambdaResult a b p c
  | ItCanon vs _ => ItCanon vs c
  | ItVec vs _ => ItVec vs c
  end.
(* foldable_next! / foldable_prev! *)
Definition it_next (i : iterable) : bool * iterable :=
  if it_cursor i + 1 <? it_len i then (true, it_with_cursor i (it_cursor i + 1)) else (false, i).
Definition it_prev (i : iterable) : bool * iterable :=
  if 1 <=? it_cursor i then (true, it_with_cursor i (it_cursor i - 1)) else (false, i).

(* IterableItem: (value, tetraplet, trace position, provenance) *)
Record item := { it_value : json; it_tetraplet : tetraplet; it_pos : N; it_prov : provenance }.

Definition idx_lens (c : N) : string := (".$.[" ++ N_to_string c ++ "]")%string.

(* peek; None stands for the Rust panics on impossible shapes (expect/unimplemented!/index) *)
Definition it_peek (i : iterable) : option item :=
  match i with
  | ItResolvedCall v c _ =>
      match va_result v with
      | JArr arr => match nth_N arr c with
                    | Some j => Some {| it_value := j; it_tetraplet := add_lens (va_tetraplet v) (idx_lens c);
                                        it_pos := va_pos v; it_prov := va_provenance v |}
                    | None => None end
      | _ => None
      end
  | ItLambdaResult items t p c =>
      match nth_N items c with
      | Some j => Some {| it_value := j; it_tetraplet := add_lens t (idx_lens c); it_pos := 0; it_prov := p |}
      | None => None end
  | ItCanon vs c | ItVec vs c =>
      match nth_N vs c with
      | Some v => Some {| it_value := va_result v; it_tetraplet := va_tetraplet v; it_pos := va_pos v;
                          it_prov := va_provenance v |}
      | None => None end
  end.
Definition item_into_vagg (x : item) : vagg := va_new (it_value x) (it_tetraplet x) (it_pos x) (it_prov x).

Inductive iter_type := IterScalar | IterStream (fold_id : N).
Record fold_state := { fs_iterable : iterable; fs_type : iter_type; fs_body : instr; fs_last : option instr;
                       fs_back_started : bool }.

Record request := { rq_service : string; rq_function : string; rq_args : list json; rq_tetraplets : list (list tetraplet) }.
Record service_answer := { sa_ret_code : Z; sa_text : string; sa_parsed : option json }.   (* parsed = serde_json::from_str *)

Record run_params := { rp_init_peer : string; rp_current_peer : string; rp_timestamp : N; rp_ttl : N }.

Record cid_state := { cs_values : list cid; cs_tetraplets : list cid; cs_canon_elems : list cid;
                      cs_canon_results : list cid; cs_services : list cid }.
Definition cid_mem (c : cid) (l : list cid) : bool := existsb (cid_eqb c) l.
Definition cid_track (c : cid) (l : list cid) : list cid := if cid_mem c l then l else l ++ [c].

(* stage 2 state: Streams, StreamMaps (execution_context/streams_variables.rs, stream_maps_variables.rs) and the
   canonicalized stream maps; a canon stream map keeps the key-value aggregates in canonicalization order *)
Record canon_map_wp := { cmw_values : list vagg; cmw_tetraplet : tetraplet; cmw_cid : cid }.   (* CanonStreamMapWithProvenance *)
Record ext_state := { e_streams : Stream.streams vagg; e_stream_maps : Stream.streams vagg; e_canon_maps : matrix canon_map_wp }.
Definition ext_new : ext_state := {| e_streams := []; e_stream_maps := []; e_canon_maps := matrix_new |}.

Record ctx := {
  x_params : run_params;
  x_scalars : matrix vagg;
  x_canons : matrix canon_wp;
  x_iterables : list (string * fold_state);
  x_next_peers : list string;
  x_last_error : instr_error; x_last_error_can_set : bool;
  x_error : instr_error; x_error_can_set : bool;
  x_complete : bool;
  x_lcid : N;
  x_call_results : list (N * service_answer);
  x_requests : list (N * request);
  x_cids : cid_state;
  x_tracker : list cid;                (* PeerCidTracker: cids registered for the current peer, in order *)
  x_fold_counter : N;                  (* InstructionTracker: stream folds met *)
  x_ext : ext_state;                   (* streams, stream maps, canon stream maps (stage 2) *)
  x_handler : handler cid
}.

(* record update helpers *)
Definition set_scalars (x : ctx) (m : matrix vagg) : ctx :=
  {| x_params := x_params x; x_scalars := m; x_canons := x_canons x; x_iterables := x_iterables x;
     x_next_peers := x_next_peers x; x_last_error := x_last_error x; x_last_error_can_set := x_last_error_can_set x;
     x_error := x_error x; x_error_can_set := x_error_can_set x; x_complete := x_complete x; x_lcid := x_lcid x;
     x_call_results := x_call_results x; x_requests := x_requests x; x_cids := x_cids x; x_tracker := x_tracker x;
     x_fold_counter := x_fold_counter x; x_ext := x_ext x; x_handler := x_handler x |}.
Definition set_canons (x : ctx) (m : matrix canon_wp) : ctx :=
  {| x_params := x_params x; x_scalars := x_scalars x; x_canons := m; x_iterables := x_iterables x;
     x_next_peers := x_next_peers x; x_last_error := x_last_error x; x_last_error_can_set := x_last_error_can_set x;
     x_error := x_error x; x_error_can_set := x_error_can_set x; x_complete := x_complete x; x_lcid := x_lcid x;
     x_call_results := x_call_results x; x_requests := x_requests x; x_cids := x_cids x; x_tracker := x_tracker x;
     x_fold_counter := x_fold_counter x; x_ext := x_ext x; x_handler := x_handler x |}.
Definition set_iterables (x : ctx) (l : list (string * fold_state)) : ctx :=
  {| x_params := x_params x; x_scalars := x_scalars x; x_canons := x_canons x; x_iterables := l;
     x_next_peers := x_next_peers x; x_last_error := x_last_error x; x_last_error_can_set := x_last_error_can_set x;
     x_error := x_error x; x_error_can_set := x_error_can_set x; x_complete := x_complete x; x_lcid := x_lcid x;
     x_call_results := x_call_results x; x_requests := x_requests x; x_cids := x_cids x; x_tracker := x_tracker x;
     x_fold_counter := x_fold_counter x; x_ext := x_ext x; x_handler := x_handler x |}.
Definition set_next_peers (x : ctx) (l : list string) : ctx :=
  {| x_params := x_params x; x_scalars := x_scalars x; x_canons := x_canons x; x_iterables := x_iterables x;
     x_next_peers := l; x_last_error := x_last_error x; x_last_error_can_set := x_last_error_can_set x;
     x_error := x_error x; x_error_can_set := x_error_can_set x; x_complete := x_complete x; x_lcid := x_lcid x;
     x_call_results := x_call_results x; x_requests := x_requests x; x_cids := x_cids x; x_tracker := x_tracker x;
     x_fold_counter := x_fold_counter x; x_ext := x_ext x; x_handler := x_handler x |}.
Definition set_last_error (x : ctx) (e : instr_error) (can : bool) : ctx :=
  {| x_params := x_params x; x_scalars := x_scalars x; x_canons := x_canons x; x_iterables := x_iterables x;
     x_next_peers := x_next_peers x; x_last_error := e; x_last_error_can_set := can;
     x_error := x_error x; x_error_can_set := x_error_can_set x; x_complete := x_complete x; x_lcid := x_lcid x;
     x_call_results := x_call_results x; x_requests := x_requests x; x_cids := x_cids x; x_tracker := x_tracker x;
     x_fold_counter := x_fold_counter x; x_ext := x_ext x; x_handler := x_handler x |}.
Definition set_error (x : ctx) (e : instr_error) (can : bool) : ctx :=
  {| x_params := x_params x; x_scalars := x_scalars x; x_canons := x_canons x; x_iterables := x_iterables x;
     x_next_peers := x_next_peers x; x_last_error := x_last_error x; x_last_error_can_set := x_last_error_can_set x;
     x_error := e; x_error_can_set := can; x_complete := x_complete x; x_lcid := x_lcid x;
     x_call_results := x_call_results x; x_requests := x_requests x; x_cids := x_cids x; x_tracker := x_tracker x;
     x_fold_counter := x_fold_counter x; x_ext := x_ext x; x_handler := x_handler x |}.
Definition set_complete (x : ctx) (b : bool) : ctx :=
  {| x_params := x_params x; x_scalars := x_scalars x; x_canons := x_canons x; x_iterables := x_iterables x;
     x_next_peers := x_next_peers x; x_last_error := x_last_error x; x_last_error_can_set := x_last_error_can_set x;
     x_error := x_error x; x_error_can_set := x_error_can_set x; x_complete := b; x_lcid := x_lcid x;
     x_call_results := x_call_results x; x_requests := x_requests x; x_cids := x_cids x; x_tracker := x_tracker x;
     x_fold_counter := x_fold_counter x; x_ext := x_ext x; x_handler := x_handler x |}.
Definition set_calls (x : ctx) (lcid : N) (results : list (N * service_answer)) (reqs : list (N * request)) : ctx :=
  {| x_params := x_params x; x_scalars := x_scalars x; x_canons := x_canons x; x_iterables := x_iterables x;
     x_next_peers := x_next_peers x; x_last_error := x_last_error x; x_last_error_can_set := x_last_error_can_set x;
     x_error := x_error x; x_error_can_set := x_error_can_set x; x_complete := x_complete x; x_lcid := lcid;
     x_call_results := results; x_requests := reqs; x_cids := x_cids x; x_tracker := x_tracker x;
     x_fold_counter := x_fold_counter x; x_ext := x_ext x; x_handler := x_handler x |}.
Definition set_cids (x : ctx) (c : cid_state) (tr : list cid) : ctx :=
  {| x_params := x_params x; x_scalars := x_scalars x; x_canons := x_canons x; x_iterables := x_iterables x;
     x_next_peers := x_next_peers x; x_last_error := x_last_error x; x_last_error_can_set := x_last_error_can_set x;
     x_error := x_error x; x_error_can_set := x_error_can_set x; x_complete := x_complete x; x_lcid := x_lcid x;
     x_call_results := x_call_results x; x_requests := x_requests x; x_cids := c; x_tracker := tr;
     x_fold_counter := x_fold_counter x; x_ext := x_ext x; x_handler := x_handler x |}.
Definition set_handler (x : ctx) (h : handler cid) : ctx :=
  {| x_params := x_params x; x_scalars := x_scalars x; x_canons := x_canons x; x_iterables := x_iterables x;
     x_next_peers := x_next_peers x; x_last_error := x_last_error x; x_last_error_can_set := x_last_error_can_set x;
     x_error := x_error x; x_error_can_set := x_error_can_set x; x_complete := x_complete x; x_lcid := x_lcid x;
     x_call_results := x_call_results x; x_requests := x_requests x; x_cids := x_cids x; x_tracker := x_tracker x;
     x_fold_counter := x_fold_counter x; x_ext := x_ext x; x_handler := h |}.
Definition set_fold_counter (x : ctx) (n : N) : ctx :=
  {| x_params := x_params x; x_scalars := x_scalars x; x_canons := x_canons x; x_iterables := x_iterables x;
     x_next_peers := x_next_peers x; x_last_error := x_last_error x; x_last_error_can_set := x_last_error_can_set x;
     x_error := x_error x; x_error_can_set := x_error_can_set x; x_complete := x_complete x; x_lcid := x_lcid x;
     x_call_results := x_call_results x; x_requests := x_requests x; x_cids := x_cids x; x_tracker := x_tracker x;
     x_fold_counter := n; x_ext := x_ext x; x_handler := x_handler x |}.
Definition set_ext (x : ctx) (e : ext_state) : ctx :=
  {| x_params := x_params x; x_scalars := x_scalars x; x_canons := x_canons x; x_iterables := x_iterables x;
     x_next_peers := x_next_peers x; x_last_error := x_last_error x; x_last_error_can_set := x_last_error_can_set x;
     x_error := x_error x; x_error_can_set := x_error_can_set x; x_complete := x_complete x; x_lcid := x_lcid x;
     x_call_results := x_call_results x; x_requests := x_requests x; x_cids := x_cids x; x_tracker := x_tracker x;
     x_fold_counter := x_fold_counter x; x_ext := e; x_handler := x_handler x |}.

Definition make_incomplete (x : ctx) : ctx := set_complete x false.
Definition flush_complete (x : ctx) : ctx := set_complete x true.
Definition current_peer (x : ctx) : string := rp_current_peer (x_params x).
Definition init_peer (x : ctx) : string := rp_init_peer (x_params x).

(* the three variable matrices of Scalars (non-iterable scalars, canon streams, canon stream maps) move together *)
Definition with_canon_maps (x : ctx) (m : matrix canon_map_wp) : ctx :=
  set_ext x {| e_streams := e_streams (x_ext x); e_stream_maps := e_stream_maps (x_ext x); e_canon_maps := m |}.
Definition all_fold_start (x : ctx) : ctx :=          (* Scalars::meet_fold_start *)
  with_canon_maps (set_canons (set_scalars x (Scalars.meet_fold_start vagg (x_scalars x)))
                              (Scalars.meet_fold_start canon_wp (x_canons x)))
                  (Scalars.meet_fold_start canon_map_wp (e_canon_maps (x_ext x))).
Definition all_fold_end (x : ctx) : ctx :=            (* Scalars::meet_fold_end *)
  with_canon_maps (set_canons (set_scalars x (Scalars.meet_fold_end vagg (x_scalars x)))
                              (Scalars.meet_fold_end canon_wp (x_canons x)))
                  (Scalars.meet_fold_end canon_map_wp (e_canon_maps (x_ext x))).
Definition all_next_before (x : ctx) : ctx :=         (* Scalars::meet_next_before *)
  with_canon_maps (set_canons (set_scalars x (Scalars.meet_next_before vagg (x_scalars x)))
                              (Scalars.meet_next_before canon_wp (x_canons x)))
                  (Scalars.meet_next_before canon_map_wp (e_canon_maps (x_ext x))).
Definition all_next_after (x : ctx) : ctx :=          (* Scalars::meet_next_after *)
  with_canon_maps (set_canons (set_scalars x (Scalars.meet_next_after vagg (x_scalars x)))
                              (Scalars.meet_next_after canon_wp (x_canons x)))
                  (Scalars.meet_next_after canon_map_wp (e_canon_maps (x_ext x))).

(* PeerCidTracker::register: only the current peer's cids are kept *)
Definition record_cid (x : ctx) (peer : string) (c : cid) : ctx :=
  if String.eqb peer (current_peer x) then set_cids x (x_cids x) (x_tracker x ++ [c]) else x.

(* ------------------------------------------------------------------------------------------ *)
(* outcome of executing an instruction *)

Inductive xres :=
| XOk (x : ctx)
| XErr (e : exec_err) (x : ctx)
| XCrash (site : string)
| XFuel
| XUnsupported (what : string).

(* results of pure helper functions *)
Inductive pres (A : Type) := POk (a : A) | PErr (e : exec_err) | PCrash (site : string) | PUnsupported (what : string).
Arguments POk {A} a. Arguments PErr {A} e. Arguments PCrash {A} site. Arguments PUnsupported {A} what.
Definition pbind {A B} (r : pres A) (f : A -> pres B) : pres B :=
  match r with POk a => f a | PErr e => PErr e | PCrash s => PCrash s | PUnsupported w => PUnsupported w end.
Notation "'dop' x <- r ; k" := (pbind r (fun x => k)) (at level 200, x pattern, r at level 100, k at level 200, right associativity).

Definition of_lres {A} (r : lres A) : pres A :=
  match r with
  | LOk a => POk a
  | LCatchable (LambdaApplierError e) => PErr (ECatch (CLambdaApplierError e))
  | LCatchable (LengthFunctorAppliedToNotArray v) => PErr (ECatch (CLengthFunctorAppliedToNotArray v))
  | LCatchable (VariableNotFound n) => PErr (ECatch (CVariableNotFound n))
  | LCatchable (VariableWasNotInitializedAfterNew n) => PErr (ECatch (CVariableWasNotInitializedAfterNew n))
  | LCrash SiteAccessorError => PCrash "lambda: ValueAccessor::Error"
  | LCrash SiteEmptyValuePath => PCrash "lambda: empty value path"
  end.

(* ------------------------------------------------------------------------------------------ *)
(* scalar_variables.rs: Scalars *)

Fixpoint iter_get (l : list (string * fold_state)) (name : string) : option fold_state :=
  match l with [] => None | (n, f) :: r => if String.eqb n name then Some f else iter_get r name end.
Fixpoint iter_put (l : list (string * fold_state)) (name : string) (f : fold_state) : list (string * fold_state) :=
  match l with
  | [] => [(name, f)]
  | (n, g) :: r => if String.eqb n name then (n, f) :: r else (n, g) :: iter_put r name f
  end.
Definition iter_del (l : list (string * fold_state)) (name : string) : list (string * fold_state) :=
  filter (fun p => negb (String.eqb (fst p) name)) l.

Inductive scalar_ref := SRValue (v : vagg) | SRIterable (f : fold_state).

(* Scalars::get_value *)
Definition scalars_get_value (x : ctx) (name : string) : pres scalar_ref :=
  let v := Scalars.get_value vagg (x_scalars x) name in
  let it := iter_get (x_iterables x) name in
  match v, it with
  | inr _, None => PErr (ECatch (CVariableNotFound name))
  | inl None, _ => PErr (ECatch (CVariableWasNotInitializedAfterNew name))
  | inl (Some a), None => POk (SRValue a)
  | inr _, Some f => POk (SRIterable f)
  | inl (Some _), Some _ => PErr (EUncatch (UIterableShadowing name))     (* since the fix: was unreachable!() *)
  end.

Definition scalars_variable_could_be_set (x : ctx) (name : string) : bool :=
  Scalars.variable_could_be_set vagg (x_scalars x) name || Scalars.variable_could_be_set canon_wp (x_canons x) name.

Definition sm_to_err (e : sm_err) : exec_err :=
  match e with
  | SmVariableNotFound n => ECatch (CVariableNotFound n)
  | SmShadowingIsNotAllowed n => EUncatch (UShadowingIsNotAllowed n)
  | SmScalarsStateCorrupted _ => EUncatch UScalarsStateCorrupted
  end.

Definition set_scalar_value (x : ctx) (name : string) (v : vagg) : pres ctx :=
  match Scalars.set_value vagg (x_scalars x) name v with
  | inl (m, _) => POk (set_scalars x m)
  | inr e => PErr (sm_to_err e)
  end.

Definition get_canon_stream (x : ctx) (name : string) : pres canon_wp :=
  match Scalars.get_value canon_wp (x_canons x) name with
  | inl (Some c) => POk c
  | inl None => PErr (ECatch (CVariableWasNotInitializedAfterNew name))
  | inr e => PErr (sm_to_err e)
  end.

(* the environment the lens applier sees (Lens.v) *)
Definition lens_env (x : ctx) : Lens.env :=
  fun name =>
    match scalars_get_value x name with
    | POk (SRValue v) => EnvRef (SrValue (va_result v))
    | POk (SRIterable f) =>
        match it_peek (fs_iterable f) with
        | Some it => EnvRef (SrIterable (it_value it))
        | None => EnvNotFound
        end
    | PErr (ECatch (CVariableWasNotInitializedAfterNew _)) => EnvUninit
    | _ => EnvNotFound
    end.

(* Display of LambdaAST (lambda/ast traits.rs) *)
Definition accessor_to_string (a : accessor) : string :=
  match a with
  | ArrayAccess idx => "[" ++ N_to_string idx ++ "]"
  | FieldAccessByName f => f
  | FieldAccessByScalar s => "[" ++ s ++ "]"
  | AccessorError => "a parser error occurred while parsing lambda expression"
  end%string.
Fixpoint join_dot (l : list string) : string :=
  match l with [] => "" | [x] => x | x :: r => x ++ "." ++ join_dot r end%string.
Definition lambda_to_string (l : lambda) : string :=
  match l with
  | LFunctorLength => ".length"
  | LValuePath p => ".$." ++ join_dot (map accessor_to_string p)
  end%string.

(* value_types/utils.rs: populate_tetraplet_with_lambda *)
Definition populate_tetraplet_with_lambda (t : tetraplet) (l : lambda) : tetraplet :=
  match l with
  | LValuePath _ => add_lens t (lambda_to_string l)
  | LFunctorLength => {| tp_peer := ""; tp_service := ""; tp_function := ""; tp_lens := lambda_to_string l |}
  end.

(* ------------------------------------------------------------------------------------------ *)
(* resolver/resolvable_impl.rs *)

Definition resolved := (json * list tetraplet * provenance)%type.

Definition resolve_const (x : ctx) (j : json) : pres resolved :=
  POk (j, [literal_tetraplet (init_peer x)], ProvLiteral).

Definition resolve_errors (x : ctx) (ie : instr_error) (lens : option lambda) : pres resolved :=
  dop j <- match lens with
           | Some l => of_lres (select_by_lambda_from_scalar (lens_env x) (ie_error ie) l)
           | None => POk (ie_error ie)
           end;
  let tets := match ie_tetraplet ie with Some t => [t] | None => [literal_tetraplet (init_peer x)] end in
  POk (j, tets, ie_prov ie).

(* jvaluable: as_jvalue / as_tetraplets of a ScalarRef *)
Definition scalar_ref_parts (r : scalar_ref) : pres (json * tetraplet * provenance) :=
  match r with
  | SRValue v => POk (va_result v, va_tetraplet v, va_provenance v)
  | SRIterable f => match it_peek (fs_iterable f) with
                    | Some it => POk (it_value it, it_tetraplet it, it_prov it)
                    | None => PCrash "peek on an empty iterable (PEEK_ALLOWED_ON_NON_EMPTY)"
                    end
  end.

Definition resolve_scalar (x : ctx) (name : string) : pres resolved :=
  dop r <- scalars_get_value x name;
  dop p <- scalar_ref_parts r;
  let '(j, t, pr) := p in POk (j, [t], pr).

Definition resolve_scalar_l (x : ctx) (v : var_l) : pres resolved :=
  dop r <- scalars_get_value x (vl_name v);
  dop p <- scalar_ref_parts r;
  let '(j, t, pr) := p in
  dop sel <- of_lres (select_by_lambda_from_scalar (lens_env x) j (vl_lambda v));
  POk (sel, [populate_tetraplet_with_lambda t (vl_lambda v)], pr).

Definition canon_as_jvalue (c : canon_wp) : json := JArr (map va_result (cw_values c)).

Definition resolve_canon (x : ctx) (name : string) : pres resolved :=
  dop c <- get_canon_stream x name;
  POk (canon_as_jvalue c, map va_tetraplet (cw_values c), ProvCanon (cw_cid c)).

(* jvaluable/canon_stream.rs: apply_lambda_with_tetraplets *)
Definition resolve_canon_l (x : ctx) (v : var_l) : pres resolved :=
  dop c <- get_canon_stream x (vl_name v);
  let elems := map va_result (cw_values c) in
  dop sel <- of_lres (select_by_lambda_from_stream (lens_env x) elems (vl_lambda v));
  match vl_lambda v with
  | LValuePath path =>
      dop ib <- of_lres (split_to_idx (lens_env x) path);
      match nth_N (cw_values c) (fst ib) with
      | Some el => POk (sel, [va_tetraplet el], va_provenance el)
      | None => PCrash "TETRAPLET_IDX_CORRECT"
      end
  | LFunctorLength =>
      POk (sel, [{| tp_peer := current_peer x; tp_service := lambda_to_string (vl_lambda v); tp_function := ""; tp_lens := "" |}],
           ProvCanon (cw_cid c))
  end.

(* ---- canon stream maps: value_types/canon_stream_map.rs, jvaluable/canon_stream_map.rs, applier.rs ---- *)

Definition get_canon_map (x : ctx) (name : string) : pres canon_map_wp :=         (* Scalars::get_canon_map *)
  match Scalars.get_value canon_map_wp (e_canon_maps (x_ext x)) name with
  | inl (Some c) => POk c
  | inl None => PErr (ECatch (CVariableWasNotInitializedAfterNew name))
  | inr e => PErr (sm_to_err e)
  end.

(* StreamMapKey::from_kvpair_owned, get_value_from_obj *)
Definition kv_key (v : vagg) : option map_key :=
  match va_result v with
  | JObj kvs => match obj_get "key" kvs with Some j => stream_map_key_from_value j | None => None end
  | _ => None
  end.
Definition kv_value (v : vagg) : option json :=
  match va_result v with JObj kvs => obj_get "value" kvs | _ => None end.
Definition va_with_result (v : vagg) (j : json) : vagg := va_new j (va_tetraplet v) (va_pos v) (va_provenance v).
(* the (key, value aggregate) pairs of a canon stream map, in canonicalization order *)
Fixpoint cm_pairs (vs : list vagg) : list (map_key * vagg) :=
  match vs with
  | [] => []
  | v :: r => match kv_key v, kv_value v with
              | Some k, Some j => (k, va_with_result v j) :: cm_pairs r
              | _, _ => cm_pairs r
              end
  end.
Definition Z_to_string (z : Z) : string :=
  match z with Z0 => "0" | Zpos p => N_to_string (Npos p) | Zneg p => "-" ++ N_to_string (Npos p) end%string.
Definition map_key_to_string (k : map_key) : string :=                             (* StreamMapKey::to_key *)
  match k with MKStr s => s | MKInt z => Z_to_string z end.
Definition map_key_to_json (k : map_key) : json := match k with MKStr s => JStr s | MKInt z => JInt z end.
Definition cm_group (pairs : list (map_key * vagg)) (k : map_key) : list vagg :=
  map snd (filter (fun p => map_key_eqb (fst p) k) pairs).
Fixpoint cm_keys (pairs : list (map_key * vagg)) (seen : list map_key) : list map_key :=
  match pairs with
  | [] => []
  | (k, _) :: r => if existsb (map_key_eqb k) seen then cm_keys r seen else k :: cm_keys r (k :: seen)
  end.
(* CanonStreamMap::as_jvalue: { to_key k : [values of k] }.  Keys 42 and "42" collide (the survivor depends on the
   HashMap iteration order in the code: C20 known finding); the model lets the later key group win *)
Definition canon_map_as_jvalue (c : canon_map_wp) : json :=
  let pairs := cm_pairs (cmw_values c) in
  jobj_of (map (fun k => (map_key_to_string k, JArr (map va_result (cm_group pairs k)))) (cm_keys pairs [])).
Definition canon_map_is_empty (c : canon_map_wp) : bool := match cm_pairs (cmw_values c) with [] => true | _ => false end.
Definition canon_map_lens_view (c : canon_map_wp) : Lens.canon_map :=
  map (fun p => (fst p, va_result (snd p))) (cm_pairs (cmw_values c)).

Definition resolve_canon_map (x : ctx) (name : string) : pres resolved :=
  dop c <- get_canon_map x name;
  POk (canon_map_as_jvalue c, map va_tetraplet (cmw_values c), ProvCanon (cmw_cid c)).

Definition with_lens (t : tetraplet) (l : string) : tetraplet :=
  {| tp_peer := tp_peer t; tp_service := tp_service t; tp_function := tp_function t; tp_lens := l |}.

(* select_by_lambda_from_canon_map with its tetraplet (MapLensResult) *)
Definition resolve_canon_map_l (x : ctx) (v : var_l) : pres resolved :=
  dop c <- get_canon_map x (vl_name v);
  let e := lens_env x in
  dop sel <- of_lres (select_by_lambda_from_canon_map e (canon_map_lens_view c) (vl_lambda v));
  let prov := ProvCanon (cmw_cid c) in
  match vl_lambda v with
  | LFunctorLength =>
      POk (sel, [{| tp_peer := current_peer x; tp_service := ""; tp_function := ""; tp_lens := "length" |}], prov)
  | LValuePath [] => PCrash "empty value path"
  | LValuePath (prefix :: body) =>
      dop k <- of_lres (canon_map_key e prefix);
      let whole := with_lens (cmw_tetraplet c) (lambda_to_string (vl_lambda v)) in
      match body, cm_group (cm_pairs (cmw_values c)) k with
      | _ :: _, (_ :: _) as g =>
          dop ib <- of_lres (split_to_idx e body);
          match nth_N g (fst ib) with
          | None => PCrash "canon map group index"
          | Some el =>
              match snd ib with
              | [] => POk (sel, [va_tetraplet el], prov)
              | rest => POk (sel, [add_lens (va_tetraplet el) ("." ++ join_dot (map accessor_to_string rest))%string], prov)
              end
          end
      | _, _ => POk (sel, [whole], prov)
      end
  end.

Definition number_to_json (n : number) : json :=
  match n with NumInt z => JInt z | NumFloat r => JFloat r end.

Definition resolve_value (x : ctx) (v : value) : pres resolved :=
  match v with
  | VInitPeerId => resolve_const x (JStr (init_peer x))
  | VError lens => resolve_errors x (x_error x) lens
  | VLastError lens => resolve_errors x (x_last_error x) lens
  | VTimestamp => resolve_const x (JInt (Z.of_N (rp_timestamp (x_params x))))
  | VTTL => resolve_const x (JInt (Z.of_N (rp_ttl (x_params x))))
  | VLiteral s => resolve_const x (JStr s)
  | VNumber n => resolve_const x (number_to_json n)
  | VBoolean b => resolve_const x (JBool b)
  | VEmptyArray => resolve_const x (JArr [])
  | VScalar v => resolve_scalar x (v_name v)
  | VCanon v => resolve_canon x (v_name v)
  | VCanonMap v => resolve_canon_map x (v_name v)
  | VScalarL v => resolve_scalar_l x v
  | VCanonL v => resolve_canon_l x v
  | VCanonMapL v => resolve_canon_map_l x v
  end.

(* ------------------------------------------------------------------------------------------ *)
(* instructions/call/triplet.rs *)

Definition try_jvalue_to_string (j : json) (name : string) : pres string :=
  match j with JStr s => POk s | _ => PErr (ECatch (CNonStringValueInTripletResolution name j)) end.

Definition resolve_peer_id_to_string (x : ctx) (p : peer_arg) : pres string :=
  match p with
  | PInitPeerId => POk (init_peer x)
  | PLiteral s => POk s
  | PScalar v => dop r <- resolve_scalar x (v_name v); try_jvalue_to_string (fst (fst r)) (v_name v)
  | PScalarL v => dop r <- resolve_scalar_l x v; try_jvalue_to_string (fst (fst r)) (vl_name v)
  | PCanonL v => dop r <- resolve_canon_l x v; try_jvalue_to_string (fst (fst r)) (vl_name v)
  | PCanonMapL v => dop r <- resolve_canon_map_l x v; try_jvalue_to_string (fst (fst r)) (vl_name v)
  end.
Definition resolve_to_string (x : ctx) (p : string_arg) : pres string :=
  match p with
  | SLiteral s => POk s
  | SScalar v => dop r <- resolve_scalar x (v_name v); try_jvalue_to_string (fst (fst r)) (v_name v)
  | SScalarL v => dop r <- resolve_scalar_l x v; try_jvalue_to_string (fst (fst r)) (vl_name v)
  | SCanonL v => dop r <- resolve_canon_l x v; try_jvalue_to_string (fst (fst r)) (vl_name v)
  | SCanonMapL v => dop r <- resolve_canon_map_l x v; try_jvalue_to_string (fst (fst r)) (vl_name v)
  end.
Definition resolve_triplet (x : ctx) (t : triplet) : pres tetraplet :=
  dop p <- resolve_peer_id_to_string x (t_peer t);
  dop s <- resolve_to_string x (t_service t);
  dop f <- resolve_to_string x (t_function t);
  POk {| tp_peer := p; tp_service := s; tp_function := f; tp_lens := "" |}.

(* resolved_call.rs: check_output_name *)
Definition check_output_name (x : ctx) (out : call_output) : pres unit :=
  match out with
  | OutScalar v =>
      match scalars_get_value x (v_name v) with
      | POk (SRValue _) =>
          if scalars_variable_could_be_set x (v_name v) then POk tt else PErr (EUncatch (UShadowingIsNotAllowed (v_name v)))
      | POk (SRIterable _) => PErr (EUncatch (UIterableShadowing (v_name v)))
      | PCrash s => PCrash s
      | _ => POk tt
      end
  | _ => POk tt
  end.

(* collect_args *)
Fixpoint collect_args (x : ctx) (args : list value) : pres (list json * list (list tetraplet)) :=
  match args with
  | [] => POk ([], [])
  | a :: rest =>
      dop r <- resolve_value x a;
      dop rs <- collect_args x rest;
      POk (fst (fst r) :: fst rs, snd (fst r) :: snd rs)
  end.

(* ------------------------------------------------------------------------------------------ *)
(* cid_state.rs *)

Definition track_service_result (x : ctx) (value : json) (t : tetraplet) (arg_hash : cid) : ctx * cid :=
  let cs := x_cids x in
  let vc := CValue value in let tc := CTetraplet t in
  let sc := CService vc arg_hash tc in
  (set_cids x {| cs_values := cid_track vc (cs_values cs); cs_tetraplets := cid_track tc (cs_tetraplets cs);
                 cs_canon_elems := cs_canon_elems cs; cs_canon_results := cs_canon_results cs;
                 cs_services := cid_track sc (cs_services cs) |} (x_tracker x), sc).

Record service_info := { si_value : json; si_tetraplet : tetraplet; si_arg_hash : cid }.
(* resolve_service_info *)
Definition resolve_service_info (x : ctx) (c : cid) : pres service_info :=
  let cs := x_cids x in
  if negb (cid_mem c (cs_services cs)) then PErr (EUncatch (UValueForCidNotFound "service result aggregate")) else
  match c with
  | CService vc ah tc =>
      if negb (cid_mem vc (cs_values cs)) then PErr (EUncatch (UValueForCidNotFound "value")) else
      if negb (cid_mem tc (cs_tetraplets cs)) then PErr (EUncatch (UValueForCidNotFound "tetraplet")) else
      match vc, tc with
      | CValue j, CTetraplet t => POk {| si_value := j; si_tetraplet := t; si_arg_hash := ah |}
      | _, _ => PUnsupported "store entry whose content is not modelled"
      end
  | _ => PUnsupported "store entry whose content is not modelled"
  end.

(* call/verifier.rs: verify_call *)
Definition verify_call (expected_hash : cid) (expected_t : tetraplet) (stored_hash : cid) (stored_t : tetraplet) : pres unit :=
  if negb (cid_eqb expected_hash stored_hash) then PErr (EUncatch (UInstructionParametersMismatch "call argument_hash"))
  else if negb (tetraplet_eqb expected_t stored_t) then PErr (EUncatch (UInstructionParametersMismatch "call tetraplet"))
  else POk tt.

(* ------------------------------------------------------------------------------------------ *)
(* trace handler glue *)

Definition trace_err (e : herr) : exec_err := EUncatch (UTraceError e).

Definition with_handler {A} (x : ctx) (r : res A) (k : A -> xres) : xres :=
  match r with
  | Ok a => k a
  | Err e => XErr (trace_err e) x
  | Crash _ => XCrash "trace handler panic"
  end.

Definition call_end (x : ctx) (c : call_result cid) : ctx := set_handler x (meet_call_end cid (x_handler x) c).
Definition trace_pos_of (x : ctx) : N := len_N (result_trace cid (x_handler x)).

(* ------------------------------------------------------------------------------------------ *)
(* ExecutionCtx::set_errors *)

Definition ctx_set_errors (x : ctx) (e : exec_err) (instruction : string) (t : option tetraplet) (use_tetraplet : bool) : ctx :=
  let last_error_peer :=
    match t with
    | Some t0 => if use_tetraplet then Some (tp_peer t0) else Some (current_peer x)
    | None => Some (current_peer x)
    end in
  let x1 := if x_last_error_can_set x && affects_last_error e
            then set_last_error x (instr_error_from_exec_error e instruction last_error_peer t) false
            else x in
  let peer := if use_tetraplet then last_error_peer else None in
  let x2 := if x_error_can_set x1 && affects_error e
            then set_error x1 (instr_error_from_exec_error e instruction peer t) (x_error_can_set x1)
            else x1 in
  set_error x2 (x_error x2) false.

(* instructions/mod.rs: execute! wrapper -- every instruction except call *)
Definition wrap_errors (r : xres) (instruction : string) (log_peer : bool) : xres :=
  match r with
  | XErr e x => XErr e (ctx_set_errors x e instruction None log_peer)
  | o => o
  end.

(* ------------------------------------------------------------------------------------------ *)
(* call *)

Inductive state_descr := SD (should_execute : bool) (prev : option (call_result cid)).

Definition lift {A} (x : ctx) (r : pres A) (k : A -> xres) : xres :=
  match r with
  | POk a => k a
  | PErr e => XErr e x
  | PCrash s => XCrash s
  | PUnsupported w => XUnsupported w
  end.

Fixpoint results_take (l : list (N * service_answer)) (id : N) : option service_answer * list (N * service_answer) :=
  match l with
  | [] => (None, [])
  | (k, a) :: r => if k =? id then (Some a, r) else let '(o, r') := results_take r id in (o, (k, a) :: r')
  end.

(* Streams::add_stream_value on the context (execution_context/streams_variables.rs) *)
Definition with_streams (x : ctx) (m : Stream.streams vagg) : ctx :=
  set_ext x {| e_streams := m; e_stream_maps := e_stream_maps (x_ext x); e_canon_maps := e_canon_maps (x_ext x) |}.
Definition add_stream_value (x : ctx) (name : string) (v : vagg) (g : Stream.generation) (p : N) : pres ctx :=
  match Stream.streams_add_stream_value vagg (e_streams (x_ext x)) name v g p with
  | Stream.SOk m => POk (with_streams x m)
  | Stream.SErr _ => PErr (EUncatch UStreamSizeLimitExceeded)
  | Stream.SCrash _ => PCrash "ValuesMatrix: generation index does not fit u32"
  end.
Definition gen_of_source (src : value_source) (g : N) : Stream.generation :=       (* Generation::from_data *)
  match src with PreviousData => Stream.GPrevious g | CurrentData => Stream.GCurrent g end.

(* call_result_setter.rs: populate_context_from_peer_service_result *)
Definition populate_from_service_result (x : ctx) (result : json) (t : tetraplet) (pos : N) (arg_hash : cid)
           (out : call_output) : xres * option (call_result cid) :=
  match out with
  | OutScalar v =>
      let '(x1, sc) := track_service_result x result t arg_hash in
      match set_scalar_value x1 (v_name v) (VAService result t pos sc) with
      | POk x2 => (XOk (record_cid x2 (tp_peer t) sc), Some (Executed (VRScalar sc)))
      | PErr e => (XErr e x1, None)
      | PCrash s => (XCrash s, None)
      | PUnsupported w => (XUnsupported w, None)
      end
  | OutStream v =>
      let '(x1, sc) := track_service_result x result t arg_hash in
      match add_stream_value x1 (v_name v) (VAService result t pos sc) Stream.GNew (v_pos v) with
      | POk x2 => (XOk (record_cid x2 (tp_peer t) sc), Some (Executed (VRStream sc generation_stub)))
      | PErr e => (XErr e x1, None)
      | PCrash s => (XCrash s, None)
      | PUnsupported w => (XUnsupported w, None)
      end
  | OutNone => (XOk x, Some (Executed (VRUnused (CValue result))))
  end.

(* prev_result_handler.rs: update_state_with_service_result *)
Definition update_state_with_service_result (x : ctx) (t : tetraplet) (arg_hash : cid) (out : call_output)
           (ans : service_answer) : xres :=
  (* handle_service_error *)
  if negb (sa_ret_code ans =? call_service_success)%Z then
    let failed := call_service_failed_value (sa_ret_code ans) (sa_text ans) in
    let '(x1, sc) := track_service_result x failed t arg_hash in
    let x2 := record_cid x1 (tp_peer t) sc in
    XErr (ECatch (CLocalServiceError (sa_ret_code ans) (sa_text ans))) (call_end x2 (Failed sc))
  else
  (* try_to_service_result *)
  match sa_parsed ans with
  | None =>
      (* the message embeds serde_json's error text: opaque *)
      let failed := call_service_failed_value 2147483647 "<msg:service result is not JSON>" in
      let '(x1, sc) := track_service_result x failed t arg_hash in
      let x2 := record_cid x1 (tp_peer t) sc in          (* since the fix for the unsigned Failed state (C03) *)
      XErr (ECatch (CLocalServiceError 2147483647 "<msg:service result is not JSON>")) (call_end x2 (Failed sc))
  | Some result =>
      let pos := trace_pos_of x in
      match populate_from_service_result x result t pos arg_hash out with
      | (XOk x1, Some cr) => XOk (call_end x1 cr)
      | (r, _) => r
      end
  end.

(* call_result_setter.rs: populate_context_from_data *)
Definition populate_from_data (x : ctx) (v : value_ref cid) (arg_hash : cid) (t : tetraplet) (pos : N)
           (src : value_source) (out : call_output) : pres ctx :=
  match out, v with
  | OutScalar sv, VRScalar c =>
      dop si <- resolve_service_info x c;
      dop _ <- verify_call arg_hash t (si_arg_hash si) (si_tetraplet si);
      set_scalar_value x (v_name sv) (VAService (si_value si) t pos c)
  | OutStream sv, VRStream c g =>
      dop si <- resolve_service_info x c;
      dop _ <- verify_call arg_hash t (si_arg_hash si) (si_tetraplet si);
      add_stream_value x (v_name sv) (VAService (si_value si) t pos c) (gen_of_source src g) (v_pos sv)
  | OutNone, VRUnused _ => POk x
  | _, _ => PErr (EUncatch UCallResultNotCorrespondToInstr)
  end.

(* prev_result_handler.rs: handle_prev_state *)
Definition handle_prev_state (x : ctx) (met : call_result cid) (pos : N) (src : value_source) (t : tetraplet)
           (arg_hash : option cid) (out : call_output) : xres * state_descr :=
  let dummy := SD false None in
  match met with
  | Failed fc =>
      match resolve_service_info x fc with
      | POk si =>
          match arg_hash with
          | None => (XErr (EUncatch (UInstructionParametersMismatch "call argument_hash")) x, dummy)   (* since the fix *)
          | Some ah =>
              match verify_call ah t (si_arg_hash si) (si_tetraplet si) with
              | POk _ =>
                  (* serde_json::from_value::<CallServiceFailed> *)
                  match si_value si with
                  | JObj kvs =>
                      match obj_get "ret_code" kvs, obj_get "message" kvs with
                      | Some (JInt code), Some (JStr msg) =>
                          if ((-2147483648 <=? code) && (code <=? 2147483647))%Z then
                            let x1 := record_cid (make_incomplete x) (tp_peer t) fc in
                            (XErr (ECatch (CLocalServiceError code msg)) (call_end x1 met), dummy)
                          else (XErr (EUncatch UMalformedCallServiceFailed) x, dummy)
                      | _, _ => (XErr (EUncatch UMalformedCallServiceFailed) x, dummy)
                      end
                  | _ => (XErr (EUncatch UMalformedCallServiceFailed) x, dummy)
                  end
              | PErr e => (XErr e x, dummy)
              | PCrash s => (XCrash s, dummy)
              | PUnsupported w => (XUnsupported w, dummy)
              end
          end
      | PErr e => (XErr e x, dummy)
      | PCrash s => (XCrash s, dummy)
      | PUnsupported w => (XUnsupported w, dummy)
      end
  | RequestSentBy (SPeerCall peer call_id) =>
      if String.eqb peer (current_peer x) then
        match results_take (x_call_results x) call_id with
        | (Some ans, rest) =>
            match arg_hash with
            | None => (XErr (EUncatch (UInstructionParametersMismatch "call argument_hash")) x, dummy)   (* since the fix *)
            | Some ah =>
                let x1 := set_calls x (x_lcid x) rest (x_requests x) in
                (update_state_with_service_result x1 t ah out ans, SD false None)
            end
        | (None, _) => (XOk (make_incomplete x), SD false (Some met))
        end
      else if String.eqb (tp_peer t) (current_peer x) then (XOk x, SD true (Some met))
      else (XOk (make_incomplete x), SD false (Some met))
  | RequestSentBy (SPeer _) =>
      if String.eqb (tp_peer t) (current_peer x) then (XOk x, SD true (Some met))
      else (XOk (make_incomplete x), SD false (Some met))
  | Executed v =>
      match arg_hash with
      | None => (XErr (EUncatch (UInstructionParametersMismatch "call argument_hash")) x, dummy)       (* since the fix *)
      | Some ah =>
          match populate_from_data x v ah t pos src out with
          | POk x1 =>
              let x2 := match v with
                        | VRScalar c | VRStream c _ => record_cid x1 (tp_peer t) c
                        | VRUnused _ => x1
                        end in
              (XOk (call_end x2 (Executed v)), SD false None)
          | PErr e => (XErr e x, dummy)
          | PCrash s => (XCrash s, dummy)
          | PUnsupported w => (XUnsupported w, dummy)
          end
      end
  end.

Definition maybe_set_prev_state (x : ctx) (sd : state_descr) : ctx :=
  match sd with SD _ (Some c) => call_end x c | _ => x end.

(* resolved_call.rs: ResolvedCall::execute *)
Definition resolved_call_execute (x : ctx) (t : tetraplet) (args : list value) (out : call_output) : xres :=
  (* check_args *)
  match collect_args x args with
  | PCrash s => XCrash s
  | PUnsupported w => XUnsupported w
  | PErr e => if is_joinable e then
                (* argument_hash = None *)
                with_handler x (meet_call_start cid cid_eqb (x_handler x)) (fun rh =>
                  let x0 := set_handler x (snd rh) in
                  match fst rh with
                  | CallNotMet _ =>
                      (* no previous state: should_execute *)
                      if negb (String.eqb (tp_peer t) (current_peer x0)) then
                        (* handle_remote_call *)
                        XOk (call_end (make_incomplete (set_next_peers x0 (x_next_peers x0 ++ [tp_peer t])))
                                      (RequestSentBy (SPeer (current_peer x0))))
                      else XErr e x0     (* prepare_request_params fails joinably; no prev state to restore *)
                  | CallMet _ met pos src =>
                      match handle_prev_state x0 met pos src t None out with
                      | (XOk x1, SD should prev) =>
                          if negb should then XOk (maybe_set_prev_state x1 (SD should prev))
                          else if negb (String.eqb (tp_peer t) (current_peer x1)) then
                            XOk (call_end (make_incomplete (set_next_peers x1 (x_next_peers x1 ++ [tp_peer t])))
                                          (RequestSentBy (SPeer (current_peer x1))))
                          else XErr e (maybe_set_prev_state x1 (SD should prev))
                      | (r, _) => r
                      end
                  end)
              else XErr e x
  | POk (arg_values, arg_tetraplets) =>
      let ah := CArgs arg_values in
      with_handler x (meet_call_start cid cid_eqb (x_handler x)) (fun rh =>
        let x0 := set_handler x (snd rh) in
        let continue (x1 : ctx) (sd : state_descr) : xres :=
          match sd with
          | SD false _ => XOk (maybe_set_prev_state x1 sd)
          | SD true _ =>
              if negb (String.eqb (tp_peer t) (current_peer x1)) then
                XOk (call_end (make_incomplete (set_next_peers x1 (x_next_peers x1 ++ [tp_peer t])))
                              (RequestSentBy (SPeer (current_peer x1))))
              else
                (* prepare_request_params: resolve_args again (same values), then issue the request *)
                if 4294967295 <=? x_lcid x1 then XCrash "next_call_request_id: u32 overflow" else
                let id := x_lcid x1 + 1 in
                let rq := {| rq_service := tp_service t; rq_function := tp_function t; rq_args := arg_values;
                             rq_tetraplets := arg_tetraplets |} in
                let x2 := set_calls x1 id (x_call_results x1) (x_requests x1 ++ [(id, rq)]) in
                XOk (call_end (make_incomplete x2) (RequestSentBy (SPeerCall (current_peer x2) id)))
          end in
        match fst rh with
        | CallNotMet _ => continue x0 (SD true None)
        | CallMet _ met pos src =>
            match handle_prev_state x0 met pos src t (Some ah) out with
            | (XOk x1, sd) => continue x1 sd
            | (r, _) => r
            end
        end)
  end.

(* call.rs: Call::execute *)
Definition exec_call (x : ctx) (text : string) (tr : triplet) (args : list value) (out : call_output) : xres :=
  (* ResolvedCall::new, joinable! *)
  let set_errs (e : exec_err) (x' : ctx) (t : option tetraplet) : xres :=
    match e with
    | ECatch _ => XErr e (ctx_set_errors x' e text t true)
    | EUncatch _ => XErr e x'
    end in
  match (dop t <- resolve_triplet x tr; dop _ <- check_output_name x out; POk t) with
  | PCrash s => XCrash s
  | PUnsupported w => XUnsupported w
  | PErr e => if is_joinable e then XOk (make_incomplete x) else set_errs e x None
  | POk t =>
      match resolved_call_execute x t args out with
      | XErr e x' => if is_joinable e then XOk (make_incomplete x') else set_errs e x' (Some t)
      | r => r
      end
  end.

(* ------------------------------------------------------------------------------------------ *)
(* ap (to scalars), instructions/ap/apply_to_arguments.rs *)

Definition apply_to_arg (x : ctx) (a : ap_arg) (touch_trace : bool) : pres vagg :=
  let pos := trace_pos_of x in
  let const (j : json) := POk (VALiteral j (init_peer x) pos) in
  let from_resolved (r : pres resolved) :=
    dop rr <- r;
    match snd (fst rr) with
    | t :: _ => POk (va_new (fst (fst rr)) t pos (snd rr))
    | [] => PCrash "tetraplets.remove(0) on an empty list"
    end in
  match a with
  | AInitPeerId => const (JStr (init_peer x))
  | ATimestamp => const (JInt (Z.of_N (rp_timestamp (x_params x))))
  | ATTL => const (JInt (Z.of_N (rp_ttl (x_params x))))
  | AError lens => from_resolved (resolve_errors x (x_error x) lens)
  | ALastError lens => from_resolved (resolve_errors x (x_last_error x) lens)
  | ALiteral s => const (JStr s)
  | ANumber n => const (number_to_json n)
  | ABoolean b => const (JBool b)
  | AEmptyArray => const (JArr [])
  | AScalar v =>
      dop r <- scalars_get_value x (v_name v);
      dop val <- match r with
                 | SRValue a => POk a
                 | SRIterable f => match it_peek (fs_iterable f) with
                                   | Some it => POk (item_into_vagg it)
                                   | None => PCrash "peek on an empty iterable" end
                 end;
      POk (if touch_trace then va_set_pos val pos else val)
  | AScalarL v => from_resolved (resolve_scalar_l x v)
  | ACanon v =>
      dop c <- get_canon_stream x (v_name v);
      POk (VACanon (canon_as_jvalue c) (tp_peer (cw_tetraplet c)) (tp_lens (cw_tetraplet c)) pos (cw_cid c))
  | ACanonL v => from_resolved (resolve_canon_l x v)
  | ACanonMap v =>
      dop c <- get_canon_map x (v_name v);
      POk (VACanon (canon_map_as_jvalue c) (tp_peer (cmw_tetraplet c)) (tp_lens (cmw_tetraplet c)) pos (cmw_cid c))
  | ACanonMapL v => from_resolved (resolve_canon_map_l x v)
  end.

Definition exec_ap (x : ctx) (a : ap_arg) (r : ap_result) : xres :=
  match r with
  | ApStream _ => XUnsupported "stream"
  | ApScalar v =>
      match apply_to_arg x a false with
      | PErr e => if is_joinable e then XOk (make_incomplete x) else XErr e x
      | PCrash s => XCrash s
      | PUnsupported w => XUnsupported w
      | POk val => lift x (set_scalar_value x (v_name v) val) XOk
      end
  end.

(* ------------------------------------------------------------------------------------------ *)
(* fail *)

Definition fail_with_error_object (x : ctx) (error : json) (t : option tetraplet) (p : provenance) : xres :=
  let x1 := set_last_error x {| ie_error := error; ie_tetraplet := t; ie_prov := p; ie_orig := None |} false in
  XErr (ECatch (CUserError error)) (make_incomplete x1).

Definition exec_fail (x : ctx) (text : string) (f : fail_arg) : xres :=
  let from_resolved (r : pres resolved) : xres :=
    lift x r (fun rr =>
      match snd (fst rr) with
      | t :: _ =>
          if check_error_object (fst (fst rr)) then fail_with_error_object x (fst (fst rr)) (Some t) (snd rr)
          else XErr (ECatch CInvalidErrorObjectError) x
      | [] => XCrash "tetraplet.remove(0) on an empty list"
      end) in
  match f with
  | FScalar v => from_resolved (resolve_scalar x (v_name v))
  | FScalarL v => from_resolved (resolve_scalar_l x v)
  | FCanonL v => from_resolved (resolve_canon_l x v)
  | FLiteral code msg =>
      fail_with_error_object x (error_object code msg text (Some (init_peer x)))
                             (Some (literal_tetraplet (init_peer x))) ProvLiteral
  | FLastError =>
      let ie := x_last_error x in
      if check_error_object (ie_error ie) then fail_with_error_object x (ie_error ie) (ie_tetraplet ie) (ie_prov ie)
      else XErr (ECatch CInvalidErrorObjectError) x
  | FError =>
      let ie := x_error x in
      if negb (check_error_object (ie_error ie)) then XErr (ECatch CInvalidErrorObjectError) x else
      match fail_with_error_object x (ie_error ie) (ie_tetraplet ie) (ie_prov ie) with
      | XErr e x1 =>
          let x2 := set_error x1 (x_error x1) false in
          match ie_orig ie with
          | Some orig => XErr (ECatch orig) x2
          | None => XErr e x2
          end
      | r => r
      end
  end.

(* ------------------------------------------------------------------------------------------ *)
(* fold over scalars: instructions/fold/utils.rs *)

Inductive fold_iterable_scalar := FoldEmpty | FoldOver (i : iterable).

Definition from_value (v : vagg) (name : string) : pres fold_iterable_scalar :=
  match va_result v with
  | JArr [] => POk FoldEmpty
  | JArr arr => POk (FoldOver (ItResolvedCall v 0 (len_N arr)))
  | j => PErr (ECatch (CFoldIteratesOverNonArray j name))
  end.
Definition from_jvalue (j : json) (t : tetraplet) (p : provenance) (l : lambda) : pres fold_iterable_scalar :=
  match j with
  | JArr [] => POk FoldEmpty
  | JArr arr => POk (FoldOver (ItLambdaResult arr (populate_tetraplet_with_lambda t l) p 0))
  | _ => PErr (ECatch (CFoldIteratesOverNonArray j (lambda_to_string l)))
  end.

Definition create_fold_iterable (x : ctx) (it : fold_iterable) : pres fold_iterable_scalar :=
  match it with
  | FIScalar v =>
      dop r <- scalars_get_value x (v_name v);
      match r with
      | SRValue a => from_value a (v_name v)
      | SRIterable f => match it_peek (fs_iterable f) with
                        | Some i => from_value (item_into_vagg i) (v_name v)
                        | None => PCrash "peek on an empty iterable" end
      end
  | FIScalarL v =>
      dop r <- scalars_get_value x (vl_name v);
      dop p <- scalar_ref_parts r;
      let '(j, t, pr) := p in
      dop sel <- of_lres (select_by_lambda_from_scalar (lens_env x) j (vl_lambda v));
      from_jvalue sel t pr (vl_lambda v)
  | FICanon v =>
      dop c <- get_canon_stream x (v_name v);
      match cw_values c with [] => POk FoldEmpty | vs => POk (FoldOver (ItCanon vs 0)) end
  | FICanonMap v =>
      (* create_canon_stream_map_iterable_value: the LAST pair of every key, in stream order *)
      dop c <- get_canon_map x (v_name v);
      if canon_map_is_empty c then POk FoldEmpty else
      let fix last_per_key (rev_vs : list vagg) (seen : list map_key) : list vagg :=
        match rev_vs with
        | [] => []
        | val :: r => match kv_key val with
                      | Some k => if existsb (map_key_eqb k) seen then last_per_key r seen else val :: last_per_key r (k :: seen)
                      | None => last_per_key r seen
                      end
        end in
      POk (FoldOver (ItCanon (rev (last_per_key (rev (cmw_values c)) [])) 0))
  | FICanonMapL v =>
      dop c <- get_canon_map x (vl_name v);
      if canon_map_is_empty c then POk FoldEmpty else
      dop sel <- of_lres (select_by_lambda_from_canon_map (lens_env x) (canon_map_lens_view c) (vl_lambda v));
      from_jvalue sel (cmw_tetraplet c) (ProvCanon (cmw_cid c)) (vl_lambda v)
  | FIEmptyArray => POk FoldEmpty
  end.

(* ------------------------------------------------------------------------------------------ *)
(* the executor *)

Definition instr_text (i : instr) : string :=
  match i with
  | ICall t _ _ _ | IAp t _ _ | IApMap t _ _ _ | ICanon t _ _ _ | ICanonMap t _ _ _ | ICanonStreamMapScalar t _ _ _
  | IMatch t _ _ _ | IMisMatch t _ _ _ | IFail t _ | IFoldScalar t _ _ _ _ _ | IFoldStream t _ _ _ _ _
  | IFoldStreamMap t _ _ _ _ _ | INew t _ _ _ | INext t _ => t
  | ISeq _ _ => "seq" | IPar _ _ => "par" | IXor _ _ => "xor" | INever => "never" | INull => "null" | IError => "error"
  end%string.
Definition logs_peer_id (i : instr) : bool :=
  match i with ICall _ _ _ _ | ICanon _ _ _ _ | ICanonMap _ _ _ _ | ICanonStreamMapScalar _ _ _ _ => true | _ => false end.

Definition json_values_equal (a b : json) : bool := json_eqb a b.

Section Exec.
  (* stage 2 hook: instructions over streams are delegated (ExecStreams.v instantiates it) *)
  Variable exec_stream_instr : (instr -> ctx -> xres) -> instr -> ctx -> option xres.

  Fixpoint exec (fuel : nat) (i : instr) (x : ctx) {struct fuel} : xres :=
    match fuel with
    | O => XFuel
    | S fuel' =>
      let run := exec fuel' in
      let body : xres :=
        match i with
        | ICall text tr args out => exec_call x text tr args out
        | INull => XOk x
        | INever => XOk (make_incomplete x)
        | IError => XCrash "Instruction::Error executed"
        | ISeq a b =>
            match run a (flush_complete x) with
            | XOk x1 => if x_complete x1 then run b x1 else XOk x1
            | r => r
            end
        | IXor a b =>
            match run a (flush_complete x) with
            | XErr e x1 =>
                if is_catchable e then
                  let x2 := flush_complete x1 in
                  let x3 := set_last_error x2 (x_last_error x2) true in                 (* meet_xor_right_branch *)
                  let orig := match e with ECatch c => Some c | _ => None end in
                  let ie := x_error x3 in
                  let x4 := set_error x3 {| ie_error := ie_error ie; ie_tetraplet := ie_tetraplet ie;
                                            ie_prov := ie_prov ie; ie_orig := orig |} true in
                  let clear (y : ctx) : ctx := if x_error_can_set y then set_error y no_error true else y in
                  match run b x4 with
                  | XOk y => let y1 := clear y in XOk (set_error y1 (x_error y1) true)
                  | XErr e' y => XErr e' (clear y)
                  | r => r
                  end
                else XErr e x1
            | r => r
            end
        | IPar a b =>
            with_handler x (meet_par_start cid (x_handler x)) (fun h1 =>
              let x1 := set_handler x h1 in
              let sub (s : instr) (sg : subgraph) (y : ctx) : xres * option (option exec_err) :=
                (* returns the context after the branch and Some None (succeeded) / Some (Some e) (failed catchably) *)
                let y0 := set_complete y (match s with INext _ _ => false | _ => true end) in
                match run s y0 with
                | XOk y1 =>
                    match meet_par_subgraph_end cid (x_handler y1) sg with
                    | Ok h => (XOk (set_handler y1 h), Some None)
                    | Err e => (XErr (trace_err e) y1, None)
                    | Crash _ => (XCrash "trace handler panic", None)
                    end
                | XErr e y1 =>
                    if is_catchable e then
                      let y2 := make_incomplete y1 in
                      match meet_par_subgraph_end cid (x_handler y2) sg with
                      | Ok h => (XOk (set_handler y2 h), Some (Some e))
                      | Err e' => (XErr (trace_err e') y2, None)
                      | Crash _ => (XCrash "trace handler panic", None)
                      end
                    else (XErr e (make_incomplete y1), None)
                | r => (r, None)
                end in
              match sub a SLeft x1 with
              | (XOk y1, Some lres) =>
                  let lc := x_complete y1 in
                  match sub b SRight y1 with
                  | (XOk y2, Some rres) =>
                      let rc := x_complete y2 in
                      let y3 := set_complete y2 (lc || rc) in
                      match lres, rres with
                      | Some _, Some er => XErr er y3
                      | _, _ => XOk (set_last_error y3 (x_last_error y3) true)       (* meet_par_successed_end *)
                      end
                  | (r, _) => r
                  end
              | (r, _) => r
              end)
        | IMatch _ l r b | IMisMatch _ l r b =>
            let is_match := match i with IMatch _ _ _ _ => true | _ => false end in
            match (dop lv <- resolve_value x l; dop rv <- resolve_value x r;
                   POk (json_values_equal (fst (fst lv)) (fst (fst rv)))) with
            | PErr e => if is_joinable e then XOk (make_incomplete x) else XErr e x
            | PCrash s => XCrash s
            | PUnsupported w => XUnsupported w
            | POk eq =>
                if Bool.eqb eq is_match then run b x
                else XErr (ECatch (if is_match then CMatchValuesNotEqual else CMismatchValuesEqual)) x
            end
        | IFail text f => exec_fail x text f
        | IAp _ a r =>
            match r with
            | ApScalar _ => exec_ap x a r
            | ApStream _ => match exec_stream_instr run i x with Some r' => r' | None => XUnsupported "stream" end
            end
        | INew _ arg b _ =>
            match arg with
            | NScalar v =>
                let x1 := set_scalars x (Scalars.meet_new_start vagg (x_scalars x) (v_name v)) in
                let fin (y : ctx) : pres ctx :=
                  match Scalars.meet_new_end vagg (x_scalars y) (v_name v) with
                  | inl m => POk (set_scalars y m)
                  | inr e => PErr (sm_to_err e)
                  end in
                match run b x1 with
                | XOk y => lift y (fin y) XOk
                | XErr e y => match fin y with POk y' => XErr e y' | _ => XErr e y end
                | r => r
                end
            | NCanon v =>
                let x1 := set_canons x (Scalars.meet_new_start canon_wp (x_canons x) (v_name v)) in
                let fin (y : ctx) : pres ctx :=
                  match Scalars.meet_new_end canon_wp (x_canons y) (v_name v) with
                  | inl m => POk (set_canons y m)
                  | inr e => PErr (sm_to_err e)
                  end in
                match run b x1 with
                | XOk y => lift y (fin y) XOk
                | XErr e y => match fin y with POk y' => XErr e y' | _ => XErr e y end
                | r => r
                end
            | NStream _ | NStreamMap _ | NCanonMap _ =>
                match exec_stream_instr run i x with Some r' => r' | None => XUnsupported "stream" end
            end
        | IFoldScalar _ it iter b last _ =>
            match create_fold_iterable x it with
            | PErr e => if is_joinable e then XOk (make_incomplete x) else XErr e x
            | PCrash s => XCrash s
            | PUnsupported w => XUnsupported w
            | POk FoldEmpty => XOk x
            | POk (FoldOver itb) =>
                (* fold_scalar.rs: fold *)
                let fs := {| fs_iterable := itb; fs_type := IterScalar; fs_body := b; fs_last := last; fs_back_started := false |} in
                let x1 := all_fold_start x in
                match iter_get (x_iterables x1) (v_name iter) with
                | Some _ => XErr (EUncatch (UMultipleIterableValues (v_name iter))) x1
                | None =>
                    let x2 := set_iterables x1 (iter_put (x_iterables x1) (v_name iter) fs) in
                    let fin (y : ctx) : ctx :=
                      let y1 := set_iterables y (iter_del (x_iterables y) (v_name iter)) in
                      all_fold_end y1 in
                    match run b x2 with
                    | XOk y => XOk (fin y)
                    | XErr e y => XErr e (fin y)
                    | r => r
                    end
                end
            end
        | INext _ iter =>
            match iter_get (x_iterables x) (v_name iter) with
            | None => XErr (EUncatch (UFoldStateNotFound (v_name iter))) x
            | Some fs =>
                match fs_type fs with
                | IterStream _ => match exec_stream_instr run i x with Some r' => r' | None => XUnsupported "stream" end
                | IterScalar =>
                    let '(moved, it') := it_next (fs_iterable fs) in
                    if negb moved then
                      match fs_last fs with
                      | Some li => run li (flush_complete x)
                      | None => XOk x
                      end
                    else
                      let fs' := {| fs_iterable := it'; fs_type := fs_type fs; fs_body := fs_body fs; fs_last := fs_last fs;
                                    fs_back_started := fs_back_started fs |} in
                      let x1 := set_iterables x (iter_put (x_iterables x) (v_name iter) fs') in
                      let x2 := all_next_before x1 in
                      let after (y : ctx) : ctx :=
                        all_next_after y in
                      match run (fs_body fs) x2 with
                      | XOk y =>
                          let y1 := after y in
                          match iter_get (x_iterables y1) (v_name iter) with
                          | None => XErr (EUncatch (UFoldStateNotFound (v_name iter))) y1
                          | Some g =>
                              let g' := {| fs_iterable := snd (it_prev (fs_iterable g)); fs_type := fs_type g;
                                           fs_body := fs_body g; fs_last := fs_last g; fs_back_started := fs_back_started g |} in
                              XOk (set_iterables y1 (iter_put (x_iterables y1) (v_name iter) g'))
                          end
                      | XErr e y => XErr e (after y)
                      | r => r
                      end
                end
            end
        | ICanon _ _ _ _ | IFoldStream _ _ _ _ _ _
        | IApMap _ _ _ _ | ICanonMap _ _ _ _ | ICanonStreamMapScalar _ _ _ _ | IFoldStreamMap _ _ _ _ _ _ =>
            match exec_stream_instr run i x with Some r' => r' | None => XUnsupported "stream" end
        end in
      match i with
      | ICall _ _ _ _ => body
      | _ => wrap_errors body (instr_text i) (logs_peer_id i)
      end
    end.
End Exec.
