(* XorOracle.v -- the property oracle of C18 (light file: only Base / Json / Generated are needed to
   evaluate it).

   [c18case] / [c18_oracle]: one failing (or succeeding / waiting) instruction in one context, run on the
   REAL interpreter twice by harness/src/bin/xor18.rs -- caught:
   (xor F (call %init_peer_id% ("s18" "catch") [:error:.$.error_code :error:.$.message :error: %last_error%]))
   and uncaught: F alone in the same context; the oracle is the property text evaluated on what the
   implementation did (nothing of the executor model enters it).
   Definitions only. *)
From Aqua Require Import Base Json.
Open Scope N_scope.
Open Scope list_scope.

(* ------------------------------------------------------------------------------------------ *)
(* (1) the property oracle *)

Record c18case := {
  k_expect : N;                        (* generator's intention: 0 catchable failure, 1 success, 2 waiting, 3 uncatchable,
                                          4 catchable failure in a context where an earlier failure was swallowed *)
  k_unc_code : Z; k_unc_msg : string;  (* uncaught twin: ret_code / error_message of its last run *)
  k_caught_code : Z;                   (* caught variant: ret_code of its last run *)
  k_catch_args : list (list json);     (* arguments of every request to ("s18","catch") over the caught history *)
  k_stale_code : Z; k_stale_msg : string   (* twin of the earlier swallowed failure (expect = 4), else 0 / "" *)
}.

Definition in_range (lo hi z : Z) : bool := ((lo <=? z) && (z <? hi))%Z.
Definition is_catchable_code (z : Z) : bool := in_range catchable_errors_start_id uncatchable_errors_start_id z.
Definition is_uncatchable_code (z : Z) : bool := in_range uncatchable_errors_start_id farewell_errors_start_id z.

(* one catch request shows code and message [code]/[msg], both as selected fields and inside :error: *)
Definition entry_shows (code : Z) (msg : string) (args : list json) : bool :=
  match args with
  | [JInt c; JStr m; JObj kvs; _] =>
      (c =? code)%Z && String.eqb m msg &&
      match obj_get "error_code" kvs, obj_get "message" kvs with
      | Some (JInt c'), Some (JStr m') => (c' =? code)%Z && String.eqb m' msg
      | _, _ => false
      end
  | _ => false
  end.

Definition is_nil {A} (l : list A) : bool := match l with [] => true | _ => false end.

(* the property, driven by what the uncaught twin reported *)
Definition c18_oracle (c : c18case) : bool :=
  if is_catchable_code (k_unc_code c) then
    (* the left branch fails catchably: the right branch ran, and every time it saw the twin's code and message *)
    negb (is_nil (k_catch_args c)) && forallb (entry_shows (k_unc_code c) (k_unc_msg c)) (k_catch_args c)
  else if (k_unc_code c =? 0)%Z then
    (* success or still waiting: the right branch never runs *)
    is_nil (k_catch_args c)
  else if is_uncatchable_code (k_unc_code c) then
    (* never caught: no catch request, and the caught variant ends with an uncatchable code as well *)
    is_nil (k_catch_args c) && is_uncatchable_code (k_caught_code c)
  else true.

(* the documented deviation: every catch request shows the EARLIER (swallowed) failure *)
Definition c18_stale_shape (c : c18case) : bool :=
  (k_expect c =? 4) && negb (is_nil (k_catch_args c)) &&
  forallb (entry_shows (k_stale_code c) (k_stale_msg c)) (k_catch_args c).

(* the case reached the class the generator intended (measured, not an alarm) *)
Definition c18_class_reached (c : c18case) : bool :=
  match k_expect c with
  | 0 | 4 => is_catchable_code (k_unc_code c)
  | 1 | 2 => (k_unc_code c =? 0)%Z
  | 3 => is_uncatchable_code (k_unc_code c)
  | _ => false
  end.
(* non-trivial: the mechanism of the property was exercised (a catch ran, or an error passed an xor) *)
Definition c18_nontrivial (c : c18case) : bool :=
  negb (is_nil (k_catch_args c)) || is_uncatchable_code (k_unc_code c).

