//! `forge14`: C14 driver (forged / replayed results).  One JSON scenario per input line ->
//! one JSON line {"coq": [terms of ForgeCases.case_t ...], "classes": [...], "info": [...]}.
//!
//! scenario = { "script", "peers", "init", "services", "ops", "particle_id",
//!              "tampers": [ {"delivery": k, "ops": [ {"kind": "...", "sel": n, "arg": n}, .. ], "resign": bool}, .. ] }
//!
//! The honest history is run twice with `aquah::sim::Net`: under the particle id and under another
//! one (same schedule: the data differ in their signatures only).  A tamper case picks one
//! delivery of the first history (sender S = the attacker, receiver V = the victim, V's own previous
//! data, the honest current data S sent), decodes the real data, edits the real `InterpreterData`
//! structurally (trace states, the five CID stores, the signature store), optionally re-signs with
//! S's OWN key, re-encodes, and runs the real `air::execute_air` at V on (prev, tampered).
//!
//! Printed per case: the inputs of the verification step as terms of model/Forge.v (trace with the
//! real id texts, the stores, which entries fail an INDEPENDENT hash check (sha2 / blake3 crates over
//! the serde_json bytes), signatures as symbolic terms obtained by really verifying the bytes
//! against candidate (signer, cid list, salt) triples) and what the run did.  The property oracle
//! (written from the property text) is evaluated here on the implementation's outcome:
//!   rejected (preparation error / uncatchable error, previous data returned), or every result the
//!   new data attributes to a peer other than S is one that peer really produced (service log of the
//!   honest history; canon results: the peer's own honest data), at a place where the honest run
//!   has the same result or none, and every Unused state is one of the honest history.

use air_interpreter_cid::{raw_value_to_json_cid, value_to_json_cid, CID};
use air_interpreter_data::*;
use air_interpreter_signatures::{KeyFormat, KeyPair, PublicKey, Signature, SignatureStore};
use air_interpreter_value::JValue;
use aquah::coqfmt as c;
use aquah::sim::*;
use polyplets::SecurityTetraplet;
use serde_json::json;
use serde_json::Value as J;
use sha2::Digest;
use std::collections::{BTreeMap, BTreeSet};
use std::io::BufRead;
use std::rc::Rc;

// ------------------------------------------------------------------------------------------------
// helpers on real data

fn keypair_of(name: &str) -> KeyPair {
    KeyPair::from_secret_key(secret_of(name), KeyFormat::Ed25519).expect("key")
}

fn key_name(pk: &PublicKey) -> String {
    match (pk.validate(), pk.to_peer_id()) {
        (Ok(()), Ok(id)) => id,
        _ => format!("BAD:{}", pk.to_string()),
    }
}

fn decode(bytes: &[u8]) -> Option<InterpreterData> {
    if bytes.is_empty() {
        return Some(InterpreterData::default());
    }
    decode_data(bytes).ok().map(|d| d.data)
}

fn reencode(template: &[u8], d: &InterpreterData) -> Option<Vec<u8>> {
    let env = InterpreterDataEnvelope::try_from_slice(template).ok()?;
    let inner = d.serialize().ok()?;
    let env2 = InterpreterDataEnvelope { versions: env.versions.clone(), inner_data: inner.into() };
    env2.serialize().ok()
}

/// a CID store as a JSON object (key text -> content), and back: the only way to write an entry whose key is NOT
/// the hash of its content
fn store_json<V: serde::Serialize>(s: &CidStore<V>) -> serde_json::Map<String, J> {
    match serde_json::to_value(s) {
        Ok(J::Object(m)) => m,
        _ => serde_json::Map::new(),
    }
}
fn store_from<V: serde::de::DeserializeOwned>(m: serde_json::Map<String, J>) -> Option<CidStore<V>> {
    serde_json::from_value(J::Object(m)).ok()
}

/// (position, peer_pk of the STORED tetraplet, cid, is_call) for every state collect_peers_cids_from_trace looks at;
/// Err = the trace names an id the stores do not hold
fn attribution(d: &InterpreterData) -> Result<Vec<(usize, String, Rc<str>, bool)>, String> {
    let mut out = vec![];
    for (i, elt) in d.trace.iter().enumerate() {
        match elt {
            ExecutedState::Call(call) => {
                if let Some(cid) = call.get_cid() {
                    let sr = d.cid_info.service_result_store.get(cid).ok_or("service result not in store")?;
                    let t = d.cid_info.tetraplet_store.get(&sr.tetraplet_cid).ok_or("tetraplet not in store")?;
                    out.push((i, t.peer_pk.to_string(), cid.get_inner(), true));
                }
            }
            ExecutedState::Canon(CanonResult::Executed(cid)) => {
                let cr = d.cid_info.canon_result_store.get(cid).ok_or("canon result not in store")?;
                let t = d.cid_info.tetraplet_store.get(&cr.tetraplet).ok_or("tetraplet not in store")?;
                out.push((i, t.peer_pk.to_string(), cid.get_inner(), false));
            }
            _ => {}
        }
    }
    Ok(out)
}

fn peer_list(att: &[(usize, String, Rc<str>, bool)], p: &str) -> Vec<Rc<str>> {
    att.iter().filter(|a| a.1 == p).map(|a| a.2.clone()).collect()
}

fn raw_of(v: &RawValue) -> String {
    match serde_json::to_value(v) {
        Ok(J::String(s)) => s,
        _ => String::new(),
    }
}

fn tetraplet_json(t: &SecurityTetraplet) -> J {
    json!({"peer": t.peer_pk, "service": t.service_id, "function": t.function_name, "lens": t.lens})
}

/// the content a state resolves to through the data's own stores; None when something is missing.
/// kind: "executed" (scalar or stream), "failed", "canon"
fn resolved(d: &InterpreterData, st: &ExecutedState) -> Option<(String, String, J)> {
    let ci = &d.cid_info;
    match st {
        ExecutedState::Call(call) => {
            let cid = call.get_cid()?;
            let kind = match call {
                CallResult::Failed(_) => "failed",
                _ => "executed",
            };
            let sr = ci.service_result_store.get(cid)?;
            let t = ci.tetraplet_store.get(&sr.tetraplet_cid)?;
            let v = ci.value_store.get(&sr.value_cid)?;
            let val: J = serde_json::from_str(&raw_of(&v)).unwrap_or(J::String(format!("<not json>{}", raw_of(&v))));
            Some((kind.into(), cid.get_inner().to_string(),
                  json!({"value": sort_json(&val), "tetraplet": tetraplet_json(&t), "arg_hash": &*sr.argument_hash})))
        }
        ExecutedState::Canon(CanonResult::Executed(cid)) => {
            let cr = ci.canon_result_store.get(cid)?;
            let t = ci.tetraplet_store.get(&cr.tetraplet)?;
            let mut vals = vec![];
            for e in &cr.values {
                let el = ci.canon_element_store.get(e)?;
                let v = ci.value_store.get(&el.value)?;
                let et = ci.tetraplet_store.get(&el.tetraplet)?;
                let val: J = serde_json::from_str(&raw_of(&v)).unwrap_or(J::Null);
                let prov = match &el.provenance {
                    Provenance::Literal => json!("literal"),
                    Provenance::ServiceResult { cid } => json!({"service": &*cid.get_inner()}),
                    Provenance::Canon { cid } => json!({"canon": &*cid.get_inner()}),
                };
                vals.push(json!({"value": sort_json(&val), "tetraplet": tetraplet_json(&et), "prov": prov}));
            }
            Some(("canon".into(), cid.get_inner().to_string(), json!({"tetraplet": tetraplet_json(&t), "values": vals})))
        }
        _ => None,
    }
}

fn state_peer(d: &InterpreterData, st: &ExecutedState) -> Option<String> {
    let ci = &d.cid_info;
    match st {
        ExecutedState::Call(call) => {
            let cid = call.get_cid()?;
            let sr = ci.service_result_store.get(cid)?;
            Some(ci.tetraplet_store.get(&sr.tetraplet_cid)?.peer_pk.to_string())
        }
        ExecutedState::Canon(CanonResult::Executed(cid)) => {
            let cr = ci.canon_result_store.get(cid)?;
            Some(ci.tetraplet_store.get(&cr.tetraplet)?.peer_pk.to_string())
        }
        _ => None,
    }
}

/// equality of two states up to the stream generation (renumbered by every run)
fn same_result(a: &ExecutedState, b: &ExecutedState) -> bool {
    use CallResult::*;
    use ExecutedState::*;
    match (a, b) {
        (Call(Executed(ValueRef::Stream { cid: x, .. })), Call(Executed(ValueRef::Stream { cid: y, .. }))) => x == y,
        _ => a == b,
    }
}

fn is_pending(st: &ExecutedState) -> bool {
    matches!(st, ExecutedState::Call(CallResult::RequestSentBy(_)) | ExecutedState::Canon(CanonResult::RequestSentBy(_)))
}

fn unused_cid(st: &ExecutedState) -> Option<String> {
    match st {
        ExecutedState::Call(CallResult::Executed(ValueRef::Unused(v))) => Some(v.get_inner().to_string()),
        _ => None,
    }
}

// ------------------------------------------------------------------------------------------------
// independent hash check of a store entry (the interpreter's own verify_value is NOT used here)

fn independent_ok(cid_text: &str, bytes: &[u8]) -> bool {
    use std::str::FromStr;
    let cid = match cid::Cid::from_str(cid_text) {
        Ok(c) => c,
        Err(_) => return false,
    };
    if cid.codec() != 0x0200 {
        return false;
    }
    let h = cid.hash();
    match h.code() {
        0x12 => sha2::Sha256::digest(bytes).as_slice() == h.digest(),
        0x1e => blake3::hash(bytes).as_bytes().as_slice() == h.digest(),
        _ => false,
    }
}

fn bad_entries(ci: &CidInfo) -> Vec<(u32, String)> {
    let mut bad = vec![];
    for (k, v) in ci.value_store.iter() {
        if !independent_ok(&k.get_inner(), raw_of(v).as_bytes()) {
            bad.push((0, k.get_inner().to_string()));
        }
    }
    fn typed<V: serde::Serialize>(idx: u32, s: &CidStore<V>, bad: &mut Vec<(u32, String)>) {
        for (k, v) in s.iter() {
            let bytes = serde_json::to_vec(&**v).unwrap_or_default();
            if !independent_ok(&k.get_inner(), &bytes) {
                bad.push((idx, k.get_inner().to_string()));
            }
        }
    }
    typed(1, &ci.tetraplet_store, &mut bad);
    typed(2, &ci.canon_element_store, &mut bad);
    typed(3, &ci.canon_result_store, &mut bad);
    typed(4, &ci.service_result_store, &mut bad);
    bad.sort();
    bad
}

// ------------------------------------------------------------------------------------------------
// printing of model/Forge.v terms

fn tetraplet_term(t: &SecurityTetraplet) -> String {
    format!("{{| tp_peer := {}; tp_service := {}; tp_function := {}; tp_lens := {} |}}",
            c::s(&t.peer_pk), c::s(&t.service_id), c::s(&t.function_name), c::s(&t.lens))
}

fn state_term(s: &ExecutedState) -> String {
    match s {
        ExecutedState::Par(p) => format!("(SPar {} {})", p.left_size, p.right_size),
        ExecutedState::Call(CallResult::RequestSentBy(Sender::PeerId(p))) => format!("(SCall (RequestSentBy (SPeer {})))", c::s(p)),
        ExecutedState::Call(CallResult::RequestSentBy(Sender::PeerIdWithCallId { peer_id, call_id })) => {
            format!("(SCall (RequestSentBy (SPeerCall {} {})))", c::s(peer_id), call_id)
        }
        ExecutedState::Call(CallResult::Executed(ValueRef::Scalar(cid))) => format!("(SCall (Executed (VRScalar {})))", c::s(&cid.get_inner())),
        ExecutedState::Call(CallResult::Executed(ValueRef::Stream { cid, generation })) => {
            let g: usize = (*generation).into();
            format!("(SCall (Executed (VRStream {} {})))", c::s(&cid.get_inner()), g as u32)
        }
        ExecutedState::Call(CallResult::Executed(ValueRef::Unused(cid))) => format!("(SCall (Executed (VRUnused {})))", c::s(&cid.get_inner())),
        ExecutedState::Call(CallResult::Failed(cid)) => format!("(SCall (Failed {}))", c::s(&cid.get_inner())),
        // generations and fold lore are not read by the verification step
        ExecutedState::Ap(_) => "(SAp [])".into(),
        ExecutedState::Canon(CanonResult::RequestSentBy(p)) => format!("(SCanon (CanonRequestSentBy {}))", c::s(p)),
        ExecutedState::Canon(CanonResult::Executed(cid)) => format!("(SCanon (CanonExecuted {}))", c::s(&cid.get_inner())),
        ExecutedState::Fold(_) => "(SFold [])".into(),
    }
}

fn cid_info_term(ci: &CidInfo) -> String {
    fn sorted<V, F: Fn(&str, &V) -> String>(s: &CidStore<V>, f: F) -> String {
        let mut v: Vec<(String, String)> = s.iter().map(|(k, v)| (k.get_inner().to_string(), f(&k.get_inner(), &**v))).collect();
        v.sort();
        c::list(v.into_iter().map(|x| x.1))
    }
    let vals = sorted(&ci.value_store, |k, v: &RawValue| c::pair(&c::s(k), &c::s(&raw_of(v))));
    let tets = sorted(&ci.tetraplet_store, |k, t: &SecurityTetraplet| c::pair(&c::s(k), &tetraplet_term(t)));
    let elems = sorted(&ci.canon_element_store, |k, e: &CanonCidAggregate| {
        let prov = match &e.provenance {
            Provenance::Literal => "FPLiteral".to_string(),
            Provenance::ServiceResult { cid } => format!("(FPService {})", c::s(&cid.get_inner())),
            Provenance::Canon { cid } => format!("(FPCanon {})", c::s(&cid.get_inner())),
        };
        c::pair(&c::s(k), &format!("(MkCElem {} {} {})", c::s(&e.value.get_inner()), c::s(&e.tetraplet.get_inner()), prov))
    });
    let results = sorted(&ci.canon_result_store, |k, r: &CanonResultCidAggregate| {
        c::pair(&c::s(k), &format!("(MkCRes {} {})", c::s(&r.tetraplet.get_inner()), c::list(r.values.iter().map(|v| c::s(&v.get_inner())))))
    });
    let services = sorted(&ci.service_result_store, |k, a: &ServiceResultCidAggregate| {
        c::pair(&c::s(k), &format!("(MkSAgg {} {} {})", c::s(&a.value_cid.get_inner()), c::s(&a.argument_hash), c::s(&a.tetraplet_cid.get_inner())))
    });
    format!("(MkCidInfo {} {} {} {} {})", vals, tets, elems, results, services)
}

struct Candidate {
    id: String,
    pk: PublicKey,
    lists: Vec<Vec<Rc<str>>>,
}

struct SigTable {
    known: Vec<(Signature, String)>,
    garbage: Vec<Signature>,
}

impl SigTable {
    fn term(&mut self, s: &Signature, cands: &[Candidate], salts: &[&str]) -> String {
        if let Some((_, t)) = self.known.iter().find(|(k, _)| k == s) {
            return t.clone();
        }
        for cand in cands {
            for l in &cand.lists {
                for salt in salts {
                    if cand.pk.verify(l, salt, s).is_ok() {
                        let t = format!("(Sig {} {} {})", c::s(&cand.id), c::list(l.iter().map(|x| c::s(x))), c::s(salt));
                        self.known.push((s.clone(), t.clone()));
                        return t;
                    }
                }
            }
        }
        let i = match self.garbage.iter().position(|g| g == s) {
            Some(i) => i,
            None => {
                self.garbage.push(s.clone());
                self.garbage.len() - 1
            }
        };
        format!("(GarbageSig {})", i)
    }
}

fn store_sorted(st: &SignatureStore) -> Vec<(String, Signature)> {
    let mut v: Vec<(String, Signature)> = st.iter().map(|(pk, s)| (key_name(pk), s.clone())).collect();
    v.sort_by(|a, b| a.0.cmp(&b.0));
    v
}

fn fdata_term(d: &InterpreterData, table: &mut SigTable, cands: &[Candidate], salts: &[&str]) -> String {
    let tr = c::list(d.trace.iter().map(state_term));
    let sg = c::list(store_sorted(&d.signatures).iter().map(|(k, s)| c::pair(&c::s(k), &table.term(s, cands, salts))));
    format!("(MkFData {} {} {})", tr, cid_info_term(&d.cid_info), sg)
}

// ------------------------------------------------------------------------------------------------
// the tamper catalogue

struct Ctx<'a> {
    attacker: &'a str,
    attacker_name: &'a str,
    peers: &'a [Peer],
}

struct Applied {
    kind: String,
    detail: String,
    /// the edit modified a state / content the honest data attributes to the attacker itself
    touched_own: bool,
    /// the edit concerns an Unused state (the known gap)
    unused: bool,
}

fn set_trace(d: &mut InterpreterData, v: Vec<ExecutedState>) {
    d.trace = ExecutionTrace::from(v);
}

fn put_value(d: &mut InterpreterData, raw: &str) -> Option<CID<RawValue>> {
    let cid: CID<RawValue> = raw_value_to_json_cid(raw.as_bytes());
    let mut m = store_json(&d.cid_info.value_store);
    m.insert(cid.get_inner().to_string(), J::String(raw.to_string()));
    d.cid_info.value_store = store_from(m)?;
    Some(cid)
}

fn put_tetraplet(d: &mut InterpreterData, t: &SecurityTetraplet) -> Option<CID<SecurityTetraplet>> {
    let cid = value_to_json_cid(t).ok()?;
    let mut m = store_json(&d.cid_info.tetraplet_store);
    m.insert(cid.get_inner().to_string(), serde_json::to_value(t).ok()?);
    d.cid_info.tetraplet_store = store_from(m)?;
    Some(cid)
}

fn put_service(d: &mut InterpreterData, a: &ServiceResultCidAggregate) -> Option<CID<ServiceResultCidAggregate>> {
    let cid = value_to_json_cid(a).ok()?;
    let mut m = store_json(&d.cid_info.service_result_store);
    m.insert(cid.get_inner().to_string(), serde_json::to_value(a).ok()?);
    d.cid_info.service_result_store = store_from(m)?;
    Some(cid)
}

fn put_canon_result(d: &mut InterpreterData, a: &CanonResultCidAggregate) -> Option<CID<CanonResultCidAggregate>> {
    let cid = value_to_json_cid(a).ok()?;
    let mut m = store_json(&d.cid_info.canon_result_store);
    m.insert(cid.get_inner().to_string(), serde_json::to_value(a).ok()?);
    d.cid_info.canon_result_store = store_from(m)?;
    Some(cid)
}

/// the state with a service-result CID rewritten to another CID, same kind
fn with_cid(st: &ExecutedState, new: CID<ServiceResultCidAggregate>) -> ExecutedState {
    match st {
        ExecutedState::Call(CallResult::Executed(ValueRef::Scalar(_))) => ExecutedState::Call(CallResult::Executed(ValueRef::Scalar(new))),
        ExecutedState::Call(CallResult::Executed(ValueRef::Stream { generation, .. })) => {
            ExecutedState::Call(CallResult::Executed(ValueRef::Stream { cid: new, generation: *generation }))
        }
        ExecutedState::Call(CallResult::Failed(_)) => ExecutedState::Call(CallResult::Failed(new)),
        o => o.clone(),
    }
}

const FORGED_VALUES: [&str; 4] = ["\"forged\"", "[\"forged\",1]", "{\"forged\":true}", "42"];

/// One edit of the catalogue.  `sel` selects the target among the applicable ones, `arg` a variant.
/// `own` = target the attacker's own results (allowed; used as the accepted control) instead of other peers'.
fn apply_op(op: &J, d: &mut InterpreterData, cx: &Ctx, other_particle: Option<&InterpreterData>) -> Option<Applied> {
    let kind = op["kind"].as_str().unwrap_or("");
    let sel = op["sel"].as_u64().unwrap_or(0) as usize;
    let arg = op["arg"].as_u64().unwrap_or(0) as usize;
    let own = op["own"].as_bool().unwrap_or(false);
    let att = attribution(d).ok()?;
    // call results by peers other than the attacker (or the attacker's own)
    let targets: Vec<&(usize, String, Rc<str>, bool)> = att.iter().filter(|a| a.3 && ((a.1 == cx.attacker) == own)).collect();
    let canon_targets: Vec<&(usize, String, Rc<str>, bool)> = att.iter().filter(|a| !a.3 && ((a.1 == cx.attacker) == own)).collect();
    let done = |detail: String, unused: bool| Some(Applied { kind: kind.to_string(), detail, touched_own: own, unused });
    let trace: Vec<ExecutedState> = d.trace.to_vec();
    match kind {
        // ---- the stored value under the same id (no recomputation) ----
        "value_swap" => {
            let t = targets.get(sel % targets.len().max(1))?;
            let sr = d.cid_info.service_result_store.get(&CID::new(t.2.clone()))?;
            let key = sr.value_cid.get_inner().to_string();
            let mut m = store_json(&d.cid_info.value_store);
            let forged = FORGED_VALUES[arg % FORGED_VALUES.len()];
            if m.get(&key) == Some(&J::String(forged.to_string())) {
                return None;
            }
            m.insert(key.clone(), J::String(forged.to_string()));
            d.cid_info.value_store = store_from(m)?;
            done(format!("value {} of state {} := {}", key, t.0, forged), false)
        }
        // ---- a new value, the chain value -> aggregate -> trace state recomputed consistently ----
        "value_rewrite" => {
            let t = targets.get(sel % targets.len().max(1))?;
            let sr = d.cid_info.service_result_store.get(&CID::new(t.2.clone()))?;
            let forged = FORGED_VALUES[arg % FORGED_VALUES.len()];
            let vc = put_value(d, forged)?;
            if vc == sr.value_cid {
                return None;
            }
            let agg = ServiceResultCidAggregate { value_cid: vc, argument_hash: sr.argument_hash.clone(), tetraplet_cid: sr.tetraplet_cid.clone() };
            let nc = put_service(d, &agg)?;
            let mut tr = trace;
            tr[t.0] = with_cid(&tr[t.0], nc.clone());
            set_trace(d, tr);
            done(format!("state {}: value := {}, cid {} -> {}", t.0, forged, t.2, nc.get_inner()), false)
        }
        // ---- the stored tetraplet: peer (to the attacker = theft, to a third peer = framing), service, function ----
        "tetraplet_peer" | "tetraplet_service" | "tetraplet_function" | "tetraplet_swap" => {
            let t = targets.get(sel % targets.len().max(1))?;
            let sr = d.cid_info.service_result_store.get(&CID::new(t.2.clone()))?;
            let old = d.cid_info.tetraplet_store.get(&sr.tetraplet_cid)?;
            let mut nt = (*old).clone();
            match kind {
                "tetraplet_peer" => {
                    let others: Vec<&Peer> = cx.peers.iter().filter(|p| p.id != old.peer_pk).collect();
                    // arg 0: the attacker itself (it can sign for it)
                    let to = if arg % 2 == 0 && cx.attacker != old.peer_pk { cx.attacker.to_string() } else { others.get(arg / 2 % others.len().max(1))?.id.clone() };
                    nt.peer_pk = to;
                }
                "tetraplet_service" => nt.service_id = format!("{}x", old.service_id),
                "tetraplet_function" => nt.function_name = ["id", "num", "tag", "forged"].iter().find(|f| **f != old.function_name)?.to_string(),
                _ => {}
            }
            if kind == "tetraplet_swap" {
                // the tetraplet entry itself, under the same id
                let key = sr.tetraplet_cid.get_inner().to_string();
                nt.function_name = format!("{}x", old.function_name);
                let mut m = store_json(&d.cid_info.tetraplet_store);
                m.insert(key.clone(), serde_json::to_value(&nt).ok()?);
                d.cid_info.tetraplet_store = store_from(m)?;
                return done(format!("tetraplet {} of state {} changed under its id", key, t.0), false);
            }
            let tc = put_tetraplet(d, &nt)?;
            let agg = ServiceResultCidAggregate { value_cid: sr.value_cid.clone(), argument_hash: sr.argument_hash.clone(), tetraplet_cid: tc };
            let nc = put_service(d, &agg)?;
            let mut tr = trace;
            tr[t.0] = with_cid(&tr[t.0], nc.clone());
            set_trace(d, tr);
            done(format!("state {}: tetraplet ({},{},{}) -> ({},{},{})", t.0, old.peer_pk, old.service_id, old.function_name, nt.peer_pk, nt.service_id, nt.function_name), false)
        }
        // ---- the argument hash ----
        "arghash_change" | "arghash_swap" => {
            let t = targets.get(sel % targets.len().max(1))?;
            let sr = d.cid_info.service_result_store.get(&CID::new(t.2.clone()))?;
            // another real argument hash of this data, or an invented one
            let mut hashes: Vec<String> = d.cid_info.service_result_store.iter().map(|(_, a)| a.argument_hash.to_string()).filter(|h| **h != *sr.argument_hash).collect();
            hashes.sort();
            hashes.dedup();
            let forged_args: Vec<JValue> = vec![JValue::from(J::String("forged".into()))];
            hashes.push(value_to_json_cid(&forged_args).ok()?.get_inner().to_string());
            let nh: Rc<str> = Rc::from(hashes[arg % hashes.len()].as_str());
            let agg = ServiceResultCidAggregate { value_cid: sr.value_cid.clone(), argument_hash: nh.clone(), tetraplet_cid: sr.tetraplet_cid.clone() };
            if kind == "arghash_swap" {
                let mut m = store_json(&d.cid_info.service_result_store);
                m.insert(t.2.to_string(), serde_json::to_value(&agg).ok()?);
                d.cid_info.service_result_store = store_from(m)?;
                return done(format!("state {}: argument hash -> {} under the same id", t.0, nh), false);
            }
            let nc = put_service(d, &agg)?;
            let mut tr = trace;
            tr[t.0] = with_cid(&tr[t.0], nc.clone());
            set_trace(d, tr);
            done(format!("state {}: argument hash {} -> {}", t.0, sr.argument_hash, nh), false)
        }
        // ---- a result moved to another call position ----
        "relocate" => {
            if targets.len() < 1 {
                return None;
            }
            let a = targets[sel % targets.len()];
            // the partner: another call state with a different content (a result, or with arg odd a pending call)
            let partners: Vec<usize> = trace.iter().enumerate().filter(|(i, s)| {
                *i != a.0 && match s {
                    ExecutedState::Call(CallResult::RequestSentBy(_)) => arg % 2 == 1,
                    ExecutedState::Call(c) => c.get_cid().map(|x| x.get_inner() != a.2).unwrap_or(false) && arg % 2 == 0,
                    _ => false,
                }
            }).map(|(i, _)| i).collect();
            let j = *partners.get(arg / 2 % partners.len().max(1))?;
            let own_partner = att.iter().any(|x| x.0 == j && x.1 == cx.attacker);
            let mut tr = trace;
            tr.swap(a.0, j);
            set_trace(d, tr);
            Some(Applied { kind: kind.into(), detail: format!("states {} and {} swapped", a.0, j), touched_own: own || own_partner, unused: false })
        }
        "relocate_same" => {
            // two results that only ONE of verify_call's comparisons tells apart: arg even = same stored tetraplet, different
            // argument hash; arg odd = same argument hash, different tetraplet
            let mut pairs: Vec<(usize, usize)> = vec![];
            for (x, a) in targets.iter().enumerate() {
                for b in targets.iter().skip(x + 1) {
                    if a.2 == b.2 {
                        continue;
                    }
                    let (sa, sb) = (d.cid_info.service_result_store.get(&CID::new(a.2.clone()))?, d.cid_info.service_result_store.get(&CID::new(b.2.clone()))?);
                    let same_t = sa.tetraplet_cid == sb.tetraplet_cid;
                    let same_h = sa.argument_hash == sb.argument_hash;
                    if (arg % 2 == 0 && same_t && !same_h) || (arg % 2 == 1 && same_h && !same_t) {
                        pairs.push((a.0, b.0));
                    }
                }
            }
            let (i, j) = *pairs.get(sel % pairs.len().max(1))?;
            // the kinds stay where they are (a scalar result into a stream position is refused for another reason)
            let mut tr = trace;
            let (ci, cj) = (CID::new(att.iter().find(|x| x.0 == i)?.2.clone()), CID::new(att.iter().find(|x| x.0 == j)?.2.clone()));
            tr[i] = with_cid(&tr[i], cj);
            tr[j] = with_cid(&tr[j], ci);
            set_trace(d, tr);
            done(format!("results of states {} and {} exchanged ({})", i, j, if arg % 2 == 0 { "same tetraplet, other arguments" } else { "same arguments, other tetraplet" }), false)
        }
        // ---- the kind of a state ----
        "kind_failed_executed" => {
            // Failed(c) <-> Executed(Scalar(c))
            let t = targets.get(sel % targets.len().max(1))?;
            let mut tr = trace;
            let cid: CID<ServiceResultCidAggregate> = CID::new(t.2.clone());
            tr[t.0] = match &tr[t.0] {
                ExecutedState::Call(CallResult::Failed(_)) => ExecutedState::Call(CallResult::Executed(ValueRef::Scalar(cid))),
                ExecutedState::Call(CallResult::Executed(ValueRef::Scalar(_))) | ExecutedState::Call(CallResult::Executed(ValueRef::Stream { .. })) => {
                    ExecutedState::Call(CallResult::Failed(cid))
                }
                _ => return None,
            };
            let now = state_term(&tr[t.0]);
            set_trace(d, tr);
            done(format!("state {} -> {}", t.0, now.chars().take(40).collect::<String>()), false)
        }
        "kind_scalar_stream" => {
            let t = targets.get(sel % targets.len().max(1))?;
            let mut tr = trace;
            let cid: CID<ServiceResultCidAggregate> = CID::new(t.2.clone());
            tr[t.0] = match &tr[t.0] {
                ExecutedState::Call(CallResult::Executed(ValueRef::Scalar(_))) => {
                    ExecutedState::Call(CallResult::Executed(ValueRef::Stream { cid, generation: GenerationIdx::from(arg % 2) }))
                }
                ExecutedState::Call(CallResult::Executed(ValueRef::Stream { .. })) => ExecutedState::Call(CallResult::Executed(ValueRef::Scalar(cid))),
                _ => return None,
            };
            set_trace(d, tr);
            done(format!("state {}: scalar <-> stream", t.0), false)
        }
        "kind_to_unused" => {
            // a signed result degraded to an unsigned Unused state (the value id is kept)
            let t = targets.get(sel % targets.len().max(1))?;
            let sr = d.cid_info.service_result_store.get(&CID::new(t.2.clone()))?;
            let mut tr = trace;
            tr[t.0] = ExecutedState::Call(CallResult::Executed(ValueRef::Unused(CID::new(sr.value_cid.get_inner()))));
            set_trace(d, tr);
            done(format!("state {} -> Unused of its value", t.0), false)
        }
        // ---- the known gap: Unused states carry a value id only ----
        "unused_value" => {
            let us: Vec<usize> = trace.iter().enumerate().filter(|(_, s)| unused_cid(s).is_some()).map(|(i, _)| i).collect();
            let i = *us.get(sel % us.len().max(1))?;
            let forged = FORGED_VALUES[arg % FORGED_VALUES.len()];
            let vc = put_value(d, forged)?;
            if Some(vc.get_inner().to_string()) == unused_cid(&trace[i]) {
                return None;
            }
            let mut tr = trace;
            tr[i] = ExecutedState::Call(CallResult::Executed(ValueRef::Unused(CID::new(vc.get_inner()))));
            set_trace(d, tr);
            done(format!("unused state {}: value := {}", i, forged), true)
        }
        "unused_forge" => {
            // a pending call presented as executed-without-output
            let ps: Vec<usize> = trace.iter().enumerate().filter(|(_, s)| matches!(s, ExecutedState::Call(CallResult::RequestSentBy(_)))).map(|(i, _)| i).collect();
            let i = *ps.get(sel % ps.len().max(1))?;
            let forged = FORGED_VALUES[arg % FORGED_VALUES.len()];
            let vc = put_value(d, forged)?;
            let mut tr = trace;
            tr[i] = ExecutedState::Call(CallResult::Executed(ValueRef::Unused(CID::new(vc.get_inner()))));
            set_trace(d, tr);
            done(format!("pending call {} -> Unused({})", i, forged), true)
        }
        // ---- signatures ----
        "sig_swap" => {
            // the victim peer's entry gets another peer's signature (arg 0: the attacker's)
            let mut v: Vec<(PublicKey, Signature)> = d.signatures.iter().map(|(p, s)| (p.clone(), s.clone())).collect();
            if v.len() < 2 {
                return None;
            }
            v.sort_by_key(|a| key_name(&a.0));
            let honest: Vec<usize> = (0..v.len()).filter(|i| key_name(&v[*i].0) != cx.attacker).collect();
            let i = *honest.get(sel % honest.len().max(1))?;
            let j = if arg % 2 == 0 { v.iter().position(|x| key_name(&x.0) == cx.attacker).unwrap_or((i + 1) % v.len()) } else { (i + 1 + arg / 2 % (v.len() - 1)) % v.len() };
            if i == j || v[i].1 == v[j].1 {
                return None;
            }
            if arg % 4 == 3 {
                let (si, sj) = (v[i].1.clone(), v[j].1.clone());
                d.signatures.put(v[i].0.clone(), sj);
                d.signatures.put(v[j].0.clone(), si);
            } else {
                d.signatures.put(v[i].0.clone(), v[j].1.clone());
            }
            done(format!("signature of {} := signature of {}", key_name(&v[i].0), key_name(&v[j].0)), false)
        }
        "sig_drop" => {
            // an honest peer's signature removed (alone: PeerIdNotFound as soon as that peer has a result)
            let mut v: Vec<(PublicKey, Signature)> = d.signatures.iter().map(|(p, s)| (p.clone(), s.clone())).collect();
            v.sort_by_key(|a| key_name(&a.0));
            let honest: Vec<usize> = (0..v.len()).filter(|i| key_name(&v[*i].0) != cx.attacker).collect();
            let i = *honest.get(sel % honest.len().max(1))?;
            let mut st = SignatureStore::new();
            for (j, (pk, s)) in v.iter().enumerate() {
                if j != i {
                    st.put(pk.clone(), s.clone());
                }
            }
            d.signatures = st;
            done(format!("signature of {} dropped", key_name(&v[i].0)), false)
        }
        "sig_attacker_signs" => {
            // the attacker signs the victim's cid list with its own key and files it under the victim's key
            let t = targets.get(sel % targets.len().max(1))?;
            let victim_pk = d.signatures.iter().map(|(p, _)| p.clone()).find(|p| key_name(p) == t.1)?;
            let kp = keypair_of(cx.attacker_name);
            let s = air_interpreter_signatures::sign_cids(peer_list(&att, &t.1), "", kp.as_inner()).ok()?;
            d.signatures.put(victim_pk, s.into());
            done(format!("signature of {} := attacker's signature over the same cids", t.1), false)
        }
        // ---- data signed for another particle ----
        "particle_sigs" => {
            // every signature (or with arg odd: one honest peer's) taken from the same data signed under another particle id
            let o = other_particle?;
            let theirs: Vec<(PublicKey, Signature)> = o.signatures.iter().map(|(p, s)| (p.clone(), s.clone())).collect();
            if theirs.is_empty() {
                return None;
            }
            let mut n = 0;
            let mut names: Vec<String> = theirs.iter().map(|x| key_name(&x.0)).filter(|x| x != cx.attacker).collect();
            names.sort();
            let only = if arg % 2 == 1 { Some(names.get(sel % names.len().max(1))?.clone()) } else { None };
            for (pk, s) in theirs {
                if let Some(o) = &only {
                    if key_name(&pk) != *o {
                        continue;
                    }
                }
                if d.signatures.get(&pk) != Some(&s) {
                    n += 1;
                }
                d.signatures.put(pk, s);
            }
            if n == 0 {
                return None;
            }
            done(format!("{} signature(s) taken from the data of another particle", n), false)
        }
        // ---- states dropped / duplicated ----
        "drop_state" => {
            let t = targets.get(sel % targets.len().max(1))?;
            let mut tr = trace;
            tr.remove(t.0);
            set_trace(d, tr);
            done(format!("state {} dropped", t.0), false)
        }
        "dup_state" => {
            let t = targets.get(sel % targets.len().max(1))?;
            let mut tr = trace;
            let s = tr[t.0].clone();
            tr.insert(t.0 + (arg % 2), s);
            set_trace(d, tr);
            done(format!("state {} duplicated", t.0), false)
        }
        // ---- canon results ----
        "canon_tetraplet" => {
            let t = canon_targets.get(sel % canon_targets.len().max(1))?;
            let cr = d.cid_info.canon_result_store.get(&CID::new(t.2.clone()))?;
            let old = d.cid_info.tetraplet_store.get(&cr.tetraplet)?;
            let mut nt = (*old).clone();
            match arg % 3 {
                0 => nt.peer_pk = cx.attacker.to_string(),
                1 => nt.peer_pk = cx.peers.iter().find(|p| p.id != old.peer_pk && p.id != cx.attacker)?.id.clone(),
                _ => nt.service_id = "forged".into(),
            }
            if nt == *old {
                return None;
            }
            let tc = put_tetraplet(d, &nt)?;
            let agg = CanonResultCidAggregate { tetraplet: tc, values: cr.values.clone() };
            let nc = put_canon_result(d, &agg)?;
            let mut tr = trace;
            tr[t.0] = ExecutedState::Canon(CanonResult::Executed(nc.clone()));
            set_trace(d, tr);
            done(format!("canon state {}: tetraplet peer/service -> ({},{})", t.0, nt.peer_pk, nt.service_id), false)
        }
        "canon_usurp" => {
            // a canon that is still pending at its designated peer, presented as canonicalized BY THE ATTACKER (its own
            // tetraplet, which it can sign): only verify_canon's comparison with the instruction's peer refuses it
            let ps: Vec<usize> = trace.iter().enumerate().filter(|(_, s)| matches!(s, ExecutedState::Canon(CanonResult::RequestSentBy(_)))).map(|(i, _)| i).collect();
            let i = *ps.get(sel % ps.len().max(1))?;
            let nt = SecurityTetraplet::new(cx.attacker.to_string(), "", "", "");
            let tc = put_tetraplet(d, &nt)?;
            // with arg odd: the elements of another canon result of this data, otherwise the empty stream
            let values = if arg % 2 == 1 { d.cid_info.canon_result_store.iter().map(|(_, r)| r.values.clone()).next().unwrap_or_default() } else { vec![] };
            let nc = put_canon_result(d, &CanonResultCidAggregate { tetraplet: tc, values })?;
            let mut tr = trace;
            tr[i] = ExecutedState::Canon(CanonResult::Executed(nc));
            set_trace(d, tr);
            done(format!("pending canon {} -> executed by the attacker", i), false)
        }
        "canon_values" => {
            // a value dropped from / duplicated in the canonicalized stream, chain recomputed
            let t = canon_targets.get(sel % canon_targets.len().max(1))?;
            let cr = d.cid_info.canon_result_store.get(&CID::new(t.2.clone()))?;
            let mut vals = cr.values.clone();
            if vals.is_empty() {
                return None;
            }
            if arg % 2 == 0 { vals.remove(arg / 2 % vals.len()); } else { let v = vals[arg / 2 % vals.len()].clone(); vals.push(v); }
            let agg = CanonResultCidAggregate { tetraplet: cr.tetraplet.clone(), values: vals };
            let nc = put_canon_result(d, &agg)?;
            let mut tr = trace;
            tr[t.0] = ExecutedState::Canon(CanonResult::Executed(nc));
            set_trace(d, tr);
            done(format!("canon state {}: value list changed", t.0), false)
        }
        "canon_swap" => {
            // the canon result entry under the same id
            let t = canon_targets.get(sel % canon_targets.len().max(1))?;
            let cr = d.cid_info.canon_result_store.get(&CID::new(t.2.clone()))?;
            let mut vals = cr.values.clone();
            let extra = d.cid_info.canon_element_store.iter().map(|(k, _)| k.clone()).next()?;
            vals.push(extra);
            let agg = CanonResultCidAggregate { tetraplet: cr.tetraplet.clone(), values: vals };
            let mut m = store_json(&d.cid_info.canon_result_store);
            m.insert(t.2.to_string(), serde_json::to_value(&agg).ok()?);
            d.cid_info.canon_result_store = store_from(m)?;
            done(format!("canon result {} changed under its id", t.2), false)
        }
        // ---- an id the stores do not hold (the real verifier panics: C01's finding, here only "not accepted") ----
        "cid_dangling" => {
            let t = targets.get(sel % targets.len().max(1))?;
            let forged_args: Vec<JValue> = vec![JValue::from(J::String(format!("dangling{}", arg)))];
            let nc: CID<ServiceResultCidAggregate> = CID::new(value_to_json_cid(&forged_args).ok()?.get_inner());
            let mut tr = trace;
            tr[t.0] = with_cid(&tr[t.0], nc);
            set_trace(d, tr);
            done(format!("state {}: cid -> an id without store entry", t.0), false)
        }
        _ => None,
    }
}

/// the attacker's own signature over the CIDs the (tampered) trace attributes to it
fn resign(d: &mut InterpreterData, cx: &Ctx, salt: &str) -> bool {
    let att = match attribution(d) {
        Ok(a) => a,
        Err(_) => return false,
    };
    let kp = keypair_of(cx.attacker_name);
    match air_interpreter_signatures::sign_cids(peer_list(&att, cx.attacker), salt, kp.as_inner()) {
        Ok(s) => {
            d.signatures.put(kp.public(), s.into());
            true
        }
        Err(_) => false,
    }
}

// ------------------------------------------------------------------------------------------------
// histories

struct Rec {
    rec: StepRecord,
    from: Option<usize>,
}

fn run_history(script: &str, peers: &[String], init: usize, services: &Services, particle: &str, ops: &[Op]) -> (Net, Vec<Rec>) {
    let mut net = Net::new(script, peers, init, services.clone(), particle);
    let mut recs = vec![];
    let go = |net: &mut Net, op: &Op, recs: &mut Vec<Rec>| -> bool {
        let before = net.delivered.len();
        match net.exec(op) {
            Some(r) => {
                let from = if net.delivered.len() > before || matches!(op, Op::Redeliver(_)) {
                    match op {
                        Op::Deliver(..) => net.delivered.last().map(|m| m.from),
                        Op::Redeliver(k) => net.delivered.get(*k % net.delivered.len().max(1)).map(|m| m.from),
                        _ => None,
                    }
                } else {
                    None
                };
                recs.push(Rec { rec: r, from });
                true
            }
            None => false,
        }
    };
    go(&mut net, &Op::Start, &mut recs);
    for op in ops {
        go(&mut net, op, &mut recs);
    }
    // to quiescence, FIFO
    for _ in 0..80 {
        let mut progressed = false;
        for p in 0..net.hosts.len() {
            if !net.hosts[p].pending.is_empty() {
                progressed |= go(&mut net, &Op::Return(p, 0), &mut recs);
            }
        }
        if !net.inflight.is_empty() {
            progressed |= go(&mut net, &Op::Deliver(0, false), &mut recs);
        }
        if !progressed {
            break;
        }
    }
    (net, recs)
}

fn is_new_code(code: i64) -> bool {
    code == 0 || (10000..20000).contains(&code) || code >= 30000
}

/// what the peers really produced in the honest history
struct Genuine {
    /// peer id -> (service, function, argument hash, failed?, value) of every invocation of its host
    calls: BTreeMap<String, BTreeSet<String>>,
    /// peer id -> canon results (kind, cid, content) its own data attribute to it
    own: BTreeMap<String, BTreeSet<String>>,
    /// value ids of the Unused states of every honest data
    unused: BTreeSet<String>,
}

fn call_key(service: &str, function: &str, arg_hash: &str, failed: bool, value: &J) -> String {
    json!([service, function, arg_hash, failed, sort_json(value)]).to_string()
}

fn genuine_of(net: &Net, recs: &[Rec]) -> Genuine {
    let mut g = Genuine { calls: BTreeMap::new(), own: BTreeMap::new(), unused: BTreeSet::new() };
    for h in &net.hosts {
        let set = g.calls.entry(h.peer.id.clone()).or_default();
        for (_, req, (code, text)) in &h.log {
            let args: Vec<JValue> = req.args.iter().cloned().map(JValue::from).collect();
            let ah = match value_to_json_cid(&args) {
                Ok(c) => c.get_inner().to_string(),
                Err(_) => continue,
            };
            if *code == 0 {
                if let Ok(v) = serde_json::from_str::<J>(text) {
                    set.insert(call_key(&req.service, &req.function, &ah, false, &v));
                    continue;
                }
            }
            // a failure: the value is the CallServiceFailed object; only its ret_code is compared
            let rc = if *code == 0 { i32::MAX } else { *code };
            set.insert(call_key(&req.service, &req.function, &ah, true, &json!(rc)));
        }
    }
    for r in recs {
        if r.rec.out.panic.is_some() || !is_new_code(r.rec.out.code) {
            continue;
        }
        if let Some(d) = decode(&r.rec.out.data) {
            let me = &net.hosts[r.rec.peer].peer.id;
            for st in d.trace.iter() {
                if let Some(u) = unused_cid(st) {
                    g.unused.insert(u);
                }
                if state_peer(&d, st).as_deref() == Some(me.as_str()) {
                    if let Some((kind, cid, content)) = resolved(&d, st) {
                        g.own.entry(me.clone()).or_default().insert(json!([kind, cid, content]).to_string());
                    }
                }
            }
        }
    }
    g
}

/// is the result `st` of data `d`, attributed to `q`, one that q produced?  Err((class, text)): class "kind" when q
/// produced exactly this content for this request but as the OTHER kind (failure vs success), "result" otherwise
fn is_genuine(g: &Genuine, d: &InterpreterData, st: &ExecutedState, q: &str) -> Result<(), (String, String)> {
    let (kind, cid, content) = resolved(d, st).ok_or(("result".to_string(), "the state does not resolve through the stores of the new data".to_string()))?;
    if kind == "canon" {
        return if g.own.get(q).map(|s| s.contains(&json!([kind, cid, content]).to_string())).unwrap_or(false) {
            Ok(())
        } else {
            Err(("result".into(), format!("canon result {} attributed to {} is in none of its own data", cid, q)))
        };
    }
    let t = &content["tetraplet"];
    if t["lens"].as_str() != Some("") {
        return Err(("result".into(), format!("call result {} has a tetraplet with a lens", cid)));
    }
    let failed = kind == "failed";
    let (svc, fun, ah) = (t["service"].as_str().unwrap_or(""), t["function"].as_str().unwrap_or(""), content["arg_hash"].as_str().unwrap_or(""));
    let as_failure = content["value"]["ret_code"].clone();
    let as_success = content["value"].clone();
    let key = call_key(svc, fun, ah, failed, if failed { &as_failure } else { &as_success });
    let has = |k: &String| g.calls.get(q).map(|s| s.contains(k)).unwrap_or(false);
    if has(&key) {
        return Ok(());
    }
    let other = call_key(svc, fun, ah, !failed, if failed { &as_success } else { &as_failure });
    if has(&other) {
        return Err(("kind".into(), format!("{} call result {} attributed to {}: its host returned this content for this request as a {}", kind, cid, q,
                                           if failed { "success" } else { "failure" })));
    }
    Err(("result".into(), format!("{} call result {} attributed to {}: its host never returned this for this request: {}", kind, cid, q, key)))
}

/// same CID, one Failed and the other Executed
fn kind_differs(a: &ExecutedState, b: &ExecutedState) -> bool {
    match (a, b) {
        (ExecutedState::Call(x), ExecutedState::Call(y)) => {
            x.get_cid().is_some() && x.get_cid() == y.get_cid() && (matches!(x, CallResult::Failed(_)) != matches!(y, CallResult::Failed(_)))
        }
        _ => false,
    }
}

// ------------------------------------------------------------------------------------------------

fn main() {
    quiet_panics();
    for line in std::io::stdin().lock().lines() {
        let line = match line {
            Ok(l) => l,
            Err(_) => break,
        };
        if line.trim().is_empty() {
            continue;
        }
        let case: J = match serde_json::from_str(&line) {
            Ok(c) => c,
            Err(e) => {
                println!("{}", json!({"error": format!("bad case: {e}")}));
                continue;
            }
        };
        println!("{}", run_case(&case));
    }
}

fn run_case(case: &J) -> J {
    let peers: Vec<String> = case["peers"].as_array().map(|a| a.iter().filter_map(|x| x.as_str().map(String::from)).collect()).unwrap_or_default();
    if peers.len() < 2 {
        return json!({"error": "need two peers"});
    }
    let init = case["init"].as_u64().unwrap_or(0) as usize % peers.len();
    let particle = case["particle_id"].as_str().unwrap_or("particle-1").to_string();
    let other = format!("{}-other", particle);
    let script = Net::instantiate(case["script"].as_str().unwrap_or("(null)"), &peers);
    let services_json = Net::instantiate(&case["services"].to_string(), &peers);
    let services = Services::from_json(&serde_json::from_str(&services_json).unwrap_or(J::Null));
    let ops = ops_from_json(&case["ops"]);
    let peer_objs: Vec<Peer> = peers.iter().map(|p| Peer::new(p)).collect();
    if let Err(e) = air_parser::parse(&script) {
        return json!({"error": format!("script does not parse: {}", e.chars().take(300).collect::<String>())});
    }

    // set by the generator for scripts made of calls over scalars only (no stream, canon, fold, error variable): every
    // argument of every call is then a function of the script alone, whatever part of the results a peer has seen
    let scalar_only = case["scalar_only"].as_bool().unwrap_or(false);
    let (net, recs) = run_history(&script, &peers, init, &services, &particle, &ops);
    let (_net2, recs2) = run_history(&script, &peers, init, &services, &other, &ops);
    let aligned = recs.len() == recs2.len() && recs.iter().zip(recs2.iter()).all(|(a, b)| a.rec.peer == b.rec.peer && a.from == b.from);
    let genuine = genuine_of(&net, &recs);

    // deliveries: runs that received a non-empty current data from another peer
    let deliveries: Vec<usize> = recs.iter().enumerate().filter(|(_, r)| r.from.is_some() && r.from != Some(r.rec.peer) && !r.rec.input.cur.is_empty()).map(|(i, _)| i).collect();
    let mut terms = vec![];
    let mut classes = vec![];
    let mut infos = vec![];
    let mut skipped: BTreeMap<String, usize> = BTreeMap::new();
    let empty = vec![];
    for (ti, t) in case["tampers"].as_array().unwrap_or(&empty).iter().enumerate() {
        if deliveries.is_empty() {
            *skipped.entry("no-delivery".into()).or_default() += 1;
            continue;
        }
        // the chosen delivery, or the next one (cyclically) where at least one operation finds a target
        let k0 = t["delivery"].as_u64().unwrap_or(0) as usize % deliveries.len();
        let mut last = "not-applicable".to_string();
        let mut found = false;
        for k in 0..deliveries.len() {
            let di = deliveries[(k0 + k) % deliveries.len()];
            match one_tamper(ti, t, &recs[di], if aligned { Some(&recs2[di]) } else { None }, &peer_objs, &net, &genuine, &particle, &other, scalar_only) {
                Ok((term, cls, info)) => {
                    terms.push(term);
                    classes.push(cls);
                    infos.push(info);
                    found = true;
                    break;
                }
                Err(why) => last = why,
            }
        }
        if !found {
            *skipped.entry(last).or_default() += 1;
        }
    }
    let invocations: usize = net.hosts.iter().map(|h| h.log.len()).sum();
    json!({"coq": terms, "classes": classes, "info": infos, "skipped": skipped, "runs": recs.len(), "deliveries": deliveries.len(),
           "invocations": invocations, "aligned": aligned})
}

#[allow(clippy::too_many_arguments)]
fn one_tamper(ti: usize, t: &J, r: &Rec, r2: Option<&Rec>, peers: &[Peer], net: &Net, genuine: &Genuine, particle: &str, other: &str, scalar_only: bool) -> Result<(String, String, J), String> {
    let s_idx = r.from.ok_or("no sender")?;
    let v_idx = r.rec.peer;
    let attacker = &peers[s_idx];
    let victim = &peers[v_idx];
    let cx = Ctx { attacker: &attacker.id, attacker_name: &attacker.name, peers };
    let prev = decode(&r.rec.input.prev).ok_or("prev does not decode")?;
    let honest_cur = decode(&r.rec.input.cur).ok_or("cur does not decode")?;
    let other_cur = r2.and_then(|x| decode(&x.rec.input.cur));
    let mut cur = honest_cur.clone();

    // ---- the edits ----
    let empty = vec![];
    let mut applied: Vec<Applied> = vec![];
    for op in t["ops"].as_array().unwrap_or(&empty) {
        if op["kind"].as_str() == Some("replay_other_particle") {
            // the whole data as the attacker received / produced it under the other particle id
            let o = other_cur.clone().ok_or("histories not aligned")?;
            if o.signatures.is_empty() {
                continue;
            }
            cur = o;
            applied.push(Applied { kind: "replay_other_particle".into(), detail: "data of the other particle".into(), touched_own: false, unused: false });
            continue;
        }
        if let Some(a) = apply_op(op, &mut cur, &cx, other_cur.as_ref()) {
            applied.push(a);
        }
    }
    if applied.is_empty() {
        return Err("not-applicable".into());
    }
    let resigned = t["resign"].as_bool().unwrap_or(false) && resign(&mut cur, &cx, particle);
    let cur_bytes = reencode(&r.rec.input.cur, &cur).ok_or("tampered data does not encode")?;
    if decode(&cur_bytes).is_none() {
        return Err("tampered data does not decode".into());
    }

    // ---- the victim's run ----
    let mut input = r.rec.input.clone();
    input.cur = cur_bytes.clone();
    let out = run(&input);
    let accepted = out.panic.is_none() && is_new_code(out.code);
    let same = out.panic.is_none() && out.data == r.rec.input.prev;

    // ---- the property, on the implementation's outcome ----
    let mut reasons: Vec<(String, String)> = vec![]; // (class, text); class: "result" | "unused" | "prev"
    let touched_own = applied.iter().any(|a| a.touched_own);
    let mut compared_positions = 0;
    let mut forged_present = false;
    if out.panic.is_none() && !accepted && !same {
        reasons.push(("prev".into(), format!("rejected with code {} but the returned data is not the previous data", out.code)));
    }
    if accepted {
        match decode(&out.data) {
            None => reasons.push(("result".into(), "accepted but the new data does not decode".into())),
            Some(nt) => {
                // (A) every result attributed to a peer other than the attacker is genuine
                for (i, st) in nt.trace.iter().enumerate() {
                    if let Some(u) = unused_cid(st) {
                        if !genuine.unused.contains(&u) {
                            reasons.push(("unused".into(), format!("new data, state {}: Unused({}) is in no honest data", i, u)));
                            forged_present = true;
                        }
                        continue;
                    }
                    let has_cid = match st {
                        ExecutedState::Call(call) => call.get_cid().is_some(),
                        ExecutedState::Canon(CanonResult::Executed(_)) => true,
                        _ => false,
                    };
                    if !has_cid {
                        continue;
                    }
                    match state_peer(&nt, st) {
                        None => reasons.push(("result".into(), format!("new data, state {}: does not resolve through the new data's stores", i))),
                        Some(q) if q == attacker.id => {}
                        // what the victim itself produces in this very run (a canon at the victim over whatever it legitimately
                        // accepted) is neither in its earlier data nor accepted from anybody
                        Some(q) if q == victim.id && !cur.trace.iter().any(|x| same_result(x, st)) => {}
                        Some(q) => {
                            if let Err((cls, e)) = is_genuine(genuine, &nt, st, &q) {
                                reasons.push((cls, format!("new data, state {}: {}", i, e)));
                                forged_present = true;
                            }
                        }
                    }
                }
                // (B) position by position against the honest run of the same delivery
                let honest_ok = r.rec.out.panic.is_none() && is_new_code(r.rec.out.code);
                if let (true, Some(nh)) = (honest_ok, decode(&r.rec.out.data)) {
                    let (hs, ts): (&[ExecutedState], &[ExecutedState]) = (&nh.trace, &nt.trace);
                    if hs.len() == ts.len() {
                        for i in 0..hs.len() {
                            let (h, tt) = (&hs[i], &ts[i]);
                            if let Some(u) = unused_cid(tt) {
                                if unused_cid(h).as_deref() != Some(u.as_str()) {
                                    reasons.push(("unused".into(), format!("new data, state {}: Unused({}) where the honest run has {}", i, u, state_term(h).chars().take(60).collect::<String>())));
                                    forged_present = true;
                                }
                            }
                            if touched_own {
                                continue;
                            }
                            if let Some(q) = state_peer(&nh, h) {
                                if q != attacker.id {
                                    compared_positions += 1;
                                    if !(same_result(h, tt) || is_pending(tt)) {
                                        let cls = if kind_differs(h, tt) { "kind" } else { "result" };
                                        reasons.push((cls.into(), format!("new data, state {}: the honest run has {}'s result {} there, the tampered run {}", i, q,
                                            state_term(h).chars().take(90).collect::<String>(), state_term(tt).chars().take(90).collect::<String>())));
                                        forged_present = true;
                                    }
                                }
                            }
                        }
                    }
                }
            }
        }
        // (C) scalar-only scripts: a call of the victim has the same arguments in every run that binds its variables to
        // results their owners produced for those very instructions; a request with other arguments than the honest
        // history's request for that function means a result was accepted at an instruction it was not produced for
        if scalar_only && !touched_own {
            let host = &net.hosts[v_idx];
            let honest: Vec<&Req> = host.log.iter().map(|x| &x.1).chain(host.pending.values())
                .chain(r.rec.out.requests.iter().flat_map(|m| m.values())).collect();
            for q in out.requests.iter().flat_map(|m| m.values()) {
                let same_fn: Vec<&&Req> = honest.iter().filter(|h| h.service == q.service && h.function == q.function).collect();
                if !same_fn.is_empty() && !same_fn.iter().any(|h| h.args == q.args) {
                    let cls = if applied.iter().any(|a| a.unused) { "unused" } else if applied.iter().any(|a| a.kind == "kind_failed_executed") { "kind" } else { "result" };
                    reasons.push((cls.into(), format!("the victim requests {}.{} with arguments {} ; in the honest history it only ever requests it with {}", q.service, q.function,
                        J::Array(q.args.clone()), J::Array(same_fn.iter().map(|h| J::Array(h.args.clone())).collect()))));
                    forged_present = true;
                }
            }
        }
    }
    reasons.sort();
    reasons.dedup();
    // failures that are exactly one of the two recorded gaps, caused by the edit that exercises it
    let mut oracle_keys: Vec<&str> = vec![];
    let mut unexplained = false;
    for cls in reasons.iter().map(|x| x.0.as_str()).collect::<BTreeSet<_>>() {
        match cls {
            "unused" if applied.iter().any(|a| a.unused) => oracle_keys.push("unsigned-unused-state-accepted"),
            "kind" if applied.iter().any(|a| a.kind == "kind_failed_executed") => oracle_keys.push("state-kind-not-signed"),
            _ => unexplained = true,
        }
    }

    // ---- terms ----
    let att_p = attribution(&prev).ok();
    let att_c = attribution(&cur).ok();
    let att_h = attribution(&honest_cur).ok();
    let mut cands: Vec<Candidate> = vec![];
    let mut add = |id: String, pk: PublicKey| {
        if cands.iter().any(|c| c.id == id) {
            return;
        }
        let mut lists: Vec<Vec<Rc<str>>> = vec![];
        for a in [&att_c, &att_p, &att_h].into_iter().flatten() {
            let mut l = peer_list(a, &id);
            l.sort_unstable();
            if !lists.contains(&l) {
                lists.push(l);
            }
        }
        if !lists.contains(&vec![]) {
            lists.push(vec![]);
        }
        cands.push(Candidate { id, pk, lists });
    };
    for p in peers {
        add(p.id.clone(), keypair_of(&p.name).public());
    }
    for st in [&prev.signatures, &cur.signatures] {
        for (pk, _) in st.iter() {
            if pk.validate().is_ok() {
                if let Ok(id) = pk.to_peer_id() {
                    add(id, pk.clone());
                }
            }
        }
    }
    // a signature made by the attacker over another peer's list (sig_attacker_signs) is a candidate too
    let mut extra: Vec<Candidate> = vec![];
    for cand in &cands {
        if cand.id != attacker.id {
            extra.push(Candidate { id: attacker.id.clone(), pk: keypair_of(&attacker.name).public(), lists: cand.lists.clone() });
        }
    }
    cands.extend(extra);
    let salts = [particle, other, ""];
    let mut table = SigTable { known: vec![], garbage: vec![] };
    let prev_term = fdata_term(&prev, &mut table, &cands, &salts);
    let cur_term = fdata_term(&cur, &mut table, &cands, &salts);
    let bad = bad_entries(&cur.cid_info);
    let bad_term = c::list(bad.iter().map(|(i, k)| c::pair(&i.to_string(), &c::s(k))));
    let obs_term = format!("(MkFObs {} {} {})", c::b(out.panic.is_some()), c::z(out.code as i128), c::b(same));
    let term = format!("(MkFCase {} {} {} {} {} {})", c::s(particle), c::s(&attacker.id), bad_term, prev_term, cur_term, obs_term);

    let kinds: Vec<String> = applied.iter().map(|a| a.kind.clone()).collect();
    let verdict = if out.panic.is_some() { "panic".to_string() } else { format!("{}", out.code) };
    let cls = format!("{}{}|{}", kinds.join("+"), if resigned { "+resign" } else { "" }, if accepted { "accepted".to_string() } else { verdict.clone() });
    let real_cid_ok = cur.cid_info.verify().is_ok();
    let info = json!({
        "tamper_index": ti, "kinds": kinds, "details": applied.iter().map(|a| a.detail.clone()).collect::<Vec<_>>(), "resigned": resigned,
        "attacker": attacker.name, "victim": victim.name, "step": r.rec.step,
        "code": out.code, "panic": out.panic, "accepted": accepted, "same_as_prev": same, "msg": out.msg.chars().take(200).collect::<String>(),
        "touched_own": touched_own, "compared_positions": compared_positions, "forged_present": forged_present,
        "oracle_ok": reasons.is_empty(), "oracle_reasons": reasons.iter().map(|x| format!("[{}] {}", x.0, x.1)).collect::<Vec<_>>(), "oracle_keys": oracle_keys, "oracle_unexplained": unexplained,
        "bad_entries": bad.len(), "real_cid_info_verify": real_cid_ok, "dangling": att_c.is_none(),
        "trace_len": cur.trace.len(), "honest_code": r.rec.out.code,
        "requests": out.requests.as_ref().map(|m| m.len()), "honest_requests": r.rec.out.requests.as_ref().map(|m| m.len()),
        "request_list": requests_json(&out.requests), "honest_request_list": requests_json(&r.rec.out.requests),
    });
    Ok((term, cls, info))
}
