(* Air.v -- the syntax tree of AIR as produced by air_parser::parse.

   Mirrors crates/air-lib/air-parser/src/ast/{instructions,instruction_arguments,values}.rs and
   crates/air-lib/lambda/ast/src/ast.rs, constructor for constructor (names prefixed to stay
   unique).  Positions ([pos], AirPos) and spans are byte offsets in the script text.
   Each instruction node additionally carries [text], the rendering of the instruction by the
   AST's own Display implementation (it appears in error objects and in the beautifier; the model
   treats it as opaque).  Scripts reach the model as trees printed by the harness from the REAL
   parser's output (harness/src/ast2coq.rs), never through a model of the lexer/LR tables.
   Definitions only. *)
From Aqua Require Import Base.
Open Scope N_scope.

Definition pos := N.
Record span := { sp_left : pos; sp_right : pos }.

(* ---- lambda (lens) AST ---- *)
Inductive accessor :=
| ArrayAccess (idx : N)                  (* .[idx] / .$.[idx]; u32 *)
| FieldAccessByName (field : string)     (* .field *)
| FieldAccessByScalar (scalar : string)  (* .[scalar] *)
| AccessorError.
Inductive lambda :=
| LFunctorLength                          (* .length *)
| LValuePath (path : list accessor).      (* non-empty *)

(* ---- variables ---- *)
Record var := { v_name : string; v_pos : pos }.                       (* Scalar, Stream, CanonStream, StreamMap, CanonStreamMap *)
Record var_l := { vl_name : string; vl_lambda : lambda; vl_pos : pos }. (* ...WithLambda *)

Inductive peer_arg :=        (* ResolvableToPeerIdVariable *)
| PInitPeerId
| PLiteral (s : string)
| PScalar (v : var)
| PScalarL (v : var_l)
| PCanonL (v : var_l)
| PCanonMapL (v : var_l).

Inductive string_arg :=      (* ResolvableToStringVariable *)
| SLiteral (s : string)
| SScalar (v : var)
| SScalarL (v : var_l)
| SCanonL (v : var_l)
| SCanonMapL (v : var_l).

Record triplet := { t_peer : peer_arg; t_service : string_arg; t_function : string_arg }.

Inductive number := NumInt (z : Z) | NumFloat (repr : string).

Inductive value :=           (* ImmutableValue *)
| VInitPeerId
| VError (lens : option lambda)           (* :error: *)
| VLastError (lens : option lambda)       (* %last_error% *)
| VTimestamp
| VTTL
| VLiteral (s : string)
| VNumber (n : number)
| VBoolean (b : bool)
| VEmptyArray
| VScalar (v : var)
| VCanon (v : var)
| VCanonMap (v : var)
| VScalarL (v : var_l)
| VCanonL (v : var_l)
| VCanonMapL (v : var_l).

Inductive call_output := OutScalar (v : var) | OutStream (v : var) | OutNone.

Inductive ap_arg :=          (* ApArgument *)
| AInitPeerId | ATimestamp | ATTL
| AError (lens : option lambda)
| ALastError (lens : option lambda)
| ALiteral (s : string)
| ANumber (n : number)
| ABoolean (b : bool)
| AEmptyArray
| AScalar (v : var)
| AScalarL (v : var_l)
| ACanon (v : var)
| ACanonMap (v : var)
| ACanonL (v : var_l)
| ACanonMapL (v : var_l).

Inductive ap_result := ApScalar (v : var) | ApStream (v : var).

Inductive map_key :=         (* StreamMapKeyClause *)
| KLiteral (s : string) | KInt (z : Z) | KScalar (v : var) | KScalarL (v : var_l) | KCanonL (v : var_l).

Inductive fold_iterable :=   (* FoldScalarIterable *)
| FIScalar (v : var) | FIScalarL (v : var_l) | FICanon (v : var) | FICanonMap (v : var)
| FICanonMapL (v : var_l) | FIEmptyArray.

Inductive new_arg := NScalar (v : var) | NStream (v : var) | NStreamMap (v : var) | NCanon (v : var) | NCanonMap (v : var).

Inductive fail_arg :=
| FScalar (v : var)
| FScalarL (v : var_l)
| FLiteral (ret_code : Z) (msg : string)
| FCanonL (v : var_l)
| FLastError
| FError.

Inductive instr :=
| ICall (text : string) (t : triplet) (args : list value) (out : call_output)
| IAp (text : string) (a : ap_arg) (r : ap_result)
| IApMap (text : string) (k : map_key) (a : ap_arg) (m : var)
| ICanon (text : string) (p : peer_arg) (s : var) (c : var)
| ICanonMap (text : string) (p : peer_arg) (m : var) (c : var)
| ICanonStreamMapScalar (text : string) (p : peer_arg) (m : var) (s : var)
| ISeq (a b : instr)
| IPar (a b : instr)
| IXor (a b : instr)
| IMatch (text : string) (l r : value) (body : instr)
| IMisMatch (text : string) (l r : value) (body : instr)
| IFail (text : string) (f : fail_arg)
| IFoldScalar (text : string) (it : fold_iterable) (iter : var) (body : instr) (last : option instr) (sp : span)
| IFoldStream (text : string) (s : var) (iter : var) (body : instr) (last : option instr) (sp : span)
| IFoldStreamMap (text : string) (m : var) (iter : var) (body : instr) (last : option instr) (sp : span)
| INever
| INew (text : string) (a : new_arg) (body : instr) (sp : span)
| INext (text : string) (iter : var)
| INull
| IError.

Fixpoint instr_size (i : instr) : nat :=
  match i with
  | ISeq a b | IPar a b | IXor a b => S (instr_size a + instr_size b)
  | IMatch _ _ _ b | IMisMatch _ _ _ b | INew _ _ b _ => S (instr_size b)
  | IFoldScalar _ _ _ b l _ | IFoldStream _ _ _ b l _ | IFoldStreamMap _ _ _ b l _ =>
      S (instr_size b + match l with Some x => instr_size x | None => 0 end)
  | _ => 1%nat
  end.

(* number of IError nodes (C23); note [IFail _ FError] is the legitimate `(fail :error:)` *)
Fixpoint error_nodes (i : instr) : nat :=
  match i with
  | IError => 1%nat
  | ISeq a b | IPar a b | IXor a b => (error_nodes a + error_nodes b)%nat
  | IMatch _ _ _ b | IMisMatch _ _ _ b | INew _ _ b _ => error_nodes b
  | IFoldScalar _ _ _ b l _ | IFoldStream _ _ _ b l _ | IFoldStreamMap _ _ _ b l _ =>
      (error_nodes b + match l with Some x => error_nodes x | None => 0 end)%nat
  | _ => 0%nat
  end.
