"""Translator piece for C28 (the beautifier): reads crates/beautifier/src/{beautifier,virtual}.rs and emits
the strings and the dispatch table model/Beautify.v is compared with (`beautify_tables_agree`):

  bt_walker_dispatch       the arms of `beautify_walker`: (Instruction variant, method it calls, literal argument or "")
  bt_method_keywords       for every `beautify_*` method, the literal format strings of its `multiline!` uses, in order
  bt_compound_format       the format string of the `compound!` macro
  bt_call_format, bt_call_triplet_format, bt_call_args_separator, bt_call_output_formats
  bt_hopon_format          the Display of the virtual `hopon` instruction
  bt_indent_is_padding     the indentation is written as `{:indent$}` of the empty string

Strict: anything not found raises TranslationError (a broken obligation)."""
import re

from gen_model import TranslationError, coq_list, coq_str, read, strip_comments

BEAUTIFIER = "crates/beautifier/src/beautifier.rs"
VIRTUAL = "crates/beautifier/src/virtual.rs"


def _fn_body(src, name):
    m = re.search(r"\bfn\s+" + re.escape(name) + r"\b", src)
    if not m:
        raise TranslationError(f"beautifier: fn {name} not found")
    i = src.find("{", m.end())
    # skip a `where`-less signature: first brace after the parameter list opens the body
    depth = 0
    j = i
    while j < len(src):
        if src[j] == "{":
            depth += 1
        elif src[j] == "}":
            depth -= 1
            if depth == 0:
                return src[i + 1:j]
        j += 1
    raise TranslationError(f"beautifier: body of fn {name} not closed")


def _macro_body(src, name):
    m = re.search(r"macro_rules!\s+" + re.escape(name) + r"\s*\{", src)
    if not m:
        raise TranslationError(f"beautifier: macro {name} not found")
    depth = 1
    j = m.end()
    while j < len(src) and depth:
        if src[j] == "{":
            depth += 1
        elif src[j] == "}":
            depth -= 1
        j += 1
    return src[m.end():j - 1]


def generate():
    out = []
    w = out.append
    src = strip_comments(read(BEAUTIFIER))
    w("")
    w("(* ---- tools/genx_beautify.py: crates/beautifier ---- *)")

    # 1. the dispatch of beautify_walker
    body = _fn_body(src, "beautify_walker")
    arms = re.findall(r"ast::Instruction::(\w+)(?:\(\s*(\w+)\s*\))?\s*=>\s*\{?\s*self\.(\w+)\(\s*(\"[^\"]*\"|&?\w+)\s*,\s*indent\s*\)", body)
    if len(arms) < 10:
        raise TranslationError("beautify_walker: match arms not recognised")
    n_variants = len(re.findall(r"ast::Instruction::\w+", body))
    if n_variants != len(arms):
        raise TranslationError(f"beautify_walker: {n_variants} variants mentioned but {len(arms)} arms recognised")
    rows = []
    for variant, binder, method, arg in arms:
        lit = arg[1:-1] if arg.startswith('"') else ""
        if not lit and binder and arg.lstrip("&") != binder:
            raise TranslationError(f"beautify_walker: arm {variant} passes {arg}, not its own payload")
        rows.append("(%s, %s, %s)" % (coq_str(variant), coq_str(method), coq_str(lit)))
    w("Definition bt_walker_dispatch : list (string * string * string) := %s." % coq_list(rows))

    # 2. multiline! keywords per method
    methods = sorted(set(a[2] for a in arms))
    rows = []
    for meth in methods:
        b = _fn_body(src, meth)
        kws = []
        for mm in re.finditer(r"multiline!\s*\(", b):
            depth = 1
            j = mm.end()
            while j < len(b) and depth:
                if b[j] == "(":
                    depth += 1
                elif b[j] == ")":
                    depth -= 1
                j += 1
            kws += re.findall(r'"([^"]*)"\s*;', b[mm.end():j])
        uses_compound = len(re.findall(r"\bcompound!\s*\(", b))
        uses_hopon = 1 if "try_hopon" in b else 0
        rows.append("(%s, %s, %d%%N, %d%%N)" % (coq_str(meth), coq_list([coq_str(k) for k in kws]), uses_compound, uses_hopon))
    w("Definition bt_method_keywords : list (string * list string * N * N) := %s." % coq_list(rows))

    # 3. compound! and multiline! macros
    cb = _macro_body(src, "compound")
    m = re.search(r'multiline!\s*\(\s*\$beautifier\s*,\s*\$indent\s*;\s*"([^"]*)"\s*,\s*\$instruction\s*;\s*&\$instruction\.instruction\s*\)', cb)
    if not m:
        raise TranslationError("compound! macro: shape not recognised")
    w("Definition bt_compound_format : string := %s." % coq_str(m.group(1)))
    mb = _macro_body(src, "multiline")
    nest_ok = re.search(r"beautify_walker\(\s*\$beautifier\s*,\s*\$nest\s*,\s*\$indent\s*\+\s*indent_step\s*\)", mb) is not None
    hdr_ok = re.search(r"fmt_indent\(\s*out\s*,\s*\$indent\s*\)\?\s*;\s*writeln!\(\s*out\s*,\s*\$fmt1", mb) is not None
    w("Definition bt_multiline_is_standard : bool := %s." % ("true" if nest_ok and hdr_ok else "false"))
    fi = _fn_body(src, "fmt_indent")
    pad = re.search(r'write!\(\s*output\s*,\s*"\{:indent\$\}"\s*,\s*""\s*,\s*indent\s*=\s*indent\s*\)', fi) is not None
    w("Definition bt_indent_is_padding : bool := %s." % ("true" if pad else "false"))

    # 4. the call line
    cb = _fn_body(src, "beautify_call")
    outs = re.findall(r'ast::CallOutputValue::(\w+)(?:\(\w+\))?\s*=>\s*(?:write!\(\s*&mut self\.output\s*,\s*"([^"]*)"\s*\)\?|\{\s*\})', cb)
    if len(outs) != 3:
        raise TranslationError("beautify_call: output arms not recognised")
    w("Definition bt_call_output_formats : list (string * string) := %s." % coq_list(
        ["(%s, %s)" % (coq_str(v), coq_str(f)) for v, f in outs]))
    m = re.search(r'writeln!\(\s*&mut self\.output\s*,\s*"([^"]*)"\s*,\s*CallTriplet\(&call\.triplet\)\s*,\s*CallArgs\(call\.args\.as_slice\(\)\)\s*\)', cb)
    if not m:
        raise TranslationError("beautify_call: writeln! not recognised")
    w("Definition bt_call_format : string := %s." % coq_str(m.group(1)))
    m = re.search(r'impl<[^>]*>\s*Display\s+for\s+CallTriplet.*?format_args!\(\s*"([^"]*)"\s*,\s*self\.0\.peer_id\s*,\s*self\.0\.service_id\s*,\s*self\.0\.function_name\s*,?\s*\)', src, flags=re.S)
    if not m:
        raise TranslationError("CallTriplet Display not recognised")
    w("Definition bt_call_triplet_format : string := %s." % coq_str(m.group(1)))
    m = re.search(r'impl<[^>]*>\s*Display\s+for\s+CallArgs.*?format_args!\(\s*"\{\}"\s*,\s*self\.0\.iter\(\)\.format\(\s*"([^"]*)"\s*\)\s*\)', src, flags=re.S)
    if not m:
        raise TranslationError("CallArgs Display not recognised")
    w("Definition bt_call_args_separator : string := %s." % coq_str(m.group(1)))
    sb = _fn_body(src, "beautify_simple")
    simple_ok = re.search(r'fmt_indent\(\s*&mut self\.output\s*,\s*indent\s*\)\?\s*;\s*writeln!\(\s*&mut self\.output\s*,\s*"\{instruction\}"\s*\)', sb) is not None
    w("Definition bt_simple_is_display_line : bool := %s." % ("true" if simple_ok else "false"))
    qb = _fn_body(src, "beautify_seq")
    seq_ok = re.search(r"self\.beautify_walker\(\s*&seq\.0\s*,\s*indent\s*\)\?\s*;\s*self\.beautify_walker\(\s*&seq\.1\s*,\s*indent\s*\)", qb) is not None
    w("Definition bt_seq_is_flat : bool := %s." % ("true" if seq_ok else "false"))
    m = re.search(r"try_hopon:\s*(true|false)\s*,", _fn_body(src, "new"))
    if not m:
        raise TranslationError("Beautifier::new: try_hopon default not found")
    w("Definition bt_hopon_default : bool := %s." % m.group(1))

    # 5. the virtual hopon instruction
    vsrc = strip_comments(read(VIRTUAL))
    m = re.search(r'impl\s+Display\s+for\s+HopOn<\'_>.*?write!\(\s*f\s*,\s*"([^"]*)"\s*,\s*self\.peer_id\s*\)', vsrc, flags=re.S)
    if not m:
        raise TranslationError("HopOn Display not recognised")
    w("Definition bt_hopon_format : string := %s." % coq_str(m.group(1)))
    sh = _fn_body(vsrc, "canon_shadows_peer_id")
    arms = re.findall(r"(\w+)(?:\((\w+)\))?\s*=>\s*([^,\n]+),", sh)
    rows = []
    for variant, binder, rhs in arms:
        rhs = rhs.strip()
        if rhs in ("false", "true"):
            v = rhs
        elif re.fullmatch(r"\w+\.name\s*==\s*canon_name", rhs):
            v = "name_eq"
        else:
            raise TranslationError(f"canon_shadows_peer_id: arm {variant} not recognised: {rhs}")
        rows.append("(%s, %s)" % (coq_str(variant), coq_str(v)))
    if not rows:
        raise TranslationError("canon_shadows_peer_id: no arms")
    w("Definition bt_hopon_shadow_table : list (string * string) := %s." % coq_list(rows))
    th = _fn_body(vsrc, "try_hopon")
    shape = [
        r"\(ast::Instruction::New\(nested_new\)\s*,\s*ast::NewArgument::Stream\(stream_name\)\)\s*=\s*\(&root_new\.instruction\s*,\s*expected_stream_name\)",
        r"\(ast::Instruction::Canon\(canon\)\s*,\s*ast::NewArgument::CanonStream\(nested_canon_name\)\)\s*=\s*\(&nested_new\.instruction\s*,\s*expected_nested_canon_name\)",
        r"canon\.canon_stream\.name\s*==\s*nested_canon_name\.name\s*&&\s*canon\.stream\.name\s*==\s*stream_name\.name\s*&&\s*!canon_shadows_peer_id\(nested_canon_name\.name\s*,\s*&canon\.peer_id\)",
        r"peer_id:\s*canon\.peer_id\.clone\(\)",
    ]
    ok = all(re.search(p, th) for p in shape)
    w("Definition bt_try_hopon_is_standard : bool := %s." % ("true" if ok else "false"))
    return out
