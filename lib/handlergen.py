"""Generator of TraceHandler op sequences ("driver trees", DESIGN appendix A) and rounds.

A case is a list of rounds; round k merges (prev, cur) chosen among earlier rounds' result
traces (or empty, or mutated) under an op sequence derived from one random skeleton, so that
most merges are between compatible traces of the "same script" at different progress, and a
separate share exercises the error / crash paths with mutated traces and arbitrary ops."""

BIG = [0, 1, 2, 3, 7, 2**31, 2**32 - 2, 2**32 - 1]


def gen_skeleton(rng, depth, ids):
    """list of nodes; ids = mutable counter dict"""
    n = rng.choice([1, 2, 2, 3, 4])
    out = []
    have_stream = False
    for _ in range(n):
        x = rng.random()
        if depth > 0 and x < 0.22:
            out.append(("par", gen_skeleton(rng, depth - 1, ids), gen_skeleton(rng, depth - 1, ids)))
        elif depth > 0 and x < 0.40:
            ids["fold"] += 1
            gens = []
            nvals = rng.randrange(2, 6)
            pool = list(range(nvals))
            rng.shuffle(pool)
            if rng.random() < 0.1:
                pool = pool + pool      # sometimes the same value twice (duplicate value_pos in the lore)
            for _g in range(rng.choice([1, 1, 2, 3])):
                take = rng.choice([1, 1, 2, 3])
                g, pool = pool[:take], pool[take:]
                if g:
                    gens.append(g)
            out.append(("seedstream", nvals))
            out.append(("fold", ids["fold"], gens, gen_skeleton(rng, depth - 1, ids), gen_skeleton(rng, depth - 1, ids),
                        rng.random() < 0.85, rng.random() < 0.3))
        elif x < 0.55:
            out.append(("ap", rng.randrange(3)))
        elif x < 0.63:
            ids["cid"] += 1
            out.append(("canon", "cn%d" % ids["cid"]))
        else:
            ids["cid"] += 1
            out.append(("call", "c%d" % ids["cid"], rng.choice(["scalar", "scalar", "stream", "unused", "failed"])))
    return out


def drive(nodes, rng, known, peer, ops, wrong=0.0):
    for nd in nodes:
        k = nd[0]
        if k == "call":
            cid, kind = nd[1], nd[2]
            if rng.random() < wrong:
                cid = cid + "x"
            if rng.random() < known:
                d = [kind, cid, 0] if kind == "stream" else [kind, cid]
            else:
                d = ["sent", peer] if rng.random() < 0.7 else ["sent_id", peer, rng.randrange(1, 9)]
                if rng.random() < 0.15:
                    d = None
            ops.append(["call_auto", d, True])
        elif k == "ap":
            ops.append(["ap_auto", nd[1]])
        elif k == "seedstream":
            for i in range(nd[1]):
                ops.append(["ap_auto", i % 2])
        elif k == "canon":
            d = ["cexec", nd[1] + ("x" if rng.random() < wrong else "")] if rng.random() < known else ["csent", peer]
            ops.append(["canon_auto", d, True])
        elif k == "par":
            ops.append(["par_start"])
            drive(nd[1], rng, known, peer, ops, wrong)
            ops.append(["par_end", True])
            drive(nd[2], rng, known, peer, ops, wrong)
            ops.append(["par_end", False])
        elif k == "fold":
            _, fid, gens, before, after, has_next, has_last = nd
            ops.append(["fold_start", fid])
            for g in gens:
                if not has_next:
                    ops.append(["iter_nth", fid, g[0]])
                    drive(before, rng, known, peer, ops, wrong)
                    ops.append(["gen_end", fid])
                    continue
                for v in g:
                    ops.append(["iter_nth", fid, v])
                    drive(before, rng, known, peer, ops, wrong)
                    ops.append(["iter_end", fid])
                ops.append(["back", fid])
                if has_last:
                    ops.append(["call_auto", ["scalar", "last%d" % fid], True])
                for i in range(len(g)):
                    drive(after, rng, known, peer, ops, wrong)
                    if i + 1 < len(g):
                        ops.append(["back", fid])
                ops.append(["gen_end", fid])
            ops.append(["fold_end", fid])
    return ops


def random_state(rng):
    x = rng.random()
    if x < 0.3:
        return ["st_par", rng.choice(BIG), rng.choice(BIG)]
    if x < 0.55:
        return ["st_call", rng.choice([["sent", "p"], ["scalar", "zz"], ["stream", "zz", rng.choice(BIG)], ["unused", "zz"], ["failed", "zz"]])]
    if x < 0.7:
        return ["st_ap", [rng.choice(BIG) for _ in range(rng.choice([0, 1, 1, 2]))]]
    if x < 0.8:
        return ["st_canon", rng.choice([["csent", "p"], ["cexec", "zz"]])]
    lore = []
    for _ in range(rng.choice([0, 1, 2])):
        lore.append([rng.choice(BIG[:5]), [[rng.choice(BIG), rng.choice(BIG)] for _ in range(rng.choice([2, 2, 2, 1, 3]))]])
    return ["st_fold", lore]


def random_mutation(rng):
    x = rng.random()
    if x < 0.25:
        return ["par", rng.randrange(4), rng.choice(BIG), rng.choice(BIG)]
    if x < 0.45:
        return ["kind", rng.randrange(12), random_state(rng)]
    if x < 0.55:
        return ["trunc", rng.randrange(12)]
    if x < 0.8:
        return ["lore", rng.randrange(3), rng.randrange(4),
                rng.choice(["value_pos", "before_pos", "before_len", "after_pos", "after_len"]), rng.choice(BIG)]
    if x < 0.87:
        return ["lore_dup", rng.randrange(3)]
    if x < 0.94:
        return ["lore_desc", rng.randrange(3), rng.randrange(4), rng.choice([0, 1, 3])]
    return ["push", random_state(rng)]


ARBITRARY_OPS = [["call_start"], ["ap_start"], ["canon_start"], ["par_start"], ["par_end", True], ["par_end", False],
                 ["fold_start", 1], ["iter_nth", 1, 0], ["iter_end", 1], ["back", 1], ["gen_end", 1], ["fold_end", 1],
                 ["iter_pos", 1, 0], ["iter_pos", 1, 2**32 - 1], ["upd_gen", 0, 3], ["sizes"], ["iter_end", 9],
                 ["call_end", ["scalar", "q"]], ["ap_end", [1]], ["ap_end", []], ["ap_end", [1, 2]],
                 ["canon_end", ["cexec", "q"]]]


def gen_case(rng, profile="mixed"):
    ids = {"fold": 0, "cid": 0}
    skel = gen_skeleton(rng, rng.choice([1, 2, 2, 3]), ids)
    rounds = []
    nrounds = rng.choice([4, 5, 6, 7])
    for r in range(nrounds):
        peer = "p%d" % (r % 3)
        known = rng.choice([0.0, 0.3, 0.6, 0.9, 1.0])
        wrong = 0.0
        mut_prev, mut_cur = [], []
        if r < 2:
            prev, cur = -1, -1
        else:
            prev = rng.randrange(-1, r)
            cur = rng.randrange(-1, r)
        mode = rng.random()
        if profile == "honest":
            mode = 1.0
        ops = []
        if mode < 0.18 and r >= 2:
            # adversarial data: mutated traces under the honest driver
            for _ in range(rng.choice([1, 1, 2])):
                (mut_cur if rng.random() < 0.7 else mut_prev).append(random_mutation(rng))
            drive(skel, rng, known, peer, ops)
        elif mode < 0.26:
            # arbitrary API use
            for _ in range(rng.choice([2, 5, 9])):
                ops.append(rng.choice(ARBITRARY_OPS))
        elif mode < 0.34:
            wrong = 0.3
            drive(skel, rng, known, peer, ops, wrong)
        else:
            drive(skel, rng, known, peer, ops)
        if rng.random() < 0.5:
            ops.append(["sizes"])
        if rng.random() < 0.3:
            ops.append(["upd_gen", rng.randrange(10), rng.choice([0, 1, 5])])
        rounds.append({"prev": prev, "cur": cur, "mut_prev": mut_prev, "mut_cur": mut_cur, "ops": ops})
    return {"rounds": rounds}
