"""Translator piece for C06 / C05 (call request ids, routing of call results).

Re-reads on every run the decisive source lines

  * `ExecutionCtx::next_call_request_id` (air/src/execution_step/execution_context/context.rs):
    the body must be `self.last_call_request_id += K; self.last_call_request_id` -- K is exported;
  * `ExecutionCtx::new`: which ingredients the field `last_call_request_id` is initialised from;
  * `prepare` (air/src/preparation_step/preparation.rs): which data `prev_ingredients` /
    `current_ingredients` take their `last_call_request_id` from;
  * `handle_prev_state` (instructions/call/prev_result_handler.rs): the arm that consumes a call
    result -- the pattern `RequestSentBy(Sender::PeerIdWithCallId { ref peer_id, call_id })`, its guard
    (peer_id compared with the current peer id), the key expression (`call_id.to_string()`), the
    map operation (`exec_ctx.call_results.remove(&call_id)`); and that no other line of
    air/src/execution_step removes from / reads `call_results`;
  * `ResolvedCall::execute` (instructions/call/resolved_call.rs): the id recorded in the request map and in
    the `RequestSentBy` state is the one returned by `next_call_request_id`;
  * `from_success_result` / `from_execution_error` (air/src/farewell_step/outcome.rs): the test
    `exec_ctx.call_results.is_empty()`, the two branches, and whether `from_execution_error` looks
    at `call_results` at all (it does not: known finding of C06).

The facts are exported as Coq constants; model/IdsSpec.v states what the model assumes about each
and proofs/IdsProofs.v proves `ids_source_agrees = true` plus model lemmas stated with these
constants, so a source change breaks an obligation."""
import os
import re

import gen_model
from gen_model import TranslationError, coq_list, coq_str, read, strip_comments

CTX = "air/src/execution_step/execution_context/context.rs"
PREP = "air/src/preparation_step/preparation.rs"
PRH = "air/src/execution_step/instructions/call/prev_result_handler.rs"
RC = "air/src/execution_step/instructions/call/resolved_call.rs"
OUT = "air/src/farewell_step/outcome.rs"
FERR = "air/src/farewell_step/errors.rs"


def norm(s):
    return re.sub(r"\s+", " ", s).strip()


def fn_body(src, name, rel):
    """Text between the braces of `fn name`."""
    m = re.search(r"\bfn\s+" + re.escape(name) + r"\b", src)
    if not m:
        raise TranslationError("fn %s not found in %s" % (name, rel))
    i = src.find("{", m.end())
    # skip the where-clause / return type: first '{' after the closing parenthesis of the arguments
    depth, j = 0, m.end()
    while j < len(src):
        if src[j] == "(":
            depth += 1
        elif src[j] == ")":
            depth -= 1
            if depth == 0:
                break
        j += 1
    i = src.find("{", j)
    if i < 0:
        raise TranslationError("fn %s in %s has no body" % (name, rel))
    depth, k = 1, i + 1
    while k < len(src) and depth > 0:
        depth += {"{": 1, "}": -1}.get(src[k], 0)
        k += 1
    return src[i + 1:k - 1]


def next_call_request_id():
    src = strip_comments(read(CTX))
    body = norm(fn_body(src, "next_call_request_id", CTX))
    m = re.fullmatch(r"self\.last_call_request_id \+= (\d+); self\.last_call_request_id", body)
    if not m:
        raise TranslationError("next_call_request_id is no longer `self.last_call_request_id += K; self.last_call_request_id`: %r" % body)
    sig = re.search(r"fn\s+next_call_request_id\s*\(\s*&mut self\s*\)\s*->\s*(\w+)", src)
    if not sig:
        raise TranslationError("signature of next_call_request_id not recognised")
    field = re.search(r"pub\(crate\)\s+last_call_request_id\s*:\s*(\w+)", src)
    if not field or field.group(1) != sig.group(1):
        raise TranslationError("type of last_call_request_id not recognised")
    bits = {"u8": 8, "u16": 16, "u32": 32, "u64": 64}.get(field.group(1))
    if bits is None:
        raise TranslationError("last_call_request_id has the unexpected type %s" % field.group(1))
    return int(m.group(1)), bits


def ctx_new_source():
    src = strip_comments(read(CTX))
    body = fn_body(src, "new", CTX)
    inits = re.findall(r"\blast_call_request_id\s*:\s*([\w.]+)\s*,", body)
    if len(inits) != 1:
        raise TranslationError("ExecutionCtx::new: initialiser of last_call_request_id not recognised: %r" % inits)
    m = re.fullmatch(r"(\w+)\.last_call_request_id", inits[0])
    if not m:
        raise TranslationError("ExecutionCtx::new: last_call_request_id is initialised from %r" % inits[0])
    # no other assignment to the field in the execution step
    return m.group(1)


def prepare_sources():
    src = strip_comments(read(PREP))
    body = fn_body(src, "prepare", PREP)
    out = {}
    for ing in ("prev_ingredients", "current_ingredients"):
        m = re.search(r"let\s+" + ing + r"\s*=\s*ExecCtxIngredients\s*\{(.*?)\}\s*;", body, flags=re.S)
        if not m:
            raise TranslationError("prepare: %s not recognised" % ing)
        f = re.search(r"\blast_call_request_id\s*:\s*(\w+)\.last_call_request_id", m.group(1))
        if not f:
            raise TranslationError("prepare: %s.last_call_request_id initialiser not recognised" % ing)
        out[ing] = f.group(1)
    mk = re.search(r"make_exec_ctx\s*\(\s*(\w+)\s*,\s*(\w+)\s*,", body)
    if not mk or (mk.group(1), mk.group(2)) != ("prev_ingredients", "current_ingredients"):
        raise TranslationError("prepare: make_exec_ctx argument order not recognised")
    mk2 = re.search(r"ExecutionCtx::new\s*\(\s*(\w+)\s*,\s*(\w+)\s*,", strip_comments(read(PREP)))
    if not mk2 or (mk2.group(1), mk2.group(2)) != ("prev_ingredients", "current_ingredients"):
        raise TranslationError("make_exec_ctx: ExecutionCtx::new argument order not recognised")
    sig = re.search(r"fn\s+new\s*\(\s*(\w+)\s*:\s*ExecCtxIngredients\s*,\s*(\w+)\s*:\s*ExecCtxIngredients", strip_comments(read(CTX)))
    if not sig or (sig.group(1), sig.group(2)) != ("prev_ingredients", "current_ingredients"):
        raise TranslationError("ExecutionCtx::new: parameter order not recognised")
    return out


def consume_arm():
    src = strip_comments(read(PRH))
    body = fn_body(src, "handle_prev_state", PRH)
    m = re.search(r"RequestSentBy\(Sender::PeerIdWithCallId\s*\{\s*ref peer_id\s*,\s*call_id\s*\}\)\s*if\s+(.*?)=>\s*\{", body, flags=re.S)
    if not m:
        raise TranslationError("handle_prev_state: the PeerIdWithCallId arm is not recognised")
    guard = norm(m.group(1))
    if guard != "peer_id.as_str() == exec_ctx.run_parameters.current_peer_id.as_str()":
        raise TranslationError("handle_prev_state: guard of the PeerIdWithCallId arm changed: %r" % guard)
    rest = body[m.end():]
    key = re.search(r"let\s+call_id\s*=\s*([^;]+);", rest)
    if not key or norm(key.group(1)) != "call_id.to_string()":
        raise TranslationError("handle_prev_state: key of the call result lookup changed")
    op = re.search(r"match\s+exec_ctx\.call_results\.(\w+)\(\s*&(\w+)\s*\)", rest)
    if not op:
        raise TranslationError("handle_prev_state: call result lookup not recognised")
    # the Some arm applies the result, the None arm keeps the state
    some = re.search(r"Some\((\w+)\)\s*=>\s*\{\s*update_state_with_service_result\((.*?)\)\?;\s*Ok\(StateDescriptor::(\w+)\(\)\)", rest, flags=re.S)
    none = re.search(r"None\s*=>\s*\{\s*exec_ctx\.make_subgraph_incomplete\(\);\s*Ok\(StateDescriptor::(\w+)\(met_result\.result\)\)", rest, flags=re.S)
    if not some or not none:
        raise TranslationError("handle_prev_state: Some/None arms of the call result lookup not recognised")
    # every other use of call_results in the execution step
    uses = []
    root = os.path.join(gen_model.REPO, "air/src/execution_step")
    for dp, ds, fs in os.walk(root):
        ds.sort()
        for f in sorted(fs):
            if f.endswith(".rs"):
                rel = os.path.relpath(os.path.join(dp, f), gen_model.REPO)
                s = strip_comments(read(rel))
                if re.search(r"struct\s+IterableVecResolvedCall\s*\{[^}]*\bcall_results\s*:", s):
                    continue        # an unrelated field of the same name (the values of a stream fold)
                for mm in re.finditer(r"\b\w+\s*\.\s*call_results\b\s*(\.\s*\w+)?", s):
                    uses.append((rel, norm(mm.group(0))))
    return guard, op.group(1), op.group(2), some.group(3), none.group(1), uses


def state_descriptors():
    """should_execute of each StateDescriptor constructor."""
    src = strip_comments(read(PRH))
    out = []
    for m in re.finditer(r"fn\s+(\w+)\s*\((?:prev_state\s*:\s*CallResult)?\)\s*->\s*Self\s*\{\s*Self\s*\{\s*should_execute\s*:\s*(true|false)\s*,\s*prev_state\s*:\s*(None|Some\(prev_state\))\s*,?\s*\}\s*\}", src):
        out.append((m.group(1), m.group(2) == "true", m.group(3) != "None"))
    if sorted(n for n, _, _ in out) != ["can_execute_now", "cant_execute_now", "executed", "no_previous_state", "not_ready"]:
        raise TranslationError("StateDescriptor constructors not recognised: %r" % out)
    return out


def execute_issue():
    src = strip_comments(read(RC))
    body = norm(fn_body(src, "execute", RC))
    m = re.search(r"let call_id = exec_ctx\.next_call_request_id\(\); exec_ctx\.call_requests\.insert\(call_id, request_params\); "
                  r"exec_ctx\.make_subgraph_incomplete\(\); trace_ctx\.meet_call_end\(CallResult::sent_peer_id_with_call_id\( "
                  r"exec_ctx\.run_parameters\.current_peer_id\.clone\(\), call_id, \)\);", body)
    if not m:
        raise TranslationError("ResolvedCall::execute: the request-issuing tail is not recognised")
    if len(re.findall(r"next_call_request_id\(\)", src)) != 1:
        raise TranslationError("next_call_request_id is called from more than one place in resolved_call.rs")
    g = re.search(r"if !state\.should_execute\(\) \{ state\.maybe_set_prev_state\(trace_ctx\); return Ok\(\(\)\); \}", body)
    if not g or g.start() > m.start():
        raise TranslationError("ResolvedCall::execute: the should_execute guard before the request is not recognised")
    return True


def farewell():
    src = strip_comments(read(OUT))
    ok = norm(fn_body(src, "from_success_result", OUT))
    m = re.search(r"let \(ret_code, error_message\) = if (.*?) \{ \((\w+), String::new\(\)\) \} else \{ let farewell_error = "
                  r"Rc::new\(FarewellError::(\w+)\(exec_ctx\.call_results\.clone\(\)\)\); "
                  r"\(farewell_error\.to_error_code\(\), farewell_error\.to_string\(\)\) \};", ok)
    if not m:
        raise TranslationError("from_success_result: the call_results test is not recognised")
    err = norm(fn_body(src, "from_execution_error", OUT))
    looks = "call_results" in err
    if not re.search(r"populate_outcome_from_contexts\( exec_ctx, trace_handler, error\.to_error_code\(\), error\.to_string\(\),", err):
        raise TranslationError("from_execution_error: shape not recognised")
    pop = norm(fn_body(src, "populate_outcome_from_contexts", OUT))
    if "call_results" in pop:
        raise TranslationError("populate_outcome_from_contexts now reads call_results")
    if not re.search(r"exec_ctx\.last_call_request_id,", pop):
        raise TranslationError("populate_outcome_from_contexts: last_call_request_id is not written into the data")
    return m.group(1), m.group(2), m.group(3), looks


def generate():
    lines = ["(* --- tools/genx_ids.py: call request ids and call result routing (C06, C05) --- *)"]
    inc, bits = next_call_request_id()
    lines.append("Definition ids_src_increment : N := %d%%N." % inc)
    lines.append("Definition ids_src_id_bits : N := %d%%N." % bits)
    lines.append("Definition ids_src_ctx_lcid_from : string := %s." % coq_str(ctx_new_source()))
    ps = prepare_sources()
    lines.append("Definition ids_src_prev_ingredients_from : string := %s." % coq_str(ps["prev_ingredients"]))
    lines.append("Definition ids_src_current_ingredients_from : string := %s." % coq_str(ps["current_ingredients"]))
    guard, op, key, some_sd, none_sd, uses = consume_arm()
    lines.append("Definition ids_src_consume_guard : string := %s." % coq_str(guard))
    lines.append("Definition ids_src_consume_op : string := %s." % coq_str(op))
    lines.append("Definition ids_src_consume_key : string := %s." % coq_str(key))
    lines.append("Definition ids_src_consume_some_descriptor : string := %s." % coq_str(some_sd))
    lines.append("Definition ids_src_consume_none_descriptor : string := %s." % coq_str(none_sd))
    lines.append("Definition ids_src_call_results_uses : list (string * string) := %s." %
                 coq_list(["(%s, %s)" % (coq_str(a), coq_str(b)) for a, b in uses]))
    sds = state_descriptors()
    lines.append("Definition ids_src_state_descriptors : list (string * bool * bool) := %s." %
                 coq_list(["(%s, %s, %s)" % (coq_str(n), "true" if a else "false", "true" if b else "false") for n, a, b in sorted(sds)]))
    execute_issue()
    lines.append("Definition ids_src_execute_issues_next_id : bool := true.")
    test, okc, variant, looks = farewell()
    lines.append("Definition ids_src_farewell_test : string := %s." % coq_str(test))
    lines.append("Definition ids_src_farewell_success_code : string := %s." % coq_str(okc))
    lines.append("Definition ids_src_farewell_leftover_variant : string := %s." % coq_str(variant))
    lines.append("Definition ids_src_execution_error_reads_call_results : bool := %s." % ("true" if looks else "false"))
    lines.append("")
    return lines
