(* props/C11.v -- a canonicalized stream is fixed once and identical everywhere.
   Only pinned statements (model/CanonSpec.v), [exact], non-vacuity examples and Print Assumptions.

   The theorems are about the three canon instructions of the executor model (model/ExecStreams.v:
   exec_canon_generic k tb = canon / canon_map / canon_stream_map_scalar, in per-run lock-step with
   the real air::execute_air) and the canon merger of the trace handler model (model/Handler.v), for
   every context, every data, every stream and stream-map content.
   The history-level statement C11_full stays a Definition: see checks/C11.py PARTIAL. *)
From Aqua Require Import Base Json Air Trace Handler Values Scalars Lens Exec RunExec ExecStreams CallSpec CanonSpec.
From Aqua Require Import CanonProofs.
Open Scope N_scope.
Open Scope list_scope.

(* a met Executed(c) is re-used: same outcome whatever the local streams hold; the bound value is
   the content of c; no new content id *)
Theorem C11_reuse : C11_reuse_stmt.
Proof. exact CanonProofs.C11_reuse. Qed.

(* first execution at the designated peer: c = cid (tetraplet (peer,"","",""), the peer's own
   Stream::iter order of what it knows now) *)
Theorem C11_first : C11_first_stmt.
Proof. exact CanonProofs.C11_first. Qed.

(* a content id is created / a fresh Executed state written only where the instruction's peer
   resolves to the current peer; elsewhere RequestSentBy (+ next peer when nothing was met) *)
Theorem C11_only_designated : C11_only_designated_stmt.
Proof. exact CanonProofs.C11_only_designated. Qed.

(* merger: two different executed results never merge, an executed result survives every later
   merge unchanged; verify_canon refuses a result stored under another peer's tetraplet *)
Theorem C11_unique : C11_unique_stmt.
Proof. exact CanonProofs.C11_unique. Qed.

(* run at the designated peer, then any later run on any peer that is handed that state: it binds
   exactly the designated peer's values, in the designated peer's order *)
Theorem C11_two_runs : C11_two_runs_stmt.
Proof. exact CanonProofs.C11_two_runs. Qed.

(* the decisive source lines and the merge table of the source, re-read on every run *)
Theorem C11_source_tie : C11_source_tie_stmt.
Proof. exact CanonProofs.C11_source_tie. Qed.

(* the largest proved part of the history-level property: everything except the history clause *)
Definition C11_partial_stmt : Prop :=
  C11_reuse_stmt /\ C11_first_stmt /\ C11_only_designated_stmt /\ C11_unique_stmt /\ C11_two_runs_stmt.
Theorem C11_partial : C11_partial_stmt.
Proof. exact (conj C11_reuse (conj C11_first (conj C11_only_designated (conj C11_unique C11_two_runs)))). Qed.

(* ---------------- non-vacuity ---------------- *)
Ltac conjs := repeat match goal with |- _ /\ _ => split end.
Definition sv : var := {| v_name := "$s"; v_pos := 9 |}.          (* a position inside the script *)
Definition cv : var := {| v_name := "#canon"; v_pos := 0 |}.
Definition appends : instr := ISeq (IAp "ap a" (ALiteral "a") (ApStream sv)) (IAp "ap b" (ALiteral "b") (ApStream sv)).
Definition script : instr := ISeq appends (ICanon "canon" (PLiteral "P") sv cv).
Definition at_peer (p : string) (prev cur : idata) : run_input :=
  {| ri_script := script; ri_params := {| rp_init_peer := "P"; rp_current_peer := p; rp_timestamp := 1; rp_ttl := 1 |};
     ri_prev := prev; ri_cur := cur; ri_results := [] |}.
(* the context in front of the canon instruction *)
Definition before_canon (i : run_input) : ctx :=
  match exec stream_instr 20 appends (initial_ctx i) with XOk x => x | _ => initial_ctx i end.
Definition handed (x : ctx) : handler cid :=
  match meet_canon_start cid cid_eqb (x_handler x) with Ok (_, h) => h | _ => x_handler x end.
Definition after_canon (x : ctx) : ctx :=
  match exec_canon x (PLiteral "P") sv cv with XOk y => y | _ => x end.

(* the designated peer P, nothing known before *)
Definition x1 : ctx := before_canon (at_peer "P" empty_data empty_data).
Definition c_ab : cid := first_cid "P" [VALiteral (JStr "a") "P" 0; VALiteral (JStr "b") "P" 1].

Example C11_first_nonvacuous :
  canon_met x1 (CanonEmpty cid) /\ no_executed (CanonEmpty cid) /\
  resolve_peer_id_to_string x1 (PLiteral "P") = POk (current_peer x1) /\
  exec_canon x1 (PLiteral "P") sv cv = XOk (after_canon x1) /\
  map va_result (known_values TStreams x1 sv) = [JStr "a"; JStr "b"] /\
  tr (after_canon x1) = [SAp [generation_stub]; SAp [generation_stub]; SCanon (CanonExecuted c_ab)].
Proof.
  split; [exists (handed x1); vm_compute; reflexivity |].
  split; [exact I |]. conjs; vm_compute; reflexivity.
Qed.

(* the data P sends out *)
Definition d1 : idata :=
  match run2 20 (at_peer "P" empty_data empty_data) with OutNewData _ d _ _ _ => d | _ => empty_data end.

(* peer Q receives it; whatever Q's own streams hold (here: nothing at all), it binds P's two values *)
Definition x2 : ctx := before_canon (at_peer "Q" empty_data d1).
Example C11_reuse_nonvacuous :
  canon_met x2 (CanonMet cid (CanonExecuted c_ab)) /\
  map va_result (known_values TStreams x2 sv) = [JStr "a"; JStr "b"] /\
  known_values TStreams (with_tables x2 [] []) sv = [] /\
  exists y, exec_canon (with_tables x2 [] []) (PLiteral "P") sv cv = XOk y /\
            get_canon_stream y "#canon" =
              POk {| cw_values := [VALiteral (JStr "a") "P" 0; VALiteral (JStr "b") "P" 0];
                     cw_tetraplet := canon_tetraplet "P"; cw_cid := c_ab |}.
Proof.
  split; [exists (handed x2); vm_compute; reflexivity |].
  split; [vm_compute; reflexivity |]. split; [vm_compute; reflexivity |].
  exists (match exec_canon (with_tables x2 [] []) (PLiteral "P") sv cv with XOk y => y | _ => x2 end).
  split; vm_compute; reflexivity.
Qed.

Example C11_two_runs_nonvacuous :
  stores_include (x_cids x2) (x_cids (after_canon x1)) /\
  meet_canon_start cid cid_eqb (x_handler x2) = Ok (CanonMet cid (CanonExecuted c_ab), handed x2) /\
  c_ab = first_cid (current_peer x1) (canon_producer (CKStream "#canon") TStreams x1 sv (current_peer x1)).
Proof.
  split; [| split; vm_compute; reflexivity].
  assert (H : forall small big, forallb (fun c => cid_mem c big) small = true ->
                                forall c, cid_mem c small = true -> cid_mem c big = true).
  { intros small big Hall c Hc. apply CanonProofs.cid_mem_in in Hc. rewrite forallb_forall in Hall. apply Hall. exact Hc. }
  unfold stores_include. conjs; apply H; vm_compute; reflexivity.
Qed.

(* a non-designated peer with nothing met: RequestSentBy(itself), the designated peer becomes a next peer *)
Definition x3 : ctx := before_canon (at_peer "Q" empty_data empty_data).
Example C11_only_designated_nonvacuous :
  canon_met x3 (CanonEmpty cid) /\ resolve_peer_id_to_string x3 (PLiteral "P") = POk "P" /\ "P"%string <> current_peer x3 /\
  tr (after_canon x3) = [SAp [generation_stub]; SAp [generation_stub]; SCanon (CanonRequestSentBy "Q")] /\
  x_next_peers (after_canon x3) = ["P"%string] /\ x_cids (after_canon x3) = x_cids x3.
Proof.
  split; [exists (handed x3); vm_compute; reflexivity |].
  split; [reflexivity |]. split; [vm_compute; discriminate |].
  conjs; vm_compute; reflexivity.
Qed.

(* two different results for one position: the stream held only "a" when P ran it in another world *)
Definition c_a : cid := first_cid "P" [VALiteral (JStr "a") "P" 0].
Example C11_unique_nonvacuous :
  c_a <> c_ab /\
  merge_canon_results cid cid_eqb (CanonExecuted c_a) (CanonExecuted c_ab) = Err CanonIncompatibleState /\
  merge_seq (CanonExecuted c_ab) [(AsPrevious, CanonRequestSentBy "Q"); (AsCurrent, CanonExecuted c_ab); (AsCurrent, CanonRequestSentBy "R")]
    = Ok (CanonExecuted c_ab) /\
  (* the state forged by Q ("I, Q, executed the canon designated to P") is refused by verify_canon *)
  handle_canon_executed (CKStream "#canon") (set_cids x3 {| cs_values := []; cs_tetraplets := [CTetraplet (canon_tetraplet "Q")]; cs_canon_elems := [];
                                         cs_canon_results := [first_cid "Q" []]; cs_services := [] |} [])
                        (PLiteral "P") (first_cid "Q" []) =
    XErr (EUncatch (UInstructionParametersMismatch "canon tetraplet"))
         (set_cids x3 {| cs_values := []; cs_tetraplets := [CTetraplet (canon_tetraplet "Q")]; cs_canon_elems := [];
                         cs_canon_results := [first_cid "Q" []]; cs_services := [] |} []).
Proof.
  split; [discriminate |]. conjs; vm_compute; reflexivity.
Qed.

(* the stream-map forms: `(seq (ap ("k" "v") %m) (canon "P" %m sc))` at P binds the scalar to the object
   {"k": "v"}; `(canon "P" %m #%cm)` canonicalizes the {key, value} pairs themselves *)
Definition mv : var := {| v_name := "%m"; v_pos := 9 |}.
Definition xm : ctx :=
  match exec stream_instr 20 (IApMap "ap" (KLiteral "k") (ALiteral "v") mv) (initial_ctx (at_peer "P" empty_data empty_data)) with
  | XOk x => x | _ => initial_ctx (at_peer "P" empty_data empty_data) end.
Example C11_maps_nonvacuous :
  map va_result (canon_producer (CKMapScalar "sc") TMaps xm mv "P") = [JObj [("k"%string, JStr "v")]] /\
  map va_result (canon_producer (CKMap "#%cm") TMaps xm mv "P") = [JObj [("key"%string, JStr "k"); ("value"%string, JStr "v")]] /\
  (exists y, exec_canon_generic (CKMapScalar "sc") TMaps xm (PLiteral "P") mv = XOk y /\
             option_map va_result (match Scalars.get_value vagg (x_scalars y) "sc" with inl o => o | _ => None end)
             = Some (JObj [("k"%string, JStr "v")])) /\
  (exists y, exec_canon_generic (CKMap "#%cm") TMaps xm (PLiteral "P") mv = XOk y).
Proof.
  conjs; try (vm_compute; reflexivity).
  - exists (match exec_canon_generic (CKMapScalar "sc") TMaps xm (PLiteral "P") mv with XOk y => y | _ => xm end).
    split; vm_compute; reflexivity.
  - exists (match exec_canon_generic (CKMap "#%cm") TMaps xm (PLiteral "P") mv with XOk y => y | _ => xm end).
    vm_compute; reflexivity.
Qed.

Print Assumptions C11_reuse.
Print Assumptions C11_first.
Print Assumptions C11_only_designated.
Print Assumptions C11_unique.
Print Assumptions C11_two_runs.
Print Assumptions C11_source_tie.
Print Assumptions C11_partial.
