#!/bin/sh
# usage: tools/seed_eval.sh <seeded-id> [Cxx ...]
# Applies /verif/seeded/<id>/patch.diff to /repo's working tree, runs the quick check of the property it breaks
# (or the given ones), prints the verdict lines, and ALWAYS restores /repo's working tree afterwards.
cd "$(dirname "$0")/.."
ID=$1; shift
D=$(pwd)/seeded/$ID
[ -f $D/patch.diff ] || { echo "no $D/patch.diff"; exit 2; }
PROPS="$@"
[ -z "$PROPS" ] && PROPS=$(python3 -c "import json,os;f='$D/meta.json' if os.path.exists('$D/meta.json') else '$D/meta.agent.json';m=json.load(open(f));print(' '.join(m.get('run_checks') or [m['property']]))")
if [ -n "$(git -C /repo status --porcelain)" ]; then echo "/repo working tree is not clean"; exit 2; fi
git -C /repo apply $D/patch.diff || { echo "patch does not apply"; exit 2; }
mkdir -p .cache/seeded
for p in $PROPS; do
  # the evidence of the unchanged tree must survive: a run on a mutated tree must never be committed as evidence
  [ -f evidence/$p.json ] && cp evidence/$p.json .cache/seeded/evidence.$p.json.keep
  VERIF_SEED=${VERIF_SEED:-1} timeout 3000 ./check $p --tier quick > .cache/seeded/$ID.$p.log 2>&1
  rc=$?
  echo "== $ID / $p: exit $rc"
  grep -E '^(VIOLATION|KNOWN-FINDING|\[C[0-9]+\] )' .cache/seeded/$ID.$p.log | cut -c1-300
  cp evidence/$p.json .cache/seeded/$ID.$p.evidence.json 2>/dev/null
  [ -f .cache/seeded/evidence.$p.json.keep ] && mv .cache/seeded/evidence.$p.json.keep evidence/$p.json
done
git -C /repo checkout -- . && git -C /repo status --short
