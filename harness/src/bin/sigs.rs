//! `sigs`: C15 driver.  One JSON scenario per input line ->
//! one JSON line {"coq": [terms of SigCases.case_t ...], "classes": [...], "info": [...]}.
//!
//! scenario = { "peers": [...], "init": 0, "particle_id": "...",
//!              "worlds": [ {"script": "...", "services": [...], "ops": [...]|null} , ... ],
//!              "step_pairs": true|false,            // every real run (prev, cur) of every world is a pair
//!              "pairs": [ [w_prev, i_prev, w_cur, i_cur, "tamper"], ... ] }
//!
//! Every world is a real history of the same particle id run with `aquah::sim::Net` (the peers sign
//! their own results).  Snapshots are the data produced by the runs; index k >= 0 of a pair selects
//! snapshot (k mod (n+1)) - 1 of that world, -1 being the empty data; k < 0 counts from the last
//! snapshot.  Two layers per pair:
//!   (a) direct: the real `DataVerifier::new(prev)`, `::new(cur)`, `cur.verify()`, `prev.merge(cur)`;
//!   (b) the real `air::execute_air(prev, cur)` at the peer that owns prev.
//! The per-peer CID lists are re-derived from the decoded trace and CID stores exactly the way the
//! private `collect_peers_cids_from_trace` reads them.  Real signatures are printed as symbolic
//! terms by actually verifying the bytes against candidate (signer, cid list, salt) triples.

use air_interpreter_data::verification::{DataVerifier, DataVerifierError};
use air_interpreter_data::{CanonResult, ExecutedState, InterpreterData, InterpreterDataEnvelope};
use air_interpreter_signatures::{KeyFormat, KeyPair, PublicKey, Signature, SignatureStore};
use aquah::coqfmt as c;
use aquah::sim::*;
use serde_json::Value as J;
use std::collections::BTreeMap;
use std::io::BufRead;
use std::panic::AssertUnwindSafe;
use std::rc::Rc;

const OTHER_SALT: &str = "another-particle";

/// (peer_pk of the stored tetraplet, cid) for every state `collect_peers_cids_from_trace` looks at,
/// in trace order.
fn attribution(d: &InterpreterData) -> Result<Vec<(String, Rc<str>)>, String> {
    let mut out = vec![];
    for elt in &d.trace {
        match elt {
            ExecutedState::Call(call) => {
                if let Some(cid) = call.get_cid() {
                    let sr = d.cid_info.service_result_store.get(cid).ok_or("service result not in store")?;
                    let t = d.cid_info.tetraplet_store.get(&sr.tetraplet_cid).ok_or("tetraplet not in store")?;
                    out.push((t.peer_pk.to_string(), cid.get_inner()));
                }
            }
            ExecutedState::Canon(CanonResult::Executed(cid)) => {
                let cr = d.cid_info.canon_result_store.get(cid).ok_or("canon result not in store")?;
                let t = d.cid_info.tetraplet_store.get(&cr.tetraplet).ok_or("tetraplet not in store")?;
                out.push((t.peer_pk.to_string(), cid.get_inner()));
            }
            _ => {}
        }
    }
    Ok(out)
}

fn peer_list(att: &[(String, Rc<str>)], p: &str) -> Vec<Rc<str>> {
    att.iter().filter(|(q, _)| q == p).map(|(_, c)| c.clone()).collect()
}

fn key_name(pk: &PublicKey) -> String {
    match (pk.validate(), pk.to_peer_id()) {
        (Ok(()), Ok(id)) => id,
        _ => format!("BAD:{}", pk.to_string()),
    }
}

fn cids_term(l: &[Rc<str>]) -> String {
    c::list(l.iter().map(|x| c::s(x)))
}

/// real signature bytes -> symbolic term
struct SigTable {
    known: Vec<(Signature, String)>,
    garbage: Vec<Signature>,
}

struct Candidate {
    id: String,
    pk: PublicKey,
    lists: Vec<Vec<Rc<str>>>,
}

impl SigTable {
    fn term(&mut self, s: &Signature, cands: &[Candidate], salts: &[&str]) -> String {
        if let Some((_, t)) = self.known.iter().find(|(k, _)| k == s) {
            return t.clone();
        }
        for cand in cands {
            for l in &cand.lists {
                for salt in salts {
                    if cand.pk.verify(l, salt, s).is_ok() {
                        let t = format!("(Sig {} {} {})", c::s(&cand.id), cids_term(l), c::s(salt));
                        self.known.push((s.clone(), t.clone()));
                        return t;
                    }
                }
            }
        }
        let i = match self.garbage.iter().position(|g| g == s) {
            Some(i) => i,
            None => {
                self.garbage.push(s.clone());
                self.garbage.len() - 1
            }
        };
        format!("(GarbageSig {})", i)
    }

    /// bytes seen before keep their term; anything else is garbage (no candidate search)
    fn term_known(&mut self, s: &Signature) -> String {
        self.term(s, &[], &[])
    }
}

fn store_sorted(st: &SignatureStore) -> Vec<(String, Signature)> {
    let mut v: Vec<(String, Signature)> = st.iter().map(|(pk, s)| (key_name(pk), s.clone())).collect();
    v.sort_by(|a, b| a.0.cmp(&b.0));
    v
}

fn without(st: &SignatureStore, k: usize) -> SignatureStore {
    let mut keys: Vec<(String, PublicKey, Signature)> = st.iter().map(|(pk, s)| (key_name(pk), pk.clone(), s.clone())).collect();
    keys.sort_by(|a, b| a.0.cmp(&b.0));
    let mut out = SignatureStore::new();
    if keys.is_empty() {
        return out;
    }
    let drop = k % keys.len();
    for (i, (_, pk, s)) in keys.into_iter().enumerate() {
        if i != drop {
            out.put(pk, s);
        }
    }
    out
}

fn keypair_of(name: &str) -> KeyPair {
    KeyPair::from_secret_key(secret_of(name), KeyFormat::Ed25519).expect("key")
}

fn bad_key(seed: u64) -> Option<PublicKey> {
    // any base58 string deserialises into a PublicKey; these bytes are not a protobuf-encoded key
    let txt = format!("\"badkey{}\"", ["A", "B", "C", "D"][(seed % 4) as usize]);
    serde_json::from_str::<PublicKey>(&txt).ok()
}

/// structural edits of a decoded data; returns None when the edit does not apply
fn tamper(name: &str, prev: &mut InterpreterData, cur: &mut InterpreterData, salt: &str, seed: u64) -> Option<()> {
    let k = seed as usize;
    match name {
        "none" | "salt" => {}
        "cur_swap_sigs" => {
            let mut v: Vec<(PublicKey, Signature)> = cur.signatures.iter().map(|(p, s)| (p.clone(), s.clone())).collect();
            if v.len() < 2 {
                return None;
            }
            v.sort_by_key(|a| key_name(&a.0));
            let i = k % v.len();
            let j = (i + 1 + (k / 7) % (v.len() - 1)) % v.len();
            let (si, sj) = (v[i].1.clone(), v[j].1.clone());
            if si == sj {
                return None;
            }
            cur.signatures.put(v[i].0.clone(), sj);
            cur.signatures.put(v[j].0.clone(), si);
        }
        "cur_drop_sig" => {
            if cur.signatures.is_empty() {
                return None;
            }
            cur.signatures = without(&cur.signatures, k);
        }
        "prev_drop_sig" => {
            if prev.signatures.is_empty() {
                return None;
            }
            prev.signatures = without(&prev.signatures, k);
        }
        "cur_bad_key" => {
            let sig = store_sorted(&cur.signatures).into_iter().chain(store_sorted(&prev.signatures)).next()?.1;
            cur.signatures.put(bad_key(seed)?, sig);
        }
        "prev_bad_key" => {
            let sig = store_sorted(&prev.signatures).into_iter().chain(store_sorted(&cur.signatures)).next()?.1;
            prev.signatures.put(bad_key(seed)?, sig);
        }
        "cur_extra_signer" => {
            // a peer without any result signs the empty set: legitimate
            let kp = keypair_of("Z");
            let s = air_interpreter_signatures::sign_cids(vec![], salt, kp.as_inner()).ok()?;
            cur.signatures.put(kp.public(), s.into());
        }
        "cur_extra_signer_wrong" => {
            let kp = keypair_of("Z");
            let s = air_interpreter_signatures::sign_cids(vec![Rc::from("not-a-cid")], salt, kp.as_inner()).ok()?;
            cur.signatures.put(kp.public(), s.into());
        }
        "prev_foreign_sig" => {
            // previous data is trusted by the code: give one of its peers somebody else's signature
            let mut v: Vec<(PublicKey, Signature)> = prev.signatures.iter().map(|(p, s)| (p.clone(), s.clone())).collect();
            if v.len() < 2 {
                return None;
            }
            v.sort_by_key(|a| key_name(&a.0));
            let i = k % v.len();
            let j = (i + 1) % v.len();
            if v[i].1 == v[j].1 {
                return None;
            }
            prev.signatures.put(v[i].0.clone(), v[j].1.clone());
        }
        _ => return None,
    }
    Some(())
}

fn decode(bytes: &[u8]) -> Result<InterpreterData, String> {
    if bytes.is_empty() {
        return Ok(InterpreterData::default());
    }
    decode_data(bytes).map(|d| d.data)
}

fn reencode(orig: &[u8], fallback: &[u8], d: &InterpreterData) -> Option<Vec<u8>> {
    let src = if orig.is_empty() { fallback } else { orig };
    let env = InterpreterDataEnvelope::try_from_slice(src).ok()?;
    let inner = d.serialize().ok()?;
    let env2 = InterpreterDataEnvelope { versions: env.versions.clone(), inner_data: inner.into() };
    env2.serialize().ok()
}

fn dv_error(e: &DataVerifierError) -> (String, String) {
    match e {
        DataVerifierError::MalformedKey { key, .. } => ("MalformedKey".into(), format!("BAD:{}", key)),
        DataVerifierError::MalformedSignature(_) => ("MalformedSignature".into(), String::new()),
        DataVerifierError::PeerIdNotFound(p) => ("PeerIdNotFound".into(), p.clone()),
        DataVerifierError::SignatureMismatch { peer_id, .. } => ("SignatureMismatch".into(), peer_id.clone()),
        DataVerifierError::MergeMismatch { peer_id, .. } => ("MergeMismatch".into(), peer_id.clone()),
        DataVerifierError::CidNotFound { .. } => ("CidNotFound".into(), String::new()),
    }
}

fn direct(prev: &InterpreterData, cur: &InterpreterData, salt: &str) -> Result<Result<SignatureStore, DataVerifierError>, String> {
    std::panic::catch_unwind(AssertUnwindSafe(|| {
        let pv = DataVerifier::new(prev, salt)?;
        let cv = DataVerifier::new(cur, salt)?;
        // prev_data is always correct, check only current_data
        cv.verify()?;
        pv.merge(cv)
    }))
    .map_err(|_| "panic in DataVerifier".to_string())
}

/// multiset intersection size
fn common(a: &[Rc<str>], b: &[Rc<str>]) -> usize {
    let mut m: BTreeMap<&str, usize> = BTreeMap::new();
    for x in a {
        *m.entry(x).or_default() += 1;
    }
    let mut n = 0;
    for y in b {
        if let Some(k) = m.get_mut(&**y) {
            if *k > 0 {
                *k -= 1;
                n += 1;
            }
        }
    }
    n
}

fn has_dup(a: &[Rc<str>]) -> bool {
    let mut v: Vec<&str> = a.iter().map(|x| &**x).collect();
    v.sort();
    v.windows(2).any(|w| w[0] == w[1])
}

struct Snapshot {
    owner: usize,
    data: Vec<u8>,
}

struct PairSpec {
    kind: String,
    observer: usize,
    script_world: usize,
    prev: Vec<u8>,
    cur: Vec<u8>,
    tamper: String,
    seed: u64,
    recorded: Option<RunOut>,
}

fn main() {
    quiet_panics();
    let stdin = std::io::stdin();
    for line in stdin.lock().lines() {
        let line = match line {
            Ok(l) => l,
            Err(_) => break,
        };
        if line.trim().is_empty() {
            continue;
        }
        let case: J = match serde_json::from_str(&line) {
            Ok(c) => c,
            Err(e) => {
                println!("{}", serde_json::json!({"error": format!("bad case: {e}")}));
                continue;
            }
        };
        println!("{}", run_case(&case));
    }
}

fn run_case(case: &J) -> J {
    let peers: Vec<String> = case["peers"].as_array().map(|a| a.iter().filter_map(|x| x.as_str().map(String::from)).collect()).unwrap_or_default();
    if peers.is_empty() {
        return serde_json::json!({"error": "no peers"});
    }
    let init = case["init"].as_u64().unwrap_or(0) as usize % peers.len();
    let particle = case["particle_id"].as_str().unwrap_or("particle-1").to_string();
    let empty = vec![];
    let worlds = case["worlds"].as_array().unwrap_or(&empty);
    if worlds.is_empty() {
        return serde_json::json!({"error": "no worlds"});
    }
    let peer_objs: Vec<Peer> = peers.iter().map(|p| Peer::new(p)).collect();

    // ---- real histories ----
    let mut scripts: Vec<String> = vec![];
    let mut snaps: Vec<Vec<Snapshot>> = vec![];
    let mut specs: Vec<PairSpec> = vec![];
    let step_pairs = case["step_pairs"].as_bool().unwrap_or(false);
    for (wi, w) in worlds.iter().enumerate() {
        let script = Net::instantiate(w["script"].as_str().unwrap_or("(null)"), &peers);
        let services = Services::from_json(&w["services"]);
        let mut net = Net::new(&script, &peers, init, services, &particle);
        let mut recs = vec![];
        if let Some(r) = net.exec(&Op::Start) {
            recs.push(r);
        }
        if w["ops"].is_array() {
            for op in ops_from_json(&w["ops"]) {
                if let Some(r) = net.exec(&op) {
                    recs.push(r);
                }
            }
        }
        recs.extend(net.drain(60));
        let mut ss: Vec<Snapshot> = vec![];
        for r in recs {
            // every successful run is a snapshot: no de-duplication by bytes (the byte order of the maps inside the
            // data depends on hash seeds, the number of snapshots must not)
            if r.out.panic.is_none() && r.out.code == 0 {
                ss.push(Snapshot { owner: r.peer, data: r.out.data.clone() });
            }
            if step_pairs {
                specs.push(PairSpec {
                    kind: "step".into(),
                    observer: r.peer,
                    script_world: wi,
                    prev: r.input.prev.clone(),
                    cur: r.input.cur.clone(),
                    tamper: "none".into(),
                    seed: 0,
                    recorded: Some(r.out.clone()),
                });
            }
        }
        scripts.push(script);
        snaps.push(ss);
    }
    if let Some(ps) = case["pairs"].as_array() {
        for (pi, p) in ps.iter().enumerate() {
            let wp = p[0].as_u64().unwrap_or(0) as usize % worlds.len();
            let wc = p[2].as_u64().unwrap_or(0) as usize % worlds.len();
            // k >= 0: snapshot (k mod (n+1)) - 1, -1 being the empty data; k < 0: counted from the last snapshot
            let pick = |w: usize, k: i64| -> (Option<usize>, Vec<u8>) {
                let n = snaps[w].len();
                let i = if k >= 0 { (k as usize) % (n + 1) } else if n == 0 { 0 } else { n - ((-(k + 1)) as usize % n) };
                if i == 0 { (None, vec![]) } else { (Some(snaps[w][i - 1].owner), snaps[w][i - 1].data.clone()) }
            };
            let (owner, prev) = pick(wp, p[1].as_i64().unwrap_or(0));
            let (_, cur) = pick(wc, p[3].as_i64().unwrap_or(0));
            let kind = if wp == wc { "same-world" } else { "cross-world" };
            specs.push(PairSpec {
                kind: kind.into(),
                observer: owner.unwrap_or(init),
                script_world: wp,
                prev,
                cur,
                tamper: p[4].as_str().unwrap_or("none").to_string(),
                seed: (p[1].as_i64().unwrap_or(0) as u64).wrapping_mul(31).wrapping_add(p[3].as_i64().unwrap_or(0) as u64).wrapping_add(pi as u64),
                recorded: None,
            });
        }
    }

    // ---- pairs ----
    let mut terms = vec![];
    let mut classes = vec![];
    let mut infos = vec![];
    let mut skipped = 0;
    for sp in &specs {
        match one_pair(sp, &peer_objs, init, &particle, &scripts) {
            Some((t, cls, info)) => {
                terms.push(t);
                classes.push(cls);
                infos.push(info);
            }
            None => skipped += 1,
        }
    }
    let nsn: Vec<usize> = snaps.iter().map(|s| s.len()).collect();
    serde_json::json!({"coq": terms, "classes": classes, "info": infos, "snapshots": nsn, "skipped": skipped})
}

fn one_pair(sp: &PairSpec, peers: &[Peer], init: usize, particle: &str, scripts: &[String]) -> Option<(String, String, J)> {
    let mut prev = decode(&sp.prev).ok()?;
    let mut cur = decode(&sp.cur).ok()?;
    let salt: &str = if sp.tamper == "salt" { OTHER_SALT } else { particle };
    tamper(&sp.tamper, &mut prev, &mut cur, salt, sp.seed)?;
    let tampered = sp.tamper != "none" && sp.tamper != "salt";
    let (prev_bytes, cur_bytes) = if tampered {
        let fb = if sp.prev.is_empty() { &sp.cur } else { &sp.prev };
        let pb = if sp.tamper.starts_with("prev_") { reencode(&sp.prev, fb, &prev)? } else { sp.prev.clone() };
        let cb = if sp.tamper.starts_with("cur_") { reencode(&sp.cur, fb, &cur)? } else { sp.cur.clone() };
        (pb, cb)
    } else {
        (sp.prev.clone(), sp.cur.clone())
    };

    let att_p = attribution(&prev).ok()?;
    let att_c = attribution(&cur).ok()?;

    // candidates for the classification of signature bytes
    let mut cands: Vec<Candidate> = vec![];
    let add = |id: String, pk: PublicKey, cands: &mut Vec<Candidate>| {
        if cands.iter().any(|c| c.id == id) {
            return;
        }
        let mut lp = peer_list(&att_p, &id);
        lp.sort_unstable();
        let mut lc = peer_list(&att_c, &id);
        lc.sort_unstable();
        cands.push(Candidate { id, pk, lists: vec![lp, lc, vec![], vec![Rc::from("not-a-cid")]] });
    };
    for p in peers {
        add(p.id.clone(), keypair_of(&p.name).public(), &mut cands);
    }
    let z = keypair_of("Z").public();
    if let Ok(zid) = z.to_peer_id() {
        add(zid, z, &mut cands);
    }
    for st in [&prev.signatures, &cur.signatures] {
        for (pk, _) in st.iter() {
            if pk.validate().is_ok() {
                if let Ok(id) = pk.to_peer_id() {
                    add(id, pk.clone(), &mut cands);
                }
            }
        }
    }
    let salts = [particle, OTHER_SALT];
    let mut table = SigTable { known: vec![], garbage: vec![] };

    let data_term = |att: &[(String, Rc<str>)], st: &SignatureStore, table: &mut SigTable| -> String {
        let tr = c::list(att.iter().map(|(p, cid)| c::pair(&c::s(p), &c::s(cid))));
        let sg = c::list(store_sorted(st).iter().map(|(k, s)| c::pair(&c::s(k), &table.term(s, &cands, &salts))));
        format!("(MkData {} {})", tr, sg)
    };
    let prev_term = data_term(&att_p, &prev.signatures, &mut table);
    let cur_term = data_term(&att_c, &cur.signatures, &mut table);

    // (a) the real DataVerifier
    let (direct_term, verdict) = match direct(&prev, &cur, salt) {
        Err(p) => (format!("(ObsErr {} {})", c::s("PANIC"), c::s(&p)), "panic".to_string()),
        Ok(Err(e)) => {
            let (k, s) = dv_error(&e);
            (format!("(ObsErr {} {})", c::s(&k), c::s(&s)), k)
        }
        Ok(Ok(store)) => {
            let l = c::list(store_sorted(&store).iter().map(|(k, s)| c::pair(&c::s(k), &table.term_known(s))));
            (format!("(ObsOk {})", l), "accepted".to_string())
        }
    };
    let cid_ok = cur.cid_info.verify().is_ok();

    // (b) the real execute_air at the owner of prev
    let obs = &peers[sp.observer % peers.len()];
    let out = match (&sp.recorded, sp.tamper.as_str()) {
        (Some(o), "none") => o.clone(),
        _ => run(&RunInput {
            air: scripts[sp.script_world % scripts.len()].clone(),
            prev: prev_bytes.clone(),
            cur: cur_bytes.clone(),
            init_peer_id: peers[init].id.clone(),
            current_peer_id: obs.id.clone(),
            secret: obs.secret.clone(),
            key_format: 0,
            particle_id: salt.to_string(),
            timestamp: 1700000000,
            ttl: 3600,
            limits: Limits::unlimited(),
            call_results: BTreeMap::new(),
            call_results_raw: None,
        }),
    };
    let out_sigs = match decode(&out.data) {
        Ok(d) if out.panic.is_none() => c::list(store_sorted(&d.signatures).iter().map(|(k, s)| c::pair(&c::s(k), &table.term_known(s)))),
        _ => "[]".to_string(),
    };
    // only meaningful for a failed run (a successful run that changes nothing may still permute the maps inside the bytes)
    let same = out.code != 0 && out.data == prev_bytes;
    let run_term = format!("(Some (MkRun {} {} {} {}))", c::s(&obs.id), c::z(out.code as i128), c::b(same), out_sigs);

    let term = format!("(MkCase {} {} {} {} {} {})", c::s(salt), c::b(cid_ok), prev_term, cur_term, direct_term, run_term);

    // shape of the per-peer multiset pairs, for the evidence
    let mut ids: Vec<String> = att_p.iter().chain(att_c.iter()).map(|(p, _)| p.clone()).collect();
    ids.sort();
    ids.dedup();
    let mut shape: Vec<(usize, usize, usize, bool)> = vec![];
    let mut relation = "nested";
    let mut all_equal = true;
    for id in &ids {
        let a = peer_list(&att_p, id);
        let b = peer_list(&att_c, id);
        let k = common(&a, &b);
        if k < a.len() && k < b.len() {
            relation = "incomparable";
        }
        if !(k == a.len() && k == b.len()) {
            all_equal = false;
        }
        shape.push((a.len(), b.len(), k, has_dup(&a) || has_dup(&b)));
    }
    shape.sort();
    if relation == "nested" && all_equal {
        relation = "equal";
    }
    let dup = shape.iter().any(|s| s.3);
    let cls = format!("{}/{}/{}{}/{}/run={}", sp.kind, sp.tamper, relation, if dup { "+dup" } else { "" }, verdict, out.code);
    let info = serde_json::json!({
        "kind": sp.kind, "tamper": sp.tamper, "relation": relation, "dup": dup, "verdict": verdict,
        "run_code": out.code, "run_same": same, "run_panic": out.panic, "shape": shape, "cid_ok": cid_ok,
        "prev_len": sp.prev.len(), "cur_len": sp.cur.len(), "observer": obs.name,
    });
    Some((term, cls, info))
}
