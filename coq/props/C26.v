(* props/C26.v -- the interpreter's JSON value type is faithful to JSON.
   Only pinned statements, [exact], non-vacuity examples and Print Assumptions.
   The statements are defined in model/JsonText.v next to the functions they talk about. *)
From Aqua Require Import Base Json JsonText JsonTextCases JsonFacts JsonTextProofs.
Open Scope N_scope.
Open Scope string_scope.

(* Printing then parsing gives the value back: for EVERY float reader [parse_float], every well-formed
   value (all strings = all byte sequences, all integers of [i64::MIN, u64::MAX], objects with sorted keys)
   whose floats are float tokens that [parse_float] reads back as themselves.
   "partial" only with respect to C26_roundtrip_full: the premise [json_depth j < 128] is serde_json's
   recursion limit, which the real parser has and the real printer has not. *)
Theorem C26_roundtrip_partial : C26_roundtrip_stmt.
Proof. exact C26_roundtrip_holds. Qed.

(* the full statement ("all JSON values") is false in the faithful model, with a witness: 128 nested arrays *)
Theorem C26_roundtrip_refuted :
  exists (pf : string -> option string) (j : json),
    wf_json j = true /\ Forall (float_fixed pf) (floats_of j) /\ parse pf (print j) = None.
Proof. exact roundtrip_refuted. Qed.

Theorem C26_roundtrip_full_false : ~ C26_roundtrip_full.
Proof. exact roundtrip_full_false. Qed.

(* token level: the parser consumes exactly the printed value and leaves the rest, at any nesting budget
   above the value's depth and any fuel above a value-dependent bound *)
Theorem C26_prefix : C26_prefix_stmt.
Proof. exact C26_prefix_holds. Qed.

(* the same round trip with the float reader's laws as explicit hypotheses about a set of canonical texts *)
Theorem C26_roundtrip_canonical :
  forall (parse_float : string -> option string) (canonical : string -> Prop),
    (forall r, canonical r -> float_token r = true) ->
    (forall r, canonical r -> parse_float r = Some r) ->
    forall j, wf_json j = true -> json_depth j < recursion_limit -> Forall canonical (floats_of j) ->
      parse parse_float (print j) = Some j.
Proof. exact roundtrip_canonical. Qed.

(* values without floats: no hypothesis about the outside world *)
Theorem C26_roundtrip_nofloat :
  forall (parse_float : string -> option string) (j : json),
    wf_json j = true -> json_depth j < recursion_limit -> floats_of j = [] ->
    parse parse_float (print j) = Some j.
Proof. exact roundtrip_nofloat. Qed.

(* integer literals of any size: exactly [i64::MIN, u64::MAX] stay integers, the rest is read as f64 *)
Theorem C26_classify : C26_classify_stmt.
Proof. exact C26_classify_holds. Qed.

Theorem C26_conversions : C26_conversions_stmt.
Proof. exact C26_conversions_holds. Qed.

Theorem C26_eq : C26_eq_stmt.
Proof. exact C26_eq_holds. Qed.

Theorem C26_mixed : C26_mixed_stmt.
Proof. exact C26_mixed_holds. Qed.

Theorem C26_jobj : C26_jobj_stmt.
Proof. exact C26_jobj_holds. Qed.

(* the enum, the map type, the locked serde_json (version, features, recursion limit, hex digits), the
   visitor / conversion shapes and the table of mixed comparisons are the ones found in the sources today *)
Theorem C26_source_tie : jsonvalue_source_agrees = true.
Proof. exact jsonvalue_source_ok. Qed.

(* ---- non-vacuity ---- *)

(* a float reader that knows two canonical texts *)
Definition C26_example_reader (t : string) : option string :=
  if String.eqb t "1.5e10" then Some t
  else if String.eqb t "-0.0" then Some t
  else if String.eqb t "18446744073709551616" then Some "1.8446744073709552e19"
  else if String.eqb t "-9223372036854775809" then Some "-9.223372036854776e18"
  else if String.eqb t "-0" then Some "-0.0"
  else None.

(* nested value: escaped key, every escape class, raw UTF-8 bytes (e4 bd a0, f0 9f 98 80), boundary integers;
   [hx] (model/JsonTextCases.v) turns hex digits into bytes *)
Definition C26_example_value : json :=
  JObj [ ("", JNull);
         ("a""b\c", JArr [ JInt (-9223372036854775808)%Z; JInt 18446744073709551615%Z; JInt 0%Z;
                           JFloat "1.5e10"; JFloat "-0.0"; JBool true; JArr []; JObj [] ]);
         ("s", JStr (hx "080c0a0d09001f7fe4bda0f09f9880" ++ "/""\"));
         ("z", JObj [("k", JArr [JStr "v"])]) ].

Example C26_example_premises :
  wf_json C26_example_value = true /\ json_depth C26_example_value < recursion_limit /\
  Forall (float_fixed C26_example_reader) (floats_of C26_example_value).
Proof.
  split; [vm_compute; reflexivity|]. split; [vm_compute; reflexivity|].
  replace (floats_of C26_example_value) with ["1.5e10"; "-0.0"] by (vm_compute; reflexivity).
  repeat constructor.
Qed.

Example C26_example_text :
  print C26_example_value =
  String.concat ""
    [ "{"""":null,""a\""b\\c"":[-9223372036854775808,18446744073709551615,0,1.5e10,-0.0,true,[],{}],""s"":""\b\f\n\r\t\u0000\u001f";
      hx "7fe4bda0f09f9880";
      "/\""\\"",""z"":{""k"":[""v""]}}" ] /\
  parse C26_example_reader (print C26_example_value) = Some C26_example_value.
Proof. vm_compute. split; reflexivity. Qed.

(* number classification at the boundaries, alternative spellings, escapes with surrogate pairs,
   duplicate keys (last wins), whitespace, rejection *)
Example C26_example_parse :
  parse C26_example_reader "18446744073709551615" = Some (JInt 18446744073709551615%Z) /\
  parse C26_example_reader "18446744073709551616" = Some (JFloat "1.8446744073709552e19") /\
  parse C26_example_reader "-9223372036854775808" = Some (JInt (-9223372036854775808)%Z) /\
  parse C26_example_reader "-9223372036854775809" = Some (JFloat "-9.223372036854776e18") /\
  parse C26_example_reader "-0" = Some (JFloat "-0.0") /\
  parse C26_example_reader " { ""b"" : 1 , ""a"":[ ] , ""b"":""😀é\/"" } " =
    Some (JObj [("a", JArr []);
                ("b", JStr (hx "f09f9880c3a9" ++ "/"))]) /\
  parse C26_example_reader "[1,]" = None /\ parse C26_example_reader "01" = None /\
  parse C26_example_reader """\ud83d""" = None /\ parse C26_example_reader "1e400" = None /\
  parse C26_example_reader (print (nest 127 (JInt 7))) = Some (nest 127 (JInt 7)) /\
  parse C26_example_reader (print (nest 128 (JInt 7))) = None.
Proof. vm_compute. repeat split. Qed.

Example C26_example_eq :
  jv_eq (JArr [JFloat "0.0"]) (JArr [JFloat "-0.0"]) = true /\ json_eqb (JArr [JFloat "0.0"]) (JArr [JFloat "-0.0"]) = false /\
  eq_i64 (JInt 9223372036854775808%Z) 9223372036854775807%Z = false /\ eq_u64 (JInt 9223372036854775808%Z) 9223372036854775808%Z = true /\
  eq_i64 (JInt (-1)%Z) (-1)%Z = true /\ eq_u64 (JInt (-1)%Z) 18446744073709551615%Z = false /\
  eq_str (JStr "a") "a" = true /\ eq_bool JNull false = false /\
  jobj_of [("b", JInt 1%Z); ("a", JInt 2%Z); ("b", JInt 3%Z)] = JObj [("a", JInt 2%Z); ("b", JInt 3%Z)].
Proof. vm_compute. repeat split. Qed.

Print Assumptions C26_roundtrip_partial.
Print Assumptions C26_roundtrip_refuted.
Print Assumptions C26_roundtrip_full_false.
Print Assumptions C26_prefix.
Print Assumptions C26_roundtrip_canonical.
Print Assumptions C26_roundtrip_nofloat.
Print Assumptions C26_classify.
Print Assumptions C26_conversions.
Print Assumptions C26_eq.
Print Assumptions C26_mixed.
Print Assumptions C26_jobj.
Print Assumptions C26_source_tie.
