(* props/C09.v -- merging never forgets a result.
   Statements: model/KeepSpec.v; proofs: proofs/KeepProofs.v. *)
From Aqua Require Import Base Json Air Trace Handler Values Scalars Lens Exec RunExec ExecCases KeepSpec.
From Aqua Require Import KeepProofs.
Open Scope N_scope.
Open Scope list_scope.

(* the whole property over the model (every run that returns new data keeps every executed / failed
   call result and every executed canon result of the previous and of the current data, as multisets
   by content id).  Kept as a definition: refuted outside the scalar fragment by the known finding
   stream-fold-cursor-hole (a recursive stream fold loses an iteration with its executed call). *)
Definition C09_full : Prop := KeepSpec.C09_full.

(* C09_stores: the CID stores of the produced data contain the stores of the previous and of the
   current data, for every run that returns new data, for every stage-2 hook that only grows the stores *)
Theorem C09_stores : C09_stores_stmt.
Proof. exact stores_kept. Qed.

(* C09_state_keep: the merged state is an upper bound of both sides in the information order; an
   Executed / Failed / CanonExecuted result present on either side comes back with the same content id *)
Theorem C09_state_keep_call : forall C ceqb, C09_call_join_stmt C ceqb.
Proof. exact (fun C ceqb H => call_join C ceqb H H). Qed.
Theorem C09_state_keep_canon : forall C ceqb, C09_canon_join_stmt C ceqb.
Proof. exact (fun C ceqb H => canon_join C ceqb H H). Qed.
(* at the merger functions: what is popped from either slider is below the state handed to the
   executor; a state of another kind is an error, never dropped *)
Theorem C09_state_keep_merger_call : forall C ceqb, C09_merger_call_stmt C ceqb.
Proof. exact (fun C ceqb H => merger_call C ceqb H H). Qed.
Theorem C09_state_keep_merger_canon : forall C ceqb, C09_merger_canon_stmt C ceqb.
Proof. exact (fun C ceqb H => merger_canon C ceqb H H). Qed.
Theorem C09_state_keep_merger_ap : forall C, C09_merger_ap_stmt C.
Proof. exact merger_ap. Qed.

(* the executable oracles decide the statements they stand for *)
Theorem C09_oracle_sound : forall p c o,
  keeps_both_b cid cid_eqb p c o = true <-> keeps_both cid cid_eqb p c o.
Proof. exact (keeps_both_b_spec cid cid_eqb cid_ceqb_spec). Qed.
Theorem C09_union_max : forall p c o, keeps_both cid cid_eqb p c o <->
  forall k, (Nat.max (kcount cid cid_eqb k (knowledge cid p)) (kcount cid cid_eqb k (knowledge cid c))
             <= kcount cid cid_eqb k (knowledge cid o))%nat.
Proof. exact (keeps_both_max cid cid_eqb). Qed.
Theorem C09_stores_oracle_sound : forall a b, cid_state_incl_b a b = true <-> cid_state_incl a b.
Proof. exact cid_state_incl_b_spec. Qed.

(* non-vacuity *)
Example C09_join_upgrades_pending :
  merge_call_results string String.eqb (RequestSentBy (SPeer "A")) (Failed "c") = Ok (Failed "c", SchCurrent) /\
  merge_call_results string String.eqb (Executed (VRStream "c" 3)) (Executed (VRStream "c" 0)) = Ok (Executed (VRStream "c" 3), SchBoth).
Proof. vm_compute. split; reflexivity. Qed.
Example C09_oracle_detects_loss :
  keeps_both_b string String.eqb [SCall (Executed (VRScalar "a")); SCall (Executed (VRScalar "a"))] [] [SCall (Executed (VRScalar "a"))] = false /\
  keeps_both_b string String.eqb [SCall (Executed (VRScalar "a"))] [SCall (Executed (VRScalar "a")); SCall (Failed "b")]
                                 [SPar 1 1; SCall (Executed (VRScalar "a")); SCall (Failed "b")] = true.
Proof. vm_compute. split; reflexivity. Qed.

Print Assumptions C09_stores.
Print Assumptions C09_state_keep_call.
Print Assumptions C09_state_keep_canon.
Print Assumptions C09_state_keep_merger_call.
Print Assumptions C09_state_keep_merger_canon.
Print Assumptions C09_state_keep_merger_ap.
Print Assumptions C09_oracle_sound.
Print Assumptions C09_union_max.
Print Assumptions C09_stores_oracle_sound.
