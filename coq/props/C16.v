(* C16 -- distributed execution agrees with the sequential meaning of the script.

   The sequential reading is model/SeqSem.v (seq_eval), the fragment model/SeqFrag.v (in_fragment), the
   statements model/SeqLocal.v:
     C16_full         every honest history on several peers  -- a Definition, NOT proved (it needs the
                      approximation invariant of DESIGN appendix B); decided by exploration with the
                      Coq-evaluated reading (checks/C16.py);
     C16_local_full   one peer, the whole fragment            -- a Definition;
   proved here:
     C16_local_partial  one peer, STRAIGHT-LINE scripts (SeqLocal.linear: call with literal target / service /
                      function and literal or scalar arguments, ap of a literal or a scalar, seq, xor, match, mismatch, fail,
                      null, never):
                      the executor model (Exec.exec through RunExec.run1, with the real trace handler model)
                      -- and likewise the complete executor ExecStreams.run2 -- iterated on the peer (run, hand
                      every requested answer back, run again) reaches
                      quiescence and has requested exactly the calls of the sequential reading, one per round,
                      in its order, with its argument values.  The key lemma (SeqLocalProofs.exec_lin): one run
                      whose previous data holds k-1 executed calls and the pending k-th, with the k-th answer
                      among the call results, replays the k-1, executes the k-th and requests exactly the next
                      ready call;
     facts about the reading itself (it is a function of script and services; its answer does not depend on
     the fuel). *)
From Aqua Require Import Base Json Air Exec RunExec SeqSem SeqFrag SeqLocal SeqProofs SeqLocalProofs.
Open Scope N_scope.
Open Scope list_scope.

Theorem C16_reading_fuel_monotone : C16_reading_fuel_monotone_stmt.
Proof. exact seq_eval_fuel_mono. Qed.

Theorem C16_reading_function_of_services : C16_reading_function_of_services_stmt.
Proof. exact seq_eval_ext. Qed.

Theorem C16_local_partial : forall svc ts ttl, C16_local_linear_stmt svc ts ttl.
Proof. exact C16_local_linear. Qed.

(* ---- non-vacuity ---- *)
Definition ex_var (n : string) : var := {| v_name := n; v_pos := 0 |}.
Definition ex_call (p f : string) (args : list value) (out : call_output) : instr :=
  ICall "" {| t_peer := PLiteral p; t_service := SLiteral "s"; t_function := SLiteral f |} args out.
Definition ex_svc (p s f : string) (args : list json) : answer :=
  if String.eqb f "fail" then {| an_code := 1; an_value := Some (JStr "boom") |}
  else {| an_code := 0; an_value := Some (JArr (JStr (f ++ "@" ++ p) :: args)) |}.
(* (seq (call A f [] x) (xor (call B fail [x]) (par (call C g [x]) (call A h [])))) *)
Definition ex_script : instr :=
  ISeq (ex_call "A" "f" [] (OutScalar (ex_var "x")))
       (IXor (ex_call "B" "fail" [VScalar (ex_var "x")] OutNone)
             (IPar (ex_call "C" "g" [VScalar (ex_var "x")] OutNone) (ex_call "A" "h" [] OutNone))).

Example C16_reading_example :
  calls_of (seq_eval ex_svc everything_known "A" 0 0 20 empty_env ex_script) =
  [ {| c_peer := "A"; c_service := "s"; c_fn := "f"; c_args := [] |};
    {| c_peer := "B"; c_service := "s"; c_fn := "fail"; c_args := [JArr [JStr "f@A"]] |};
    {| c_peer := "C"; c_service := "s"; c_fn := "g"; c_args := [JArr [JStr "f@A"]] |};
    {| c_peer := "A"; c_service := "s"; c_fn := "h"; c_args := [] |} ].
Proof. vm_compute. reflexivity. Qed.

(* with nothing known the reading stops at the first call *)
Example C16_reading_nothing_known :
  calls_of (seq_eval ex_svc (known_in []) "A" 0 0 20 empty_env ex_script) =
  [ {| c_peer := "A"; c_service := "s"; c_fn := "f"; c_args := [] |} ].
Proof. vm_compute. reflexivity. Qed.

(* the fragment: the failing call is under an xor; the same script with the xor replaced by a seq is outside *)
Example C16_fragment_example :
  in_fragment (fun _ f => String.eqb f "fail") ex_script = true /\
  in_fragment (fun _ f => String.eqb f "fail")
    (ISeq (ex_call "B" "fail" [] OutNone) (ex_call "A" "h" [] OutNone)) = false /\
  in_fragment (fun _ f => String.eqb f "fail")
    (IXor (IPar (ex_call "B" "fail" [] OutNone) INull) INull) = false.
Proof. vm_compute. repeat split; reflexivity. Qed.

(* the single-peer theorem on a concrete straight-line script: three rounds request the three calls the reading
   makes (f; the failing call with f's result; the handler), the fourth requests nothing *)
Definition ex_svc_full (p s f : string) (args : list json) : service_answer :=
  if String.eqb f "fail" then {| sa_ret_code := 1; sa_text := """boom"""; sa_parsed := Some (JStr "boom") |}
  else {| sa_ret_code := 0; sa_text := ""; sa_parsed := Some (JArr (JStr (f ++ "@" ++ p) :: args)) |}.
Definition ex_linear : instr :=
  ISeq (ex_call "A" "f" [] (OutScalar (ex_var "x")))
       (IXor (ex_call "A" "fail" [VScalar (ex_var "x")] OutNone)
             (ISeq (IAp "" (AScalar (ex_var "x")) (ApScalar (ex_var "z")))
                   (ex_call "A" "h" [VScalar (ex_var "z")] (OutScalar (ex_var "y"))))).
Example C16_local_example :
  linear "A" ex_linear = true /\
  local_rounds ex_svc_full 0 0 4 20 "A" ex_linear empty_data [] =
  Some (map (fun c => [c])
            (calls_of (reading ex_svc_full 0 0 everything_known "A" 20 ex_linear))) /\
  local_rounds2 ex_svc_full 0 0 4 20 "A" ex_linear empty_data [] =
  Some (map (fun c => [c])
            (calls_of (reading ex_svc_full 0 0 everything_known "A" 20 ex_linear))) /\
  length (calls_of (reading ex_svc_full 0 0 everything_known "A" 20 ex_linear)) = 3%nat.
Proof. vm_compute. repeat split; reflexivity. Qed.

Print Assumptions C16_local_partial.
Print Assumptions C16_reading_fuel_monotone.
Print Assumptions C16_reading_function_of_services.
