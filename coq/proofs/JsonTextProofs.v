(* JsonTextProofs.v -- proofs about model/JsonText.v (C26):
   the printer/parser round trip, number classification, conversions, equality, mixed comparisons. *)
From Coq Require Import Lia Decimal DecimalFacts DecimalPos DecimalN Permutation.
From Aqua Require Import Base Json JsonText JsonFacts.
Open Scope N_scope.
Open Scope list_scope.

(* ================================================================================================ *)
(* strings *)

Lemma str_app_nil_r : forall s : string, (s ++ "")%string = s.
Proof. induction s as [|c s IH]; cbn; [reflexivity|]. rewrite IH. reflexivity. Qed.

Lemma str_app_assoc : forall a b c : string, ((a ++ b) ++ c)%string = (a ++ (b ++ c))%string.
Proof. induction a as [|x a IH]; intros b c; cbn; [reflexivity|]. rewrite IH. reflexivity. Qed.

Lemma str_app_length : forall a b : string, String.length (a ++ b)%string = (String.length a + String.length b)%nat.
Proof. induction a as [|x a IH]; intro b; cbn; [reflexivity|]. rewrite IH. reflexivity. Qed.

(* one printed character is read back as that character, whatever follows *)
Lemma parse_chars_char : forall c tail,
  parse_chars (print_char_k c tail) = prepend (String c EmptyString) (parse_chars tail).
Proof. intros c tail. destruct c as [[|] [|] [|] [|] [|] [|] [|] [|]]; reflexivity. Qed.

Lemma parse_chars_print : forall s rest,
  parse_chars (print_chars_k s (String dq rest)) = Some (s, rest).
Proof.
  induction s as [|c s IH]; intro rest; cbn [print_chars_k].
  - reflexivity.
  - rewrite parse_chars_char, IH. reflexivity.
Qed.

Lemma print_char_k_length : forall c k, (S (String.length k) <= String.length (print_char_k c k))%nat.
Proof.
  intros c k. unfold print_char_k.
  repeat match goal with |- context [if ?b then _ else _] => destruct b end; cbn [String.length]; lia.
Qed.

Lemma print_chars_k_length : forall s k, (String.length k <= String.length (print_chars_k s k))%nat.
Proof.
  induction s as [|c s IH]; intro k; cbn [print_chars_k]; [lia|].
  pose proof (print_char_k_length c (print_chars_k s k)). specialize (IH k). lia.
Qed.

Lemma print_string_k_length : forall s k, (2 + String.length k <= String.length (print_string_k s k))%nat.
Proof.
  intros s k. unfold print_string_k. cbn [String.length].
  pose proof (print_chars_k_length s (String dq k)) as H. cbn [String.length] in H. lia.
Qed.

(* ================================================================================================ *)
(* digits *)

Definition no_digit_start (rest : string) : bool :=
  match rest with EmptyString => true | String c _ => negb (is_digit c) end.

Lemma digit_of_none : forall c, is_digit c = false -> digit_of c = None.
Proof. intros c. destruct c as [[|] [|] [|] [|] [|] [|] [|] [|]]; cbv; congruence. Qed.

Lemma digit_of_some : forall c mk, digit_of c = Some mk -> is_digit c = true.
Proof. intros c mk. destruct c as [[|] [|] [|] [|] [|] [|] [|] [|]]; cbv; congruence. Qed.

Lemma lex_digits_nodigit : forall rest, no_digit_start rest = true -> lex_digits rest = (Nil, rest).
Proof.
  intros [|c r] H; [reflexivity|]. cbn in H. apply negb_true_iff in H.
  cbn [lex_digits]. rewrite (digit_of_none c H). reflexivity.
Qed.

Lemma lex_digits_print : forall d rest, no_digit_start rest = true ->
  lex_digits (print_uint_k d rest) = (d, rest).
Proof.
  induction d as [|d IH|d IH|d IH|d IH|d IH|d IH|d IH|d IH|d IH|d IH]; intros rest H; cbn [print_uint_k];
    [apply lex_digits_nodigit; exact H | ..];
    (cbn [lex_digits]; change (digit_of _) with (Some D0) || change (digit_of _) with (Some D1)
     || change (digit_of _) with (Some D2) || change (digit_of _) with (Some D3) || change (digit_of _) with (Some D4)
     || change (digit_of _) with (Some D5) || change (digit_of _) with (Some D6) || change (digit_of _) with (Some D7)
     || change (digit_of _) with (Some D8) || change (digit_of _) with (Some D9)); cbv iota beta;
    rewrite (IH rest H); reflexivity.
Qed.

Lemma lex_digits_app : forall s d s' rest, lex_digits s = (d, s') -> no_digit_start rest = true ->
  lex_digits (s ++ rest)%string = (d, (s' ++ rest)%string).
Proof.
  induction s as [|c s IH]; intros d s' rest H Hr.
  - cbn in H. injection H as <- <-. cbn. apply lex_digits_nodigit. exact Hr.
  - cbn [lex_digits] in H. cbn [append lex_digits]. destruct (digit_of c) as [mk|] eqn:E.
    + destruct (lex_digits s) as [d0 r0] eqn:E0. injection H as <- <-.
      rewrite (IH d0 r0 rest eq_refl Hr). reflexivity.
    + injection H as <- <-. reflexivity.
Qed.

Lemma lex_digits_text : forall s d s', lex_digits s = (d, s') -> s = print_uint_k d s'.
Proof.
  induction s as [|c s IH]; intros d s' H.
  - cbn in H. injection H as <- <-. reflexivity.
  - cbn [lex_digits] in H. destruct (digit_of c) as [mk|] eqn:E.
    + destruct (lex_digits s) as [d0 r0] eqn:E0. injection H as <- <-.
      rewrite (IH d0 r0 eq_refl) at 1.
      destruct c as [[|] [|] [|] [|] [|] [|] [|] [|]]; cbv in E; try discriminate E;
        injection E as <-; reflexivity.
    + injection H as <- <-. reflexivity.
Qed.

Lemma print_uint_k_app : forall d k, print_uint_k d k = (print_uint_k d "" ++ k)%string.
Proof. induction d; intro k; cbn; try reflexivity; rewrite IHd; reflexivity. Qed.

Lemma print_uint_k_length : forall d k, String.length (print_uint_k d k) = (nb_digits d + String.length k)%nat.
Proof. induction d; intro k; cbn; try reflexivity; rewrite IHd; reflexivity. Qed.

(* ---- N.to_uint has no leading zero ---- *)

Lemma pos_to_uint_unorm : forall p, unorm (Pos.to_uint p) = Pos.to_uint p.
Proof.
  intro p. rewrite <- (DecimalPos.Unsigned.to_of (Pos.to_uint p)), DecimalPos.Unsigned.of_to. reflexivity.
Qed.

Lemma pos_to_uint_no_D0 : forall p u, Pos.to_uint p <> D0 u.
Proof.
  intros p u E. pose proof (pos_to_uint_unorm p) as H. rewrite E in H. rewrite unorm_D0 in H.
  destruct (uint_eq_dec u Nil) as [->|Hn].
  - apply (DecimalPos.Unsigned.to_uint_nonzero p). exact E.
  - pose proof (nb_digits_unorm u Hn) as Hl. rewrite H in Hl. cbn [nb_digits] in Hl. lia.
Qed.

Lemma N_to_uint_leading : forall n, leading_zero (N.to_uint n) = false.
Proof.
  intros [|p]; [reflexivity|]. cbn [N.to_uint].
  destruct (Pos.to_uint p) as [|u|u|u|u|u|u|u|u|u|u] eqn:E; try reflexivity.
  exfalso. apply (pos_to_uint_no_D0 p u E).
Qed.

Lemma N_to_uint_nonnil : forall n, N.to_uint n <> Nil.
Proof.
  intros [|p]; [discriminate|]. cbn [N.to_uint]. apply DecimalPos.Unsigned.to_uint_nonnil.
Qed.

(* ================================================================================================ *)
(* number tokens *)

Lemma num_safe_inv : forall c r, num_safe (String c r) = true ->
  is_digit c = false /\ (N_of_ascii c =? 46) = false /\ (N_of_ascii c =? 101) = false /\
  (N_of_ascii c =? 69) = false /\ (N_of_ascii c =? 43) = false /\ (N_of_ascii c =? 45) = false.
Proof.
  intros c r H. cbn [num_safe] in H. apply negb_true_iff in H. unfold is_num_char in H.
  repeat (apply orb_false_iff in H; destruct H as [H ?]). repeat split; assumption.
Qed.

Lemma num_safe_no_digit : forall rest, num_safe rest = true -> no_digit_start rest = true.
Proof.
  intros [|c r] H; [reflexivity|]. destruct (num_safe_inv c r H) as [Hd _]. cbn. rewrite Hd. reflexivity.
Qed.

Lemma lex_frac_safe : forall rest, num_safe rest = true -> lex_frac rest = Some (EmptyString, rest).
Proof.
  intros [|c r] H; [reflexivity|]. destruct (num_safe_inv c r H) as (_ & H46 & _).
  cbn [lex_frac]. rewrite H46. reflexivity.
Qed.

Lemma lex_exp_safe : forall rest, num_safe rest = true -> lex_exp rest = Some (EmptyString, rest).
Proof.
  intros [|c r] H; [reflexivity|]. destruct (num_safe_inv c r H) as (_ & _ & H101 & H69 & _).
  cbn [lex_exp]. rewrite H101, H69. reflexivity.
Qed.

Lemma lex_frac_app : forall s fr s' rest, lex_frac s = Some (fr, s') -> num_safe rest = true ->
  lex_frac (s ++ rest)%string = Some (fr, (s' ++ rest)%string).
Proof.
  intros [|c s] fr s' rest H Hr.
  - cbn in H. injection H as <- <-. cbn. apply lex_frac_safe. exact Hr.
  - cbn [lex_frac] in H. cbn [append lex_frac]. destruct (N_of_ascii c =? 46).
    + destruct (lex_digits s) as [d r] eqn:E.
      rewrite (lex_digits_app s d r rest E (num_safe_no_digit rest Hr)).
      destruct d; try discriminate H; injection H as <- <-; reflexivity.
    + injection H as <- <-. reflexivity.
Qed.

Lemma lex_exp_app : forall s ex s' rest, lex_exp s = Some (ex, s') -> num_safe rest = true ->
  lex_exp (s ++ rest)%string = Some (ex, (s' ++ rest)%string).
Proof.
  intros [|c s] ex s' rest H Hr.
  - cbn in H. injection H as <- <-. cbn. apply lex_exp_safe. exact Hr.
  - cbn [lex_exp] in H. cbn [append lex_exp]. destruct ((N_of_ascii c =? 101) || (N_of_ascii c =? 69)).
    + destruct s as [|c2 s2].
      * cbn in H. discriminate H.
      * cbn [append]. destruct ((N_of_ascii c2 =? 43) || (N_of_ascii c2 =? 45)).
        -- destruct (lex_digits s2) as [d r] eqn:E.
           rewrite (lex_digits_app s2 d r rest E (num_safe_no_digit rest Hr)).
           destruct d; try discriminate H; injection H as <- <-; reflexivity.
        -- destruct (lex_digits (String c2 s2)) as [d r] eqn:E.
           change (String c2 (s2 ++ rest)%string) with (String c2 s2 ++ rest)%string.
           rewrite (lex_digits_app (String c2 s2) d r rest E (num_safe_no_digit rest Hr)).
           destruct d; try discriminate H; injection H as <- <-; reflexivity.
    + injection H as <- <-. reflexivity.
Qed.

Lemma lex_frac_text : forall s fr s', lex_frac s = Some (fr, s') -> s = (fr ++ s')%string.
Proof.
  intros [|c s] fr s' H.
  - cbn in H. injection H as <- <-. reflexivity.
  - cbn [lex_frac] in H. destruct (N_of_ascii c =? 46).
    + destruct (lex_digits s) as [d r] eqn:E. rewrite (lex_digits_text s d r E) at 1.
      rewrite print_uint_k_app.
      destruct d; try discriminate H; injection H as <- <-; reflexivity.
    + injection H as <- <-. reflexivity.
Qed.

Lemma lex_exp_text : forall s ex s', lex_exp s = Some (ex, s') -> s = (ex ++ s')%string.
Proof.
  intros [|c s] ex s' H.
  - cbn in H. injection H as <- <-. reflexivity.
  - cbn [lex_exp] in H. destruct ((N_of_ascii c =? 101) || (N_of_ascii c =? 69)).
    + destruct s as [|c2 s2].
      * cbn in H. discriminate H.
      * destruct ((N_of_ascii c2 =? 43) || (N_of_ascii c2 =? 45)).
        -- destruct (lex_digits s2) as [d r] eqn:E. rewrite (lex_digits_text s2 d r E) at 1.
           rewrite print_uint_k_app.
           destruct d; try discriminate H; injection H as <- <-; cbn [append]; rewrite ?str_app_assoc; reflexivity.
        -- destruct (lex_digits (String c2 s2)) as [d r] eqn:E. rewrite (lex_digits_text _ d r E) at 1.
           rewrite print_uint_k_app.
           destruct d; try discriminate H; injection H as <- <-; cbn [append]; rewrite ?str_app_assoc; reflexivity.
    + injection H as <- <-. reflexivity.
Qed.

(* the part of lex_number after the sign *)
Definition lex_body (neg : bool) (s0 : string) : option (numtok * string) :=
  let (ip, s1) := lex_digits s0 in
  match ip with
  | Nil => None
  | _ =>
      if leading_zero ip then None
      else
        match lex_frac s1 with
        | None => None
        | Some (fr, s2) =>
            match lex_exp s2 with
            | None => None
            | Some (ex, s3) => Some ({| nt_neg := neg; nt_int := ip; nt_frac := fr; nt_exp := ex |}, s3)
            end
        end
  end.

Lemma lex_number_body : forall s,
  lex_number s =
  match s with
  | EmptyString => None
  | String c s' => if N_of_ascii c =? 45 then lex_body true s' else lex_body false s
  end.
Proof.
  intros [|c s']; [reflexivity|]. unfold lex_number, lex_body. destruct (N_of_ascii c =? 45); reflexivity.
Qed.

Lemma lex_body_app : forall neg s t s' rest, lex_body neg s = Some (t, s') -> num_safe rest = true ->
  lex_body neg (s ++ rest)%string = Some (t, (s' ++ rest)%string).
Proof.
  intros neg s t s' rest H Hr. unfold lex_body in *.
  destruct (lex_digits s) as [ip s1] eqn:E. rewrite (lex_digits_app s ip s1 rest E (num_safe_no_digit rest Hr)).
  destruct ip; try discriminate H;
    (destruct (leading_zero _); [discriminate H|];
     destruct (lex_frac s1) as [[fr s2]|] eqn:Ef; [|discriminate H];
     rewrite (lex_frac_app s1 fr s2 rest Ef Hr);
     destruct (lex_exp s2) as [[ex s3]|] eqn:Ee; [|discriminate H];
     rewrite (lex_exp_app s2 ex s3 rest Ee Hr);
     injection H as <- <-; reflexivity).
Qed.

Lemma lex_number_app : forall s t s' rest, lex_number s = Some (t, s') -> num_safe rest = true ->
  lex_number (s ++ rest)%string = Some (t, (s' ++ rest)%string).
Proof.
  intros s t s' rest H Hr. rewrite lex_number_body in *. destruct s as [|c s0]; [discriminate H|].
  cbn [append]. destruct (N_of_ascii c =? 45).
  - apply lex_body_app; assumption.
  - change (String c (s0 ++ rest)%string) with (String c s0 ++ rest)%string. apply lex_body_app; assumption.
Qed.

Lemma lex_body_text : forall neg s t s', lex_body neg s = Some (t, s') ->
  nt_neg t = neg /\ s = (print_uint_k (nt_int t) (nt_frac t ++ nt_exp t) ++ s')%string.
Proof.
  intros neg s t s' H. unfold lex_body in H.
  destruct (lex_digits s) as [ip s1] eqn:E. pose proof (lex_digits_text s ip s1 E) as T1.
  destruct ip; try discriminate H;
    (destruct (leading_zero _); [discriminate H|];
     destruct (lex_frac s1) as [[fr s2]|] eqn:Ef; [|discriminate H];
     destruct (lex_exp s2) as [[ex s3]|] eqn:Ee; [|discriminate H];
     injection H as <- <-; cbn [nt_neg nt_int nt_frac nt_exp]; split; [reflexivity|];
     rewrite T1, (lex_frac_text s1 fr s2 Ef), (lex_exp_text s2 ex s3 Ee);
     rewrite (print_uint_k_app _ (fr ++ ex ++ s3)%string), (print_uint_k_app _ (fr ++ ex)%string);
     rewrite !str_app_assoc; reflexivity).
Qed.

Lemma lex_number_text : forall s t s', lex_number s = Some (t, s') -> s = (tok_text t ++ s')%string.
Proof.
  intros s t s' H. rewrite lex_number_body in H. destruct s as [|c s0]; [discriminate H|].
  unfold tok_text. destruct (N_of_ascii c =? 45) eqn:E45.
  - destruct (lex_body_text true s0 t s' H) as [-> ->]. cbn [append]. f_equal.
    apply N_of_ascii_inj. apply N.eqb_eq in E45. rewrite E45. reflexivity.
  - destruct (lex_body_text false _ t s' H) as [-> T]. exact T.
Qed.

(* the first character of a number token *)
Definition num_start (c : ascii) : bool := (N_of_ascii c =? 45) || is_digit c.

Lemma lex_number_head : forall s t s', lex_number s = Some (t, s') ->
  exists c s1, s = String c s1 /\ num_start c = true.
Proof.
  intros s t s' H. rewrite lex_number_body in H. destruct s as [|c s0]; [discriminate H|].
  exists c, s0. split; [reflexivity|]. unfold num_start. destruct (N_of_ascii c =? 45); [reflexivity|].
  cbn [orb]. unfold lex_body in H. cbn [lex_digits] in H. destruct (digit_of c) as [mk|] eqn:E.
  - apply (digit_of_some c mk E).
  - discriminate H.
Qed.

Lemma lex_body_print_N : forall neg n rest, num_safe rest = true ->
  lex_body neg (print_N_k n rest) =
  Some ({| nt_neg := neg; nt_int := N.to_uint n; nt_frac := EmptyString; nt_exp := EmptyString |}, rest).
Proof.
  intros neg n rest Hr. unfold lex_body, print_N_k.
  rewrite (lex_digits_print (N.to_uint n) rest (num_safe_no_digit rest Hr)).
  rewrite N_to_uint_leading, (lex_frac_safe rest Hr), (lex_exp_safe rest Hr).
  pose proof (N_to_uint_nonnil n) as Hn. destruct (N.to_uint n); [contradiction|..]; reflexivity.
Qed.

Lemma print_N_k_head : forall n k, exists c s1, print_N_k n k = String c s1 /\ is_digit c = true.
Proof.
  intros n k. unfold print_N_k. pose proof (N_to_uint_nonnil n) as Hn.
  destruct (N.to_uint n); [contradiction|..]; cbn [print_uint_k]; eexists; eexists; split; reflexivity.
Qed.

Lemma print_Z_k_head : forall z k, exists c s1, print_Z_k z k = String c s1 /\ num_start c = true.
Proof.
  intros [|p|p] k; cbn [print_Z_k].
  - eexists; eexists; split; reflexivity.
  - destruct (print_N_k_head (Npos p) k) as (c & s1 & E & Hd). exists c, s1. split; [exact E|].
    unfold num_start. rewrite Hd. apply orb_true_r.
  - eexists; eexists; split; reflexivity.
Qed.

(* lexing a printed integer: the token is the integer, whatever its size *)
Lemma lex_number_print_Z : forall z rest, num_safe rest = true ->
  lex_number (print_Z_k z rest) =
  Some ({| nt_neg := (z <? 0)%Z; nt_int := N.to_uint (Z.abs_N z); nt_frac := EmptyString; nt_exp := EmptyString |}, rest).
Proof.
  intros z rest Hr. rewrite lex_number_body. destruct z as [|p|p]; cbn [print_Z_k].
  - change (String "0" rest) with (print_N_k 0 rest). cbn [print_N_k N.to_uint].
    change (N_of_ascii "0" =? 45) with false. cbv iota.
    change (String "0" rest) with (print_N_k 0 rest). apply lex_body_print_N. exact Hr.
  - destruct (print_N_k_head (Npos p) rest) as (c & s1 & E & Hd). rewrite E.
    assert (H45 : (N_of_ascii c =? 45) = false).
    { destruct c as [[|] [|] [|] [|] [|] [|] [|] [|]]; cbv in Hd; try discriminate Hd; reflexivity. }
    rewrite H45, <- E. apply lex_body_print_N. exact Hr.
  - change (N_of_ascii "-" =? 45) with true. cbv iota. apply lex_body_print_N. exact Hr.
Qed.

Lemma int_of_tok_print_Z : forall z,
  int_of_tok {| nt_neg := (z <? 0)%Z; nt_int := N.to_uint (Z.abs_N z); nt_frac := EmptyString; nt_exp := EmptyString |} =
  if in_number_range z then Some z else None.
Proof.
  intro z. unfold int_of_tok, tok_is_int. cbn [nt_neg nt_int nt_frac nt_exp String.eqb andb].
  rewrite DecimalN.Unsigned.of_to. unfold in_number_range, i64_min, u64_max_z, i64_min_abs, u64_max.
  destruct z as [|p|p]; cbn [Z.ltb Z.compare Z.abs_N].
  - reflexivity.
  - change (Z.of_N (N.pos p)) with (Z.pos p).
    destruct (N.leb_spec (N.pos p) 18446744073709551615) as [H|H];
    destruct (Z.leb_spec (-9223372036854775808) (Z.pos p)) as [H1|H1];
    destruct (Z.leb_spec (Z.pos p) 18446744073709551615) as [H2|H2]; cbn [andb]; try reflexivity; lia.
  - change (N.pos p =? 0) with false. cbv iota. change (- Z.of_N (N.pos p))%Z with (Z.neg p).
    destruct (N.leb_spec (N.pos p) 9223372036854775808) as [H|H];
    destruct (Z.leb_spec (-9223372036854775808) (Z.neg p)) as [H1|H1];
    destruct (Z.leb_spec (Z.neg p) 18446744073709551615) as [H2|H2]; cbn [andb]; try reflexivity; lia.
Qed.

Lemma tok_text_print_Z : forall z,
  tok_text {| nt_neg := (z <? 0)%Z; nt_int := N.to_uint (Z.abs_N z); nt_frac := EmptyString; nt_exp := EmptyString |} =
  print_Z_k z EmptyString.
Proof.
  intros [|p|p]; unfold tok_text; cbn [nt_neg nt_int nt_frac nt_exp Z.ltb Z.compare Z.abs_N append]; reflexivity.
Qed.

(* ================================================================================================ *)
(* measures *)

(* fuel that parse_value needs for the text of [j] *)
Fixpoint need (j : json) : nat :=
  match j with
  | JArr l => S (fold_right (fun x a => S (need x + a)%nat) 0%nat l)
  | JObj kvs => S (fold_right (fun kv a => S (need (snd kv) + a)%nat) 0%nat kvs)
  | _ => 1%nat
  end.

Lemma fold_max_lt : forall {A} (f : A -> N) l m,
  fold_right (fun x acc => N.max (f x) acc) 0 l < m -> Forall (fun x => f x < m) l.
Proof.
  intros A f. induction l as [|x l IH]; intros m H; [constructor|].
  cbn [fold_right] in H. apply N.max_lub_lt_iff in H. destruct H as [H1 H2].
  constructor; [exact H1 | apply IH; exact H2].
Qed.

Lemma depth_arr : forall l d, json_depth (JArr l) < d ->
  (d <=? 1) = false /\ Forall (fun x => json_depth x < d - 1) l.
Proof.
  intros l d H. cbn [json_depth] in H. split; [apply N.leb_gt; lia|].
  apply fold_max_lt. lia.
Qed.

Lemma depth_obj : forall kvs d, json_depth (JObj kvs) < d ->
  (d <=? 1) = false /\ Forall (fun kv => json_depth (snd kv) < d - 1) kvs.
Proof.
  intros kvs d H. cbn [json_depth] in H. split; [apply N.leb_gt; lia|].
  apply (fold_max_lt (fun kv => json_depth (snd kv))). lia.
Qed.

Lemma nb_digits_pos : forall d, d <> Nil -> (1 <= nb_digits d)%nat.
Proof. intros d H. destruct d; [contradiction|..]; cbn [nb_digits]; lia. Qed.

Lemma Forall_flat_map_inv : forall {A B} (P : B -> Prop) (f : A -> list B) l,
  Forall P (flat_map f l) -> Forall (fun x => Forall P (f x)) l.
Proof.
  intros A B P f. induction l as [|x l IH]; intro H; [constructor|].
  cbn [flat_map] in H. apply Forall_app in H. destruct H as [H1 H2]. constructor; [exact H1 | apply IH; exact H2].
Qed.

(* ================================================================================================ *)
(* the parser on printed values *)

Definition value_start (c : ascii) : bool :=
  negb (is_ws c) && negb (N_of_ascii c =? 93) && negb (N_of_ascii c =? 125).

Lemma value_start_inv : forall c, value_start c = true ->
  is_ws c = false /\ (N_of_ascii c =? 93) = false /\ (N_of_ascii c =? 125) = false.
Proof.
  intros c H. unfold value_start in H. apply andb_true_iff in H. destruct H as [H H3].
  apply andb_true_iff in H. destruct H as [H1 H2]. apply negb_true_iff in H1, H2, H3. repeat split; assumption.
Qed.

Lemma num_start_value_start : forall c, num_start c = true -> value_start c = true.
Proof. intros c. destruct c as [[|] [|] [|] [|] [|] [|] [|] [|]]; cbv; congruence. Qed.

Lemma skip_ws_value_start : forall c s, value_start c = true -> skip_ws (String c s) = String c s.
Proof. intros c s H. destruct (value_start_inv c H) as [Hw _]. cbn [skip_ws]. rewrite Hw. reflexivity. Qed.

Definition head_float_ok (j : json) : Prop :=
  match j with JFloat r => float_token r = true | _ => True end.

Lemma print_k_head : forall j k, head_float_ok j ->
  exists c s1, print_k j k = String c s1 /\ value_start c = true.
Proof.
  intros j k H. destruct j as [| [|] | z | r | s | [|x xs] | [|[key v] r]]; cbn [print_k];
    try (eexists; eexists; split; reflexivity).
  - destruct (print_Z_k_head z k) as (c & s1 & E & Hc). exists c, s1. split; [exact E|].
    apply num_start_value_start. exact Hc.
  - cbn in H. unfold float_token in H. destruct (lex_number r) as [[t s']|] eqn:E; [|discriminate H].
    destruct (lex_number_head r t s' E) as (c & s1 & -> & Hc). exists c, (s1 ++ k)%string.
    split; [reflexivity|]. apply num_start_value_start. exact Hc.
Qed.

Section Roundtrip.
  Variable pf : string -> option string.

  (* ---- unfolding of the parser on a known first character (all by computation) ---- *)

  Lemma parse_value_number : forall f d c s1, num_start c = true ->
    parse_value pf (S f) d (String c s1) = parse_number pf (String c s1).
  Proof.
    intros f d c s1 H. destruct c as [[|] [|] [|] [|] [|] [|] [|] [|]]; cbv in H; try discriminate H; reflexivity.
  Qed.

  Lemma parse_value_str : forall f d s1,
    parse_value pf (S f) d (String dq s1) =
    match parse_chars s1 with Some (str, r) => Some (JStr str, r) | None => None end.
  Proof. reflexivity. Qed.

  Lemma parse_value_arr : forall f d s1,
    parse_value pf (S f) d (String "[" s1) =
    if d <=? 1 then None
    else match skip_ws s1 with
         | EmptyString => None
         | String c2 s2 =>
             if N_of_ascii c2 =? 93 then Some (JArr [], s2)
             else match parse_elems pf f (d - 1) s1 with Some (l, r) => Some (JArr l, r) | None => None end
         end.
  Proof. reflexivity. Qed.

  Lemma parse_value_obj : forall f d s1,
    parse_value pf (S f) d (String "{" s1) =
    if d <=? 1 then None
    else match skip_ws s1 with
         | EmptyString => None
         | String c2 s2 =>
             if N_of_ascii c2 =? 125 then Some (JObj [], s2)
             else match parse_members pf f (d - 1) s1 [] with Some (kvs, r) => Some (JObj kvs, r) | None => None end
         end.
  Proof. reflexivity. Qed.

  Lemma parse_elems_S : forall f d s,
    parse_elems pf (S f) d s =
    match parse_value pf f d s with
    | None => None
    | Some (v, r) =>
        match skip_ws r with
        | EmptyString => None
        | String c r1 =>
            if N_of_ascii c =? 44 then
              match parse_elems pf f d r1 with Some (vs, r2) => Some (v :: vs, r2) | None => None end
            else if N_of_ascii c =? 93 then Some ([v], r1)
            else None
        end
    end.
  Proof. reflexivity. Qed.

  Lemma parse_members_key : forall f d s1 acc,
    parse_members pf (S f) d (String dq s1) acc =
    match parse_chars s1 with
    | None => None
    | Some (key, r) =>
        match skip_ws r with
        | EmptyString => None
        | String c2 r1 =>
            if N_of_ascii c2 =? 58 then
              match parse_value pf f d r1 with
              | None => None
              | Some (v, r2) =>
                  match skip_ws r2 with
                  | EmptyString => None
                  | String c3 r3 =>
                      if N_of_ascii c3 =? 44 then parse_members pf f d r3 (obj_insert key v acc)
                      else if N_of_ascii c3 =? 125 then Some (obj_insert key v acc, r3)
                      else None
                  end
              end
            else None
        end
    end.
  Proof. reflexivity. Qed.

  Lemma arr_dispatch : forall f d s, (d <=? 1) = false ->
    (exists c s1, s = String c s1 /\ value_start c = true) ->
    parse_value pf (S f) d (String "[" s) =
    match parse_elems pf f (d - 1) s with Some (l, r) => Some (JArr l, r) | None => None end.
  Proof.
    intros f d s Hd (c & s1 & -> & Hv). rewrite parse_value_arr, Hd.
    rewrite (skip_ws_value_start c s1 Hv). destruct (value_start_inv c Hv) as (_ & H93 & _).
    cbv beta iota. rewrite H93. reflexivity.
  Qed.

  Lemma obj_dispatch : forall f d X, (d <=? 1) = false ->
    parse_value pf (S f) d (String "{" (String dq X)) =
    match parse_members pf f (d - 1) (String dq X) [] with Some (kvs, r) => Some (JObj kvs, r) | None => None end.
  Proof. intros f d X Hd. rewrite parse_value_obj, Hd. reflexivity. Qed.

  (* ---- the round trip, token level ---- *)

  Definition rt (j : json) : Prop :=
    forall fuel depth rest, (need j <= fuel)%nat -> json_depth j < depth -> num_safe rest = true ->
      parse_value pf fuel depth (print_k j rest) = Some (j, rest).

  Lemma elems_rt : forall xs x fuel depth rest,
    rt x -> Forall rt xs ->
    (S (need x + fold_right (fun y a => S (need y + a)%nat) 0%nat xs) <= fuel)%nat ->
    json_depth x < depth -> Forall (fun y => json_depth y < depth) xs ->
    parse_elems pf fuel depth (print_k x (print_elems_tail print_k xs rest)) = Some (x :: xs, rest).
  Proof.
    induction xs as [|y ys IH]; intros x fuel depth rest Hx Hxs Hf Hd Hds;
      (destruct fuel as [|f]; [lia|]); rewrite parse_elems_S; cbn [print_elems_tail fold_right] in *.
    - rewrite (Hx f depth (String "]" rest)); [reflexivity | lia | exact Hd | reflexivity].
    - inversion Hxs as [|? ? Hy Hys]; subst. inversion Hds as [|? ? Hdy Hdys]; subst.
      rewrite (Hx f depth (String "," (print_k y (print_elems_tail print_k ys rest)))); [| lia | exact Hd | reflexivity].
      change (skip_ws (String "," ?s)) with (String "," s). cbv beta iota.
      change (N_of_ascii "," =? 44) with true. cbv beta iota.
      rewrite (IH y f depth rest Hy Hys); [reflexivity | lia | exact Hdy | exact Hdys].
  Qed.

  Lemma members_rt : forall r key v acc fuel depth rest,
    rt v -> Forall (fun kv => rt (snd kv)) r ->
    (S (need v + fold_right (fun kv a => S (need (snd kv) + a)%nat) 0%nat r) <= fuel)%nat ->
    json_depth v < depth -> Forall (fun kv => json_depth (snd kv) < depth) r ->
    parse_members pf fuel depth
      (print_string_k key (String ":" (print_k v (print_members_tail print_k r rest)))) acc
    = Some (ins_fold ((key, v) :: r) acc, rest).
  Proof.
    induction r as [|[k2 v2] r IH]; intros key v acc fuel depth rest Hv Hr Hf Hd Hds;
      (destruct fuel as [|f]; [lia|]); unfold print_string_k; rewrite parse_members_key, parse_chars_print;
      cbn [print_members_tail fold_right snd] in *;
      change (skip_ws (String ":" ?s)) with (String ":" s); cbv beta iota;
      change (N_of_ascii ":" =? 58) with true; cbv beta iota.
    - rewrite (Hv f depth (String "}" rest)); [reflexivity | lia | exact Hd | reflexivity].
    - inversion Hr as [|? ? Hv2 Hr']; subst. inversion Hds as [|? ? Hd2 Hds']; subst. cbn [snd] in *.
      rewrite (Hv f depth (String "," (print_string_k k2 (String ":" (print_k v2 (print_members_tail print_k r rest))))));
        [| lia | exact Hd | reflexivity].
      change (skip_ws (String "," ?s)) with (String "," s). cbv beta iota.
      change (N_of_ascii "," =? 44) with true. cbv beta iota.
      rewrite (IH k2 v2 (obj_insert key v acc) f depth rest Hv2 Hr'); [reflexivity | lia | exact Hd2 | exact Hds'].
  Qed.

  Lemma fuel_pos : forall j fuel, (need j <= fuel)%nat -> exists f, fuel = S f.
  Proof. intros j [|f] H; [destruct j; cbn [need] in H; lia | exists f; reflexivity]. Qed.

  Theorem roundtrip_value : forall j,
    wf_json j = true -> Forall (float_fixed pf) (floats_of j) -> rt j.
  Proof.
    induction j as [| b | z | r | s | l IH | kvs IH] using json_ind'; intros Hwf Hfl fuel depth rest Hfuel Hdepth Hsafe;
      destruct (fuel_pos _ _ Hfuel) as [f ->].
    - reflexivity.
    - destruct b; reflexivity.
    - cbn [print_k]. destruct (print_Z_k_head z rest) as (c & s1 & E & Hc).
      rewrite E, (parse_value_number f depth c s1 Hc), <- E. unfold parse_number.
      rewrite (lex_number_print_Z z rest Hsafe). unfold number_of_tok. rewrite int_of_tok_print_Z.
      cbn [wf_json] in Hwf. unfold in_number_range, i64_min, u64_max_z. rewrite Hwf. reflexivity.
    - cbn [floats_of] in Hfl. inversion Hfl as [|? ? [Htok Hpf] _]; subst.
      unfold float_token in Htok. destruct (lex_number r) as [[t s']|] eqn:E; [|discriminate Htok].
      destruct s' as [|? ?]; [|discriminate Htok].
      destruct (int_of_tok t) as [?|] eqn:Ei; [discriminate Htok|].
      destruct (lex_number_head r t _ E) as (c & s1 & Er & Hc).
      cbn [print_k]. rewrite Er. cbn [append]. rewrite (parse_value_number f depth c _ Hc).
      change (String c (s1 ++ rest)%string) with (String c s1 ++ rest)%string. rewrite <- Er.
      unfold parse_number. rewrite (lex_number_app r t EmptyString rest E Hsafe). cbn [append].
      unfold number_of_tok. rewrite Ei.
      pose proof (lex_number_text r t EmptyString E) as T. rewrite str_app_nil_r in T. rewrite <- T, Hpf. reflexivity.
    - cbn [print_k]. unfold print_string_k. rewrite parse_value_str, parse_chars_print. reflexivity.
    - (* arrays *)
      destruct (depth_arr l depth Hdepth) as [Hd1 Hds].
      rewrite wf_json_arr in Hwf. cbn [floats_of] in Hfl. apply Forall_flat_map_inv in Hfl.
      destruct l as [|x xs].
      + cbn [print_k]. rewrite parse_value_arr, Hd1. reflexivity.
      + cbn [print_k]. cbn [forallb] in Hwf. apply andb_true_iff in Hwf. destruct Hwf as [Hwx Hwxs].
        inversion IH as [|? ? IHx IHxs]; subst. inversion Hfl as [|? ? Hfx Hfxs]; subst.
        inversion Hds as [|? ? Hdx Hdxs]; subst.
        rewrite arr_dispatch; [| exact Hd1 |].
        * rewrite (elems_rt xs x f (depth - 1) rest); [reflexivity | apply IHx; assumption | | | exact Hdx | exact Hdxs].
          -- clear - IHxs Hwxs Hfxs. induction IHxs as [|y ys Hy _ IHys]; [constructor|].
             cbn [forallb] in Hwxs. apply andb_true_iff in Hwxs. destruct Hwxs as [Hwy Hwys].
             inversion Hfxs; subst. constructor; [apply Hy; assumption | apply IHys; assumption].
          -- cbn [need fold_right] in Hfuel. lia.
        * apply print_k_head. destruct x; try exact I. cbn [floats_of] in Hfx. inversion Hfx as [|? ? [Ht _] _]; subst. exact Ht.
    - (* objects *)
      destruct (depth_obj kvs depth Hdepth) as [Hd1 Hds].
      rewrite wf_json_obj in Hwf. apply andb_true_iff in Hwf. destruct Hwf as [Hsorted Hwf].
      cbn [floats_of] in Hfl. apply Forall_flat_map_inv in Hfl.
      destruct kvs as [|[key v] r].
      + cbn [print_k]. rewrite parse_value_obj, Hd1. reflexivity.
      + cbn [print_k]. cbn [forallb snd] in Hwf. apply andb_true_iff in Hwf. destruct Hwf as [Hwv Hwr].
        inversion IH as [|? ? IHv IHr]; subst. inversion Hfl as [|? ? Hfv Hfr]; subst.
        inversion Hds as [|? ? Hdv Hdr]; subst. cbn [snd] in *.
        unfold print_string_k at 1. rewrite obj_dispatch by exact Hd1.
        change (String dq (print_chars_k key (String dq ?X))) with (print_string_k key X).
        rewrite (members_rt r key v [] f (depth - 1) rest); [ | apply IHv; assumption | | | exact Hdv | exact Hdr].
        * rewrite (ins_fold_sorted ((key, v) :: r) []); [reflexivity | exact Hsorted].
        * clear - IHr Hwr Hfr. induction IHr as [|[k2 v2] r' Hy _ IHr']; [constructor|].
          cbn [forallb snd] in Hwr. apply andb_true_iff in Hwr. destruct Hwr as [Hw2 Hwr'].
          inversion Hfr; subst. cbn [snd] in *. constructor; [cbn [snd]; apply Hy; assumption | apply IHr'; assumption].
        * cbn [need fold_right snd] in Hfuel. lia.
  Qed.

  (* ---- the text is long enough to serve as fuel ---- *)

  Lemma float_fixed_nonempty : forall r, float_fixed pf r -> r <> EmptyString.
  Proof. intros r [Ht _] ->. cbv in Ht. discriminate Ht. Qed.

  Lemma print_k_length : forall j, Forall (float_fixed pf) (floats_of j) ->
    forall k, (String.length k + need j <= String.length (print_k j k))%nat.
  Proof.
    induction j as [| b | z | r | s | l IH | kvs IH] using json_ind'; intros Hfl k.
    - cbn. lia.
    - destruct b; cbn; lia.
    - cbn [print_k need]. destruct z as [|p|p]; cbn [print_Z_k String.length]; unfold print_N_k;
        rewrite ?print_uint_k_length; try lia;
        pose proof (nb_digits_pos _ (N_to_uint_nonnil (N.pos p))); lia.
    - cbn [print_k need]. rewrite str_app_length. cbn [floats_of] in Hfl. inversion Hfl as [|? ? Hr _]; subst.
      pose proof (float_fixed_nonempty r Hr). destruct r; [contradiction|]. cbn [String.length]. lia.
    - cbn [print_k need]. pose proof (print_string_k_length s k). lia.
    - cbn [floats_of] in Hfl. apply Forall_flat_map_inv in Hfl. destruct l as [|x xs]; [cbn; lia|].
      inversion IH as [|? ? IHx IHxs]; subst. inversion Hfl as [|? ? Hfx Hfxs]; subst.
      cbn [print_k need fold_right String.length].
      assert (T : (String.length k + 1 + fold_right (fun y a => S (need y + a)%nat) 0%nat xs
                   <= String.length (print_elems_tail print_k xs k))%nat).
      { clear - IHxs Hfxs. induction IHxs as [|y ys Hy _ IHys]; cbn [print_elems_tail fold_right String.length]; [lia|].
        inversion Hfxs; subst. specialize (IHys ltac:(assumption)).
        pose proof (Hy ltac:(assumption) (print_elems_tail print_k ys k)). lia. }
      pose proof (IHx Hfx (print_elems_tail print_k xs k)). lia.
    - cbn [floats_of] in Hfl. apply Forall_flat_map_inv in Hfl. destruct kvs as [|[key v] r]; [cbn; lia|].
      inversion IH as [|? ? IHv IHr]; subst. inversion Hfl as [|? ? Hfv Hfr]; subst. cbn [snd] in *.
      cbn [print_k need fold_right String.length snd].
      assert (T : (String.length k + 1 + fold_right (fun kv a => S (need (snd kv) + a)%nat) 0%nat r
                   <= String.length (print_members_tail print_k r k))%nat).
      { clear - IHr Hfr. induction IHr as [|[k2 v2] r' Hy _ IHr']; cbn [print_members_tail fold_right String.length snd]; [lia|].
        inversion Hfr; subst. cbn [snd] in *. specialize (IHr' ltac:(assumption)).
        pose proof (print_string_k_length k2 (String ":" (print_k v2 (print_members_tail print_k r' k)))) as L.
        cbn [String.length] in L.
        pose proof (Hy ltac:(assumption) (print_members_tail print_k r' k)). lia. }
      pose proof (print_string_k_length key (String ":" (print_k v (print_members_tail print_k r k)))) as L.
      cbn [String.length] in L.
      pose proof (IHv Hfv (print_members_tail print_k r k)). lia.
  Qed.

  (* ---- THE MAIN THEOREM: printing then parsing gives the value back ---- *)
  Theorem roundtrip : forall j,
    wf_json j = true -> json_depth j < recursion_limit -> Forall (float_fixed pf) (floats_of j) ->
    parse pf (print j) = Some j.
  Proof.
    intros j Hwf Hd Hfl. unfold parse, print.
    rewrite (roundtrip_value j Hwf Hfl (S (String.length (print_k j EmptyString))) recursion_limit EmptyString);
      [reflexivity | | exact Hd | reflexivity].
    pose proof (print_k_length j Hfl EmptyString) as L. cbn [String.length] in L. lia.
  Qed.

  (* integer literals of any size: serde_json's classification *)
  Theorem classify : forall z, parse pf (print_Z_k z EmptyString) = classify_int pf z.
  Proof.
    intro z. unfold parse. destruct (print_Z_k_head z EmptyString) as (c & s1 & E & Hc).
    rewrite E at 2. rewrite (parse_value_number _ recursion_limit c s1 Hc), <- E. unfold parse_number.
    rewrite (lex_number_print_Z z EmptyString eq_refl). unfold number_of_tok.
    rewrite int_of_tok_print_Z, tok_text_print_Z. unfold classify_int.
    destruct (in_number_range z); [reflexivity|].
    destruct (pf (print_Z_k z EmptyString)); reflexivity.
  Qed.
End Roundtrip.

(* the same with the float reader's laws as Section hypotheses: [canonical r] stands for
   "r is the text ryu prints for some finite f64" *)
Section CanonicalFloats.
  Variable parse_float : string -> option string.
  Variable canonical : string -> Prop.
  Hypothesis canonical_token : forall r, canonical r -> float_token r = true.
  Hypothesis canonical_reads_back : forall r, canonical r -> parse_float r = Some r.

  Theorem roundtrip_canonical : forall j,
    wf_json j = true -> json_depth j < recursion_limit -> Forall canonical (floats_of j) ->
    parse parse_float (print j) = Some j.
  Proof.
    intros j Hwf Hd Hc. apply roundtrip; [exact Hwf | exact Hd |].
    apply Forall_forall. intros r Hin. rewrite Forall_forall in Hc. specialize (Hc r Hin).
    split; [apply canonical_token | apply canonical_reads_back]; exact Hc.
  Qed.
End CanonicalFloats.

(* values without floats: no premise about the outside world at all *)
Theorem roundtrip_nofloat : forall pf j,
  wf_json j = true -> json_depth j < recursion_limit -> floats_of j = [] -> parse pf (print j) = Some j.
Proof. intros pf j Hwf Hd Hf. apply roundtrip; [exact Hwf | exact Hd |]. rewrite Hf. constructor. Qed.

Theorem C26_roundtrip_holds : C26_roundtrip_stmt.
Proof. intros pf j Hwf Hd Hfl. apply roundtrip; assumption. Qed.

Theorem C26_prefix_holds : C26_prefix_stmt.
Proof.
  intros pf j rest depth Hwf Hd Hfl Hsafe. exists (need j). intros fuel Hf.
  apply (roundtrip_value pf j Hwf Hfl); assumption.
Qed.

Theorem C26_classify_holds : C26_classify_stmt.
Proof. intros pf z. apply classify. Qed.

(* the full statement (no depth premise) is false in the model, as in the code: recursion limit *)
Fixpoint nest (n : nat) (j : json) : json :=
  match n with O => j | S n' => JArr [nest n' j] end.

Theorem roundtrip_refuted :
  exists (pf : string -> option string) (j : json),
    wf_json j = true /\ Forall (float_fixed pf) (floats_of j) /\ parse pf (print j) = None.
Proof.
  exists (fun _ => None), (nest 128 JNull). split; [vm_compute; reflexivity|]. split.
  - replace (floats_of (nest 128 JNull)) with (@nil string) by (vm_compute; reflexivity). constructor.
  - vm_compute. reflexivity.
Qed.

Theorem roundtrip_full_false : ~ C26_roundtrip_full.
Proof.
  intro H. destruct roundtrip_refuted as (pf & j & Hwf & Hfl & Hp).
  specialize (H pf j Hwf Hfl). rewrite Hp in H. discriminate H.
Qed.

(* ================================================================================================ *)
(* conversions *)

Lemma to_std_is_of_std : to_std = of_std.
Proof. reflexivity. Qed.

Theorem of_std_id : forall v, wf_json v = true -> of_std v = v.
Proof.
  induction v as [| b | z | r | s | l IH | kvs IH] using json_ind'; intro Hwf; try reflexivity.
  - cbn [of_std]. f_equal. rewrite wf_json_arr in Hwf.
    induction IH as [|x xs Hx _ IHxs]; [reflexivity|].
    cbn [forallb] in Hwf. apply andb_true_iff in Hwf. destruct Hwf as [H1 H2].
    cbn [map]. rewrite (Hx H1), (IHxs H2). reflexivity.
  - cbn [of_std]. rewrite wf_json_obj in Hwf. apply andb_true_iff in Hwf. destruct Hwf as [Hs Hw].
    assert (E : map (fun kv => (fst kv, of_std (snd kv))) kvs = kvs).
    { clear Hs. induction IH as [|[k x] xs Hx _ IHxs]; [reflexivity|].
      cbn [forallb snd] in Hw. apply andb_true_iff in Hw. destruct Hw as [H1 H2]. cbn [snd] in Hx.
      cbn [map fst snd]. rewrite (Hx H1), (IHxs H2). reflexivity. }
    rewrite E. apply jobj_of_sorted. exact Hs.
Qed.

Theorem C26_conversions_holds : C26_conversions_stmt.
Proof.
  intros v Hwf. rewrite to_std_is_of_std. rewrite !(of_std_id v Hwf). repeat split; reflexivity.
Qed.

(* ================================================================================================ *)
(* equality *)

Definition member_jv_eq (p q : string * json) : bool := String.eqb (fst p) (fst q) && jv_eq (snd p) (snd q).

Lemma jv_eq_arr : forall xs ys, jv_eq (JArr xs) (JArr ys) = list_eqb jv_eq xs ys.
Proof.
  induction xs as [|x xs IH]; intros [|y ys]; try reflexivity.
  cbn [list_eqb]. rewrite <- IH. reflexivity.
Qed.

Lemma jv_eq_obj : forall xs ys, jv_eq (JObj xs) (JObj ys) = list_eqb member_jv_eq xs ys.
Proof.
  induction xs as [|[k x] xs IH]; intros [|[k' y] ys]; try reflexivity.
  cbn [list_eqb]. rewrite <- IH. reflexivity.
Qed.

Lemma list_eqb_map : forall {A B} (f : A -> A -> bool) (g : B -> B -> bool) (n : A -> B) xs,
  Forall (fun x => forall y, f x y = g (n x) (n y)) xs ->
  forall ys, list_eqb f xs ys = list_eqb g (map n xs) (map n ys).
Proof.
  intros A B f g n xs H. induction H as [|x xs Hx _ IH]; intros [|y ys]; cbn [list_eqb map]; try reflexivity.
  rewrite Hx, IH. reflexivity.
Qed.

Theorem jv_eq_norm : forall a b, jv_eq a b = json_eqb (json_norm a) (json_norm b).
Proof.
  induction a as [| b1 | z | r | s | l IH | kvs IH] using json_ind'; intro b0; destruct b0 as [| | | | | l0 | kvs0];
    try reflexivity.
  - rewrite jv_eq_arr. cbn [json_norm]. rewrite json_eqb_arr. apply list_eqb_map. exact IH.
  - rewrite jv_eq_obj. cbn [json_norm]. rewrite json_eqb_obj.
    apply (list_eqb_map member_jv_eq member_eqb (fun kv => (fst kv, json_norm (snd kv)))).
    induction IH as [|[k x] xs Hx _ IHxs]; constructor; [|exact IHxs].
    intros [k' y]. unfold member_jv_eq, member_eqb. cbn [fst snd] in *. rewrite Hx. reflexivity.
Qed.

Lemma json_norm_id : forall a, no_neg_zero a = true -> json_norm a = a.
Proof.
  induction a as [| b1 | z | r | s | l IH | kvs IH] using json_ind'; intro H; try reflexivity.
  - cbn [no_neg_zero] in H. cbn [json_norm]. unfold float_norm.
    destruct (String.eqb r "-0.0"); [discriminate H | reflexivity].
  - cbn [no_neg_zero] in H. cbn [json_norm]. f_equal.
    induction IH as [|x xs Hx _ IHxs]; [reflexivity|].
    cbn [forallb] in H. apply andb_true_iff in H. destruct H as [H1 H2].
    cbn [map]. rewrite (Hx H1), (IHxs H2). reflexivity.
  - cbn [no_neg_zero] in H. cbn [json_norm]. f_equal.
    induction IH as [|[k x] xs Hx _ IHxs]; [reflexivity|].
    cbn [forallb snd] in H. apply andb_true_iff in H. destruct H as [H1 H2]. cbn [snd] in Hx.
    cbn [map fst snd]. rewrite (Hx H1), (IHxs H2). reflexivity.
Qed.

Theorem C26_eq_holds : C26_eq_stmt.
Proof.
  split; [exact json_eqb_eq|]. split; [exact jv_eq_norm|].
  intros a b Ha Hb. rewrite jv_eq_norm, (json_norm_id a Ha), (json_norm_id b Hb). apply json_eqb_eq.
Qed.

(* ================================================================================================ *)
(* mixed comparisons *)

Theorem C26_mixed_holds : C26_mixed_stmt.
Proof.
  split; [|split; [|split; [|split]]].
  - intros v n Hn. destruct v; try reflexivity. unfold eq_i64, as_i64. cbn [json_eqb].
    destruct (in_i64 z) eqn:E; [reflexivity|]. symmetry. apply Z.eqb_neq. intros ->. congruence.
  - intros v n Hn. destruct v; try reflexivity. unfold eq_u64, as_u64. cbn [json_eqb].
    destruct (in_u64 z) eqn:E; [reflexivity|]. symmetry. apply Z.eqb_neq. intros ->. congruence.
  - intros v b. destruct v; reflexivity.
  - intros v s. destruct v; reflexivity.
  - intros i2f r x. reflexivity.
Qed.

Theorem C26_jobj_holds : C26_jobj_stmt.
Proof. split; [exact jobj_of_wf | exact jobj_of_perm]. Qed.

(* ================================================================================================ *)
(* tie to the sources *)
Lemma jsonvalue_source_ok : jsonvalue_source_agrees = true.
Proof. vm_compute. reflexivity. Qed.
