(* props/C13.v -- streams hold exactly the merged appends; stream folds visit each value once
   (stream level).  Only pinned statements, [exact], non-vacuity examples and Print Assumptions.

   The cursor theorem is CONDITIONAL on [cursor_hyp] (Stream.v): (1) no empty generation when the
   fold starts, (2) no append to previous/current below the cursor, (3) no empty generation left
   behind at a met_iteration_end.  Without it the statement is false: [C13_cursor_once_full] is
   refuted, with three independent witnesses; the third one uses nothing but `new` appends and two
   folds over one stream.  Witness 1/2 and witness 3 replay on the real interpreter: known findings
   stream-fold-cursor-hole and stream-second-fold-skips-new (corpus/C13). *)
From Coq Require Import Permutation.
From Aqua Require Import Base Stream StreamProofs StreamTie StreamTieProofs.
Open Scope N_scope.

(* one entry per append, nothing duplicated, nothing lost, counter exact, below STREAM_MAX_SIZE *)
Theorem C13_stream_exact : forall V : Type, C13_stream_exact_stmt V.
Proof. exact StreamProofs.C13_stream_exact. Qed.

(* one add_value from any well-formed stream; the limit check is exact *)
Theorem C13_add_value : forall V : Type, C13_add_value_stmt V.
Proof. exact StreamProofs.C13_add_value. Qed.

(* the generation guard of Stream::add_value (fix C01-stream-generation-resize): an index at or above
   STREAM_MAX_SIZE is refused with StreamSizeLimitExceeded and nothing is modified; hence the
   `checked_add(1).unwrap()` of values_matrix.rs cannot panic under add_value, and `resize` allocates at
   most STREAM_MAX_SIZE rows *)
Theorem C13_add_value_guard : forall (V : Type) (s : stream V) v g,
  (generation_in_range g = false -> stream_add_value V s v g = SErr StreamSizeLimitExceeded) /\
  (generation_in_range g = true -> stream_grow_rows V s g <= stream_max_size) /\
  stream_add_value V s v g <> SCrash SiteGenCheckedAddOne.
Proof.
  exact (fun V s v g => conj (StreamProofs.add_value_refused_untouched V s v g)
                        (conj (StreamProofs.add_value_resize_bounded V s g) (StreamProofs.add_value_no_checked_add_crash V s v g))).
Qed.

(* met_fold_start (append* met_iteration_end)*: handed out + pending = the stream, as multisets; after a
   met_iteration_end (in particular at Exhausted) every value was handed out exactly once *)
Theorem C13_cursor_once_partial : forall V : Type, C13_cursor_once_stmt V.
Proof. exact StreamProofs.C13_cursor_once. Qed.

(* the unconditional statement is false *)
Theorem C13_cursor_once_refuted : ~ C13_cursor_once_full N.
Proof. exact StreamProofs.C13_cursor_once_full_refuted. Qed.

(* witness 1 (DESIGN 7-11): a value appended to an empty generation below the cursor is never handed out *)
Theorem C13_cursor_refuted :
  exists (s : stream N) ops sts rc s', wf_stream N s /\ ends_with_iter_end N ops /\ cursor_hyp N s ops = false /\
    run_fold N s ops = SOk (sts, rc, s') /\ last sts Exhausted = Exhausted /\ exists v, never_handed sts s' v.
Proof. exact StreamProofs.cursor_refuted. Qed.

(* witness 2: a hole that exists when the cursor is taken loses an append ABOVE the cursor *)
Theorem C13_cursor_refuted_hole_above :
  exists (s : stream N) ops sts rc s', wf_stream N s /\ ends_with_iter_end N ops /\ cursor_hyp N s ops = false /\
    run_fold N s ops = SOk (sts, rc, s') /\ last sts Exhausted = Exhausted /\ exists v, never_handed sts s' v.
Proof. exact StreamProofs.cursor_refuted_hole_above. Qed.

(* witness 3: the second fold over a stream loses a value appended to `new` by its own body *)
Theorem C13_cursor_refuted_second_fold :
  exists (s : stream N) ops1 sts1 rc1 s_mid ops2 sts2 rc2 s',
    wf_stream N s /\ cursor_hyp N s ops1 = true /\ run_fold N s ops1 = SOk (sts1, rc1, s_mid) /\
    last sts1 Exhausted = Exhausted /\
    wf_stream N s_mid /\ (forall v g, In (OAdd v g) ops2 -> g = GNew) /\ ends_with_iter_end N ops2 /\
    cursor_hyp N s_mid ops2 = false /\ stream_dense N s_mid = false /\
    run_fold N s_mid ops2 = SOk (sts2, rc2, s') /\ last sts2 Exhausted = Exhausted /\
    exists v, never_handed sts2 s' v.
Proof. exact StreamProofs.cursor_refuted_second_fold. Qed.

(* the `while let Continue` loop ends: at most STREAM_MAX_SIZE Continue answers, no hypothesis on the ops *)
Theorem C13_cursor_terminates : forall V : Type, C13_cursor_terminates_stmt V.
Proof. exact StreamProofs.C13_cursor_terminates. Qed.

(* Streams: the value added through add_stream_value is in the stream `get` returns there *)
Theorem C13_streams_add_get : forall V : Type, C13_streams_add_get_stmt V.
Proof. exact StreamProofs.C13_streams_add_get. Qed.

(* the sparse matrix of the model is the padded vector of the code: length, rows, push after resize,
   the filter of slice_iter, iter, remove_empty_generations *)
Theorem C13_padded_vector : forall V : Type,
  (forall m : matrix V, lenN (matrix_rows V m) = m_len m) /\
  (forall (m : matrix V) k, N.of_nat k < m_len m ->
      nth_error (matrix_rows V m) k = Some (cells_get V (m_cells m) (N.of_nat k))) /\
  (forall lo (c : cells V) g v i, cells_sorted V lo c ->
      cells_get V (cells_add V c g v) i = if i =? g then cells_get V c g ++ [v] else cells_get V c i) /\
  (forall m : matrix V, wf_matrix V m -> filter (row_nonempty V) (matrix_rows V m) = nonempty_rows V m) /\
  (forall m : matrix V, wf_matrix V m -> concat (matrix_rows V m) = matrix_iter V m) /\
  (forall m : matrix V, matrix_rows V (remove_empty_generations V m) = nonempty_rows V m).
Proof.
  exact (fun V => conj (matrix_rows_length V) (conj (matrix_rows_nth V) (conj (cells_get_add V)
        (conj (matrix_rows_nonempty V) (conj (matrix_rows_iter V) (matrix_rows_remove_empty V)))))).
Qed.

(* the functions these theorems are about are the ones in /repo's sources today (tools/genx_stream.py re-reads
   them on every run; stream_max_size itself is STREAM_MAX_SIZE of stream_definition.rs): the size check is
   `previous + current + new >= STREAM_MAX_SIZE`; add_value = generation guard (Previous/Current index >=
   STREAM_MAX_SIZE refused), insert into the matrix of the variant, size check, in this order; Stream::cursor
   = the three generation counts in the fields of the same kind, the empty cursor is (0,0,0); slice_iter chains
   previous/current/new from the cursor's fields; ValuesMatrix::slice_iter filters the non-empty generations
   BEFORE it skips while generations_count counts all of them; met_fold_start / met_iteration_end perform their
   statements in the order the model has them *)
Theorem C13_source_tie :
  (forall (V : Type) (s : stream V), check_stream_size_limit V s = check_by V src_stream_size_terms src_stream_size_cmp s) /\
  src_stream_size_bound = "STREAM_MAX_SIZE"%string /\ In src_stream_size_error uncatchable_error_variants /\
  (forall g, refused_by src_stream_add_guard g = negb (generation_in_range g)) /\
  (forall (V : Type) (s : stream V) v g, stream_add_value V s v g =
     add_by V src_stream_add_order src_stream_add_guard src_stream_add_arms src_stream_size_terms src_stream_size_cmp s v g) /\
  (forall (V : Type) (s : stream V), stream_get_cursor V s = cursor_by V src_stream_cursor_args src_stream_cursor_params s) /\
  cursor_empty = cursor_of src_stream_cursor_empty /\
  (forall (V : Type) (s : stream V) c, stream_slice_iter V s c = slice_iter_by V src_stream_slice_iter_chain s c) /\
  (forall (V : Type) (m : matrix V) skip, matrix_slice_iter V m skip = slice_ops_by V src_matrix_slice_iter_ops (map snd (m_cells m)) skip) /\
  (src_matrix_generations_count_is_len && src_matrix_remove_empty_is_retain_non_empty && src_matrix_iter_is_flat_map &&
   src_new_matrix_adds_to_last_row && src_new_matrix_push_pop_last &&
   src_cursor_state_is_slice_from_cursor && src_streams_compactify_every_descriptor)%bool = true /\
  (forall (V : Type) (m : matrix V) g, cmp_apply src_matrix_add_resize_cmp g (m_len m) = (m_len m <=? g)) /\
  (forall (V : Type) rc (s : stream V), met_fold_start V rc s = cursor_steps V src_met_fold_start_steps Exhausted rc s) /\
  (forall (V : Type) rc (s : stream V), met_iteration_end V rc s = cursor_steps V src_met_iteration_end_steps Exhausted rc s).
Proof.
  refine (conj (fun V s => proj1 (size_check_tie V s)) (conj (proj1 (proj2 (size_check_tie unit (stream_new unit))))
         (conj (proj2 (proj2 (proj2 (size_check_tie unit (stream_new unit))))) (conj guard_tie (conj add_value_tie (conj cursor_tie
         (conj (proj1 cursor_empty_tie) (conj slice_iter_tie (conj (fun V m k => proj1 (matrix_tie V m k)) (conj _
         (conj (fun V m => proj2 (proj2 (matrix_tie V m 0))) (conj met_fold_start_tie met_iteration_end_tie)))))))))))).
  reflexivity.
Qed.

(* ---------------- non-vacuity ---------------- *)
Definition mk (l : list (N * generation)) : stream N :=
  match add_all N (stream_new N) l with SOk s => s | _ => stream_new N end.

(* stream_definition.rs test stream_size_limit: STREAM_MAX_SIZE - 1 appends succeed, the next one fails *)
Example C13_size_limit_example :
  let n := N.to_nat (stream_max_size - 1) in
  let l := map (fun i => (N.of_nat i, GCurrent 0)) (seq 0 (n / 2)) ++ map (fun i => (N.of_nat i, GPrevious 0)) (seq 0 (n / 4))
           ++ map (fun i => (N.of_nat i, GNew)) (seq 0 (n - n / 2 - n / 4)) in
  match add_all N (stream_new N) l with
  | SOk s => stream_size N s = stream_max_size - 1 /\ lenN (stream_iter N s) = stream_max_size - 1 /\
             stream_add_value N s 0 GNew = SErr StreamSizeLimitExceeded
  | _ => False
  end.
Proof. vm_compute. repeat split. Qed.

(* the guard: generation STREAM_MAX_SIZE - 1 is accepted, STREAM_MAX_SIZE is refused and the stream is not touched *)
Example C13_guard_example :
  generation_in_range (GPrevious (stream_max_size - 1)) = true /\ generation_in_range (GCurrent stream_max_size) = false /\
  generation_in_range GNew = true /\
  stream_add_value N (mk [(7, GNew)]) 8 (GPrevious stream_max_size) = SErr StreamSizeLimitExceeded /\
  stream_grow_rows N (stream_new N) (GPrevious (stream_max_size - 1)) = stream_max_size.
Proof. vm_compute. repeat split. Qed.

(* resize pads with empty rows; nothing is lost, nothing duplicated *)
Example C13_exact_example :
  let s := mk [(1, GPrevious 3); (2, GPrevious 1); (3, GPrevious 3)] in
  matrix_rows N (s_prev s) = [[]; [2]; []; [1; 3]] /\ stream_iter N s = [2; 1; 3] /\ stream_size N s = 3.
Proof. vm_compute. repeat split. Qed.

(* a recursive fold (recursive_stream.rs test one_recursive_iteration, one round more): the hypothesis
   holds, each value is handed out once *)
Example C13_cursor_example :
  let s := mk [(1, GCurrent 0)] in
  let ops := [OAdd 7 GNew; OAdd 8 GNew; OIterEnd; OAdd 9 GNew; OIterEnd; OIterEnd] in
  cursor_hyp N s ops = true /\
  match run_fold N s ops with
  | SOk (sts, _, s') => sts = [Continue [[1]]; Continue [[7; 8]]; Continue [[9]]; Exhausted] /\
                        stream_iter N s' = [1; 7; 8; 9]
  | _ => False
  end.
Proof. vm_compute. repeat split. Qed.

(* recursive_stream.rs test add_value_into_prev_and_current: appends to previous/current at or above
   the cursor are handed out *)
Example C13_cursor_prev_cur_example :
  let s := mk [(1, GCurrent 0)] in
  let ops := [OAdd 2 (GPrevious 0); OIterEnd; OAdd 3 (GCurrent 1); OIterEnd; OIterEnd] in
  cursor_hyp N s ops = true /\
  match run_fold N s ops with
  | SOk (sts, _, _) => sts = [Continue [[1]]; Continue [[2]]; Continue [[3]]; Exhausted]
  | _ => False
  end.
Proof. vm_compute. repeat split. Qed.

(* the second-fold witness, spelled out: after a first fold that appends nothing, `new` is one empty
   row; the second fold counts it in its cursor and never hands out 7 *)
Example C13_second_fold_example :
  match run_fold N (mk [(1, GCurrent 0)]) [OIterEnd] with
  | SOk (sts1, _, s_mid) =>
      sts1 = [Continue [[1]]; Exhausted] /\ m_len (s_new s_mid) = 1 /\ m_cells (s_new s_mid) = [] /\
      match run_fold N s_mid [OAdd 7 GNew; OIterEnd] with
      | SOk (sts2, rc2, s') => sts2 = [Continue [[1]]; Exhausted] /\ stream_iter N s' = [1; 7] /\ c_new rc2 = 2
      | _ => False
      end
  | _ => False
  end.
Proof. vm_compute. repeat split. Qed.

(* Streams: `new $s` shadows the global stream inside its span; at scope end the restricted stream
   is compactified (its values get generations in the trace) and the global one is visible again *)
Example C13_streams_scope_example :
  let sp := {| sp_left := 10; sp_right := 50 |} in
  match streams_add_stream_value N (streams_new N) "s" 1 GNew 5 with
  | SOk m1 =>
    let m2 := streams_meet_scope_start N m1 "s" sp in
    match streams_add_stream_value N m2 "s" 2 GNew 20 with
    | SOk m3 =>
        option_map (stream_iter N) (streams_get N m3 "s" 20) = Some [2] /\
        option_map (stream_iter N) (streams_get N m3 "s" 60) = Some [1] /\
        match streams_meet_scope_end N (fun x => x) m3 "s" with
        | SOk (m4, s', pl) => cp_updates pl = [(2, 0)] /\ option_map (stream_iter N) (streams_get N m4 "s" 20) = Some [1]
        | _ => False
        end /\
        streams_meet_scope_end N (fun x => x) (streams_new N) "s" = SCrash SiteScopeEndNoStream
    | _ => False
    end
  | _ => False
  end.
Proof. vm_compute. repeat split. Qed.

Print Assumptions C13_stream_exact.
Print Assumptions C13_add_value.
Print Assumptions C13_add_value_guard.
Print Assumptions C13_cursor_once_partial.
Print Assumptions C13_cursor_once_refuted.
Print Assumptions C13_cursor_refuted.
Print Assumptions C13_cursor_refuted_hole_above.
Print Assumptions C13_cursor_refuted_second_fold.
Print Assumptions C13_cursor_terminates.
Print Assumptions C13_streams_add_get.
Print Assumptions C13_padded_vector.
Print Assumptions C13_source_tie.
