(* props/C01.v -- The interpreter never crashes or runs out of memory on adversarial input.
   Statements: model/CrashSpec.v, model/Catalogue.v.  What stays open: C01_exec_no_crash_stmt over whole
   runs of the executor model (see PARTIAL of checks/C01.py); native stack; third-party code. *)
From Aqua Require Import Base Trace Handler HandlerCases CrashCases Catalogue CrashSpec.
From Aqua Require Import CrashProofs CrashTheorems.
Open Scope N_scope.
Open Scope list_scope.

(* the whole property at the trace-handler level: false for arbitrary callers (C01_handler_full_refuted), true up to
   the two protocol-misuse sites (C01_handler_no_crash_except) *)
Definition C01_handler_full : Prop := C01_handler_full_stmt.

(* every panic-capable site of the source is classified; a new or vanished site breaks this *)
Theorem C01_catalogue_closed : C01_catalogue_closed_stmt.
Proof. exact catalogue_closed_proof. Qed.
(* every `Unreachable l` of the catalogue names a lemma of CrashTheorems.unreachable_lemmas (name + statement + proof) *)
Theorem C01_unreachable_lemmas_proved : C01_unreachable_named_stmt (map pl_name unreachable_lemmas).
Proof. exact unreachable_named_proof. Qed.

(* trace handler: ALL traces (arbitrary positions, lengths, generations, kinds), ALL sequences of API calls *)
Theorem C01_handler_no_crash_except : C01_handler_no_crash_except_stmt.
Proof. exact handler_no_crash_except_proof. Qed.
Theorem C01_handler_sites_unreachable : C01_handler_sites_unreachable_stmt.
Proof. exact handler_sites_unreachable_proof. Qed.
Theorem C01_handler_full_refuted : C01_handler_full_refuted_stmt.
Proof. exact handler_full_refuted_proof. Qed.
Theorem C01_apply_op_is_step : C01_apply_op_is_step_stmt.
Proof. exact apply_op_is_step_proof. Qed.
Theorem C01_slider_total : C01_slider_total_stmt.
Proof. exact slider_total_proof. Qed.

(* streams: allocation *)
Theorem C01_alloc : C01_alloc_stmt.
Proof. exact alloc_proof. Qed.
Theorem C01_alloc_matrix : C01_alloc_matrix_stmt.
Proof. exact alloc_matrix_proof. Qed.
Theorem C01_stream_add_total : C01_stream_add_total_stmt.
Proof. exact stream_add_total_proof. Qed.

(* executor: repaired sites, iterables *)
Theorem C01_exec_repaired : C01_exec_repaired_stmt.
Proof. exact exec_repaired_proof. Qed.
Theorem C01_iterable_peek : C01_iterable_peek_stmt.
Proof. exact iterable_peek_proof. Qed.

(* ---- non-vacuity ---- *)
(* the two sites C01_handler_no_crash_except leaves are reachable (by protocol misuse, with empty traces) *)
Example C01_api_misuse_queue_current_ex :
  run_site (handler_from string [] []) [OpFoldStart 1; OpBackIter 1] = Some SiteCtorQueueCurrent.
Proof. vm_compute. reflexivity. Qed.
Example C01_api_misuse_tracker_len_ex :
  run_site (handler_from string [] [])
           [OpFoldStart 1; OpIterStartPos 1 0; OpIterStartPos 1 0; OpBackIter 1; OpBackIter 1; OpGenEnd 1] = Some SiteTrackerLen.
Proof. vm_compute. reflexivity. Qed.
(* the recipes of the repaired defects now end in errors of the model: a fold lore whose begin position is 2^32-1 *)
Example C01_lore_begin_near_u32_max_is_an_error :
  run_site (handler_from string [] [SAp [0]; SFold [{| fl_value_pos := 0; fl_descs := [{| sd_pos := 4294967295; sd_len := 1 |}; {| sd_pos := 0; sd_len := 0 |}] |}]; SCall (RequestSentBy (SPeer "p"))])
           [OpApAuto 0; OpFoldStart 1; OpIterStartPos 1 0] = None
  /\ fst (run_ops (handler_from string [] [SAp [0]; SFold [{| fl_value_pos := 0; fl_descs := [{| sd_pos := 4294967295; sd_len := 1 |}; {| sd_pos := 0; sd_len := 0 |}] |}]; SCall (RequestSentBy (SPeer "p"))])
                  [OpApAuto 0; OpFoldStart 1; OpIterStartPos 1 0])
     = [ObsApMet 0 false; ObsUnit; ObsErr 1].
Proof. vm_compute. split; reflexivity. Qed.
(* a lore that points at an Ap state without generations *)
Example C01_lore_points_at_ap_without_generation_is_an_error :
  fst (run_ops (handler_from string [] [SFold [{| fl_value_pos := 1; fl_descs := [{| sd_pos := 2; sd_len := 0 |}; {| sd_pos := 2; sd_len := 0 |}] |}]; SAp []])
               [OpFoldStart 1]) = [ObsErr 3].
Proof. vm_compute. reflexivity. Qed.
(* a crafted generation is refused, an honest one allocates what it needs *)
Example C01_generation_examples :
  Stream.stream_add_value N (Stream.stream_new N) 7 (Stream.GCurrent 3405691582) = Stream.SErr Stream.StreamSizeLimitExceeded
  /\ Stream.stream_grow_rows N (Stream.stream_new N) (Stream.GCurrent 3) = 4.
Proof. vm_compute. split; reflexivity. Qed.
Example C01_catalogue_counts :
  (0 <? count_class is_modelled) && (0 <? count_class is_unreachable) && (0 <? count_class is_out_of_model)
  && (N.of_nat (length classified) =? count_class is_modelled + count_class is_unreachable + count_class is_out_of_model) = true.
Proof. vm_compute. reflexivity. Qed.

Print Assumptions C01_catalogue_closed.
Print Assumptions C01_unreachable_lemmas_proved.
Print Assumptions C01_handler_no_crash_except.
Print Assumptions C01_handler_sites_unreachable.
Print Assumptions C01_handler_full_refuted.
Print Assumptions C01_apply_op_is_step.
Print Assumptions C01_slider_total.
Print Assumptions C01_alloc.
Print Assumptions C01_alloc_matrix.
Print Assumptions C01_stream_add_total.
Print Assumptions C01_exec_repaired.
Print Assumptions C01_iterable_peek.
