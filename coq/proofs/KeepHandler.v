(* KeepHandler.v -- C09 at the level of the TraceHandler (statement C09_handler_consumed_stmt of
   model/KeepSpec.v): a run of the handler API that follows the driver protocol of the call/par
   fragment, re-emits what the call merger met, and ends every par branch with both slider windows
   exhausted, keeps every result of both windows in what it appends to the result trace.

   Part 5a: windows of sliders.  Part 5b: one call.  Part 5c: par.  Part 5d: driver forests. *)
From Coq Require Import Lia.
From Aqua Require Import Base Json Trace Handler KeepSpec KeepProofs.
Open Scope N_scope.
Open Scope list_scope.

(* ------------------------------------------------------------------------------------------ *)
(* Part 5a: windows *)

Section Windows.
  Variable A : Type.
  Definition win (T : list A) (p n : nat) : list A := firstn n (skipn p T).

  Lemma win_zero : forall T p, win T p 0 = [].
  Proof. reflexivity. Qed.
  Lemma skipn_skipn : forall (T : list A) a b, skipn a (skipn b T) = skipn (b + a) T.
  Proof.
    intros T a b. revert T. induction b as [| b IH]; intros T; cbn [skipn plus]; [reflexivity |].
    destruct T as [| x T]; [destruct a; reflexivity | apply IH].
  Qed.
  Lemma firstn_plus : forall (l : list A) n m, firstn (n + m) l = firstn n l ++ firstn m (skipn n l).
  Proof.
    intros l n. revert l. induction n as [| n IH]; intros l m; cbn [plus firstn skipn app]; [reflexivity |].
    destruct l as [| x l]; [destruct m; reflexivity |]. cbn [firstn skipn app]. rewrite IH. reflexivity.
  Qed.
  Lemma win_split : forall T p n m, win T p (n + m) = win T p n ++ win T (p + n) m.
  Proof. intros T p n m. unfold win. rewrite firstn_plus, skipn_skipn. reflexivity. Qed.
  Lemma skipn_cons_nth : forall (T : list A) p x, nth_error T p = Some x -> skipn p T = x :: skipn (S p) T.
  Proof.
    intros T p. revert T. induction p as [| p IH]; intros [| y T] x H; cbn in *; try discriminate.
    - inversion H. reflexivity.
    - apply IH. exact H.
  Qed.
  Lemma win_cons : forall T p n x, nth_error T p = Some x -> win T p (S n) = x :: win T (S p) n.
  Proof. intros T p n x H. unfold win. rewrite (skipn_cons_nth _ _ _ H). reflexivity. Qed.
  Lemma win_length : forall T p n, (p + n <= length T)%nat -> length (win T p n) = n.
  Proof.
    intros T p n H. unfold win. rewrite firstn_length, skipn_length. lia.
  Qed.
End Windows.
Arguments win {A}.

Lemma set_nth_app : forall {A} (l1 : list A) x y l2, set_nth (l1 ++ x :: l2) (length l1) y = l1 ++ y :: l2.
Proof.
  intros A l1 x y l2. induction l1 as [| a l1 IH]; cbn; [reflexivity | rewrite IH; reflexivity].
Qed.
Lemma skipn_app_exact : forall {A} (l1 l2 : list A), skipn (length l1) (l1 ++ l2) = l2.
Proof. intros A l1 l2. induction l1 as [| a l1 IH]; cbn; [reflexivity | exact IH]. Qed.

Section HandlerKeep.
  Variable C : Type.
  Variable ceqb : C -> C -> bool.
  Hypothesis ceqb_ok : ceqb_spec C ceqb.
  Notation state := (state C).
  Notation slider := (slider C).
  Notation handler := (handler C).
  Notation keeper := (keeper C).

  Definition sub (s : slider) : N := subtrace_len C s.
  Definition npos (s : slider) : nat := N.to_nat (s_pos C s).
  Definition nsub (s : slider) : nat := N.to_nat (sub s).

  Lemma window_win : forall s, window C s = win (s_trace C s) (npos s) (nsub s).
  Proof. reflexivity. Qed.

  Lemma len_N_nat : forall {X} (l : list X), N.to_nat (len_N l) = length l.
  Proof. intros X l. unfold len_N. apply Nat2N.id. Qed.

  (* [steps s s' w]: s' is s after the states w were taken from the front of its window *)
  Definition steps (s s' : slider) (w : list state) : Prop :=
    s_trace C s' = s_trace C s /\ slider_ok C s' /\
    window C s = w ++ window C s' /\ s_pos C s' = s_pos C s + len_N w.

  Lemma steps_refl : forall s, slider_ok C s -> steps s s [].
  Proof. intros s H. split; [reflexivity |]. split; [exact H |]. split; [reflexivity |]. unfold len_N. cbn. lia. Qed.
  Lemma steps_trans : forall s1 s2 s3 w1 w2, steps s1 s2 w1 -> steps s2 s3 w2 -> steps s1 s3 (w1 ++ w2).
  Proof.
    intros s1 s2 s3 w1 w2 (T1 & O1 & W1 & P1) (T2 & O2 & W2 & P2). split; [| split; [| split]].
    - congruence.
    - exact O2.
    - rewrite W1, W2, app_assoc. reflexivity.
    - rewrite P2, P1. unfold len_N. rewrite app_length. lia.
  Qed.

  Lemma next_state_spec : forall s o s', slider_ok C s -> next_state C s = (o, s') ->
    (sub s = 0 /\ o = None /\ s' = s) \/
    (exists st, o = Some st /\ steps s s' [st] /\ sub s' = sub s - 1 /\ 0 < sub s).
  Proof.
    intros s o s' [Hs [Hw Hu]] H. unfold next_state in H. unfold sub, subtrace_len in *.
    destruct ((s_len C s <=? s_seen C s) || (len_N (s_trace C s) <=? s_pos C s)) eqn:Ec.
    - inversion H; subst. left. repeat split; try reflexivity.
      apply Bool.orb_true_iff in Ec. destruct Ec as [Ec | Ec].
      + apply N.leb_le in Ec. lia.
      + apply N.leb_le in Ec. unfold len_N in *. lia.
    - apply Bool.orb_false_iff in Ec. destruct Ec as [E1 E2].
      apply N.leb_gt in E1. apply N.leb_gt in E2.
      destruct (Trace.nth_N (s_trace C s) (s_pos C s)) as [st |] eqn:En.
      + inversion H; subst. right. exists st. split; [reflexivity |].
        unfold Trace.nth_N in En. destruct (s_pos C s <? N.of_nat (length (s_trace C s))); [| discriminate En].
        split; [| cbn; split; lia].
        split; [reflexivity |]. split; [split; [| split]; cbn [s_trace s_pos s_len s_seen] |]; [| | | split].
        * lia.
        * unfold len_N in *. lia.
        * exact Hu.
        * rewrite !window_win. unfold nsub, npos, sub, subtrace_len. cbn [s_trace s_pos s_len s_seen].
          replace (N.to_nat (s_len C s - s_seen C s)) with (S (N.to_nat (s_len C s - (s_seen C s + 1)))) by lia.
          rewrite (win_cons _ _ _ _ _ En). cbn [app]. f_equal. f_equal. lia.
        * unfold len_N. cbn. lia.
      + exfalso. unfold Trace.nth_N in En.
        destruct (s_pos C s <? N.of_nat (length (s_trace C s))) eqn:El.
        * apply nth_error_None in En. apply N.ltb_lt in El. lia.
        * apply N.ltb_ge in El. unfold len_N in E2. lia.
  Qed.

  (* a window whose remaining length is 0 is empty *)
  Lemma window_empty : forall s, sub s = 0 -> window C s = [].
  Proof. intros s H. rewrite window_win. unfold nsub. rewrite H. reflexivity. Qed.

  Lemma window_length : forall s, slider_ok C s -> length (window C s) = nsub s.
  Proof.
    intros s [Hs [Hw Hu]]. rewrite window_win. apply win_length. unfold npos, nsub, sub, subtrace_len in *.
    rewrite <- (len_N_nat (s_trace C s)). lia.
  Qed.

  (* ---- the slider operations of the par state machine ---- *)

  Definition mk (T : list state) (p l : N) : slider := {| s_trace := T; s_pos := p; s_len := l; s_seen := 0 |}.

  Lemma mk_ok : forall T p l, len_N T <= u32_max -> p + l <= len_N T -> slider_ok C (mk T p l).
  Proof. intros T p l Hu H. split; [| split]; cbn; lia. Qed.
  Lemma mk_window : forall T p l, window C (mk T p l) = win T (N.to_nat p) (N.to_nat l).
  Proof. intros T p l. rewrite window_win. unfold npos, nsub, sub, subtrace_len. cbn. rewrite N.sub_0_r. reflexivity. Qed.

  Lemma set_subtrace_len_spec : forall s l s', set_subtrace_len C s l = Ok s' ->
    s' = mk (s_trace C s) (s_pos C s) l /\ (s_pos C s <= len_N (s_trace C s) -> s_pos C s + l <= len_N (s_trace C s)).
  Proof.
    intros s l s' H. unfold set_subtrace_len in H.
    repeat (match type of H with context [if ?c then _ else _] => destruct c eqn:? end; try discriminate H).
    inversion H; subst. split; [reflexivity |]. intros Hp.
    repeat match goal with E : (_ <? _) = false |- _ => apply N.ltb_ge in E end. lia.
  Qed.
  Lemma set_subtrace_len_ok : forall s l, s_pos C s + l <= len_N (s_trace C s) ->
    set_subtrace_len C s l = Ok (mk (s_trace C s) (s_pos C s) l).
  Proof.
    intros s l H. unfold set_subtrace_len.
    repeat (match goal with |- context [if ?c then _ else _] => destruct c eqn:? end; try reflexivity);
      exfalso; repeat match goal with E : (_ <? _) = true |- _ => apply N.ltb_lt in E end; lia.
  Qed.

  (* set_position_and_len with its error swallowed (update_ctx_states) *)
  Lemma swallow_spl : forall s p l s', swallow (set_position_and_len C s p l) s = Ok s' ->
    s' = mk (s_trace C s) p l \/ (s' = s /\ l <> 0 /\ (len_N (s_trace C s) < p + l \/ u32_max < p + l)).
  Proof.
    intros s p l s' H. unfold set_position_and_len in H.
    destruct (negb (l =? 0)) eqn:El.
    - apply Bool.negb_true_iff, N.eqb_neq in El.
      repeat (match type of H with context [if ?c then _ else _] => destruct c eqn:? end; try discriminate H);
        cbn in H; inversion H; subst; try (left; reflexivity); right;
        repeat match goal with E : (_ <? _) = true |- _ => apply N.ltb_lt in E end; auto.
    - cbn in H. inversion H; subst. left. reflexivity.
  Qed.

  (* one slider through one par: pop, cut to the left size, left branch, re-position, right branch, re-position *)
  Lemma side_left_done : forall s1 l r ll s2 s2' wl sx,
    slider_ok C s1 -> l + r <= sub s1 ->
    set_subtrace_len C s1 l = Ok s2 -> steps s2 s2' wl -> sub s2' = 0 ->
    swallow (set_position_and_len C s2' (s_pos C s1 + l) ll) s2' = Ok sx ->
    exists s3, set_subtrace_len C sx r = Ok s3 /\ s3 = mk (s_trace C s1) (s_pos C s1 + l) r /\
               window C s2 = wl /\ slider_ok C s3.
  Proof.
    intros s1 l r ll s2 s2' wl sx [O1 [O2 Ou]] Hlr E2 (T2 & Ok2 & W2 & P2) Z2 Ex.
    apply set_subtrace_len_spec in E2. destruct E2 as [-> B2]. unfold sub, subtrace_len in Hlr.
    assert (B2' : s_pos C s1 + l <= len_N (s_trace C s1)) by (apply B2; lia). clear B2. rename B2' into B2.
    cbn [s_trace s_pos mk] in *.
    assert (Hwl : window C (mk (s_trace C s1) (s_pos C s1) l) = wl).
    { rewrite W2, (window_empty _ Z2), app_nil_r. reflexivity. }
    assert (Hlen : len_N wl = l).
    { rewrite <- Hwl. unfold len_N. rewrite window_length by (apply mk_ok; assumption).
      unfold nsub, sub, subtrace_len. cbn. lia. }
    assert (Hb : s_pos C s1 + l + r <= len_N (s_trace C s1)) by lia.
    assert (Hx : s_trace C sx = s_trace C s1 /\ s_pos C sx = s_pos C s1 + l).
    { apply swallow_spl in Ex. destruct Ex as [-> | (-> & _ & _)]; cbn; [rewrite T2; auto |]. rewrite T2, P2, Hlen. auto. }
    destruct Hx as [Tx Px].
    exists (mk (s_trace C s1) (s_pos C s1 + l) r). split; [| split; [reflexivity | split; [exact Hwl | apply mk_ok; assumption]]].
    rewrite set_subtrace_len_ok; rewrite Tx, Px; [reflexivity | exact Hb].
  Qed.

  Lemma side_right_done : forall s1 l r s3 s3' wr s4,
    slider_ok C s1 -> l + r <= sub s1 ->
    s3 = mk (s_trace C s1) (s_pos C s1 + l) r -> steps s3 s3' wr -> sub s3' = 0 ->
    swallow (set_position_and_len C s3' (s_pos C s1 + (l + r)) (sub s1 - (l + r))) s3' = Ok s4 ->
    window C s3 = wr /\ slider_ok C s4 /\ s_trace C s4 = s_trace C s1 /\ s_pos C s4 = s_pos C s1 + (l + r) /\
    sub s4 = sub s1 - (l + r).
  Proof.
    intros s1 l r s3 s3' wr s4 [O1 [O2 Ou]] Hlr -> (T3 & Ok3 & W3 & P3) Z3 Ex.
    cbn [s_trace s_pos mk] in *. unfold sub, subtrace_len in *.
    assert (Hb : s_pos C s1 + l + r <= len_N (s_trace C s1)) by lia.
    assert (Hwr : window C (mk (s_trace C s1) (s_pos C s1 + l) r) = wr).
    { rewrite W3, (window_empty _ Z3), app_nil_r. reflexivity. }
    split; [exact Hwr |].
    apply swallow_spl in Ex. destruct Ex as [-> | (-> & Hnz & Hbad)].
    - rewrite T3. split; [apply mk_ok; cbn; lia |]. cbn. repeat split; lia.
    - exfalso. rewrite T3 in Hbad. cbn in Hbad. lia.
  Qed.

  (* the windows of one slider around a par *)
  Lemma side_windows : forall s1 l r, slider_ok C s1 -> l + r <= sub s1 ->
    window C s1 = window C (mk (s_trace C s1) (s_pos C s1) l) ++ window C (mk (s_trace C s1) (s_pos C s1 + l) r) ++
                  win (s_trace C s1) (N.to_nat (s_pos C s1 + (l + r))) (N.to_nat (sub s1 - (l + r))).
  Proof.
    intros s1 l r [O1 [O2 Ou]] Hlr. rewrite !mk_window, window_win. unfold nsub, npos.
    replace (N.to_nat (sub s1)) with (N.to_nat l + (N.to_nat r + N.to_nat (sub s1 - (l + r))))%nat by lia.
    rewrite !win_split. f_equal. f_equal; [f_equal; lia | f_equal; lia].
  Qed.

  (* ------------------------------------------------------------------------------------------ *)
  (* Part 5b: steps of the handler *)

  Definition kp (h : handler) : slider := k_prev C (h_keeper C h).
  Definition kc (h : handler) : slider := k_cur C (h_keeper C h).
  Definition hres (h : handler) : list state := k_result C (h_keeper C h).

  (* h' is h after the states wp / wc were taken from the windows and e was appended to the result *)
  Record hstep (h h' : handler) (wp wc e : list state) : Prop := mk_hstep {
    hs_prev : steps (kp h) (kp h') wp;
    hs_cur : steps (kc h) (kc h') wc;
    hs_res : hres h' = hres h ++ e;
    hs_pars : h_pars C h' = h_pars C h;
    hs_keep_p : know_incl C ceqb (knowledge C wp) (knowledge C e);
    hs_keep_c : know_incl C ceqb (knowledge C wc) (knowledge C e) }.

  Lemma hstep_refl : forall h, handler_ok C h -> hstep h h [] [] [].
  Proof.
    intros h [Hp Hc]. constructor; try (apply steps_refl; assumption); try reflexivity;
      try (apply know_incl_nil). unfold hres. rewrite app_nil_r. reflexivity.
  Qed.
  Lemma hstep_trans : forall h1 h2 h3 wp1 wc1 e1 wp2 wc2 e2,
    hstep h1 h2 wp1 wc1 e1 -> hstep h2 h3 wp2 wc2 e2 -> hstep h1 h3 (wp1 ++ wp2) (wc1 ++ wc2) (e1 ++ e2).
  Proof.
    intros h1 h2 h3 wp1 wc1 e1 wp2 wc2 e2 A B. constructor.
    - eapply steps_trans; [apply A | apply B].
    - eapply steps_trans; [apply A | apply B].
    - rewrite (hs_res _ _ _ _ _ B), (hs_res _ _ _ _ _ A), app_assoc. reflexivity.
    - rewrite (hs_pars _ _ _ _ _ B). apply A.
    - rewrite !(knowledge_app C). apply know_incl_app; [apply A | apply B].
    - rewrite !(knowledge_app C). apply know_incl_app; [apply A | apply B].
  Qed.
  Lemma hstep_ok : forall h h' wp wc e, hstep h h' wp wc e -> handler_ok C h'.
  Proof. intros h h' wp wc e H. split; [apply (hs_prev _ _ _ _ _ H) | apply (hs_cur _ _ _ _ _ H)]. Qed.

  Definition opt_list (o : option state) : list state := match o with Some st => [st] | None => [] end.

  Lemma next_state_steps : forall s o s', slider_ok C s -> next_state C s = (o, s') ->
    steps s s' (opt_list o) /\ (o = None -> sub s = 0) /\ sub s' = sub s - len_N (opt_list o).
  Proof.
    intros s o s' Hok H. destruct (next_state_spec _ _ _ Hok H) as [(Z & -> & ->) | (st & -> & St & Hs & Hpos)].
    - split; [apply steps_refl; exact Hok | split; [auto | cbn; lia]].
    - split; [exact St | split; [discriminate | unfold len_N; cbn; lia]].
  Qed.

  Lemma next_states_steps : forall k p c k', slider_ok C (k_prev C k) -> slider_ok C (k_cur C k) ->
    next_states C k = (p, c, k') ->
    steps (k_prev C k) (k_prev C k') (opt_list p) /\ steps (k_cur C k) (k_cur C k') (opt_list c) /\
    k_result C k' = k_result C k /\
    sub (k_prev C k') = sub (k_prev C k) - len_N (opt_list p) /\ sub (k_cur C k') = sub (k_cur C k) - len_N (opt_list c).
  Proof.
    intros k p c k' Hp Hc En. destruct (next_states_frame C _ _ _ _ En) as (Hr & Hnp & Hnc).
    destruct (next_state_steps _ _ _ Hp Hnp) as (S1 & _ & Z1). destruct (next_state_steps _ _ _ Hc Hnc) as (S2 & _ & Z2).
    auto.
  Qed.

  (* what the call merger met is kept by what is pushed *)
  Lemma keep_opt : forall o m pos src push,
    ostate_le C ceqb o (SCall m) -> call_keeps C ceqb (CallMet C m pos src) push = true ->
    know_incl C ceqb (knowledge C (opt_list o))
                     (knowledge C (match push with Some c0 => [SCall c0] | None => [] end)).
  Proof.
    intros o m pos src push Hle K. destruct o as [st |]; [| apply know_incl_nil]. cbn [opt_list].
    cbn in Hle. destruct st as [l r | pc | g | cn | f]; cbn in Hle; try discriminate Hle.
    cbn [call_keeps] in K. destruct push as [c0 |].
    - apply (state_le_know C ceqb ceqb_ok (SCall pc) (SCall c0)). cbn.
      eapply (call_le_trans C ceqb ceqb_ok); eassumption.
    - destruct (call_key C m) eqn:Ek; [discriminate K |].
      cbn. rewrite (call_le_nokey C ceqb ceqb_ok _ _ Hle Ek). apply know_incl_nil.
  Qed.

  Lemma call_step : forall b push h h', handler_ok C h ->
    drive_tree C ceqb b (DCall push) h = Some (Ok h') -> exists wp wc e, hstep h h' wp wc e.
  Proof.
    intros b push h h' [Hp Hc] Hd. cbn [drive_tree] in Hd.
    destruct (meet_call_start C ceqb h) as [[mr h1] | e | st] eqn:Es; try discriminate Hd.
    destruct (call_keeps C ceqb mr push) eqn:K; [| discriminate Hd]. inversion Hd; subst h'. clear Hd.
    unfold meet_call_start in Es.
    destruct (try_merge_next_state_as_call C ceqb (h_keeper C h)) as [[r k1] | e | st] eqn:Em; cbn in Es; try discriminate Es.
    inversion Es; subst mr h1. clear Es.
    pose proof (merger_call C ceqb ceqb_ok ceqb_ok _ _ _ Em) as Hm.
    destruct (next_states C (h_keeper C h)) as [[p c] k'] eqn:En.
    destruct Hm as (A & B & D & Hr).
    destruct (next_states_steps _ _ _ _ Hp Hc En) as (S1 & S2 & R0 & _ & _).
    exists (opt_list p), (opt_list c), (match push with Some c0 => [SCall c0] | None => [] end).
    constructor.
    - unfold kp. destruct push; cbn; rewrite A; exact S1.
    - unfold kc. destruct push; cbn; rewrite B; exact S2.
    - unfold hres. destruct push; cbn; rewrite D, R0; [reflexivity | rewrite app_nil_r; reflexivity].
    - destruct push; reflexivity.
    - destruct r as [| m pos src]; [destruct Hr as [-> _]; apply know_incl_nil |].
      destruct Hr as (_ & L1 & _ & _). eapply keep_opt; eassumption.
    - destruct r as [| m pos src]; [destruct Hr as [_ ->]; apply know_incl_nil |].
      destruct Hr as (_ & _ & L2 & _). eapply keep_opt; eassumption.
  Qed.

  (* ------------------------------------------------------------------------------------------ *)
  (* Part 5c: par *)

  Definition par_of (o : option state) : N * N := match o with Some (SPar l r) => (l, r) | _ => (0, 0) end.

  Lemma merge_par_spec : forall k pp cp k1, try_merge_next_state_as_par C k = Ok (pp, cp, k1) ->
    exists p c, next_states C k = (p, c, k1) /\
      match pp with Some x => x | None => (0, 0) end = par_of p /\
      match cp with Some x => x | None => (0, 0) end = par_of c /\
      knowledge C (opt_list p) = [] /\ knowledge C (opt_list c) = [].
  Proof.
    intros k pp cp k1 H. unfold try_merge_next_state_as_par in H.
    destruct (next_states C k) as [[p c] k'] eqn:En. exists p, c.
    destruct p as [[pl pr | pc | pg | pcn | pf] |], c as [[cl cr | cc | cg | ccn | cf] |]; try discriminate H;
      inversion H; subst; repeat split; reflexivity.
  Qed.

  (* only the position of the left context state matters below: the proofs hold for the length the
     code computes today and for any repaired one *)
  Lemma par_new_state_left : forall l r s cs, par_new_state C (l, r) SLeft s = Ok cs -> cs_pos cs = s_pos C s + l.
  Proof.
    intros l r s cs H. unfold par_new_state in H. cbn [bind] in H.
    repeat (match type of H with context [if ?c then _ else _] => destruct c end; try discriminate H).
    inversion H. reflexivity.
  Qed.
  Lemma par_new_state_right : forall l r s cs, par_new_state C (l, r) SRight s = Ok cs ->
    cs = {| cs_pos := s_pos C s + (l + r); cs_len := sub s - (l + r) |} /\ l + r <= sub s.
  Proof.
    intros l r s cs H. unfold par_new_state in H.
    destruct (u32_max <? l + r); cbn [bind] in H; [discriminate H |].
    destruct (u32_max <? s_pos C s + (l + r)); [discriminate H |].
    destruct (subtrace_len C s <? l + r) eqn:E; inversion H. apply N.ltb_ge in E. split; [reflexivity | exact E].
  Qed.

  Lemma par_start_spec : forall pp cp k1 f k2, par_from_left_started C pp cp k1 = Ok (f, k2) ->
    let '(lp, rp) := match pp with Some x => x | None => (0, 0) end in
    let '(lc, rc) := match cp with Some x => x | None => (0, 0) end in
    pf_prev f = (lp, rp) /\ pf_cur f = (lc, rc) /\
    k_result C k2 = k_result C k1 ++ [SPar 0 0] /\ pf_inserter f = len_N (k_result C k1) /\
    pf_saved f = len_N (k_result C k1 ++ [SPar 0 0]) /\
    cs_pos (fst (pf_left f)) = s_pos C (k_prev C k1) + lp /\ cs_pos (snd (pf_left f)) = s_pos C (k_cur C k1) + lc /\
    pf_right f = ({| cs_pos := s_pos C (k_prev C k1) + (lp + rp); cs_len := sub (k_prev C k1) - (lp + rp) |},
                    {| cs_pos := s_pos C (k_cur C k1) + (lc + rc); cs_len := sub (k_cur C k1) - (lc + rc) |}) /\
    lp + rp <= sub (k_prev C k1) /\ lc + rc <= sub (k_cur C k1) /\
    set_subtrace_len C (k_prev C k1) lp = Ok (k_prev C k2) /\ set_subtrace_len C (k_cur C k1) lc = Ok (k_cur C k2).
  Proof.
    intros pp cp k1 f k2 H. unfold par_from_left_started in H.
    destruct (match pp with Some x => x | None => (0, 0) end) as [lp rp].
    destruct (match cp with Some x => x | None => (0, 0) end) as [lc rc].
    cbn [push_state with_result k_prev k_cur k_result] in H.
    destruct (par_new_state C (lp, rp) SLeft (k_prev C k1)) as [a1 | |] eqn:E1; try (cbn in H; discriminate H); cbn [bind] in H.
    destruct (par_new_state C (lc, rc) SLeft (k_cur C k1)) as [a2 | |] eqn:E2; try (cbn in H; discriminate H); cbn [bind] in H.
    destruct (par_new_state C (lp, rp) SRight (k_prev C k1)) as [a3 | |] eqn:E3; try (cbn in H; discriminate H); cbn [bind] in H.
    destruct (par_new_state C (lc, rc) SRight (k_cur C k1)) as [a4 | |] eqn:E4; try (cbn in H; discriminate H); cbn [bind] in H.
    apply par_new_state_left in E1. apply par_new_state_left in E2.
    apply par_new_state_right in E3. apply par_new_state_right in E4. destruct E3 as [E3 B3], E4 as [E4 B4]. subst a3 a4.
    unfold par_prepare_sliders in H. cbn [pf_prev pf_cur fst snd k_prev k_cur k_result with_prev with_cur push_state with_result] in H.
    destruct (set_subtrace_len C (k_prev C k1) lp) as [sp | |] eqn:F1; try (cbn in H; discriminate H); cbn [bind] in H.
    cbn [k_cur k_prev with_prev with_cur push_state with_result] in H.
    destruct (set_subtrace_len C (k_cur C k1) lc) as [sc | |] eqn:F2; try (cbn in H; discriminate H); cbn [bind] in H.
    inversion H; subst. cbn. repeat split; auto.
  Qed.

  Lemma side_all : forall s1 l r ll s2 s2' wl sx s3 s3' wr s4,
    slider_ok C s1 -> l + r <= sub s1 -> set_subtrace_len C s1 l = Ok s2 -> steps s2 s2' wl -> sub s2' = 0 ->
    swallow (set_position_and_len C s2' (s_pos C s1 + l) ll) s2' = Ok sx -> set_subtrace_len C sx r = Ok s3 ->
    steps s3 s3' wr -> sub s3' = 0 ->
    swallow (set_position_and_len C s3' (s_pos C s1 + (l + r)) (sub s1 - (l + r))) s3' = Ok s4 ->
    steps s1 s4 (wl ++ wr).
  Proof.
    intros s1 l r ll s2 s2' wl sx s3 s3' wr s4 O1 Hlr E2 St2 Z2 Ex E3 St3 Z3 E4.
    destruct (side_left_done _ _ _ _ _ _ _ _ O1 Hlr E2 St2 Z2 Ex) as (s3n & E3' & Es3 & Wl & O3).
    assert (Hs : s3n = s3) by (rewrite E3 in E3'; inversion E3'; reflexivity). rewrite Hs in Es3, O3. clear Hs E3'.
    destruct (side_right_done _ _ _ _ _ _ _ O1 Hlr Es3 St3 Z3 E4) as (Wr & O4 & T4 & P4 & S4).
    pose proof (set_subtrace_len_spec _ _ _ E2) as [Es2 B2].
    assert (Ou : len_N (s_trace C s1) <= u32_max) by apply O1.
    assert (B2' : s_pos C s1 + l <= len_N (s_trace C s1)).
    { apply B2. destruct O1 as [? [? ?]]. unfold sub, subtrace_len in Hlr. lia. }
    pose proof (side_windows s1 l r O1 Hlr) as W.
    rewrite <- Es2, <- Es3, Wl, Wr in W.
    assert (Ll : len_N wl = l).
    { rewrite <- Wl, Es2. unfold len_N. rewrite window_length by (apply mk_ok; assumption).
      unfold nsub, sub, subtrace_len. cbn. lia. }
    assert (Lr : len_N wr = r).
    { rewrite <- Wr, Es3. unfold len_N. rewrite window_length by (rewrite <- Es3; exact O3).
      unfold nsub, sub, subtrace_len. cbn. lia. }
    split; [exact T4 |]. split; [exact O4 |]. split.
    - rewrite W, <- app_assoc. f_equal. f_equal. rewrite window_win. unfold npos, nsub. rewrite T4, P4, S4. reflexivity.
    - rewrite P4. unfold len_N in *. rewrite app_length. lia.
  Qed.

  Lemma par_track_spec : forall f sg k f1, par_track C f sg k = Ok f1 ->
    pf_prev f1 = pf_prev f /\ pf_cur f1 = pf_cur f /\ pf_inserter f1 = pf_inserter f /\
    pf_left f1 = pf_left f /\ pf_right f1 = pf_right f /\ pf_saved f1 = len_N (k_result C k).
  Proof.
    intros f sg k f1 H. unfold par_track in H. destruct (len_N (k_result C k) <? pf_saved f); inversion H; subst.
    cbn. repeat split; reflexivity.
  Qed.

  Lemma left_completed_inv : forall f k f1 k3, par_left_completed C f k = Ok (f1, k3) ->
    exists sxp sxc,
      swallow (set_position_and_len C (k_prev C k) (cs_pos (fst (pf_left f))) (cs_len (fst (pf_left f)))) (k_prev C k) = Ok sxp /\
      swallow (set_position_and_len C (k_cur C k) (cs_pos (snd (pf_left f))) (cs_len (snd (pf_left f)))) (k_cur C k) = Ok sxc /\
      k_result C k3 = k_result C k /\
      pf_prev f1 = pf_prev f /\ pf_cur f1 = pf_cur f /\ pf_inserter f1 = pf_inserter f /\ pf_right f1 = pf_right f /\
      (forall s3p s3c, set_subtrace_len C sxp (snd (pf_prev f)) = Ok s3p -> set_subtrace_len C sxc (snd (pf_cur f)) = Ok s3c ->
                       k_prev C k3 = s3p /\ k_cur C k3 = s3c).
  Proof.
    intros f k f1 k3 H. unfold par_left_completed in H.
    destruct (par_track C f SLeft k) as [f0 | |] eqn:Et; try (cbn in H; discriminate H). cbn [bind] in H.
    destruct (par_track_spec _ _ _ _ Et) as (A1 & A2 & A3 & A4 & A5 & A6).
    unfold update_ctx_states in H. rewrite A4 in H.
    destruct (swallow (set_position_and_len C (k_prev C k) _ _) (k_prev C k)) as [sxp | |] eqn:Ex1; try (cbn in H; discriminate H).
    cbn [bind] in H.
    destruct (swallow (set_position_and_len C (k_cur C k) _ _) (k_cur C k)) as [sxc | |] eqn:Ex2; try (cbn in H; discriminate H).
    cbn [bind k_prev k_cur with_prev with_cur] in H.
    exists sxp, sxc. split; [reflexivity |]. split; [reflexivity |].
    rewrite A1, A2 in H.
    destruct (set_subtrace_len C sxp (snd (pf_prev f))) as [s3p | |] eqn:F1.
    - cbn [k_cur with_prev] in H.
      destruct (set_subtrace_len C sxc (snd (pf_cur f))) as [s3c | |] eqn:F2; inversion H; subst; cbn;
        repeat split; auto; try congruence.
    - inversion H; subst. cbn. repeat split; auto; try congruence.
    - discriminate H.
  Qed.

  Lemma right_completed_inv : forall f k k5, par_right_completed C f k = Ok k5 ->
    exists ls rs s4p s4c,
      pf_inserter f < len_N (k_result C k) /\
      k_result C k5 = set_nth (k_result C k) (N.to_nat (pf_inserter f)) (SPar ls rs) /\
      swallow (set_position_and_len C (k_prev C k) (cs_pos (fst (pf_right f))) (cs_len (fst (pf_right f)))) (k_prev C k) = Ok s4p /\
      swallow (set_position_and_len C (k_cur C k) (cs_pos (snd (pf_right f))) (cs_len (snd (pf_right f)))) (k_cur C k) = Ok s4c /\
      k_prev C k5 = s4p /\ k_cur C k5 = s4c.
  Proof.
    intros f k k5 H. unfold par_right_completed in H.
    destruct (par_track C f SRight k) as [f0 | |] eqn:Et; try (cbn in H; discriminate H). cbn [bind] in H.
    destruct (par_track_spec _ _ _ _ Et) as (A1 & A2 & A3 & A4 & A5 & A6).
    unfold insert_state in H. rewrite A3 in H.
    destruct (pf_inserter f <? len_N (k_result C k)) eqn:Ei; [| cbn in H; discriminate H]. cbn [bind] in H.
    unfold update_ctx_states in H. rewrite A5 in H. cbn [k_prev k_cur with_result] in H.
    destruct (swallow (set_position_and_len C (k_prev C k) _ _) (k_prev C k)) as [s4p | |] eqn:Ex1; try (cbn in H; discriminate H).
    cbn [bind] in H.
    destruct (swallow (set_position_and_len C (k_cur C k) _ _) (k_cur C k)) as [s4c | |] eqn:Ex2; try (cbn in H; discriminate H).
    cbn [bind] in H. inversion H; subst. apply N.ltb_lt in Ei.
    exists (pf_left_size f0), (pf_right_size f0), s4p, s4c. cbn. repeat split; auto.
  Qed.

  Lemma both_consumed_spec : forall h, both_consumed C h = true -> sub (kp h) = 0 /\ sub (kc h) = 0.
  Proof.
    intros h H. unfold both_consumed in H. apply Bool.andb_true_iff in H. destruct H as [A B].
    apply N.eqb_eq in A. apply N.eqb_eq in B. auto.
  Qed.

  Lemma par_step : forall h h1 h2 h3 h4 h5,
    handler_ok C h -> meet_par_start C h = Ok h1 ->
    (handler_ok C h1 -> exists wlp wlc el, hstep h1 h2 wlp wlc el) ->
    both_consumed C h2 = true -> meet_par_subgraph_end C h2 SLeft = Ok h3 ->
    (handler_ok C h3 -> exists wrp wrc er, hstep h3 h4 wrp wrc er) ->
    both_consumed C h4 = true -> meet_par_subgraph_end C h4 SRight = Ok h5 ->
    exists wp wc e, hstep h h5 wp wc e.
  Proof.
    intros h h1 h2 h3 h4 h5 [Hp Hc] Hs HL Bl El HR Br Er.
    unfold meet_par_start in Hs.
    destruct (try_merge_next_state_as_par C (h_keeper C h)) as [[[pp cp] k1] | |] eqn:Em; try (cbn in Hs; discriminate Hs).
    cbn [bind] in Hs.
    destruct (par_from_left_started C pp cp k1) as [[f k2] | |] eqn:Ef; try (cbn in Hs; discriminate Hs).
    cbn [bind fst snd] in Hs. inversion Hs; subst h1. clear Hs.
    destruct (merge_par_spec _ _ _ _ Em) as (p & c & En & Pp & Pc & Kp & Kc).
    destruct (next_states_steps _ _ _ _ Hp Hc En) as (S1p & S1c & R1 & _ & _).
    pose proof (par_start_spec _ _ _ _ _ Ef) as Hf. rewrite Pp, Pc in Hf.
    destruct (par_of p) as [lp rp]. destruct (par_of c) as [lc rc].
    destruct Hf as (F1 & F2 & F3 & F4 & F5 & F6 & F6' & F7 & F8 & F9 & F10 & F11).
    assert (O1p : slider_ok C (k_prev C k1)) by apply S1p.
    assert (O1c : slider_ok C (k_cur C k1)) by apply S1c.
    destruct HL as (wlp & wlc & el & L).
    { pose proof (set_subtrace_len_spec _ _ _ F10) as [E10 B10]. pose proof (set_subtrace_len_spec _ _ _ F11) as [E11 B11].
      destruct O1p as [P1 [P2 P3]]. destruct O1c as [Q1 [Q2 Q3]].
      split; cbn [h_keeper]; [rewrite E10 | rewrite E11]; apply mk_ok; try assumption; [apply B10 | apply B11]; lia. }
    (* end of the left branch *)
    destruct (both_consumed_spec _ Bl) as [Zlp Zlc].
    unfold meet_par_subgraph_end in El. rewrite (hs_pars _ _ _ _ _ L) in El. cbn [h_pars] in El.
    destruct (par_left_completed C f (h_keeper C h2)) as [[f1 k3] | |] eqn:E3; try (cbn in El; discriminate El).
    cbn [bind fst snd] in El. inversion El; subst h3. clear El.
    destruct (left_completed_inv _ _ _ _ E3) as (sxp & sxc & X1 & X2 & R3 & G1 & G2 & G3 & G4 & Hk3).
    rewrite F6 in X1. rewrite F6' in X2. rewrite F1, F2 in Hk3. cbn [snd] in Hk3.
    pose proof (hs_prev _ _ _ _ _ L) as SLp. pose proof (hs_cur _ _ _ _ _ L) as SLc.
    unfold kp, kc in SLp, SLc. cbn [h_keeper] in SLp, SLc.
    destruct (side_left_done _ _ _ _ _ _ _ _ O1p F8 F10 SLp Zlp X1) as (s3p & E3p & _ & _ & O3p).
    destruct (side_left_done _ _ _ _ _ _ _ _ O1c F9 F11 SLc Zlc X2) as (s3c & E3c & _ & _ & O3c).
    destruct (Hk3 _ _ E3p E3c) as [K3p K3c].
    destruct HR as (wrp & wrc & er & R).
    { split; cbn [h_keeper]; [rewrite K3p | rewrite K3c]; assumption. }
    (* end of the right branch *)
    destruct (both_consumed_spec _ Br) as [Zrp Zrc].
    unfold meet_par_subgraph_end in Er. rewrite (hs_pars _ _ _ _ _ R) in Er. cbn [h_pars] in Er.
    destruct (par_right_completed C f1 (h_keeper C h4)) as [k5 | |] eqn:E5; try (cbn in Er; discriminate Er).
    cbn [bind] in Er. inversion Er; subst h5. clear Er.
    destruct (right_completed_inv _ _ _ E5) as (ls & rs & s4p & s4c & Hi & R5 & Y1 & Y2 & K5p & K5c).
    rewrite G4, F7 in Y1, Y2. cbn [fst snd cs_pos cs_len] in Y1, Y2.
    pose proof (hs_prev _ _ _ _ _ R) as SRp. pose proof (hs_cur _ _ _ _ _ R) as SRc.
    unfold kp, kc in SRp, SRc. cbn [h_keeper] in SRp, SRc. rewrite K3p in SRp. rewrite K3c in SRc.
    pose proof (side_all _ _ _ _ _ _ _ _ _ _ _ _ O1p F8 F10 SLp Zlp X1 E3p SRp Zrp Y1) as SAp.
    pose proof (side_all _ _ _ _ _ _ _ _ _ _ _ _ O1c F9 F11 SLc Zlc X2 E3c SRc Zrc Y2) as SAc.
    exists (opt_list p ++ (wlp ++ wrp)), (opt_list c ++ (wlc ++ wrc)), (SPar ls rs :: (el ++ er)).
    constructor.
    - unfold kp at 2. cbn [h_keeper]. rewrite K5p. eapply steps_trans; [exact S1p | exact SAp].
    - unfold kc at 2. cbn [h_keeper]. rewrite K5c. eapply steps_trans; [exact S1c | exact SAc].
    - unfold hres at 1. cbn [h_keeper]. rewrite R5, G3, F4.
      pose proof (hs_res _ _ _ _ _ R) as Rr. pose proof (hs_res _ _ _ _ _ L) as Rl.
      unfold hres in Rr, Rl. cbn [h_keeper] in Rr, Rl. rewrite Rr, R3, Rl, F3, R1.
      rewrite len_N_nat. unfold hres. rewrite <- !app_assoc. cbn [app]. rewrite set_nth_app. reflexivity.
    - reflexivity.
    - rewrite !(knowledge_app C), Kp. cbn [app knowledge state_key].
      rewrite (knowledge_app C). apply know_incl_app; [apply (hs_keep_p _ _ _ _ _ L) | apply (hs_keep_p _ _ _ _ _ R)].
    - rewrite !(knowledge_app C), Kc. cbn [app knowledge state_key].
      rewrite (knowledge_app C). apply know_incl_app; [apply (hs_keep_c _ _ _ _ _ L) | apply (hs_keep_c _ _ _ _ _ R)].
  Qed.

  (* ------------------------------------------------------------------------------------------ *)
  (* Part 5d: driver forests *)

  Fixpoint dtree_ind' (P : dtree C -> Prop) (Hc : forall p, P (DCall p))
           (Hp : forall l r, Forall P l -> Forall P r -> P (DPar l r)) (d : dtree C) {struct d} : P d :=
    match d with
    | DCall p => Hc p
    | DPar l r =>
        Hp l r
           ((fix go (ds : list (dtree C)) : Forall P ds :=
               match ds with [] => Forall_nil P | x :: xs => Forall_cons x (dtree_ind' P Hc Hp x) (go xs) end) l)
           ((fix go (ds : list (dtree C)) : Forall P ds :=
               match ds with [] => Forall_nil P | x :: xs => Forall_cons x (dtree_ind' P Hc Hp x) (go xs) end) r)
    end.

  (* the par case of drive_tree in terms of drive *)
  Lemma drive_tree_par : forall strict l r h,
    drive_tree C ceqb strict (DPar l r) h =
    match meet_par_start C h with
    | Ok h1 =>
        match drive C ceqb strict l h1 with
        | Some (Ok h2) =>
            if strict && negb (both_consumed C h2) then None else
            match meet_par_subgraph_end C h2 SLeft with
            | Ok h3 =>
                match drive C ceqb strict r h3 with
                | Some (Ok h4) =>
                    if strict && negb (both_consumed C h4) then None else Some (meet_par_subgraph_end C h4 SRight)
                | o => o
                end
            | Err e => Some (Err e)
            | Crash s => Some (Crash s)
            end
        | o => o
        end
    | Err e => Some (Err e)
    | Crash s => Some (Crash s)
    end.
  Proof.
    intros strict l r h. cbn [drive_tree].
    destruct (meet_par_start C h) as [h1 | |]; try reflexivity.
    match goal with |- context [match ?f l h1 with _ => _ end] => set (dl := f) end.
    assert (E : forall ds h0, dl ds h0 = drive C ceqb strict ds h0).
    { induction ds as [| d ds IH]; intros h0; cbn; [reflexivity |].
      destruct (drive_tree C ceqb strict d h0) as [[h' | |] |]; auto. }
    rewrite !E. destruct (drive C ceqb strict l h1) as [[h2 | |] |]; try reflexivity.
    destruct (strict && negb (both_consumed C h2)); [reflexivity |].
    destruct (meet_par_subgraph_end C h2 SLeft) as [h3 | |]; try reflexivity.
    rewrite E. reflexivity.
  Qed.

  Definition tree_keeps (d : dtree C) : Prop :=
    forall h h', handler_ok C h -> drive_tree C ceqb true d h = Some (Ok h') -> exists wp wc e, hstep h h' wp wc e.

  Lemma drive_keeps : forall ds, Forall tree_keeps ds ->
    forall h h', handler_ok C h -> drive C ceqb true ds h = Some (Ok h') -> exists wp wc e, hstep h h' wp wc e.
  Proof.
    induction 1 as [| d ds Hd _ IH]; intros h h' Hok H; cbn [drive] in H.
    - inversion H; subst. exists [], [], []. apply hstep_refl. exact Hok.
    - destruct (drive_tree C ceqb true d h) as [[h1 | |] |] eqn:E1; try discriminate H.
      destruct (Hd _ _ Hok E1) as (wp1 & wc1 & e1 & S1).
      destruct (IH _ _ (hstep_ok _ _ _ _ _ S1) H) as (wp2 & wc2 & e2 & S2).
      exists (wp1 ++ wp2), (wc1 ++ wc2), (e1 ++ e2). eapply hstep_trans; eassumption.
  Qed.

  Lemma every_tree_keeps : forall d, tree_keeps d.
  Proof.
    induction d as [push | l r IHl IHr] using dtree_ind'.
    - intros h h' Hok H. eapply call_step; eassumption.
    - intros h h' Hok H. rewrite drive_tree_par in H.
      destruct (meet_par_start C h) as [h1 | |] eqn:Es; try discriminate H.
      destruct (drive C ceqb true l h1) as [[h2 | |] |] eqn:El; try discriminate H.
      cbn [andb] in H. destruct (both_consumed C h2) eqn:Bl; cbn [negb] in H; [| discriminate H].
      destruct (meet_par_subgraph_end C h2 SLeft) as [h3 | |] eqn:E3; try discriminate H.
      destruct (drive C ceqb true r h3) as [[h4 | |] |] eqn:Er; try discriminate H.
      destruct (both_consumed C h4) eqn:Br; cbn [negb] in H; [| discriminate H].
      inversion H as [E5]. clear H.
      eapply (par_step h h1 h2 h3 h4 h'); try eassumption.
      + intros Hok1. exact (drive_keeps l IHl _ _ Hok1 El).
      + intros Hok3. exact (drive_keeps r IHr _ _ Hok3 Er).
  Qed.

  Lemma forest_keeps : forall ds h h', handler_ok C h -> drive C ceqb true ds h = Some (Ok h') ->
    exists wp wc e, hstep h h' wp wc e.
  Proof.
    intros ds. apply drive_keeps. apply Forall_forall. intros d _. apply every_tree_keeps.
  Qed.

  (* C09 at the handler level *)
  Theorem handler_consumed : C09_handler_consumed_stmt C ceqb.
  Proof.
    intros _ ds h h' Hok [Hd Hc]. destruct (forest_keeps _ _ _ Hok Hd) as (wp & wc & e & S).
    destruct (both_consumed_spec _ Hc) as [Zp Zc].
    pose proof (hs_prev _ _ _ _ _ S) as (_ & _ & Wp & _). pose proof (hs_cur _ _ _ _ _ S) as (_ & _ & Wc & _).
    rewrite (window_empty _ Zp), app_nil_r in Wp. rewrite (window_empty _ Zc), app_nil_r in Wc.
    unfold keeps_both, prev_window, cur_window, emitted. fold (kp h) (kc h). rewrite Wp, Wc.
    fold (hres h) (hres h'). rewrite (hs_res _ _ _ _ _ S), skipn_app_exact.
    split; [apply (hs_keep_p _ _ _ _ _ S) | apply (hs_keep_c _ _ _ _ _ S)].
  Qed.

  (* a strict run is a run *)
  Lemma strict_tree_is_run : forall d h r, drive_tree C ceqb true d h = Some r -> drive_tree C ceqb false d h = Some r.
  Proof.
    induction d as [push | l r IHl IHr] using dtree_ind'; intros h res H; [exact H |].
    assert (Hlist : forall ds, Forall (fun d => forall h r, drive_tree C ceqb true d h = Some r -> drive_tree C ceqb false d h = Some r) ds ->
              forall h0 r0, drive C ceqb true ds h0 = Some r0 -> drive C ceqb false ds h0 = Some r0).
    { induction 1 as [| d ds Hd _ IH]; intros h0 r0 H0; cbn [drive] in *; [exact H0 |].
      destruct (drive_tree C ceqb true d h0) as [[h1 | |] |] eqn:E1; try discriminate H0;
        rewrite (Hd _ _ E1); [apply IH; exact H0 | exact H0 | exact H0]. }
    rewrite drive_tree_par in *.
    destruct (meet_par_start C h) as [h1 | |]; try exact H.
    destruct (drive C ceqb true l h1) as [[h2 | |] |] eqn:El; try discriminate H;
      rewrite (Hlist l IHl _ _ El); try exact H.
    cbn [andb] in *. destruct (negb (both_consumed C h2)); [discriminate H |].
    destruct (meet_par_subgraph_end C h2 SLeft) as [h3 | |]; try exact H.
    destruct (drive C ceqb true r h3) as [[h4 | |] |] eqn:Er; try discriminate H;
      rewrite (Hlist r IHr _ _ Er); try exact H.
    destruct (negb (both_consumed C h4)); [discriminate H | exact H].
  Qed.
End HandlerKeep.
