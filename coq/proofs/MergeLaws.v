(* MergeLaws.v -- proofs for model/MergeSpec.v: the tie of Handler.v's merge functions to the
   decision tables read from the Rust source, the state-level join laws (C07: idempotence,
   absorption; C08: commutativity, associativity; definedness = compatibility), and the
   trace-level theorems over par-structured traces. *)
From Coq Require Import Lia.
From Aqua Require Import Base Trace Handler MergeSpec.
Open Scope N_scope.
Open Scope list_scope.

(* ======================================================================================
   A. the tables agree with the model on all inputs
   ====================================================================================== *)
Section Tables.
  Variable C : Type.
  Variable ceqb : C -> C -> bool.

  Lemma executed_table_agrees :
    forall p c, interp_executed_table C ceqb mt_executed_table p c = Some (merge_executed C ceqb p c).
  Proof.
    intros p c; destruct p, c; vm_compute; try reflexivity;
      repeat match goal with |- context [ceqb ?a ?b] => destruct (ceqb a b) end;
      try reflexivity;
      repeat match goal with |- context [N.eqb ?a ?b] => destruct (N.eqb a b) end; reflexivity.
  Qed.

  Lemma call_table_agrees :
    forall p c, interp_call_table C ceqb mt_call_table p c = Some (merge_call_results C ceqb p c).
  Proof.
    intros p c; destruct p as [s|v|x], c as [s'|v'|x'];
      try (vm_compute; reflexivity).
    - (* Executed x Executed *)
      unfold mt_call_table; cbn -[interp_executed_table mt_executed_table merge_executed].
      rewrite executed_table_agrees.
      destruct (merge_executed C ceqb v v'); reflexivity.
    - (* Failed x Failed *)
      vm_compute. destruct (ceqb x x'); reflexivity.
  Qed.

  Lemma canon_table_agrees :
    forall p c, interp_canon_table C ceqb mt_canon_table p c = Some (merge_canon_results C ceqb p c).
  Proof.
    intros p c; destruct p, c; vm_compute; try reflexivity.
    destruct (ceqb _ _); reflexivity.
  Qed.

  Theorem merge_table_agrees : merge_table_agrees_stmt C ceqb.
  Proof.
    split; [exact executed_table_agrees | split; [exact call_table_agrees | exact canon_table_agrees]].
  Qed.
End Tables.

Section Dispatch.
  Variable C : Type.
  Variable ceqb : C -> C -> bool.

  Lemma call_dispatch_agrees :
    forall k, let '(p, c, k1) := next_states C k in
              table_call_dispatch C ceqb p c k1 = Some (try_merge_next_state_as_call C ceqb k).
  Proof.
    intros k. unfold try_merge_next_state_as_call.
    destruct (next_states C k) as [[p c] k1].
    destruct p as [[ | pc | | | ]|], c as [[ | cc | | | ]|];
      unfold table_call_dispatch, mt_call_dispatch; cbn -[interp_call_table mt_call_table merge_call_results prepare_call_result];
      try reflexivity.
    rewrite call_table_agrees. reflexivity.
  Qed.

  Lemma canon_dispatch_agrees :
    forall k, let '(p, c, k1) := next_states C k in
              table_canon_dispatch C ceqb p c k1 = Some (try_merge_next_state_as_canon C ceqb k).
  Proof.
    intros k. unfold try_merge_next_state_as_canon.
    destruct (next_states C k) as [[p c] k1].
    destruct p as [[ | | | pc | ]|], c as [[ | | | cc | ]|];
      unfold table_canon_dispatch, mt_canon_dispatch; cbn -[interp_canon_table mt_canon_table merge_canon_results];
      try reflexivity.
    rewrite canon_table_agrees. reflexivity.
  Qed.

  Lemma prepare_ap_agrees :
    forall g sch k, table_prepare_ap C g sch k = prepare_ap_result C g sch k.
  Proof.
    intros g sch k. unfold table_prepare_ap, prepare_ap_result.
    destruct (prepare_positions_mapping C sch k); cbn [bind]; try reflexivity.
    destruct g as [|g0 [|g1 r]]; try reflexivity.
    unfold mt_ap_generations_required, len_N. cbn [length].
    destruct (N.of_nat (S (S (length r))) =? 1) eqn:E; [|reflexivity].
    apply N.eqb_eq in E. lia.
  Qed.

  Lemma ap_dispatch_agrees :
    forall k, let '(p, c, k1) := next_states C k in
              table_ap_dispatch C p c k1 = Some (try_merge_next_state_as_ap C k).
  Proof.
    intros k. unfold try_merge_next_state_as_ap.
    destruct (next_states C k) as [[p c] k1].
    destruct p as [[ | | pg | | ]|], c as [[ | | cg | | ]|];
      unfold table_ap_dispatch, mt_ap_dispatch; cbn -[table_prepare_ap prepare_ap_result];
      try reflexivity; rewrite prepare_ap_agrees; reflexivity.
  Qed.

  Lemma par_dispatch_agrees :
    forall k, let '(p, c, k1) := next_states C k in
              table_par_dispatch C p c k1 = Some (try_merge_next_state_as_par C k).
  Proof.
    intros k. unfold try_merge_next_state_as_par.
    destruct (next_states C k) as [[p c] k1].
    destruct p as [[ | | | | ]|], c as [[ | | | | ]|];
      unfold table_par_dispatch, mt_par_dispatch; cbn; reflexivity.
  Qed.

  Lemma positions_mapping_agrees :
    forall sch k k', prepare_positions_mapping C sch k = Ok k' ->
       k_new_to_prev C k' = (if scheme_maps_prev sch
                             then bimap_insert (k_new_to_prev C k) (result_next_pos C k) (s_pos C (k_prev C k) - 1)
                             else k_new_to_prev C k) /\
       k_new_to_cur C k' = (if scheme_maps_cur sch
                            then bimap_insert (k_new_to_cur C k) (result_next_pos C k) (s_pos C (k_cur C k) - 1)
                            else k_new_to_cur C k).
  Proof.
    intros sch k k' H. unfold prepare_positions_mapping in H.
    destruct sch; cbn [scheme_maps_prev scheme_maps_cur].
    - destruct (s_pos C (k_prev C k) =? 0); [discriminate|]. inversion H; subst; cbn. split; reflexivity.
    - destruct (s_pos C (k_cur C k) =? 0); [discriminate|]. inversion H; subst; cbn. split; reflexivity.
    - destruct (s_pos C (k_prev C k) =? 0); [discriminate|]. cbn [bind] in H. cbn in H.
      destruct (s_pos C (k_cur C k) =? 0); [discriminate|]. inversion H; subst; cbn. split; reflexivity.
  Qed.

  Theorem merge_dispatch_agrees : merge_dispatch_agrees_stmt C ceqb.
  Proof.
    repeat split.
    - exact call_dispatch_agrees.
    - exact canon_dispatch_agrees.
    - exact ap_dispatch_agrees.
    - exact par_dispatch_agrees.
    - eapply positions_mapping_agrees; eassumption.
    - eapply positions_mapping_agrees; eassumption.
  Qed.
End Dispatch.


(* ======================================================================================
   B. state-level laws
   ====================================================================================== *)
Section Laws.
  Variable C : Type.
  Variable ceqb : C -> C -> bool.
  Hypothesis ceqb_spec : ceqb_correct ceqb.

  Lemma ceqb_refl : forall x, ceqb x x = true.
  Proof. intro x. apply ceqb_spec. reflexivity. Qed.
  Lemma ceqb_true : forall x y, ceqb x y = true -> x = y.
  Proof. intros x y H. apply ceqb_spec. exact H. Qed.
  Lemma ceqb_false : forall x y, ceqb x y = false -> x <> y.
  Proof. intros x y H E. subst. rewrite ceqb_refl in H. discriminate. Qed.

  Ltac ceq :=
    repeat (match goal with
            | H : ceqb ?x ?y = true |- _ => apply ceqb_true in H; subst
            | H : ceqb ?x ?x = false |- _ => rewrite ceqb_refl in H; discriminate H
            | |- context [ceqb ?x ?x] => rewrite ceqb_refl
            | |- context [ceqb ?x ?y] => destruct (ceqb x y) eqn:?
            end; cbn [bind fst snd andb]).

  Ltac unf :=
    unfold merge_call, merge_canon, merge_call_results, merge_canon_results, merge_executed,
           call_result_eqb, value_ref_eqb, res_rel, res_rel_strict, is_ok in *;
    cbn [bind fst snd andb] in *.

  Ltac fin :=
    try discriminate; try contradiction; try reflexivity; try exact I;
    try (match goal with H : Ok _ = Ok _ |- _ => inversion H; subst; clear H end);
    try (constructor; fail); try congruence.

  Ltac dcall a := destruct a as [?s|[?x|?x ?g|?x]|?x].

  (* ---------------- calls ---------------- *)
  Theorem call_join_idem : call_join_idem_stmt C ceqb.
  Proof. intro a; dcall a; unf; ceq; fin. Qed.

  Theorem call_join_comm : call_join_comm_stmt C ceqb.
  Proof. intros a b; dcall a; dcall b; unf; ceq; fin. Qed.

  Theorem call_join_comm_mod_sender_nostream : call_join_comm_mod_sender_nostream_stmt C ceqb.
  Proof.
    intros a b Ha Hb; dcall a; dcall b; unf; ceq; fin;
      try (exfalso; eapply Ha; reflexivity); try (exfalso; eapply Hb; reflexivity).
  Qed.

  (* the naive reading fails: stream values keep the generation of the previous side *)
  Theorem call_join_comm_mod_sender_refuted :
    forall c : C, exists a b, ~ res_rel_strict (call_sim_sender C) (merge_call C ceqb a b) (merge_call C ceqb b a).
  Proof.
    intro c. exists (Executed (VRStream c 0)), (Executed (VRStream c 1)).
    unf. rewrite ceqb_refl. cbn. intro H. inversion H.
  Qed.

  Theorem call_join_absorb : call_join_absorb_stmt C ceqb.
  Proof.
    intros a b m H; dcall a; dcall b; revert H; unf; ceq; intro H; fin; repeat split; unf; ceq; fin.
  Qed.

  Theorem call_join_assoc : call_join_assoc_stmt C ceqb.
  Proof.
    intros a b c; dcall a; dcall b; dcall c; unf; ceq; fin.
  Qed.

  Theorem call_join_lub : call_join_lub_stmt C ceqb.
  Proof.
    intros a b m H; dcall a; dcall b; revert H; unf; ceq; intro H; fin; (split; [|split]); try (constructor; fail);
      intros u Hu1 Hu2; inversion Hu1; inversion Hu2; subst; fin.
  Qed.

  Theorem call_join_defined_iff : call_join_defined_iff_stmt C ceqb.
  Proof.
    intros a b; split.
    - intros [m Hm]. exists m. destruct (call_join_lub a b m Hm) as [H1 [H2 _]]. split; assumption.
    - intros [u [H1 H2]]. inversion H1; inversion H2; subst; fin; unf; ceq; fin;
        try (eexists; reflexivity);
        try (match goal with H : ?x <> ?x |- _ => exfalso; apply H; reflexivity end).
      all: try (match goal with H : ceqb ?x ?y = false |- _ => apply ceqb_false in H; exfalso; congruence end).
      all: dcall u; unf; ceq; fin; try (eexists; reflexivity).
  Qed.

  Theorem call_join_congr : call_join_congr_stmt C ceqb.
  Proof.
    intros a a' b b' Ha Hb; inversion Ha; inversion Hb; subst;
      try dcall a; try dcall a'; try dcall b; try dcall b'; unf; ceq; fin.
  Qed.

  (* ---------------- canon ---------------- *)
  Ltac dcanon a := destruct a as [?p|?x].

  Theorem canon_join_idem : canon_join_idem_stmt C ceqb.
  Proof. intro a; dcanon a; unf; ceq; fin. Qed.

  Theorem canon_join_comm : canon_join_comm_stmt C ceqb.
  Proof. intros a b; dcanon a; dcanon b; unf; ceq; fin. Qed.

  Theorem canon_join_absorb : canon_join_absorb_stmt C ceqb.
  Proof. intros a b m H; dcanon a; dcanon b; revert H; unf; ceq; intro H; fin; repeat split; unf; ceq; fin. Qed.

  Theorem canon_join_assoc : canon_join_assoc_stmt C ceqb.
  Proof. intros a b c; dcanon a; dcanon b; dcanon c; unf; ceq; fin. Qed.

  Theorem canon_join_lub : canon_join_lub_stmt C ceqb.
  Proof.
    intros a b m H; dcanon a; dcanon b; revert H; unf; ceq; intro H; fin; (split; [|split]); try (constructor; fail);
      intros u Hu1 Hu2; inversion Hu1; inversion Hu2; subst; fin.
  Qed.

  Theorem canon_join_defined_iff : canon_join_defined_iff_stmt C ceqb.
  Proof.
    intros a b; split.
    - intros [m Hm]. exists m. destruct (canon_join_lub a b m Hm) as [H1 [H2 _]]. split; assumption.
    - intros [u [H1 H2]]. inversion H1; inversion H2; subst; fin; unf; ceq; fin; try (eexists; reflexivity).
      all: try (match goal with H : ceqb ?x ?y = false |- _ => apply ceqb_false in H; exfalso; congruence end).
      all: dcanon u; unf; ceq; fin; try (eexists; reflexivity).
  Qed.
End Laws.

(* ---------------- ap (no content ids involved) ---------------- *)
Section ApLaws.
  Variable C : Type.

  Theorem ap_join_exact : ap_join_exact_stmt.
  Proof.
    intros a b; split.
    - intros [g ->]. reflexivity.
    - intro H. destruct a as [|g [|g' r]]; try reflexivity. exfalso. apply H. exists g. reflexivity.
  Qed.

  Theorem ap_join_idem : ap_join_idem_stmt.
  Proof. intros a [g ->]. reflexivity. Qed.

  Theorem ap_join_idem_naive_refuted : ~ ap_join_idem_naive_stmt.
  Proof. intro H. specialize (H []). discriminate. Qed.

  Theorem ap_join_comm_naive_refuted : ~ ap_join_comm_naive_stmt.
  Proof. intro H. specialize (H [1] []). cbn in H. exact H. Qed.

  Theorem ap_join_absorb : ap_join_absorb_stmt.
  Proof.
    intros a b m H. destruct a as [|g [|g' r]]; try discriminate. inversion H; subst. split; reflexivity.
  Qed.

  Theorem ap_join_comm : ap_join_comm_stmt.
  Proof. intros a b [g ->] [h ->]. cbn. split; eexists; reflexivity. Qed.

  Theorem ap_join_assoc : ap_join_assoc_stmt.
  Proof. intros a b c [g ->] [h ->] [i ->]. reflexivity. Qed.
End ApLaws.

(* ======================================================================================
   C. trace level
   ====================================================================================== *)
Ltac nbool :=
  repeat match goal with
         | |- context [?a <? ?b] =>
             let E := fresh "E" in destruct (a <? b) eqn:E; [apply N.ltb_lt in E | apply N.ltb_ge in E]; try lia
         | |- context [?a <=? ?b] =>
             let E := fresh "E" in destruct (a <=? b) eqn:E; [apply N.leb_le in E | apply N.leb_gt in E]; try lia
         | |- context [?a =? ?b] =>
             let E := fresh "E" in destruct (a =? b) eqn:E; [apply N.eqb_eq in E | apply N.eqb_neq in E]; try lia
         end.

Ltac lnorm := repeat progress (rewrite <- ?app_assoc; cbn [app]).

Section ListFacts.
  Context {A : Type}.

  Lemma len_N_app : forall (a b : list A), len_N (a ++ b) = len_N a + len_N b.
  Proof. intros. unfold len_N. rewrite app_length. lia. Qed.
  Lemma len_N_cons : forall (x : A) l, len_N (x :: l) = 1 + len_N l.
  Proof. intros. unfold len_N. cbn [length]. lia. Qed.
  Lemma len_N_nil : len_N (@nil A) = 0.
  Proof. reflexivity. Qed.

  Lemma nth_N_mid : forall (pre post : list A) x, nth_N (pre ++ x :: post) (len_N pre) = Some x.
  Proof.
    intros. unfold nth_N, len_N. rewrite app_length. cbn [length].
    assert (H : (N.of_nat (length pre) <? N.of_nat (length pre + S (length post))) = true) by (apply N.ltb_lt; lia).
    rewrite H. rewrite Nnat.Nat2N.id.
    rewrite nth_error_app2 by lia. rewrite Nat.sub_diag. reflexivity.
  Qed.

  Lemma set_nth_mid : forall (pre post : list A) x y,
      set_nth (pre ++ x :: post) (length pre) y = pre ++ y :: post.
  Proof. induction pre; intros; cbn; [reflexivity | rewrite IHpre; reflexivity]. Qed.
End ListFacts.

Section TraceLevel.
  Variable C : Type.
  Variable ceqb : C -> C -> bool.
  Notation state := (state C).
  Notation trace := (list state).
  Notation slider := (slider C).
  Notation keeper := (keeper C).
  Notation handler := (handler C).
  Notation tree := (tree C).

  (* ---------------- sliders ---------------- *)
  Definition sl_at (s : slider) (T : trace) (pos rem : N) : Prop :=
    s_trace C s = T /\ s_pos C s = pos /\ s_seen C s <= s_len C s /\ s_len C s - s_seen C s = rem /\ pos + rem <= len_N T.

  Lemma sl_new : forall T, sl_at (slider_new C T) T 0 (len_N T).
  Proof. intro T. unfold sl_at, slider_new; cbn. repeat split; lia. Qed.

  Lemma next_state_sl : forall s T pos rem st,
      sl_at s T pos rem -> 0 < rem -> nth_N T pos = Some st ->
      exists s', next_state C s = (Some st, s') /\ sl_at s' T (pos + 1) (rem - 1).
  Proof.
    intros [t p l sn] T pos rem st (H1 & H2 & H3 & H4 & H5) Hr Hn; cbn in *; subst.
    unfold next_state; cbn.
    replace (l <=? sn) with false by (symmetry; apply N.leb_gt; lia).
    replace (len_N T <=? pos) with false by (symmetry; apply N.leb_gt; lia).
    cbn. rewrite Hn. eexists; split; [reflexivity|]. unfold sl_at; cbn. repeat split; lia.
  Qed.

  Lemma next_state_none : forall s T pos, sl_at s T pos 0 -> next_state C s = (None, s).
  Proof.
    intros [t p l sn] T pos (H1 & H2 & H3 & H4 & H5); cbn in *; subst.
    unfold next_state; cbn. replace (l <=? sn) with true by (symmetry; apply N.leb_le; lia). reflexivity.
  Qed.

  Lemma set_subtrace_len_sl : forall s T pos rem l,
      sl_at s T pos rem -> pos + l <= len_N T ->
      exists s', set_subtrace_len C s l = Ok s' /\ sl_at s' T pos l.
  Proof.
    intros [t p ln sn] T pos rem l (H1 & H2 & H3 & H4 & H5) Hl; cbn in *; subst.
    unfold set_subtrace_len; cbn. nbool.
    eexists; split; [reflexivity|]. unfold sl_at; cbn. repeat split; lia.
  Qed.

  Lemma subtrace_len_sl : forall s T pos rem, sl_at s T pos rem -> subtrace_len C s = rem.
  Proof. intros s T pos rem (H1 & H2 & H3 & H4 & H5). unfold subtrace_len. exact H4. Qed.

  Lemma set_pos_len_sl : forall s T p l,
      s_trace C s = T -> p + l <= len_N T -> p + l <= u32_max ->
      exists s', set_position_and_len C s p l = Ok s' /\ sl_at s' T p l.
  Proof.
    intros [t p0 ln sn] T p l H1 Hl Hu; cbn in *; subst.
    unfold set_position_and_len; cbn.
    destruct (negb (l =? 0)); nbool; eexists; (split; [reflexivity|]); unfold sl_at; cbn; repeat split; lia.
  Qed.

  (* the swallowed update of update_ctx_states never moves a slider that is already at the position *)
  Lemma set_pos_len_swallow : forall s T p rem l,
      sl_at s T p rem ->
      exists s' rem', swallow (set_position_and_len C s p l) s = Ok s' /\ sl_at s' T p rem'.
  Proof.
    intros [t p0 ln sn] T p rem l (H1 & H2 & H3 & H4 & H5); cbn in *; subst.
    unfold set_position_and_len; cbn.
    destruct (negb (l =? 0)) eqn:El.
    - destruct (u32_max <? p + l) eqn:E1; [|destruct (len_N T <? p + l) eqn:E2]; cbn.
      + exists {| s_trace := T; s_pos := p; s_len := ln; s_seen := sn |}, (ln - sn). split; [reflexivity|].
        unfold sl_at; cbn. repeat split; lia.
      + exists {| s_trace := T; s_pos := p; s_len := ln; s_seen := sn |}, (ln - sn). split; [reflexivity|].
        unfold sl_at; cbn. repeat split; lia.
      + apply N.ltb_ge in E2. eexists; exists l. split; [reflexivity|]. unfold sl_at; cbn. repeat split; lia.
    - apply Bool.negb_false_iff in El. apply N.eqb_eq in El. subst. cbn.
      eexists; exists 0. split; [reflexivity|]. unfold sl_at; cbn. repeat split; lia.
  Qed.

  (* ---------------- keeper / handler states during a replay ---------------- *)
  (* Mirror: the current trace has the shape of the previous one; Null: the current trace is empty *)
  Inductive cmode := Mirror | Null.
  Definition cur_at (m : cmode) (s : slider) (Q : trace) (pos rem : N) : Prop :=
    match m with Mirror => sl_at s Q pos rem | Null => s = slider_new C [] end.
  Definition kst (m : cmode) (k : keeper) (P Q : trace) (pos rem : N) (R : trace) : Prop :=
    sl_at (k_prev C k) P pos rem /\ cur_at m (k_cur C k) Q pos rem /\ k_result C k = R.
  Definition hst (m : cmode) (h : handler) (P Q : trace) (pos rem : N) (R : trace)
             (pars : list par_fsm) (folds : list (N * fold_fsm)) : Prop :=
    kst m (h_keeper C h) P Q pos rem R /\ h_pars C h = pars /\ h_folds C h = folds.
  Definition cur_state (m : cmode) (Q : trace) (pos : N) : option state :=
    match m with Mirror => nth_N Q pos | Null => None end.

  Lemma next_states_kst : forall m k P Q pos rem R a,
      kst m k P Q pos rem R -> 0 < rem -> nth_N P pos = Some a ->
      (m = Mirror -> exists b, nth_N Q pos = Some b) ->
      exists k1, next_states C k = (Some a, cur_state m Q pos, k1) /\ kst m k1 P Q (pos + 1) (rem - 1) R /\
                 k_new_to_prev C k1 = k_new_to_prev C k /\ k_new_to_cur C k1 = k_new_to_cur C k.
  Proof.
    intros m k P Q pos rem R a (Hp & Hc & Hr) Hrem Ha Hb.
    destruct (next_state_sl _ _ _ _ _ Hp Hrem Ha) as (sp & Esp & Hsp).
    unfold next_states. rewrite Esp.
    destruct m; cbn [cur_at cur_state] in *.
    - destruct (Hb eq_refl) as (b & Eb).
      destruct (next_state_sl _ _ _ _ _ Hc Hrem Eb) as (sc & Esc & Hsc).
      rewrite Esc, Eb. eexists; split; [reflexivity|]. unfold kst; cbn. auto.
    - rewrite Hc. cbn. eexists; split; [reflexivity|]. unfold kst; cbn. auto.
  Qed.

  Lemma ppm_ok : forall sch (k : keeper),
      (scheme_maps_prev sch = true -> s_pos C (k_prev C k) <> 0) ->
      (scheme_maps_cur sch = true -> s_pos C (k_cur C k) <> 0) ->
      exists k2, prepare_positions_mapping C sch k = Ok k2 /\
                 k_prev C k2 = k_prev C k /\ k_cur C k2 = k_cur C k /\ k_result C k2 = k_result C k.
  Proof.
    intros sch k Hp Hc. unfold prepare_positions_mapping.
    destruct sch; cbn [scheme_maps_prev scheme_maps_cur] in *.
    - specialize (Hp eq_refl). apply N.eqb_neq in Hp. rewrite Hp. eexists; split; [reflexivity|]. cbn; auto.
    - specialize (Hc eq_refl). apply N.eqb_neq in Hc. rewrite Hc. eexists; split; [reflexivity|]. cbn; auto.
    - specialize (Hp eq_refl). specialize (Hc eq_refl). apply N.eqb_neq in Hp. apply N.eqb_neq in Hc.
      rewrite Hp. cbn. rewrite Hc. eexists; split; [reflexivity|]. cbn; auto.
  Qed.

  Lemma kst_same_sliders : forall m k k' P Q pos rem R R',
      kst m k P Q pos rem R -> k_prev C k' = k_prev C k -> k_cur C k' = k_cur C k -> k_result C k' = R' ->
      kst m k' P Q pos rem R'.
  Proof. intros m k k' P Q pos rem R R' (Hp & Hc & Hr) E1 E2 E3. unfold kst. rewrite E1, E2. auto. Qed.

  (* the state a leaf of the replay re-emits *)
  Definition leaf_join (m : cmode) (Q : trace) (pos : N) (a mres : state) : Prop :=
    match m with
    | Mirror => exists b, nth_N Q pos = Some b /\ merge_state C ceqb a b = Ok mres
    | Null => mres = a
    end.

  Lemma kst_pos_nonzero : forall m k P Q pos rem R sch,
      kst m k P Q (pos + 1) rem R -> (m = Null -> sch = SchPrevious) ->
      (scheme_maps_prev sch = true -> s_pos C (k_prev C k) <> 0) /\
      (scheme_maps_cur sch = true -> s_pos C (k_cur C k) <> 0).
  Proof.
    intros m k P Q pos rem R sch (Hp & Hc & Hr) Hn.
    destruct Hp as (_ & Hp & _). split; [intros _; lia|].
    destruct m; cbn in Hc.
    - destruct Hc as (_ & Hc & _). intros _; lia.
    - rewrite (Hn eq_refl). cbn. discriminate.
  Qed.

  Lemma replay_leaf_ok : forall m h P Q pos rem R pars folds a mres,
      hst m h P Q pos rem R pars folds -> 0 < rem -> nth_N P pos = Some a -> leaf_ok C a = true ->
      leaf_join m Q pos a mres ->
      exists h', replay_leaf C ceqb a h = Ok h' /\ hst m h' P Q (pos + 1) (rem - 1) (R ++ [mres]) pars folds.
  Proof.
    intros m h P Q pos rem R pars folds a mres (Hk & Hpars & Hfolds) Hrem Ha Hleaf Hj.
    assert (Hb : m = Mirror -> exists b, nth_N Q pos = Some b).
    { intros ->. destruct Hj as (b & Eb & _). eauto. }
    destruct (next_states_kst _ _ _ _ _ _ _ _ Hk Hrem Ha Hb) as (k1 & Ens & Hk1 & _ & _).
    destruct a as [ | ca | ga | cna | ]; try discriminate Hleaf.
    - (* call *)
      unfold replay_leaf, meet_call_start, try_merge_next_state_as_call. rewrite Ens.
      destruct m; cbn [cur_state leaf_join] in *.
      + destruct Hj as (b & Eb & Hm). rewrite Eb.
        destruct b as [ | cb | | | ]; try discriminate Hm.
        cbn [merge_state] in Hm. unfold merge_call in Hm.
        destruct (merge_call_results C ceqb ca cb) as [[mc sch]| |]; try discriminate Hm.
        cbn in Hm. inversion Hm; subst mres. cbn [bind fst snd].
        unfold prepare_call_result.
        destruct (kst_pos_nonzero _ _ _ _ _ _ _ sch Hk1 ltac:(discriminate)) as (N1 & N2).
        destruct (ppm_ok sch k1 N1 N2) as (k2 & E2 & Ep & Ec & Er). rewrite E2. cbn.
        eexists; split; [reflexivity|]. unfold hst; cbn. split; [|auto].
        destruct Hk1 as (? & ? & Hr1). eapply kst_same_sliders; [split; [|split]; eauto|..]; cbn; try congruence.
        all: try (rewrite Er, Hr1; reflexivity).
      + subst mres. cbn. unfold prepare_call_result.
        destruct (kst_pos_nonzero _ _ _ _ _ _ _ SchPrevious Hk1 ltac:(reflexivity)) as (N1 & N2).
        destruct (ppm_ok SchPrevious k1 N1 N2) as (k2 & E2 & Ep & Ec & Er). rewrite E2. cbn.
        eexists; split; [reflexivity|]. unfold hst; cbn. split; [|auto].
        destruct Hk1 as (? & ? & Hr1). eapply kst_same_sliders; [split; [|split]; eauto|..]; cbn; try congruence.
        all: try (rewrite Er, Hr1; reflexivity).
    - (* ap *)
      destruct ga as [|g [|]]; try discriminate Hleaf.
      unfold replay_leaf, meet_ap_start, try_merge_next_state_as_ap. rewrite Ens.
      destruct m; cbn [cur_state leaf_join] in *.
      + destruct Hj as (b & Eb & Hm). rewrite Eb.
        destruct b as [ | | gb | | ]; try discriminate Hm.
        cbn in Hm. inversion Hm; subst mres.
        unfold prepare_ap_result.
        destruct (kst_pos_nonzero _ _ _ _ _ _ _ SchBoth Hk1 ltac:(discriminate)) as (N1 & N2).
        destruct (ppm_ok SchBoth k1 N1 N2) as (k2 & E2 & Ep & Ec & Er). rewrite E2. cbn.
        eexists; split; [reflexivity|]. unfold hst; cbn. split; [|auto].
        destruct Hk1 as (? & ? & Hr1). eapply kst_same_sliders; [split; [|split]; eauto|..]; cbn; try congruence.
        all: try (rewrite Er, Hr1; reflexivity).
      + subst mres. unfold prepare_ap_result.
        destruct (kst_pos_nonzero _ _ _ _ _ _ _ SchPrevious Hk1 ltac:(reflexivity)) as (N1 & N2).
        destruct (ppm_ok SchPrevious k1 N1 N2) as (k2 & E2 & Ep & Ec & Er). rewrite E2. cbn.
        eexists; split; [reflexivity|]. unfold hst; cbn. split; [|auto].
        destruct Hk1 as (? & ? & Hr1). eapply kst_same_sliders; [split; [|split]; eauto|..]; cbn; try congruence.
        all: try (rewrite Er, Hr1; reflexivity).
    - (* canon *)
      unfold replay_leaf, meet_canon_start, try_merge_next_state_as_canon. rewrite Ens.
      destruct m; cbn [cur_state leaf_join] in *.
      + destruct Hj as (b & Eb & Hm). rewrite Eb.
        destruct b as [ | | | cnb | ]; try discriminate Hm.
        cbn [merge_state] in Hm. unfold merge_canon in Hm.
        destruct (merge_canon_results C ceqb cna cnb) as [mc| |]; try discriminate Hm.
        cbn in Hm. inversion Hm; subst mres. cbn.
        eexists; split; [reflexivity|]. unfold hst; cbn. split; [|auto].
        destruct Hk1 as (? & ? & Hr1). eapply kst_same_sliders; [split; [|split]; eauto|..]; cbn; try congruence.
      + subst mres. cbn.
        eexists; split; [reflexivity|]. unfold hst; cbn. split; [|auto].
        destruct Hk1 as (? & ? & Hr1). eapply kst_same_sliders; [split; [|split]; eauto|..]; cbn; try congruence.
  Qed.

  (* ---------------- the par state machine ---------------- *)
  Lemma null_set_sub : set_subtrace_len C (slider_new C []) 0 = Ok (slider_new C []).
  Proof. reflexivity. Qed.
  Lemma null_set_pos : set_position_and_len C (slider_new C []) 0 0 = Ok (slider_new C []).
  Proof. reflexivity. Qed.
  Lemma null_new_state : forall sg, par_new_state C (0, 0) sg (slider_new C []) = Ok {| cs_pos := 0; cs_len := 0 |}.
  Proof. intros []; reflexivity. Qed.

  (* the length component of the left state is whatever the code computes (the left size before, the rest
     of the window since the fix of compute_new_state); only the position matters below *)
  Lemma par_new_state_left : forall s T p rem l r,
      sl_at s T p rem -> p + l <= u32_max -> l <= rem ->
      exists ll, par_new_state C (l, r) SLeft s = Ok {| cs_pos := p + l; cs_len := ll |}.
  Proof.
    intros s T p rem l r Hs Hu Hl. pose proof (subtrace_len_sl _ _ _ _ Hs) as Hsub.
    destruct Hs as (H1 & H2 & H3 & H4 & H5). unfold par_new_state. cbn [bind]. rewrite ?H2, ?Hsub. nbool.
    eexists. reflexivity.
  Qed.
  Lemma par_new_state_right : forall s T p rem l r,
      sl_at s T p rem -> l + r <= rem -> p + (l + r) <= u32_max ->
      par_new_state C (l, r) SRight s = Ok {| cs_pos := p + (l + r); cs_len := rem - (l + r) |}.
  Proof.
    intros s T p rem l r Hs Hl Hu. pose proof (subtrace_len_sl _ _ _ _ Hs) as Hsub.
    destruct Hs as (H1 & H2 & H3 & H4 & H5). unfold par_new_state.
    replace (u32_max <? l + r) with false by (symmetry; apply N.ltb_ge; lia). cbn [bind].
    rewrite H2, Hsub. nbool. reflexivity.
  Qed.

  Definition mcur (m : cmode) (x : N * N) : N * N := match m with Mirror => x | Null => (0, 0) end.
  Definition mctx (m : cmode) (c : ctx_state) : ctx_state := match m with Mirror => c | Null => {| cs_pos := 0; cs_len := 0 |} end.
  Definition par_fsm_of (m : cmode) (p1 rem1 nl nr llp llc insp saved ls rs : N) : par_fsm :=
    let lc := {| cs_pos := p1 + nl; cs_len := llp |} in
    let lc' := {| cs_pos := p1 + nl; cs_len := llc |} in
    let rc := {| cs_pos := p1 + (nl + nr); cs_len := rem1 - (nl + nr) |} in
    {| pf_prev := (nl, nr); pf_cur := mcur m (nl, nr); pf_inserter := insp;
       pf_left := (lc, mctx m lc'); pf_right := (rc, mctx m rc);
       pf_saved := saved; pf_left_size := ls; pf_right_size := rs |}.

  Lemma hst_eq : forall m h P Q pos rem R pars folds pos' rem' R',
      hst m h P Q pos rem R pars folds -> pos = pos' -> rem = rem' -> R = R' ->
      hst m h P Q pos' rem' R' pars folds.
  Proof. intros; subst; assumption. Qed.

  Lemma par_start_ok : forall m h P Q pos rem R pars folds nl nr,
      hst m h P Q pos rem R pars folds ->
      nth_N P pos = Some (SPar nl nr) -> (m = Mirror -> nth_N Q pos = Some (SPar nl nr)) ->
      1 + nl + nr <= rem -> len_N P <= u32_max -> (m = Mirror -> len_N Q = len_N P) ->
      exists h1 llp llc, meet_par_start C h = Ok h1 /\
                 hst m h1 P Q (pos + 1) nl (R ++ [SPar 0 0])
                     (par_fsm_of m (pos + 1) (rem - 1) nl nr llp llc (len_N R) (len_N (R ++ [SPar 0 0])) 0 0 :: pars) folds.
  Proof.
    intros m h P Q pos rem R pars folds nl nr (Hk & Hpars & Hfolds) Ha Hb Hrem Hu HQ.
    assert (Hb' : m = Mirror -> exists b, nth_N Q pos = Some b) by (intro E; eauto).
    destruct (next_states_kst _ _ _ _ _ _ _ _ Hk ltac:(lia) Ha Hb') as (k1 & Ens & Hk1 & _ & _).
    unfold meet_par_start, try_merge_next_state_as_par. rewrite Ens.
    destruct Hk1 as (Hp1 & Hc1 & Hr1).
    assert (Hbound : pos + rem <= len_N P) by (destruct Hk as ((_ & _ & _ & _ & ?) & _); assumption).
    destruct m; cbn [cur_state cur_at] in *.
    - rewrite (Hb eq_refl). cbn [bind]. unfold par_from_left_started.
      specialize (HQ eq_refl).
      cbn [k_prev k_cur push_state with_result].
      destruct (par_new_state_left _ _ _ _ nl nr Hp1 ltac:(lia) ltac:(lia)) as (llp & Ellp).
      destruct (par_new_state_left _ _ _ _ nl nr Hc1 ltac:(lia) ltac:(lia)) as (llc & Ellc).
      rewrite Ellp, Ellc. cbn [bind].
      rewrite (par_new_state_right _ _ _ _ nl nr Hp1) by lia.
      rewrite (par_new_state_right _ _ _ _ nl nr Hc1) by lia. cbn [bind].
      unfold par_prepare_sliders. cbn [pf_prev pf_cur fst snd k_prev k_cur with_prev with_cur push_state with_result mcur].
      destruct (set_subtrace_len_sl _ _ _ _ nl Hp1 ltac:(lia)) as (sp & Esp & Hsp).
      destruct (set_subtrace_len_sl _ _ _ _ nl Hc1 ltac:(lia)) as (sc & Esc & Hsc).
      rewrite Esp. cbn [bind k_cur with_prev]. rewrite Esc. cbn [bind].
      eexists; exists llp, llc; split; [reflexivity|].
      unfold hst, kst; cbn. rewrite Hr1. unfold result_next_pos. rewrite Hr1.
      split; [split; [assumption | split; [first [assumption | reflexivity] | reflexivity]] | split; [rewrite Hpars; reflexivity | assumption]].
    - cbn [bind]. unfold par_from_left_started.
      cbn [k_prev k_cur push_state with_result].
      destruct (par_new_state_left _ _ _ _ nl nr Hp1 ltac:(lia) ltac:(lia)) as (llp & Ellp).
      rewrite Ellp.
      rewrite Hc1. rewrite !null_new_state. cbn [bind].
      rewrite (par_new_state_right _ _ _ _ nl nr Hp1) by lia. cbn [bind].
      unfold par_prepare_sliders. cbn [pf_prev pf_cur fst snd k_prev k_cur with_prev with_cur push_state with_result mcur].
      destruct (set_subtrace_len_sl _ _ _ _ nl Hp1 ltac:(lia)) as (sp & Esp & Hsp).
      rewrite Esp. cbn [bind k_cur with_prev]. rewrite Hc1, null_set_sub. cbn [bind].
      eexists; exists llp, 0; split; [reflexivity|].
      unfold hst, kst; cbn. rewrite Hr1. unfold result_next_pos. rewrite Hr1.
      split; [split; [assumption | split; [first [assumption | reflexivity] | reflexivity]] | split; [rewrite Hpars; reflexivity | assumption]].
  Qed.

  Lemma par_left_ok : forall m h P Q p1 rem1 R pars folds nl nr llp llc insp Jl,
      hst m h P Q (p1 + nl) 0 (R ++ [SPar 0 0] ++ Jl)
          (par_fsm_of m p1 rem1 nl nr llp llc insp (len_N (R ++ [SPar 0 0])) 0 0 :: pars) folds ->
      len_N Jl = nl -> p1 + nl + nr <= len_N P -> len_N P <= u32_max -> (m = Mirror -> len_N Q = len_N P) ->
      exists h', meet_par_subgraph_end C h SLeft = Ok h' /\
                 hst m h' P Q (p1 + nl) nr (R ++ [SPar 0 0] ++ Jl)
                     (par_fsm_of m p1 rem1 nl nr llp llc insp (len_N (R ++ [SPar 0 0] ++ Jl)) nl 0 :: pars) folds.
  Proof.
    intros m h P Q p1 rem1 R pars folds nl nr llp llc insp Jl (Hk & Hpars & Hfolds) HJ Hb Hu HQ.
    destruct Hk as (Hp & Hc & Hr).
    unfold meet_par_subgraph_end. rewrite Hpars. unfold par_left_completed, par_track.
    rewrite Hr. unfold par_fsm_of. cbn [pf_prev pf_cur pf_inserter pf_left pf_right pf_saved pf_left_size pf_right_size].
    replace (len_N (R ++ [SPar 0 0] ++ Jl) <? len_N (R ++ [SPar 0 0])) with false
      by (symmetry; apply N.ltb_ge; rewrite !len_N_app; lia).
    replace (len_N (R ++ [SPar 0 0] ++ Jl) - len_N (R ++ [SPar 0 0])) with nl
      by (rewrite !len_N_app; lia).
    cbn [bind pf_left pf_prev pf_cur fst snd]. unfold update_ctx_states.
    cbn [cs_pos cs_len].
    destruct (set_pos_len_swallow _ _ _ _ llp Hp) as (sp & remp & Esp & Hsp).
    rewrite Esp. cbn [bind].
    destruct m; cbn [cur_at mctx mcur cs_pos cs_len] in *.
    - specialize (HQ eq_refl).
      destruct (set_pos_len_swallow _ _ _ _ llc Hc) as (sc & remc & Esc & Hsc).
      rewrite Esc. cbn [bind k_prev k_cur with_prev with_cur snd].
      destruct (set_subtrace_len_sl _ _ _ _ nr Hsp ltac:(lia)) as (sp2 & Esp2 & Hsp2).
      destruct (set_subtrace_len_sl _ _ _ _ nr Hsc ltac:(lia)) as (sc2 & Esc2 & Hsc2).
      rewrite Esp2. cbn [k_cur with_prev]. rewrite Esc2.
      eexists; split; [reflexivity|].
      unfold hst, kst; cbn. split; [split; [assumption | split; [assumption | assumption]] | split; [reflexivity | assumption]].
    - rewrite Hc, null_set_pos. cbn [swallow bind k_prev k_cur with_prev with_cur snd].
      destruct (set_subtrace_len_sl _ _ _ _ nr Hsp ltac:(lia)) as (sp2 & Esp2 & Hsp2).
      rewrite Esp2. cbn [k_cur with_prev]. rewrite null_set_sub.
      eexists; split; [reflexivity|].
      unfold hst, kst; cbn. split; [split; [assumption | split; [reflexivity | assumption]] | split; [reflexivity | assumption]].
  Qed.

  Lemma par_right_ok : forall m h P Q p1 rem1 R pars folds nl nr llp llc J Jr,
      hst m h P Q (p1 + nl + nr) 0 (R ++ [SPar 0 0] ++ J ++ Jr)
          (par_fsm_of m p1 rem1 nl nr llp llc (len_N R) (len_N (R ++ [SPar 0 0] ++ J)) nl 0 :: pars) folds ->
      len_N Jr = nr -> nl + nr <= rem1 -> p1 + rem1 <= len_N P -> len_N P <= u32_max -> (m = Mirror -> len_N Q = len_N P) ->
      exists h', meet_par_subgraph_end C h SRight = Ok h' /\
                 hst m h' P Q (p1 + (nl + nr)) (rem1 - (nl + nr)) (R ++ [SPar nl nr] ++ J ++ Jr) pars folds.
  Proof.
    intros m h P Q p1 rem1 R pars folds nl nr llp llc J Jr (Hk & Hpars & Hfolds) HJ Hrem Hb Hu HQ.
    destruct Hk as (Hp & Hc & Hr).
    unfold meet_par_subgraph_end. rewrite Hpars. unfold par_right_completed, par_track.
    rewrite Hr. unfold par_fsm_of. cbn [pf_prev pf_cur pf_inserter pf_left pf_right pf_saved pf_left_size pf_right_size].
    replace (len_N (R ++ [SPar 0 0] ++ J ++ Jr) <? len_N (R ++ [SPar 0 0] ++ J)) with false
      by (symmetry; apply N.ltb_ge; rewrite !len_N_app; lia).
    replace (len_N (R ++ [SPar 0 0] ++ J ++ Jr) - len_N (R ++ [SPar 0 0] ++ J)) with nr
      by (rewrite !len_N_app; lia).
    cbn [bind pf_inserter pf_left_size pf_right_size pf_right fst snd]. unfold insert_state. rewrite Hr.
    replace (len_N R <? len_N (R ++ [SPar 0 0] ++ J ++ Jr)) with true
      by (symmetry; apply N.ltb_lt; rewrite !len_N_app, len_N_cons; lia).
    cbn [bind]. unfold len_N at 1. rewrite Nnat.Nat2N.id.
    change (R ++ [SPar 0 0] ++ J ++ Jr) with (R ++ SPar 0 0 :: (J ++ Jr)). rewrite set_nth_mid.
    unfold update_ctx_states. cbn [k_prev k_cur with_result cs_pos cs_len].
    destruct Hp as (Hp1 & Hp2 & Hp3 & Hp4 & Hp5).
    destruct (set_pos_len_sl (k_prev C (h_keeper C h)) P (p1 + (nl + nr)) (rem1 - (nl + nr)) Hp1 ltac:(lia) ltac:(lia)) as (sp & Esp & Hsp).
    rewrite Esp. cbn [swallow bind].
    destruct m; cbn [cur_at mctx cs_pos cs_len] in *.
    - specialize (HQ eq_refl). destruct Hc as (Hc1 & Hc2 & Hc3 & Hc4 & Hc5).
      destruct (set_pos_len_sl (k_cur C (h_keeper C h)) Q (p1 + (nl + nr)) (rem1 - (nl + nr)) Hc1 ltac:(lia) ltac:(lia)) as (sc & Esc & Hsc).
      rewrite Esc. cbn [swallow bind].
      eexists; split; [reflexivity|].
      unfold hst, kst; cbn. split; [split; [assumption | split; [assumption | reflexivity]] | split; [reflexivity | assumption]].
    - rewrite Hc, null_set_pos. cbn [swallow bind].
      eexists; split; [reflexivity|].
      unfold hst, kst; cbn. split; [split; [assumption | split; [reflexivity | reflexivity]] | split; [reflexivity | assumption]].
  Qed.

  (* ---------------- the pointwise join: inversion ---------------- *)
  Lemma tjoin_cons_inv : forall a p q t,
      tjoin C ceqb (a :: p) q = Ok t ->
      exists b q' mr t', q = b :: q' /\ merge_state_par C ceqb a b = Ok mr /\ tjoin C ceqb p q' = Ok t' /\ t = mr :: t'.
  Proof.
    intros a p q t H. destruct q as [|b q']; [discriminate|]. cbn [tjoin] in H.
    destruct (merge_state_par C ceqb a b) as [mr| |] eqn:Em; try discriminate. cbn [bind] in H.
    destruct (tjoin C ceqb p q') as [t'| |] eqn:Et; try discriminate. cbn [bind] in H. inversion H; subst.
    exists b, q', mr, t'. repeat split; auto.
  Qed.

  Lemma tjoin_len : forall p q t, tjoin C ceqb p q = Ok t -> len_N q = len_N p /\ len_N t = len_N p.
  Proof.
    induction p as [|a p IH]; intros q t H.
    - destruct q; [|discriminate]. inversion H; subst. split; reflexivity.
    - destruct (tjoin_cons_inv _ _ _ _ H) as (b & q' & mr & t' & -> & _ & Ht & ->).
      destruct (IH _ _ Ht) as (E1 & E2). rewrite !len_N_cons. split; lia.
  Qed.

  Lemma tjoin_app_inv : forall a b q t,
      tjoin C ceqb (a ++ b) q = Ok t ->
      exists q1 q2 t1 t2, q = q1 ++ q2 /\ tjoin C ceqb a q1 = Ok t1 /\ tjoin C ceqb b q2 = Ok t2 /\ t = t1 ++ t2.
  Proof.
    induction a as [|x a IH]; intros b q t H.
    - exists [], q, [], t. cbn in *. auto.
    - cbn [app] in H. destruct (tjoin_cons_inv _ _ _ _ H) as (y & q' & mr & t' & -> & Hm & Ht & ->).
      destruct (IH _ _ _ Ht) as (q1 & q2 & t1 & t2 & -> & H1 & H2 & ->).
      exists (y :: q1), q2, (mr :: t1), t2. repeat split; auto.
      cbn [tjoin]. rewrite Hm. cbn [bind]. rewrite H1. reflexivity.
  Qed.

  (* ---------------- the main induction ---------------- *)
  Definition seg_join (m : cmode) (seg segQ J : trace) : Prop :=
    match m with Mirror => tjoin C ceqb seg segQ = Ok J | Null => J = seg end.
  Definition cur_decomp (m : cmode) (Q : trace) (pos : N) (segQ : trace) : Prop :=
    match m with Mirror => exists pre post, Q = pre ++ segQ ++ post /\ len_N pre = pos | Null => True end.

  Lemma seg_join_len : forall m seg segQ J, seg_join m seg segQ J -> len_N J = len_N seg.
  Proof. intros [] seg segQ J H; cbn in H; [apply (tjoin_len _ _ _ H) | subst; reflexivity]. Qed.

  Lemma seg_join_app_inv : forall m a b segQ J,
      seg_join m (a ++ b) segQ J ->
      exists q1 q2 J1 J2, (m = Mirror -> segQ = q1 ++ q2 /\ len_N q1 = len_N a) /\
                          seg_join m a q1 J1 /\ seg_join m b q2 J2 /\ J = J1 ++ J2.
  Proof.
    intros [] a b segQ J H; cbn in H.
    - destruct (tjoin_app_inv _ _ _ _ H) as (q1 & q2 & t1 & t2 & -> & H1 & H2 & ->).
      exists q1, q2, t1, t2. repeat split; auto. apply (tjoin_len _ _ _ H1).
    - subst. exists [], [], a, b. repeat split; auto; discriminate.
  Qed.

  Lemma cur_decomp_split : forall m Q pos q1 q2,
      cur_decomp m Q pos (q1 ++ q2) -> cur_decomp m Q pos q1 /\ cur_decomp m Q (pos + len_N q1) q2.
  Proof.
    intros [] Q pos q1 q2 H; cbn in *; [|auto].
    destruct H as (pre & post & -> & E). split.
    - exists pre, (q2 ++ post). rewrite <- app_assoc. auto.
    - exists (pre ++ q1), post. rewrite len_N_app, <- !app_assoc. split; [reflexivity | lia].
  Qed.

  Lemma cur_decomp_nth : forall Q pos b rest, cur_decomp Mirror Q pos (b :: rest) -> nth_N Q pos = Some b.
  Proof. intros Q pos b rest (pre & post & -> & <-). cbn [app]. apply nth_N_mid. Qed.

  Section tree_ind2.
    Variable Pt : tree -> Prop.
    Variable Pf : list tree -> Prop.
    Hypothesis Hleaf : forall s, Pt (TLeaf s).
    Hypothesis Hpar : forall l r, Pf l -> Pf r -> Pt (TPar l r).
    Hypothesis Hnil : Pf [].
    Hypothesis Hcons : forall x xs, Pt x -> Pf xs -> Pf (x :: xs).
    Fixpoint tree_ind2 (t : tree) : Pt t :=
      match t with
      | TLeaf s => Hleaf s
      | TPar l r =>
          Hpar l r
            ((fix go (f : list tree) : Pf f := match f with [] => Hnil | x :: xs => Hcons x xs (tree_ind2 x) (go xs) end) l)
            ((fix go (f : list tree) : Pf f := match f with [] => Hnil | x :: xs => Hcons x xs (tree_ind2 x) (go xs) end) r)
      end.
    Definition forest_ind2 (f : list tree) : Pf f :=
      (fix go (f : list tree) : Pf f := match f with [] => Hnil | x :: xs => Hcons x xs (tree_ind2 x) (go xs) end) f.
  End tree_ind2.

  Lemma flatten_tree_par : forall l r,
      flatten_tree C (TPar l r) = SPar (len_N (flatten C l)) (len_N (flatten C r)) :: flatten C l ++ flatten C r.
  Proof. reflexivity. Qed.
  Lemma replay_tree_par : forall l r h,
      replay_tree C ceqb (TPar l r) h =
      (do h1 <- meet_par_start C h; do h2 <- replay C ceqb l h1; do h3 <- meet_par_subgraph_end C h2 SLeft;
       do h4 <- replay C ceqb r h3; meet_par_subgraph_end C h4 SRight).
  Proof. reflexivity. Qed.
  Lemma tree_ok_par : forall l r, tree_ok C (TPar l r) = forest_ok C l && forest_ok C r.
  Proof. reflexivity. Qed.

  Definition replay_spec_tree (m : cmode) (t : tree) : Prop :=
    forall h P Q pos rem R pars folds preP postP segQ J,
      tree_ok C t = true ->
      hst m h P Q pos rem R pars folds ->
      P = preP ++ flatten_tree C t ++ postP -> len_N preP = pos ->
      cur_decomp m Q pos segQ -> seg_join m (flatten_tree C t) segQ J ->
      len_N (flatten_tree C t) <= rem -> len_N P <= u32_max -> (m = Mirror -> len_N Q = len_N P) ->
      exists h', replay_tree C ceqb t h = Ok h' /\
                 hst m h' P Q (pos + len_N (flatten_tree C t)) (rem - len_N (flatten_tree C t)) (R ++ J) pars folds.
  Definition replay_spec_forest (m : cmode) (f : list tree) : Prop :=
    forall h P Q pos rem R pars folds preP postP segQ J,
      forest_ok C f = true ->
      hst m h P Q pos rem R pars folds ->
      P = preP ++ flatten C f ++ postP -> len_N preP = pos ->
      cur_decomp m Q pos segQ -> seg_join m (flatten C f) segQ J ->
      len_N (flatten C f) <= rem -> len_N P <= u32_max -> (m = Mirror -> len_N Q = len_N P) ->
      exists h', replay C ceqb f h = Ok h' /\
                 hst m h' P Q (pos + len_N (flatten C f)) (rem - len_N (flatten C f)) (R ++ J) pars folds.

  Lemma replay_leaf_case : forall m s, replay_spec_tree m (TLeaf s).
  Proof.
    intros m s h P Q pos rem R pars folds preP postP segQ J Hok Hh HP Hpre HQd HJ Hrem Hu HQ.
    cbn [flatten_tree] in *. cbn [tree_ok] in Hok.
    assert (Hn : nth_N P pos = Some s) by (subst P pos; cbn [app]; apply nth_N_mid).
    assert (Hlj : exists mres, leaf_join m Q pos s mres /\ J = [mres]).
    { destruct m; cbn [seg_join] in HJ.
      - destruct (tjoin_cons_inv _ _ _ _ HJ) as (b & q' & mr & t' & -> & Hm & Ht & ->).
        destruct q'; [|discriminate]. inversion Ht; subst t'.
        exists mr. split; [|reflexivity]. exists b. split; [eapply cur_decomp_nth; eassumption|].
        destruct s; try discriminate Hok; exact Hm.
      - subst J. exists s. split; reflexivity. }
    destruct Hlj as (mres & Hlj & ->).
    replace (len_N [s]) with 1 in * by reflexivity.
    destruct (replay_leaf_ok _ _ _ _ _ _ _ _ _ _ _ Hh ltac:(lia) Hn Hok Hlj) as (h' & E & Hh').
    exists h'. split; [exact E | exact Hh'].
  Qed.

  Lemma replay_nil_case : forall m, replay_spec_forest m [].
  Proof.
    intros m h P Q pos rem R pars folds preP postP segQ J Hok Hh HP Hpre HQd HJ Hrem Hu HQ.
    cbn [flatten replay]. exists h. split; [reflexivity|].
    assert (J = []) as ->.
    { destruct m; cbn in HJ; [|assumption]. destruct segQ; [inversion HJ; reflexivity | discriminate]. }
    eapply hst_eq; [eassumption|..]; rewrite ?len_N_nil, ?app_nil_r; try lia; reflexivity.
  Qed.

  Lemma replay_cons_case : forall m x xs, replay_spec_tree m x -> replay_spec_forest m xs -> replay_spec_forest m (x :: xs).
  Proof.
    intros m x xs IHx IHxs h P Q pos rem R pars folds preP postP segQ J Hok Hh HP Hpre HQd HJ Hrem Hu HQ.
    cbn [flatten] in *. cbn [forest_ok forallb] in Hok. apply andb_prop in Hok. destruct Hok as (Hokx & Hokxs).
    destruct (seg_join_app_inv _ _ _ _ _ HJ) as (q1 & q2 & J1 & J2 & Hq & HJ1 & HJ2 & ->).
    rewrite len_N_app in Hrem.
    assert (HQd1 : cur_decomp m Q pos q1 /\ cur_decomp m Q (pos + len_N (flatten_tree C x)) q2).
    { destruct m; [|split; exact I]. destruct (Hq eq_refl) as (-> & E). rewrite <- E. apply cur_decomp_split. exact HQd. }
    destruct HQd1 as (HQd1 & HQd2).
    destruct (IHx h P Q pos rem R pars folds preP (flatten C xs ++ postP) q1 J1 Hokx Hh) as (h1 & E1 & Hh1); auto.
    { rewrite HP, <- !app_assoc. reflexivity. }
    { lia. }
    destruct (IHxs h1 P Q (pos + len_N (flatten_tree C x)) (rem - len_N (flatten_tree C x)) (R ++ J1) pars folds
                   (preP ++ flatten_tree C x) postP q2 J2 Hokxs Hh1) as (h2 & E2 & Hh2); auto.
    { rewrite HP, <- !app_assoc. reflexivity. }
    { rewrite len_N_app. lia. }
    { lia. }
    exists h2. cbn [replay]. rewrite E1. cbn [bind]. split; [exact E2|].
    eapply hst_eq; [eassumption|..]; rewrite ?len_N_app, <- ?app_assoc; try lia; reflexivity.
  Qed.

  Lemma merge_state_par_par : forall nl nr b mr,
      merge_state_par C ceqb (SPar nl nr) b = Ok mr -> b = SPar nl nr /\ mr = SPar nl nr.
  Proof.
    intros nl nr b mr H. destruct b as [l' r'| | | | ]; try discriminate H. cbn in H.
    destruct (nl =? l') eqn:E1; [|discriminate]. destruct (nr =? r') eqn:E2; [|discriminate].
    apply N.eqb_eq in E1. apply N.eqb_eq in E2. subst. cbn in H. inversion H. auto.
  Qed.

  Lemma replay_par_case : forall m l r, replay_spec_forest m l -> replay_spec_forest m r -> replay_spec_tree m (TPar l r).
  Proof.
    intros m l r IHl IHr h P Q pos rem R pars folds preP postP segQ J Hok Hh HP Hpre HQd HJ Hrem Hu HQ.
    rewrite tree_ok_par in Hok. apply andb_prop in Hok. destruct Hok as (Hokl & Hokr).
    rewrite flatten_tree_par in *.
    set (nl := len_N (flatten C l)) in *. set (nr := len_N (flatten C r)) in *.
    rewrite len_N_cons, len_N_app in Hrem. fold nl nr in Hrem.
    assert (Hbound : pos + rem <= len_N P) by (destruct Hh as (((_ & _ & _ & _ & ?) & _) & _); assumption).
    assert (Hn : nth_N P pos = Some (SPar nl nr)) by (subst P pos; cbn [app]; apply nth_N_mid).
    (* the pieces of the current segment and of the expected output *)
    assert (Hparts : exists q1 q2 Jl Jr,
               (m = Mirror -> segQ = SPar nl nr :: q1 ++ q2 /\ len_N q1 = nl) /\
               seg_join m (flatten C l) q1 Jl /\ seg_join m (flatten C r) q2 Jr /\ J = SPar nl nr :: Jl ++ Jr).
    { destruct m; cbn [seg_join] in HJ.
      - destruct (tjoin_cons_inv _ _ _ _ HJ) as (b & q' & mr & t' & -> & Hm & Ht & ->).
        destruct (merge_state_par_par _ _ _ _ Hm) as (-> & ->).
        destruct (tjoin_app_inv _ _ _ _ Ht) as (q1 & q2 & t1 & t2 & -> & H1 & H2 & ->).
        exists q1, q2, t1, t2. repeat split; auto. apply (tjoin_len _ _ _ H1).
      - subst J. exists [], [], (flatten C l), (flatten C r). repeat split; auto; discriminate. }
    destruct Hparts as (q1 & q2 & Jl & Jr & Hq & HJl & HJr & ->).
    pose proof (seg_join_len _ _ _ _ HJl) as HlenJl. pose proof (seg_join_len _ _ _ _ HJr) as HlenJr.
    fold nl in HlenJl. fold nr in HlenJr.
    assert (HnQ : m = Mirror -> nth_N Q pos = Some (SPar nl nr)).
    { intros ->. destruct (Hq eq_refl) as (-> & _). eapply cur_decomp_nth. eassumption. }
    rewrite replay_tree_par.
    (* par start *)
    destruct (par_start_ok _ _ _ _ _ _ _ _ _ nl nr Hh Hn HnQ ltac:(lia) Hu HQ) as (h1 & llp & llc & E1 & Hh1).
    rewrite E1. cbn [bind].
    (* the decomposition of the current trace for the two branches *)
    assert (HQl : cur_decomp m Q (pos + 1) q1 /\ cur_decomp m Q (pos + 1 + nl) q2).
    { destruct m; [|split; exact I]. destruct (Hq eq_refl) as (-> & E).
      destruct HQd as (pre & post & -> & Epre). split.
      - exists (pre ++ [SPar nl nr]), (q2 ++ post). rewrite len_N_app.
        split; [lnorm; reflexivity | rewrite Epre; reflexivity].
      - exists (pre ++ SPar nl nr :: q1), post. rewrite len_N_app, len_N_cons.
        split; [lnorm; reflexivity | lia]. }
    destruct HQl as (HQl & HQr).
    (* left branch *)
    destruct (IHl h1 P Q (pos + 1) nl (R ++ [SPar 0 0]) _ folds (preP ++ [SPar nl nr]) (flatten C r ++ postP) q1 Jl Hokl Hh1)
      as (h2 & E2 & Hh2); auto.
    { rewrite HP. lnorm. reflexivity. }
    { rewrite len_N_app. rewrite Hpre. reflexivity. }
    { fold nl. lia. }
    rewrite E2. cbn [bind]. fold nl in Hh2.
    assert (Hh2' : hst m h2 P Q (pos + 1 + nl) 0 (R ++ [SPar 0 0] ++ Jl)
                       (par_fsm_of m (pos + 1) (rem - 1) nl nr llp llc (len_N R) (len_N (R ++ [SPar 0 0])) 0 0 :: pars) folds).
    { eapply hst_eq; [exact Hh2|..]; try lia; lnorm; reflexivity. }
    assert (HlenP : pos + 1 + nl + nr <= len_N P) by lia.
    destruct (par_left_ok _ _ _ _ _ _ _ _ _ _ _ _ _ _ _ Hh2' HlenJl HlenP Hu HQ) as (h3 & E3 & Hh3).
    rewrite E3. cbn [bind].
    (* right branch *)
    destruct (IHr h3 P Q (pos + 1 + nl) nr (R ++ [SPar 0 0] ++ Jl) _ folds (preP ++ SPar nl nr :: flatten C l) postP q2 Jr Hokr Hh3)
      as (h4 & E4 & Hh4); auto.
    { rewrite HP. lnorm. reflexivity. }
    { rewrite len_N_app, len_N_cons. fold nl. lia. }
    { fold nr. lia. }
    rewrite E4. cbn [bind]. fold nr in Hh4.
    assert (Hh4' : hst m h4 P Q (pos + 1 + nl + nr) 0 (R ++ [SPar 0 0] ++ Jl ++ Jr)
                       (par_fsm_of m (pos + 1) (rem - 1) nl nr llp llc (len_N R) (len_N (R ++ [SPar 0 0] ++ Jl)) nl 0 :: pars) folds).
    { eapply hst_eq; [exact Hh4|..]; try lia; lnorm; reflexivity. }
    destruct (par_right_ok _ _ _ _ _ _ _ _ _ _ _ _ _ _ _ Hh4' HlenJr ltac:(lia) ltac:(lia) Hu HQ) as (h5 & E5 & Hh5).
    exists h5. split; [exact E5|].
    eapply hst_eq; [exact Hh5|..]; rewrite ?len_N_cons, ?len_N_app; fold nl nr; try lia.
    lnorm. reflexivity.
  Qed.

  Theorem replay_spec : forall m f, replay_spec_forest m f.
  Proof.
    intros m. apply (forest_ind2 (replay_spec_tree m) (replay_spec_forest m)).
    - apply replay_leaf_case.
    - apply replay_par_case.
    - apply replay_nil_case.
    - apply replay_cons_case.
  Qed.

  (* ---------------- corollaries ---------------- *)
  Lemma hst_initial : forall P Q, len_N Q = len_N P -> hst Mirror (handler_from C P Q) P Q 0 (len_N P) [] [] [].
  Proof.
    intros P Q E. unfold hst, kst, handler_from, keeper_from; cbn [h_keeper k_prev k_cur k_result h_pars h_folds cur_at].
    split; [split; [apply sl_new | split; [rewrite <- E; apply sl_new | reflexivity]] | split; reflexivity].
  Qed.
  Lemma hst_initial_null : forall P, hst Null (handler_from C P []) P [] 0 (len_N P) [] [] [].
  Proof.
    intros P. unfold hst, kst, handler_from, keeper_from; cbn [h_keeper k_prev k_cur k_result h_pars h_folds cur_at].
    split; [split; [apply sl_new | split; reflexivity] | split; reflexivity].
  Qed.

  Theorem replay_join : replay_join_stmt C ceqb.
  Proof.
    intros fp q t Hok Hu Hj.
    destruct (tjoin_len _ _ _ Hj) as (Eq & Et).
    destruct (replay_spec Mirror fp (handler_from C (flatten C fp) q) (flatten C fp) q 0 (len_N (flatten C fp)) [] [] []
                          [] [] q t Hok (hst_initial _ _ Eq)) as (h & E & Hh); auto.
    - rewrite app_nil_r. reflexivity.
    - exists [], []. rewrite app_nil_r. split; reflexivity.
    - lia.
    - exists h. split; [exact E|]. destruct Hh as ((_ & _ & Hr) & _). exact Hr.
  Qed.

  Theorem C07_nothing : C07_nothing_stmt C ceqb.
  Proof.
    intros f Hok Hu.
    destruct (replay_spec Null f (handler_from C (flatten C f) []) (flatten C f) [] 0 (len_N (flatten C f)) [] [] []
                          [] [] [] (flatten C f) Hok (hst_initial_null _)) as (h & E & Hh); auto.
    - rewrite app_nil_r. reflexivity.
    - exact I.
    - reflexivity.
    - lia.
    - discriminate.
    - exists h. split; [exact E|]. destruct Hh as ((_ & _ & Hr) & _). exact Hr.
  Qed.

  Lemma forest_ok_pcc : forall f, forest_ok C f = true -> Forall (par_call_canon_state C) (flatten C f).
  Proof.
    apply (forest_ind2 (fun t => tree_ok C t = true -> Forall (par_call_canon_state C) (flatten_tree C t))
                       (fun f => forest_ok C f = true -> Forall (par_call_canon_state C) (flatten C f))).
    - intros s H. cbn in *. constructor; [|constructor].
      destruct s as [ | | [|g [|]] | | ]; try discriminate H; cbn; auto. exists g. reflexivity.
    - intros l r IHl IHr H. rewrite tree_ok_par in H. apply andb_prop in H. destruct H as (Hl & Hr).
      rewrite flatten_tree_par. constructor; [exact I|]. apply Forall_app. auto.
    - intros _. constructor.
    - intros x xs IHx IHxs H. cbn [forest_ok forallb] in H. apply andb_prop in H. destruct H as (Hx & Hxs).
      cbn [flatten]. apply Forall_app. auto.
  Qed.
End TraceLevel.

(* ======================================================================================
   D. the pointwise join of traces: laws; the C07 / C08 handler-level corollaries
   ====================================================================================== *)
Section TraceJoinLaws.
  Variable C : Type.
  Variable ceqb : C -> C -> bool.
  Hypothesis ceqb_spec : ceqb_correct ceqb.
  Notation state := (state C).
  Notation trace := (list state).
  Notation msp := (merge_state_par C ceqb).
  Notation pcc := (par_call_canon_state C).

  Lemma res_rel_strict_weaken : forall A (R : A -> A -> Prop) x y, res_rel_strict R x y -> res_rel R x y.
  Proof. intros A R [a|e|s] [b|e'|s'] H; cbn in *; auto. Qed.

  Lemma msp_idem : forall s, pcc s -> msp s s = Ok s.
  Proof.
    intros [l r|c|g|c|lore] H; cbn in *; try contradiction.
    - rewrite !N.eqb_refl. reflexivity.
    - rewrite (call_join_idem C ceqb ceqb_spec c). reflexivity.
    - destruct H as (g0 & ->). reflexivity.
    - rewrite (canon_join_idem C ceqb ceqb_spec c). reflexivity.
  Qed.

  Lemma msp_comm : forall a b, pcc a -> pcc b -> res_rel (state_sim C) (msp a b) (msp b a).
  Proof.
    intros [l r|c|g|c|lore] [l' r'|c'|g'|c'|lore'] Ha Hb; cbn in *; try contradiction; try exact I.
    - rewrite (N.eqb_sym l' l), (N.eqb_sym r' r).
      destruct (l =? l') eqn:E1; destruct (r =? r') eqn:E2; cbn; try exact I.
      apply N.eqb_eq in E1. apply N.eqb_eq in E2. auto.
    - pose proof (call_join_comm C ceqb ceqb_spec c c') as H.
      destruct (merge_call C ceqb c c'), (merge_call C ceqb c' c); cbn in *; auto; try contradiction.
    - destruct Ha as (x & ->). destruct Hb as (y & ->). cbn. split; eexists; reflexivity.
    - pose proof (canon_join_comm C ceqb ceqb_spec c c') as H. unfold merge_canon in *.
      destruct (merge_canon_results C ceqb c c'), (merge_canon_results C ceqb c' c); cbn in *; auto; try contradiction.
  Qed.

  Lemma msp_absorb : forall a b m, msp a b = Ok m -> msp m b = Ok m /\ msp m a = Ok m.
  Proof.
    intros [l r|c|g|c|lore] [l' r'|c'|g'|c'|lore'] m H; cbn in *; try discriminate.
    - destruct (l =? l') eqn:E1; destruct (r =? r') eqn:E2; cbn in *; try discriminate.
      inversion H; subst. cbn. rewrite E1, E2, !N.eqb_refl. auto.
    - destruct (merge_call C ceqb c c') as [x| |] eqn:E; try discriminate. cbn in H. inversion H; subst. cbn.
      destruct (call_join_absorb C ceqb ceqb_spec _ _ _ E) as (H1 & H2 & _). rewrite H1, H2. auto.
    - destruct g as [|x [|]]; try discriminate. cbn in H. inversion H; subst. cbn. auto.
    - unfold merge_canon in *. destruct (merge_canon_results C ceqb c c') as [x| |] eqn:E; try discriminate. cbn in H. inversion H; subst. cbn.
      destruct (canon_join_absorb C ceqb ceqb_spec _ _ _ E) as (H1 & H2 & _). unfold merge_canon in *. rewrite H1, H2. auto.
  Qed.

  Lemma msp_pcc : forall a b m, msp a b = Ok m -> pcc m.
  Proof.
    intros [l r|c|g|c|lore] [l' r'|c'|g'|c'|lore'] m H; cbn in *; try discriminate.
    - destruct ((l =? l') && (r =? r')); try discriminate. inversion H; subst. exact I.
    - destruct (merge_call C ceqb c c'); try discriminate. cbn in H. inversion H; subst. exact I.
    - destruct g as [|x [|]]; try discriminate. cbn in H. inversion H; subst. exists x. reflexivity.
    - destruct (merge_canon C ceqb c c'); try discriminate. cbn in H. inversion H; subst. exact I.
  Qed.

  Lemma merge_call_no_crash : forall a b s, merge_call C ceqb a b <> Crash s.
  Proof.
    intros a b s. unfold merge_call, merge_call_results, merge_executed.
    destruct a as [?|[?|? ?|?]|?], b as [?|[?|? ?|?]|?]; cbn; try discriminate;
      repeat match goal with |- context [if ?c then _ else _] => destruct c end; cbn; discriminate.
  Qed.
  Lemma merge_canon_no_crash : forall a b s, merge_canon C ceqb a b <> Crash s.
  Proof.
    intros a b s. unfold merge_canon, merge_canon_results. destruct a, b; cbn; try discriminate.
    destruct (ceqb _ _); discriminate.
  Qed.
  Lemma merge_ap_no_crash : forall a b s, merge_ap a b <> Crash s.
  Proof. intros a b s. unfold merge_ap. destruct a as [|? [|]]; discriminate. Qed.

  Ltac dres x :=
    let E := fresh "E" in
    destruct x as [?v|?e|?s] eqn:E;
    [ | | exfalso; first [eapply merge_call_no_crash; exact E | eapply merge_canon_no_crash; exact E | eapply merge_ap_no_crash; exact E] ];
    cbn [bind] in *; try contradiction; try exact I.

  Ltac mixed :=
    repeat match goal with
           | |- context [merge_call C ceqb ?x ?y] => dres (merge_call C ceqb x y)
           | |- context [merge_canon C ceqb ?x ?y] => dres (merge_canon C ceqb x y)
           | |- context [merge_ap ?x ?y] => dres (merge_ap x y)
           | |- context [(?x =? ?y) && (?z =? ?w)] => destruct ((x =? y) && (z =? w)); cbn [bind]; try exact I
           end; cbn; try exact I.

  Lemma msp_assoc : forall a b c, pcc a -> pcc b -> pcc c ->
      res_rel (state_sim C) (do m <- msp a b; msp m c) (do m <- msp b c; msp a m).
  Proof.
    intros [l1 r1|c1|g1|c1|lore1] [l2 r2|c2|g2|c2|lore2] [l3 r3|c3|g3|c3|lore3] Ha Hb Hc;
      cbn [par_call_canon_state] in *; try contradiction.
    all: cbn [merge_state_par merge_state].
    all: try (exact I).
    all: try (solve [mixed]).
    - (* par par par *)
      destruct (l1 =? l2) eqn:E1; destruct (r1 =? r2) eqn:E2; destruct (l2 =? l3) eqn:E3; destruct (r2 =? r3) eqn:E4;
        cbn; try exact I;
        repeat match goal with H : (_ =? _) = true |- _ => apply N.eqb_eq in H; subst end;
        rewrite ?N.eqb_refl, ?E1, ?E2, ?E3, ?E4; cbn; auto.
    - (* call call call *)
      pose proof (call_join_assoc C ceqb ceqb_spec c1 c2 c3) as H.
      destruct (merge_call C ceqb c1 c2) as [m12| |]; destruct (merge_call C ceqb c2 c3) as [m23| |]; cbn [bind] in *;
        cbn [merge_state_par merge_state];
        try destruct (merge_call C ceqb m12 c3); try destruct (merge_call C ceqb c1 m23); cbn in *; auto.
    - (* ap ap ap *)
      destruct Ha as (x & ->). destruct Hb as (y & ->). destruct Hc as (z & ->). cbn. split; eexists; reflexivity.
    - (* canon canon canon *)
      pose proof (canon_join_assoc C ceqb ceqb_spec c1 c2 c3) as H.
      destruct (merge_canon C ceqb c1 c2) as [m12| |]; destruct (merge_canon C ceqb c2 c3) as [m23| |]; cbn [bind] in *;
        cbn [merge_state_par merge_state];
        try destruct (merge_canon C ceqb m12 c3); try destruct (merge_canon C ceqb c1 m23); cbn in *; auto.
  Qed.

  Theorem tjoin_idem : tjoin_idem_stmt C ceqb.
  Proof.
    intros t H. induction H as [|s t Hs Ht IH]; [reflexivity|].
    cbn [tjoin]. rewrite (msp_idem s Hs). cbn [bind]. rewrite IH. reflexivity.
  Qed.

  Theorem tjoin_absorb : tjoin_absorb_stmt C ceqb.
  Proof.
    intros p. induction p as [|a p IH]; intros c m H.
    - destruct c; [|discriminate]. inversion H; subst. split; reflexivity.
    - destruct c as [|b c]; [discriminate|]. cbn [tjoin] in H.
      destruct (msp a b) as [x| |] eqn:E; try discriminate. cbn [bind] in H.
      destruct (tjoin C ceqb p c) as [r| |] eqn:Er; try discriminate. cbn [bind] in H. inversion H; subst.
      destruct (msp_absorb _ _ _ E) as (H1 & H2). destruct (IH _ _ Er) as (H3 & H4).
      cbn [tjoin]. rewrite H1, H2. cbn [bind]. rewrite H3, H4. auto.
  Qed.

  Lemma tjoin_pcc : forall p c m, tjoin C ceqb p c = Ok m -> Forall pcc m.
  Proof.
    induction p as [|a p IH]; intros c m H.
    - destruct c; [|discriminate]. inversion H; subst. constructor.
    - destruct c as [|b c]; [discriminate|]. cbn [tjoin] in H.
      destruct (msp a b) as [x| |] eqn:E; try discriminate. cbn [bind] in H.
      destruct (tjoin C ceqb p c) as [r| |] eqn:Er; try discriminate. cbn [bind] in H. inversion H; subst.
      constructor; [eapply msp_pcc; eassumption | eapply IH; eassumption].
  Qed.

  Theorem tjoin_comm : tjoin_comm_stmt C ceqb.
  Proof.
    intros p. induction p as [|a p IH]; intros c Hp Hc.
    - destruct c; cbn; [constructor | exact I].
    - destruct c as [|b c]; [exact I|]. inversion Hp; subst. inversion Hc; subst.
      cbn [tjoin]. pose proof (msp_comm a b H1 H3) as Hm. pose proof (IH c H2 H4) as Ht.
      destruct (msp a b), (msp b a); cbn [bind res_rel] in *; try contradiction; try exact I;
        destruct (tjoin C ceqb p c), (tjoin C ceqb c p); cbn [bind res_rel] in *; try contradiction; try exact I.
      constructor; assumption.
  Qed.

  Lemma msp_no_crash : forall a b s, msp a b <> Crash s.
  Proof.
    intros [l r|c|g|c|lore] [l' r'|c'|g'|c'|lore'] s; cbn; try discriminate.
    - destruct ((l =? l') && (r =? r')); discriminate.
    - destruct (merge_call C ceqb c c') eqn:E; cbn; try discriminate. exfalso. eapply merge_call_no_crash; exact E.
    - destruct g as [|? [|]]; discriminate.
    - destruct (merge_canon C ceqb c c') eqn:E; cbn; try discriminate. exfalso. eapply merge_canon_no_crash; exact E.
  Qed.
  Lemma tjoin_no_crash : forall p c s, tjoin C ceqb p c <> Crash s.
  Proof.
    induction p as [|a p IH]; intros [|b c] s; cbn [tjoin]; try discriminate.
    destruct (msp a b) eqn:E; cbn [bind]; try discriminate.
    - destruct (tjoin C ceqb p c) eqn:E2; cbn [bind]; try discriminate. exfalso. eapply IH; exact E2.
    - exfalso. eapply msp_no_crash; exact E.
  Qed.

  Ltac oe x :=
    let E := fresh "E" in
    destruct x as [?v|?e|?s] eqn:E;
    [ | | exfalso; first [eapply msp_no_crash; exact E | eapply tjoin_no_crash; exact E] ];
    cbn [bind tjoin res_rel] in *; try contradiction; try exact I.

  Theorem tjoin_assoc : tjoin_assoc_stmt C ceqb.
  Proof.
    intros a. induction a as [|x a IH]; intros [|y b] [|z c] Ha Hb Hc; cbn [tjoin bind res_rel]; try exact I.
    - constructor.
    - oe (msp y z). oe (tjoin C ceqb b c).
    - oe (msp x y). oe (tjoin C ceqb a b).
    - inversion Ha; subst. inversion Hb; subst. inversion Hc; subst.
      pose proof (msp_assoc x y z H1 H3 H5) as Hm. pose proof (IH b c H2 H4 H6) as Ht.
      oe (msp x y); oe (msp y z); oe (tjoin C ceqb a b); oe (tjoin C ceqb b c);
        repeat match goal with
               | |- context [msp ?p ?q] => oe (msp p q)
               | |- context [tjoin C ceqb ?p ?q] => oe (tjoin C ceqb p q)
               end.
      all: try (constructor; assumption).
  Qed.

  Theorem C07_same_trace : C07_same_trace_stmt C ceqb.
  Proof.
    intros f Hok Hu. apply (replay_join C ceqb f (flatten C f) (flatten C f) Hok Hu).
    apply tjoin_idem. apply forest_ok_pcc. exact Hok.
  Qed.

  Theorem replay_comm : replay_comm_stmt C ceqb.
  Proof.
    intros fp fq t Hp Hq Hu Hj.
    pose proof (tjoin_comm (flatten C fp) (flatten C fq) (forest_ok_pcc C fp Hp) (forest_ok_pcc C fq Hq)) as Hc.
    rewrite Hj in Hc. destruct (tjoin C ceqb (flatten C fq) (flatten C fp)) as [t'| |] eqn:E; cbn in Hc; try contradiction.
    destruct (tjoin_len C ceqb _ _ _ Hj) as (El & _).
    destruct (replay_join C ceqb fp _ _ Hp Hu Hj) as (h & E1 & R1).
    destruct (replay_join C ceqb fq _ _ Hq ltac:(rewrite El; exact Hu) E) as (h' & E2 & R2).
    exists h, h'. rewrite R1, R2. auto.
  Qed.
End TraceJoinLaws.

(* ======================================================================================
   E. the state-level join is what the mergers hand to the instructions
   ====================================================================================== *)
Section HandlerTie.
  Variable C : Type.
  Variable ceqb : C -> C -> bool.

  Lemma ppm_never_err : forall sch (k : keeper C) e, prepare_positions_mapping C sch k <> Err e.
  Proof.
    intros sch k e. unfold prepare_positions_mapping. destruct sch;
      repeat match goal with |- context [if ?c then _ else _] => destruct c end; cbn;
      repeat match goal with |- context [if ?c then _ else _] => destruct c end; discriminate.
  Qed.

  Theorem merge_state_is_handler : merge_state_is_handler_stmt C ceqb.
  Proof.
    split; [|split].
    - intros k k1 a b H. unfold presents in H. unfold try_merge_next_state_as_call. rewrite H.
      pose proof (merge_call_no_crash C ceqb a b) as NC. unfold merge_call in *.
      destruct (merge_call_results C ceqb a b) as [[m sch]|e|s]; cbn [bind fst snd] in *.
      + unfold prepare_call_result. destruct (prepare_positions_mapping C sch k1) eqn:E; cbn [bind].
        * reflexivity.
        * exfalso. eapply ppm_never_err; exact E.
        * eexists; reflexivity.
      + reflexivity.
      + exfalso. eapply NC. reflexivity.
    - intros k k1 a b H. unfold presents in H. unfold try_merge_next_state_as_canon. rewrite H.
      pose proof (merge_canon_no_crash C ceqb a b) as NC. unfold merge_canon in *.
      destruct (merge_canon_results C ceqb a b) as [m|e|s]; cbn [bind] in *; try reflexivity.
      eapply NC. reflexivity.
    - intros k k1 a b H. unfold presents in H. unfold try_merge_next_state_as_ap. rewrite H.
      unfold prepare_ap_result. destruct (prepare_positions_mapping C SchBoth k1) eqn:E; cbn [bind].
      + destruct a as [|g [|]]; reflexivity.
      + exfalso. eapply ppm_never_err; exact E.
      + exact I.
  Qed.
End HandlerTie.
