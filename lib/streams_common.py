"""Shared generator and evaluation of the two stream properties C12 and C13 (harness driver `streams`,
coq/model/StreamCases.v).

A case is one simulated history: a structured PROGRAM (rendered to AIR text by the driver; the grammar
is documented at the top of harness/src/bin/streams.rs), the peers, and a schedule.  The program shapes
are the ones for which the driver can attribute every trace state to the instruction instance that
wrote it, so that the add_value operations of every run are reconstructed exactly:

  S1  `par` of seq-chains of stream appends (call results from any peer, literal `ap`s) and local
      canons (+ a `see` service call receiving the canon), on one or two streams, optionally inside
      `new $s` scopes (whole program or one branch), optionally followed by more appends / canons;
  S2  S1 followed by an optional gate call and a fold over a stream whose body appends to the folded
      stream (recursive fold: guarded `ap`, chains of up to three steps) or to another stream, calls
      `pre`/`visit` services with the iterator, and ends in `next`; optionally a canon after the fold
      or a second fold over the same stream;
  S3  single-peer programs around STREAM_MAX_SIZE: n values x m guarded appends per value (exactly
      T appends, T around 1024), and the unbounded self-feeding fold.

Every value is a JSON string; services return constants.  Schedules: random deliveries (with
duplication and re-delivery of old particles) and call-result batches, then a deterministic drain."""
import hashlib
import json
import os
import shutil

import vlib

HEADER = "From Aqua Require Import Base Stream StreamCases.\nOpen Scope N_scope.\nOpen Scope list_scope.\n"
TYPE = "case_t"
VALUES = ["a", "b", "c", "d", "e"]
KNOWN_HOLE = "stream-fold-cursor-hole"


# ------------------------------------------------------------------------------------------------
# programs

def seq(xs):
    xs = [x for x in xs if x is not None]
    return xs[0] if len(xs) == 1 else {"k": "seq", "xs": xs}


def par(xs):
    return xs[0] if len(xs) == 1 else {"k": "par", "xs": xs}


class ProgGen:
    def __init__(self, rng, peers):
        self.r = rng
        self.peers = peers
        self.owner = peers[0]
        self.n_canon = 0
        self.n_gate = 0
        self.n_fold = 0

    def call(self, stream, peer=None, value=None):
        p = peer or self.r.choice(self.peers)
        v = value or self.r.choice(VALUES)
        # the function name determines the value; the same (peer, function) twice gives one content id twice
        return {"k": "call", "p": p, "f": "f_%s" % v, "v": v, "s": stream}

    def ap(self, stream, value=None):
        return {"k": "ap", "v": value or self.r.choice(VALUES), "s": stream}

    def canon(self, stream, peer=None):
        self.n_canon += 1
        return {"k": "canon", "p": peer or (self.owner if self.r.random() < 0.8 else self.r.choice(self.peers)), "s": stream, "id": self.n_canon}

    def gate(self):
        self.n_gate += 1
        return {"k": "gate", "p": self.owner, "id": self.n_gate}

    def chain(self, streams, canon_p=0.25, local_p=0.15, first=None):
        if self.r.random() < 0.15:
            # a value from another peer, a canon at the owner, then an append only the owner can perform: in the run
            # that merges the other peer's data the owner handles previous, current and new values at once
            s = first or self.r.choice(streams)
            return seq([self.call(s, self.r.choice(self.peers[1:])), dict(self.canon(s, self.owner), see=self.r.random() < 0.4),
                        self.ap(s) if self.r.random() < 0.6 else self.call(s, self.owner)])
        n = self.r.choice([1, 1, 2, 2, 3])
        xs = []
        for i in range(n):
            s = first if (first and i == 0) else self.r.choice(streams)
            x = self.r.random()
            if x < canon_p and i > 0:
                xs.append(self.canon(s))
            elif x < canon_p + 0.3:
                xs.append(self.ap(s))
            else:
                peer = self.owner if self.r.random() < local_p else self.r.choice(self.peers[1:])
                xs.append(self.call(s, peer))
        return seq(xs)

    def appends(self, streams, canon_p=0.25):
        k = self.r.choice([2, 2, 3, 3, 4, 5])
        branches = [self.chain(streams, canon_p, first=(streams[0] if i == 0 else None)) for i in range(k)]
        if self.r.random() < 0.2:
            i = self.r.randrange(k)
            branches[i] = {"k": "new", "s": self.r.choice(streams), "x": branches[i]}
        return par(branches)

    def fold(self, stream, others, visit=None, recursive=None):
        self.n_fold += 1
        guards = []
        recursive = self.r.random() < 0.7 if recursive is None else recursive
        if recursive:
            # guarded appends into the folded stream; values only move forward in VALUES, so the recursion ends
            for _ in range(self.r.choice([1, 1, 2, 3])):
                i = self.r.randrange(len(VALUES) - 1)
                j = self.r.randrange(i + 1, len(VALUES))
                guards.append({"m": VALUES[i], "v": VALUES[j], "s": stream})
        if others and self.r.random() < 0.4:
            guards.append({"m": self.r.choice(VALUES), "v": self.r.choice(VALUES), "s": self.r.choice(others)})
        self.r.shuffle(guards)
        return {"k": "fold", "s": stream, "id": self.n_fold, "p": self.owner, "guards": guards,
                "pre": self.r.random() < 0.25, "visit": (self.r.random() < 0.85) if visit is None else visit, "last": True}


def prog_s1(rng, peers):
    g = ProgGen(rng, peers)
    streams = ["$s"] if rng.random() < 0.7 else ["$s", "$t"]
    xs = [g.appends(streams)]
    if rng.random() < 0.7:
        xs.append(g.canon(rng.choice(streams), g.owner))
    if rng.random() < 0.3:
        xs.append(g.chain(streams, canon_p=0.4, local_p=0.5))
    p = seq(xs)
    if rng.random() < 0.25:
        p = {"k": "new", "s": rng.choice(streams), "x": p}
    return p, "S1"


def prog_s2(rng, peers, two_folds=False):
    g = ProgGen(rng, peers)
    streams = ["$s"] if rng.random() < 0.6 else ["$s", "$t"]
    xs = [g.appends(streams, canon_p=0.1)]
    if rng.random() < 0.75:
        xs.append(g.gate())
    xs.append(g.fold("$s", streams[1:]))
    kind = "S2"
    if two_folds:
        xs.append(g.fold("$s", streams[1:], recursive=True))
        kind = "S2/two-folds"
    if rng.random() < 0.4:
        xs.append(g.canon(rng.choice(streams), g.owner))
    p = seq(xs)
    if rng.random() < 0.2:
        p = {"k": "new", "s": "$s", "x": p}
    return p, kind


def prog_limit(total, m=32, recursive=False):
    """exactly `total` appends into $t by one run of one peer: n values "a" x m guards + one value "b" x r guards"""
    if recursive:
        # (seq (ap "a" $s) (fold $s i (seq (xor (match i "a" (ap "a" $s)) (null)) (next i)))): feeds itself until the limit
        return seq([{"k": "ap", "v": "a", "s": "$s"},
                    {"k": "fold", "s": "$s", "id": 1, "p": "P", "guards": [{"m": "a", "v": "a", "s": "$s"}], "pre": False, "visit": False, "last": True}])
    n, r = divmod(total, m)
    vals = [{"k": "ap", "v": "a", "s": "$s"} for _ in range(n)] + ([{"k": "ap", "v": "b", "s": "$s"}] if r else [])
    guards = [{"m": "a", "v": "x", "s": "$t"} for _ in range(m)] + [{"m": "b", "v": "y", "s": "$t"} for _ in range(r)]
    return seq(vals + [{"k": "fold", "s": "$s", "id": 1, "p": "P", "guards": guards, "pre": False, "visit": False, "last": True},
                       {"k": "canon", "p": "P", "s": "$t", "id": 1}])


# ------------------------------------------------------------------------------------------------
# schedules

def schedule(rng, n_peers, n_ops):
    ops = [["start"]]
    for _ in range(n_ops):
        x = rng.random()
        if x < 0.45:
            ops.append(["d", rng.randrange(8)])
        elif x < 0.53:
            ops.append(["dup", rng.randrange(8)])
        elif x < 0.60:
            ops.append(["re", rng.randrange(8)])
        else:
            mask = 0 if rng.random() > 0.35 else rng.randrange(1, 16)
            ops.append(["r", rng.randrange(n_peers), mask])
    return ops


def history(rng, kind=None):
    n_peers = rng.choice([3, 3, 4, 4, 5])
    peers = ["P", "A", "B", "C", "D"][:n_peers]
    x = rng.random()
    kind = kind or ("S1" if x < 0.45 else "S2" if x < 0.93 else "S2/two-folds")
    if kind == "S1":
        prog, k = prog_s1(rng, peers)
    else:
        prog, k = prog_s2(rng, peers, two_folds=(kind == "S2/two-folds"))
    return {"peers": peers, "init": 0, "prog": prog, "ops": schedule(rng, n_peers, rng.choice([0, 4, 8, 14, 24])), "drain": True,
            "drain_rounds": 60, "gen": k}


def limit_history(total, recursive=False):
    c = {"peers": ["P"], "init": 0, "prog": prog_limit(total, recursive=recursive), "ops": [["start"]], "drain": True, "drain_rounds": 3,
         "limit": True, "gen": "S3/recursive" if recursive else "S3/%d" % total}
    if not recursive:
        c["limit_adds"] = total
    else:
        c["limit_adds"] = 1100      # more than STREAM_MAX_SIZE attempted appends: the run must fail
    return c


# the minimal replay of DESIGN 7-11 (known finding stream-fold-cursor-hole): deliver P->A, P->B, A->P, B->P
HOLE_REPLAY = {
    "peers": ["P", "A", "B"], "init": 0, "drain": True, "drain_rounds": 10, "gen": "corpus/hole",
    "prog": {"k": "seq", "xs": [
        {"k": "par", "xs": [{"k": "call", "p": "A", "f": "fa", "v": "a", "s": "$s"}, {"k": "call", "p": "B", "f": "fb", "v": "b", "s": "$s"}]},
        {"k": "gate", "p": "P", "id": 1},
        {"k": "fold", "s": "$s", "id": 1, "p": "P", "guards": [{"m": "a", "v": "c", "s": "$s"}], "visit": True, "last": True}]},
    "ops": [["start"], ["d", 0], ["r", 1, 0], ["d", 1], ["r", 0, 0], ["r", 0, 0], ["r", 0, 0], ["d", 0], ["r", 2, 0], ["d", 0],
            ["r", 0, 0], ["r", 0, 0], ["r", 0, 0]]}


def gen_cases(rng, tier, escalate=False):
    n = {"quick": 100, "thorough": 1000}[tier] * (3 if escalate else 1)
    cases = [history(rng) for _ in range(n)]
    # the size limit: one below, at, and above STREAM_MAX_SIZE (the driver is told how many appends the program attempts)
    totals = [1023, 1024] if tier == "quick" else [1, 31, 32, 33, 1000, 1022, 1023, 1024, 1025, 1056]
    cases += [limit_history(t) for t in totals]
    if tier == "thorough" or escalate:
        cases.append(limit_history(0, recursive=True))
    return cases


# ------------------------------------------------------------------------------------------------
# evaluation

def evaluate(pid, cases, result, checks, nontrivial, classify=None, shard_size=120):
    """checks: name -> Coq function case_t -> bool ('model' = correspondence, names starting with 'oracle' = property
    oracles, names starting with 'aux' are not reported).  nontrivial(info, class) -> bool.
    classify(index, fails, history_shows_hole) -> known-finding key or None for an oracle failure."""
    if not cases:
        return [], set()
    outs = vlib.harness_lines("streams", [json.dumps(c) for c in cases], timeout=1800)
    terms, owner = [], []
    dist = result["distribution"]

    def bump(k, n=1):
        dist[k] = dist.get(k, 0) + n

    for ci, o in enumerate(outs):
        c = cases[ci]
        if "error" in o:
            result["errors"].append(str(o["error"])[:1500])
            if "coq" not in o:
                continue
        bump("histories")
        bump("gen/" + c.get("gen", "replay"))
        bump("runs", int(o.get("runs", 0)))
        bump("service invocations", int(o.get("invocations", 0)))
        bump("histories quiescent", 1 if o.get("quiescent") else 0)
        bump("runs ending with code 30000 (a returned call result matched no call)", len(o.get("unprocessed_results", [])))
        for e in o.get("run_errors", []):
            if c.get("limit"):
                bump("run code %s (size limit programs)" % e.get("code"))
        for ti, t in enumerate(o["coq"]):
            terms.append(t)
            owner.append((ci, ti))
            inf = o["info"][ti]
            bump("case/" + o["classes"][ti])
            bump("appends per case <=2" if inf.get("adds", 0) <= 2 else "appends per case 3..6" if inf.get("adds", 0) <= 6 else "appends per case >6")
            result["evaluations"] += 1
            if nontrivial(inf, o["classes"][ti]):
                result["distinct"].add(hashlib.sha256(t.encode()).hexdigest()[:20])
                if len(result["samples"]) < 3 and (ci + ti) % 5 == 0:
                    result["samples"].append({"script": o.get("script"), "info": inf, "term": t[:1500]})
    if not terms:
        return outs, set()
    checks = dict(checks)
    checks.setdefault("auxev", "c13_no_hole_evidence")
    # a tag of its own per process: two simultaneous runs of the same check must not wipe each other's case files
    tag = "%s-%d" % (pid, os.getpid())
    fails, errs = vlib.coq_eval_cases(tag, HEADER, TYPE, checks, terms, shard_size=shard_size)
    if not errs:
        shutil.rmtree(os.path.join(vlib.CACHE, "cases", tag), ignore_errors=True)
    result["errors"].extend(errs)
    # histories in which some run of the folding peer loses an iteration in exactly the shape of the documented
    # cursor-hole deviation (StreamCases.c13_hole_evidence)
    tainted = {owner[i][0] for i in fails.get("auxev", [])}
    bump("histories showing the fold cursor-hole deviation", len(tainted))
    for ci, o in enumerate(outs):
        if cases[ci].get("limit") or "coq" not in o:
            continue
        for e in o.get("run_errors", []):
            if ci in tainted:
                # downstream damage of the lost iteration (a post-fold canon re-executed with another content, the peer's own
                # signed set changing non-monotonically, ...): other properties' business, counted here
                bump("run code %s in a history showing the fold cursor deviation" % e.get("code"))
            else:
                # an honest history of these shapes never fails a run: report it rather than ignore it
                bump("run code %s" % e.get("code"))
                result["errors"].append("run failed in an honest history: %s :: %s :: %s" % (json.dumps(e), o.get("script", "")[:600], json.dumps(cases[ci])[:3000]))
    for name, idxs in fails.items():
        if name.startswith("aux"):
            continue
        for i in idxs:
            ci, ti = owner[i]
            entry = {"case": cases[ci], "term": terms[i][:6000], "info": outs[ci]["info"][ti], "script": outs[ci].get("script"), "check": name}
            if name == "model":
                entry["what"] = "model/Stream.v (driven by StreamCases.check_case) disagrees with the implementation's observation on this run"
                result["mismatch"].append(entry)
            elif name.startswith("oracle"):
                key = classify(i, fails, owner[i][0] in tainted) if classify else None
                entry["key"] = key
                entry["what"] = "property oracle %s is false on the implementation's observation" % checks[name]
                if key:
                    bump("known/" + key)
                result["oracle_fail"].append(entry)
    return outs, tainted
