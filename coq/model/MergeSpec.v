(* MergeSpec.v -- the merge of two executed states as a join: interpretation of the decision tables
   the translator reads from crates/air-lib/trace-handler/src/merger (tools/genx_merge.py ->
   gen/Generated.v), the state-level join functions, the information order, and the statements
   (`..._stmt`) of the laws C07 (re-delivery changes nothing) and C08 (order / grouping do not
   matter) rest on.  The trace-level part: a replay driver over par-structured traces and the
   pointwise join of traces of the same shape.

   The functions talked about are those of Handler.v (merge_call_results, merge_executed,
   merge_canon_results, try_merge_next_state_as_{call,canon,ap,par}, the ParFSM).
   Definitions only; the proofs are in proofs/MergeLaws.v. *)
From Aqua Require Import Base Trace Handler.
Open Scope N_scope.
Open Scope list_scope.

(* a correct equality on content ids *)
Definition ceqb_correct {C : Type} (ceqb : C -> C -> bool) : Prop := forall x y, ceqb x y = true <-> x = y.

(* relation on results: both defined and related, or both errors, or both crashes *)
Definition res_rel {A} (R : A -> A -> Prop) (x y : res A) : Prop :=
  match x, y with
  | Ok a, Ok b => R a b
  | Err _, Err _ => True
  | Crash _, Crash _ => True
  | _, _ => False
  end.
(* the same, the error variant included *)
Definition res_rel_strict {A} (R : A -> A -> Prop) (x y : res A) : Prop :=
  match x, y with
  | Ok a, Ok b => R a b
  | Err e, Err e' => e = e'
  | Crash s, Crash s' => s = s'
  | _, _ => False
  end.
Definition is_ok {A} (x : res A) : Prop := exists a, x = Ok a.

Section MergeSpec.
  Variable C : Type.
  Variable ceqb : C -> C -> bool.
  Notation call_result := (call_result C).
  Notation canon_result := (canon_result C).
  Notation value_ref := (value_ref C).
  Notation state := (state C).
  Notation trace := (list state).
  Notation handler := (handler C).

  (* =====================================================================================
     A. interpretation of the generated tables (first matching row wins, as in a Rust `match`)
     ===================================================================================== *)
  Definition mt_scheme_to (s : mt_scheme) : scheme :=
    match s with MtPrevious => SchPrevious | MtCurrent => SchCurrent | MtBoth => SchBoth end.

  (* errors.rs: constructor helper -> variant -> class of Handler.v *)
  Definition herr_of_variant (v : string) : option herr :=
    if String.eqb v "ValuesNotEqual" then Some ValuesNotEqual
    else if String.eqb v "IncompatibleCallResults" then Some IncompatibleCallResults
    else if String.eqb v "IncompatibleState" then Some CanonIncompatibleState
    else None.
  Fixpoint assoc_str (l : list (string * string)) (k : string) : option string :=
    match l with [] => None | (a, b) :: r => if String.eqb a k then Some b else assoc_str r k end.
  Definition herr_of_ctor (ctor : string) : option herr :=
    match assoc_str mt_error_ctor_variant ctor with Some v => herr_of_variant v | None => None end.

  Definition kind_of_call (c : call_result) : mt_kind :=
    match c with RequestSentBy _ => MtRequestSentBy | Executed _ => MtExecuted | Failed _ => MtFailed end.
  Definition mt_kind_matches (pat k : mt_kind) : bool :=
    match pat, k with
    | MtAnyCall, _ => true
    | MtRequestSentBy, MtRequestSentBy | MtExecuted, MtExecuted | MtFailed, MtFailed => true
    | _, _ => false
    end.

  Definition vkind_of (v : value_ref) : mt_vkind :=
    match v with VRScalar _ => MtScalar | VRStream _ _ => MtStream | VRUnused _ => MtUnused end.
  Definition mt_vkind_matches (pat k : mt_vkind) : bool :=
    match pat, k with
    | MtAnyValue, _ => true
    | MtScalar, MtScalar | MtStream, MtStream | MtUnused, MtUnused => true
    | _, _ => false
    end.
  Definition vcid (v : value_ref) : C := match v with VRScalar c | VRStream c _ | VRUnused c => c end.

  Definition pick {A} (s : mt_side) (p c : A) : A := match s with MtPrev => p | MtCur => c end.

  (* None = the table has no applicable row / names an unknown error constructor *)
  Fixpoint interp_executed_table (tbl : list (mt_vkind * mt_vkind * mt_vaction)) (p c : value_ref)
    : option (res call_result) :=
    match tbl with
    | [] => None
    | (kp, kc, act) :: rest =>
        if mt_vkind_matches kp (vkind_of p) && mt_vkind_matches kc (vkind_of c) then
          match act with
          | MtVTake chk side =>
              let same := match chk with
                          | MtWholeValueEqual => value_ref_eqb C ceqb p c
                          | MtCidEqual => ceqb (vcid p) (vcid c)
                          end in
              let ector := match chk with
                           | MtWholeValueEqual => fst mt_value_check_errors
                           | MtCidEqual => snd mt_value_check_errors
                           end in
              if same then Some (Ok (Executed (pick side p c)))
              else option_map (fun e => Err e) (herr_of_ctor ector)
          | MtVFail ctor => option_map (fun e => Err e) (herr_of_ctor ctor)
          end
        else interp_executed_table rest p c
    end.

  Fixpoint interp_call_table (tbl : list (mt_kind * mt_kind * mt_action * mt_scheme)) (p c : call_result)
    : option (res (call_result * scheme)) :=
    match tbl with
    | [] => None
    | (kp, kc, act, sch) :: rest =>
        if mt_kind_matches kp (kind_of_call p) && mt_kind_matches kc (kind_of_call c) then
          match act with
          | MtTake side => Some (Ok (pick side p c, mt_scheme_to sch))
          | MtTakeIfEqual side =>
              if call_result_eqb C ceqb p c then Some (Ok (pick side p c, mt_scheme_to sch))
              else option_map (fun e => Err e) (herr_of_ctor mt_check_equal_error)
          | MtMergeExecuted swapped =>
              match p, c with
              | Executed pv, Executed cv =>
                  match (if swapped then interp_executed_table mt_executed_table cv pv
                         else interp_executed_table mt_executed_table pv cv) with
                  | Some (Ok m) => Some (Ok (m, mt_scheme_to sch))
                  | Some (Err e) => Some (Err e)
                  | Some (Crash s) => Some (Crash s)
                  | None => None
                  end
              | _, _ => None
              end
          | MtFail ctor => option_map (fun e => Err e) (herr_of_ctor ctor)
          end
        else interp_call_table rest p c
    end.

  Definition ckind_of (c : canon_result) : mt_ckind :=
    match c with CanonRequestSentBy _ => MtCanonRequestSentBy | CanonExecuted _ => MtCanonExecuted end.
  Definition mt_ckind_eqb (a b : mt_ckind) : bool :=
    match a, b with
    | MtCanonRequestSentBy, MtCanonRequestSentBy | MtCanonExecuted, MtCanonExecuted => true
    | _, _ => false
    end.
  Fixpoint interp_canon_table (tbl : list (mt_ckind * mt_ckind * mt_guard * mt_caction)) (p c : canon_result)
    : option (res canon_result) :=
    match tbl with
    | [] => None
    | (kp, kc, g, act) :: rest =>
        let guard_ok := match g, p, c with
                        | MtAlways, _, _ => true
                        | MtIfCidsDiffer, CanonExecuted x, CanonExecuted y => negb (ceqb x y)
                        | MtIfCidsDiffer, _, _ => false
                        end in
        if mt_ckind_eqb kp (ckind_of p) && mt_ckind_eqb kc (ckind_of c) && guard_ok then
          match act with
          | MtCTake side => Some (Ok (pick side p c))
          | MtCFail ctor => option_map (fun e => Err e) (herr_of_ctor ctor)
          end
        else interp_canon_table rest p c
    end.

  (* the dispatch on (prev_state, current_state) of try_merge_next_state_as_* *)
  Definition slot_matches {A} (proj : state -> option A) (pat : mt_slot) (s : option state) : bool :=
    match pat, s with
    | MtAnySlot, _ => true
    | MtNone, None => true
    | MtSomeKind, Some st => match proj st with Some _ => true | None => false end
    | _, _ => false
    end.
  Definition slot_payload {A} (proj : state -> option A) (s : option state) : option A :=
    match s with Some st => proj st | None => None end.

  Section Dispatch.
    Variables A R : Type.
    Variable proj : state -> option A.
    Variable on_both : A -> A -> option R.
    Variable on_single : mt_side -> mt_scheme -> A -> option R.
    Variable on_none : R.
    Variable on_incompatible : option state -> option state -> R.
    Fixpoint interp_dispatch (tbl : list (mt_slot * mt_slot * mt_dispatch)) (p c : option state) : option R :=
      match tbl with
      | [] => None
      | (sp, sc, act) :: rest =>
          if slot_matches proj sp p && slot_matches proj sc c then
            match act with
            | MtMergeBoth =>
                match slot_payload proj p, slot_payload proj c with
                | Some a, Some b => on_both a b
                | _, _ => None
                end
            | MtSingle side sch =>
                match slot_payload proj (pick side p c) with
                | Some a => on_single side sch a
                | None => None
                end
            | MtNotMet => Some on_none
            | MtIncompatibleStates => Some (on_incompatible p c)
            end
          else interp_dispatch rest p c
      end.
  End Dispatch.

  Definition proj_call (s : state) : option call_result := match s with SCall c => Some c | _ => None end.
  Definition proj_canon (s : state) : option canon_result := match s with SCanon c => Some c | _ => None end.
  Definition proj_ap (s : state) : option (list N) := match s with SAp g => Some g | _ => None end.
  Definition proj_par (s : state) : option (N * N) := match s with SPar l r => Some (l, r) | _ => None end.

  Definition table_call_dispatch (p c : option state) (k1 : keeper C)
    : option (res (merger_call_result C * keeper C)) :=
    interp_dispatch _ _ proj_call
      (fun a b => match interp_call_table mt_call_table a b with
                  | Some r => Some (do ms <- r; prepare_call_result C (fst ms) (snd ms) k1)
                  | None => None
                  end)
      (fun _ sch a => Some (prepare_call_result C a (mt_scheme_to sch) k1))
      (Ok (CallNotMet C, k1))
      (fun p c => Err (incompatible_states C p c))
      mt_call_dispatch p c.

  Definition table_canon_dispatch (p c : option state) (k1 : keeper C)
    : option (res (merger_canon_result C * keeper C)) :=
    interp_dispatch _ _ proj_canon
      (fun a b => match interp_canon_table mt_canon_table a b with
                  | Some r => Some (do m <- r; Ok (CanonMet C m, k1))
                  | None => None
                  end)
      (fun _ _ a => Some (Ok (CanonMet C a, k1)))
      (Ok (CanonEmpty C, k1))
      (fun p c => Err (incompatible_states C p c))
      mt_canon_dispatch p c.

  (* the generation count demanded by to_maybe_generation! *)
  Definition table_prepare_ap (gens : list N) (sch : scheme) (k : keeper C) : res (merger_ap_result * keeper C) :=
    do k1 <- prepare_positions_mapping C sch k;
    if len_N gens =? mt_ap_generations_required then
      match gens with g :: _ => Ok (ApMet g (source_of sch), k1) | [] => Err InvalidDstGenerations end
    else Err InvalidDstGenerations.
  Definition table_ap_dispatch (p c : option state) (k1 : keeper C)
    : option (res (merger_ap_result * keeper C)) :=
    interp_dispatch _ _ proj_ap
      (fun _ _ => None)
      (fun _ sch a => Some (table_prepare_ap a (mt_scheme_to sch) k1))
      (Ok (ApNotMet, k1))
      (fun p c => Err (incompatible_states C p c))
      mt_ap_dispatch p c.

  Definition table_par_dispatch (p c : option state) (k1 : keeper C)
    : option (res (option (N * N) * option (N * N) * keeper C)) :=
    interp_dispatch _ _ proj_par
      (fun a b => Some (Ok (Some a, Some b, k1)))
      (fun side _ a => Some (Ok (match side with MtPrev => (Some a, None, k1) | MtCur => (None, Some a, k1) end)))
      (Ok (None, None, k1))
      (fun p c => Err (incompatible_states C p c))
      mt_par_dispatch p c.

  (* position_mapping.rs: which bimaps a scheme touches; ValueSource of a scheme *)
  Definition scheme_maps_prev (s : scheme) : bool := match s with SchPrevious | SchBoth => true | SchCurrent => false end.
  Definition scheme_maps_cur (s : scheme) : bool := match s with SchCurrent | SchBoth => true | SchPrevious => false end.
  Definition mt_scheme_eqb (a b : mt_scheme) : bool :=
    match a, b with MtPrevious, MtPrevious | MtCurrent, MtCurrent | MtBoth, MtBoth => true | _, _ => false end.
  Definition scheme_tables_agree : bool :=
    forallb (fun s =>
      existsb (fun row => let '(s', mp, mc) := row in
                 mt_scheme_eqb s s' && Bool.eqb mp (scheme_maps_prev (mt_scheme_to s)) && Bool.eqb mc (scheme_maps_cur (mt_scheme_to s)))
              mt_scheme_maps &&
      existsb (fun row => let '(s', ip) := row in
                 mt_scheme_eqb s s' && Bool.eqb ip (match source_of (mt_scheme_to s) with PreviousData => true | CurrentData => false end))
              mt_scheme_source_is_prev)
      [MtPrevious; MtCurrent; MtBoth]
    && (len_N mt_scheme_maps =? 3) && (len_N mt_scheme_source_is_prev =? 3).

  (* the whole tie, as statements *)
  Definition merge_table_agrees_stmt : Prop :=
    (forall p c, interp_executed_table mt_executed_table p c = Some (merge_executed C ceqb p c)) /\
    (forall p c, interp_call_table mt_call_table p c = Some (merge_call_results C ceqb p c)) /\
    (forall p c, interp_canon_table mt_canon_table p c = Some (merge_canon_results C ceqb p c)).

  Definition merge_dispatch_agrees_stmt : Prop :=
    (forall k, let '(p, c, k1) := next_states C k in
               table_call_dispatch p c k1 = Some (try_merge_next_state_as_call C ceqb k)) /\
    (forall k, let '(p, c, k1) := next_states C k in
               table_canon_dispatch p c k1 = Some (try_merge_next_state_as_canon C ceqb k)) /\
    (forall k, let '(p, c, k1) := next_states C k in
               table_ap_dispatch p c k1 = Some (try_merge_next_state_as_ap C k)) /\
    (forall k, let '(p, c, k1) := next_states C k in
               table_par_dispatch p c k1 = Some (try_merge_next_state_as_par C k)) /\
    scheme_tables_agree = true /\
    (forall sch k k', prepare_positions_mapping C sch k = Ok k' ->
       k_new_to_prev C k' = (if scheme_maps_prev sch
                             then bimap_insert (k_new_to_prev C k) (result_next_pos C k) (s_pos C (k_prev C k) - 1)
                             else k_new_to_prev C k) /\
       k_new_to_cur C k' = (if scheme_maps_cur sch
                            then bimap_insert (k_new_to_cur C k) (result_next_pos C k) (s_pos C (k_cur C k) - 1)
                            else k_new_to_cur C k)).

  (* =====================================================================================
     B. the state-level joins
     ===================================================================================== *)
  Definition merge_call (a b : call_result) : res call_result :=      (* the state merge_call_results yields *)
    do ms <- merge_call_results C ceqb a b; Ok (fst ms).
  Definition merge_canon (a b : canon_result) : res canon_result := merge_canon_results C ceqb a b.
  (* try_merge_next_state_as_ap on two Ap states: the previous one, which must hold one generation *)
  Definition merge_ap (a b : list N) : res (list N) :=
    match a with [g] => Ok [g] | _ => Err InvalidDstGenerations end.
  Definition wf_ap (a : list N) : Prop := exists g, a = [g].

  (* what the handler hands to the instruction for the pair (Some a, Some b) of popped states *)
  Definition merge_state (a b : state) : res state :=
    match a, b with
    | SCall x, SCall y => do m <- merge_call x y; Ok (SCall m)
    | SCanon x, SCanon y => do m <- merge_canon x y; Ok (SCanon m)
    | SAp x, SAp y => do m <- merge_ap x y; Ok (SAp m)
    | _, _ => Err IncompatibleExecutedStates
    end.

  (* ---- equivalences the property text allows ---- *)
  (* the sender of a pending request may differ *)
  Inductive call_sim_sender : call_result -> call_result -> Prop :=
  | css_refl a : call_sim_sender a a
  | css_sent s t : call_sim_sender (RequestSentBy s) (RequestSentBy t).
  (* ... and the generation number of a stream value *)
  Inductive call_sim : call_result -> call_result -> Prop :=
  | cs_refl a : call_sim a a
  | cs_sent s t : call_sim (RequestSentBy s) (RequestSentBy t)
  | cs_stream c g h : call_sim (Executed (VRStream c g)) (Executed (VRStream c h)).
  Inductive canon_sim : canon_result -> canon_result -> Prop :=
  | cns_refl a : canon_sim a a
  | cns_sent p q : canon_sim (CanonRequestSentBy p) (CanonRequestSentBy q).
  (* ap states carry nothing but generation numbers *)
  Definition ap_sim (a b : list N) : Prop := wf_ap a /\ wf_ap b.

  (* ---- information order (DESIGN appendix A) ---- *)
  Inductive call_le : call_result -> call_result -> Prop :=
  | cle_sent s x : call_le (RequestSentBy s) x
  | cle_scalar c : call_le (Executed (VRScalar c)) (Executed (VRScalar c))
  | cle_stream c g h : call_le (Executed (VRStream c g)) (Executed (VRStream c h))
  | cle_unused c : call_le (Executed (VRUnused c)) (Executed (VRUnused c))
  | cle_failed c : call_le (Failed c) (Failed c).
  Inductive canon_le : canon_result -> canon_result -> Prop :=
  | cnle_sent p x : canon_le (CanonRequestSentBy p) x
  | cnle_exec c : canon_le (CanonExecuted c) (CanonExecuted c).
  Definition call_compatible (a b : call_result) : Prop := exists u, call_le a u /\ call_le b u.
  Definition canon_compatible (a b : canon_result) : Prop := exists u, canon_le a u /\ canon_le b u.

  (* ---- the laws: calls ---- *)
  Definition call_join_idem_stmt : Prop := forall a, merge_call a a = Ok a.
  Definition call_join_absorb_stmt : Prop :=
    forall a b m, merge_call a b = Ok m ->
      merge_call m b = Ok m /\ merge_call m a = Ok m /\
      res_rel_strict call_sim (merge_call b m) (Ok m) /\ res_rel_strict call_sim (merge_call a m) (Ok m).
  (* the naive reading: both orders agree up to the sender of a pending request *)
  Definition call_join_comm_mod_sender_stmt : Prop :=
    forall a b, res_rel_strict call_sim_sender (merge_call a b) (merge_call b a).
  (* what holds: ... and up to the generation of a stream value; same error variant in both orders *)
  Definition call_join_comm_stmt : Prop :=
    forall a b, res_rel_strict call_sim (merge_call a b) (merge_call b a).
  (* without stream values the naive reading holds *)
  Definition not_stream (a : call_result) : Prop := forall c g, a <> Executed (VRStream c g).
  Definition call_join_comm_mod_sender_nostream_stmt : Prop :=
    forall a b, not_stream a -> not_stream b -> res_rel_strict call_sim_sender (merge_call a b) (merge_call b a).
  Definition call_join_assoc_stmt : Prop :=
    forall a b c,
      res_rel call_sim (do m <- merge_call a b; merge_call m c) (do m <- merge_call b c; merge_call a m).
  Definition call_join_defined_iff_stmt : Prop :=
    forall a b, is_ok (merge_call a b) <-> call_compatible a b.
  (* the join is the least upper bound (up to the equivalence) *)
  Definition call_join_lub_stmt : Prop :=
    forall a b m, merge_call a b = Ok m ->
      call_le a m /\ call_le b m /\ (forall u, call_le a u -> call_le b u -> call_le m u).
  (* the equivalence is a congruence for the join *)
  Definition call_join_congr_stmt : Prop :=
    forall a a' b b', call_sim a a' -> call_sim b b' -> res_rel_strict call_sim (merge_call a b) (merge_call a' b').

  (* ---- the laws: canon ---- *)
  Definition canon_join_idem_stmt : Prop := forall a, merge_canon a a = Ok a.
  Definition canon_join_absorb_stmt : Prop :=
    forall a b m, merge_canon a b = Ok m ->
      merge_canon m b = Ok m /\ merge_canon m a = Ok m /\
      res_rel_strict canon_sim (merge_canon b m) (Ok m) /\ res_rel_strict canon_sim (merge_canon a m) (Ok m).
  Definition canon_join_comm_stmt : Prop :=
    forall a b, res_rel_strict canon_sim (merge_canon a b) (merge_canon b a).
  Definition canon_join_assoc_stmt : Prop :=
    forall a b c,
      res_rel canon_sim (do m <- merge_canon a b; merge_canon m c) (do m <- merge_canon b c; merge_canon a m).
  Definition canon_join_defined_iff_stmt : Prop :=
    forall a b, is_ok (merge_canon a b) <-> canon_compatible a b.
  Definition canon_join_lub_stmt : Prop :=
    forall a b m, merge_canon a b = Ok m ->
      canon_le a m /\ canon_le b m /\ (forall u, canon_le a u -> canon_le b u -> canon_le m u).

  (* ---- the laws: ap ---- *)
  (* naive: unconditional idempotence / commutativity *)
  Definition ap_join_idem_naive_stmt : Prop := forall a, merge_ap a a = Ok a.
  Definition ap_join_comm_naive_stmt : Prop := forall a b, res_rel ap_sim (merge_ap a b) (merge_ap b a).
  (* what holds: exact definedness (the previous state must carry one generation), previous wins *)
  Definition ap_join_exact_stmt : Prop :=
    forall a b, (wf_ap a -> merge_ap a b = Ok a) /\ (~ wf_ap a -> merge_ap a b = Err InvalidDstGenerations).
  Definition ap_join_idem_stmt : Prop := forall a, wf_ap a -> merge_ap a a = Ok a.
  Definition ap_join_absorb_stmt : Prop :=
    forall a b m, merge_ap a b = Ok m -> merge_ap m b = Ok m /\ merge_ap m a = Ok m.
  Definition ap_join_comm_stmt : Prop :=
    forall a b, wf_ap a -> wf_ap b -> res_rel ap_sim (merge_ap a b) (merge_ap b a).
  Definition ap_join_assoc_stmt : Prop :=
    forall a b c, wf_ap a -> wf_ap b -> wf_ap c ->
      (do m <- merge_ap a b; merge_ap m c) = (do m <- merge_ap b c; merge_ap a m).

  (* ---- the tie of the state-level join to the handler: what a merger returns when the two
         sliders present the states a and b ---- *)
  Definition presents (k : keeper C) (a b : option state) (k1 : keeper C) : Prop := next_states C k = (a, b, k1).
  Definition merge_state_is_handler_stmt : Prop :=
    (forall k k1 a b, presents k (Some (SCall a)) (Some (SCall b)) k1 ->
       match try_merge_next_state_as_call C ceqb k with
       | Ok (CallMet _ r _ _, _) => merge_call a b = Ok r
       | Ok (CallNotMet _, _) => False
       | Err e => merge_call a b = Err e
       | Crash _ => is_ok (merge_call a b)          (* position bookkeeping only; excluded by s_pos >= 1 *)
       end) /\
    (forall k k1 a b, presents k (Some (SCanon a)) (Some (SCanon b)) k1 ->
       match try_merge_next_state_as_canon C ceqb k with
       | Ok (CanonMet _ r, _) => merge_canon a b = Ok r
       | Ok (CanonEmpty _, _) => False
       | Err e => merge_canon a b = Err e
       | Crash _ => False
       end) /\
    (forall k k1 a b, presents k (Some (SAp a)) (Some (SAp b)) k1 ->
       match try_merge_next_state_as_ap C k with
       | Ok (ApMet g _, _) => merge_ap a b = Ok [g]
       | Ok (ApNotMet, _) => False
       | Err e => merge_ap a b = Err e
       | Crash _ => True
       end).

  (* =====================================================================================
     C. trace level: par-structured traces, the replay driver, the pointwise join
     ===================================================================================== *)
  (* a trace made of call / canon / ap states under par nodes, as a forest *)
  Inductive tree := TLeaf (s : state) | TPar (l r : list tree).

  Definition leaf_ok (s : state) : bool :=
    match s with SCall _ | SCanon _ => true | SAp [_] => true | _ => false end.

  Fixpoint flatten_tree (t : tree) : trace :=
    match t with
    | TLeaf s => [s]
    | TPar l r =>
        let fl := (fix go (f : list tree) : trace := match f with [] => [] | x :: xs => flatten_tree x ++ go xs end) l in
        let fr := (fix go (f : list tree) : trace := match f with [] => [] | x :: xs => flatten_tree x ++ go xs end) r in
        SPar (len_N fl) (len_N fr) :: fl ++ fr
    end.
  Fixpoint flatten (f : list tree) : trace :=
    match f with [] => [] | x :: xs => flatten_tree x ++ flatten xs end.

  Fixpoint tree_ok (t : tree) : bool :=
    match t with
    | TLeaf s => leaf_ok s
    | TPar l r => forallb tree_ok l && forallb tree_ok r
    end.
  Definition forest_ok (f : list tree) : bool := forallb tree_ok f.

  (* the driver: what an instruction tree of this shape does with the handler when every merged
     state is re-emitted as it is (an executed / failed call, a canon, an ap whose generation is kept,
     a request that stays pending) *)
  Definition replay_leaf (s : state) (h : handler) : res handler :=
    match s with
    | SCall _ =>
        do rh <- meet_call_start C ceqb h;
        match fst rh with
        | CallMet _ r _ _ => Ok (meet_call_end C (snd rh) r)
        | CallNotMet _ => Ok (snd rh)
        end
    | SCanon _ =>
        do rh <- meet_canon_start C ceqb h;
        match fst rh with
        | CanonMet _ r => Ok (meet_canon_end C (snd rh) r)
        | CanonEmpty _ => Ok (snd rh)
        end
    | SAp _ =>
        do rh <- meet_ap_start C h;
        match fst rh with
        | ApMet g _ => Ok (meet_ap_end C (snd rh) [g])
        | ApNotMet => Ok (snd rh)
        end
    | _ => Ok h
    end.
  Fixpoint replay_tree (t : tree) (h : handler) : res handler :=
    match t with
    | TLeaf s => replay_leaf s h
    | TPar l r =>
        do h1 <- meet_par_start C h;
        do h2 <- (fix go (f : list tree) (h : handler) : res handler :=
                    match f with [] => Ok h | x :: xs => do h' <- replay_tree x h; go xs h' end) l h1;
        do h3 <- meet_par_subgraph_end C h2 SLeft;
        do h4 <- (fix go (f : list tree) (h : handler) : res handler :=
                    match f with [] => Ok h | x :: xs => do h' <- replay_tree x h; go xs h' end) r h3;
        meet_par_subgraph_end C h4 SRight
    end.
  Fixpoint replay (f : list tree) (h : handler) : res handler :=
    match f with [] => Ok h | x :: xs => do h' <- replay_tree x h; replay xs h' end.

  (* pointwise join of two traces of the same shape *)
  Definition merge_state_par (a b : state) : res state :=
    match a, b with
    | SPar l r, SPar l' r' => if (l =? l') && (r =? r') then Ok a else Err IncompatibleExecutedStates
    | _, _ => merge_state a b
    end.
  Fixpoint tjoin (p c : trace) : res trace :=
    match p, c with
    | [], [] => Ok []
    | a :: p', b :: c' => do m <- merge_state_par a b; do r <- tjoin p' c'; Ok (m :: r)
    | _, _ => Err DifferentExecutedStateExpected
    end.

  Definition state_sim (a b : state) : Prop :=
    match a, b with
    | SCall x, SCall y => call_sim x y
    | SCanon x, SCanon y => canon_sim x y
    | SAp x, SAp y => ap_sim x y
    | SPar l r, SPar l' r' => l = l' /\ r = r'
    | _, _ => False
    end.
  Definition trace_sim (p c : trace) : Prop := Forall2 state_sim p c.
  (* par / call / canon states, ap states with their one generation; no fold states *)
  Definition par_call_canon_state (s : state) : Prop :=
    match s with SPar _ _ | SCall _ | SCanon _ => True | SAp g => wf_ap g | SFold _ => False end.

  (* C07 at the level of the handler: both sliders hold the same trace; driving the handler in the
     order the trace was produced re-emits it. Also with an empty current trace ("nothing").
     (length <= u32::MAX: trace positions are u32.) *)
  Definition C07_same_trace_stmt : Prop :=
    forall f, forest_ok f = true -> len_N (flatten f) <= u32_max ->
      exists h, replay f (handler_from C (flatten f) (flatten f)) = Ok h /\ result_trace C h = flatten f.
  Definition C07_nothing_stmt : Prop :=
    forall f, forest_ok f = true -> len_N (flatten f) <= u32_max ->
      exists h, replay f (handler_from C (flatten f) []) = Ok h /\ result_trace C h = flatten f.
  (* the handler computes the pointwise join whenever it is defined (the two traces then have the same shape) *)
  Definition replay_join_stmt : Prop :=
    forall fp q t, forest_ok fp = true -> len_N (flatten fp) <= u32_max ->
      tjoin (flatten fp) q = Ok t ->
      exists h, replay fp (handler_from C (flatten fp) q) = Ok h /\ result_trace C h = t.
  (* ... hence swapping previous and current data changes senders / generation numbers only *)
  Definition replay_comm_stmt : Prop :=
    forall fp fq t, forest_ok fp = true -> forest_ok fq = true -> len_N (flatten fp) <= u32_max ->
      tjoin (flatten fp) (flatten fq) = Ok t ->
      exists h h', replay fp (handler_from C (flatten fp) (flatten fq)) = Ok h /\
                   replay fq (handler_from C (flatten fq) (flatten fp)) = Ok h' /\
                   trace_sim (result_trace C h) (result_trace C h').

  (* C08 "grouping" on traces of one shape: the pointwise join is idempotent, commutative and
     associative up to senders / generation numbers *)
  Definition tjoin_idem_stmt : Prop :=
    forall t, Forall par_call_canon_state t -> tjoin t t = Ok t.
  Definition tjoin_comm_stmt : Prop :=
    forall p c, Forall par_call_canon_state p -> Forall par_call_canon_state c ->
      res_rel trace_sim (tjoin p c) (tjoin c p).
  Definition tjoin_assoc_stmt : Prop :=
    forall a b c, Forall par_call_canon_state a -> Forall par_call_canon_state b -> Forall par_call_canon_state c ->
      res_rel trace_sim (do m <- tjoin a b; tjoin m c) (do m <- tjoin b c; tjoin a m).
  Definition tjoin_absorb_stmt : Prop :=
    forall p c m, tjoin p c = Ok m -> tjoin m c = Ok m /\ tjoin m p = Ok m.
End MergeSpec.

Arguments TLeaf {C}. Arguments TPar {C}.
