// Collects src/x_*.rs modules (one per component driver, each with `pub fn main(args: &[String])`)
// into a dispatch table, so that adding a driver does not touch main.rs.
use std::io::Write;
fn main() {
    let out = std::env::var("OUT_DIR").unwrap();
    let src = std::path::Path::new(&std::env::var("CARGO_MANIFEST_DIR").unwrap()).join("src");
    let mut names: Vec<String> = std::fs::read_dir(&src)
        .unwrap()
        .filter_map(|e| e.ok())
        .filter_map(|e| e.file_name().into_string().ok())
        .filter(|n| n.starts_with("x_") && n.ends_with(".rs"))
        .map(|n| n[..n.len() - 3].to_string())
        .collect();
    names.sort();
    let mut f = std::fs::File::create(std::path::Path::new(&out).join("cmds.rs")).unwrap();
    for n in &names {
        writeln!(f, "#[path = \"{}/{}.rs\"] mod {};", src.display(), n, n).unwrap();
    }
    writeln!(f, "fn dispatch_extra(cmd: &str, args: &[String]) -> bool {{ match cmd {{").unwrap();
    for n in &names {
        writeln!(f, "  \"{}\" => {{ {}::main(args); true }}", &n[2..], n).unwrap();
    }
    writeln!(f, "  _ => {{ let _ = args; false }} }} }}").unwrap();
    println!("cargo:rerun-if-changed=src");
}
