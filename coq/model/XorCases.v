(* XorCases.v -- case helpers of property C18.

   (1) the property oracle [c18case] / [c18_oracle] is in model/XorOracle.v (re-exported here).
   (2) [check_case18]: the per-run correspondence of ExecCases.v on the runs of the same scripts, with
       error MESSAGES replaced by the model's opaque tokens "<msg:Variant>" (Exec.err_message) wherever
       an error object or the bare :error:.$.message argument of the catch call shows up in the
       implementation's observation or in the decoded input data.
   Definitions only. *)
From Aqua Require Import Base Json Air Trace Handler Values Scalars Lens Exec RunExec ExecStreams ExecCases XorSpec.
From Aqua Require Export XorOracle.
Open Scope N_scope.
Open Scope list_scope.

(* ------------------------------------------------------------------------------------------ *)
(* (2) message canonicalisation for the lock-step *)

Definition catch_token (z : Z) : option string :=
  if in_range catchable_errors_start_id (catchable_errors_start_id + Z.of_nat (length catchable_error_variants)) z
  then match nth_error catchable_error_variants (Z.to_nat (z - catchable_errors_start_id)) with
       | Some n => Some ("<msg:" ++ n ++ ">")%string
       | None => None
       end
  else None.

Fixpoint set_key (k : string) (v : json) (kvs : list (string * json)) : list (string * json) :=
  match kvs with
  | [] => []
  | (k', v') :: r => if String.eqb k k' then (k', v) :: r else (k', v') :: set_key k v r
  end.

(* an object with an integer error_code in the catchable range, an instruction and a message is an error
   object built by set_errors: its message becomes the token of the code's variant *)
Fixpoint canon_json (j : json) : json :=
  match j with
  | JArr l => JArr (map canon_json l)
  | JObj kvs =>
      let kvs' := map (fun p => match p with (k, v) => (k, canon_json v) end) kvs in
      match obj_get "error_code" kvs, obj_get "instruction" kvs, obj_get "message" kvs with
      | Some (JInt z), Some (JStr _), Some (JStr _) =>
          match catch_token z with
          | Some t => JObj (set_key "message" (JStr t) kvs')
          | None => JObj kvs'
          end
      | _, _, _ =>
          (* CallServiceFailed of a service result that is not JSON (prev_result_handler.rs try_to_service_result:
             ret_code i32::MAX, message = serde_json's error text): the model's token *)
          match obj_get "ret_code" kvs, obj_get "message" kvs, kvs with
          | Some (JInt 2147483647), Some (JStr _), [_; _] => JObj (set_key "message" (JStr "<msg:service result is not JSON>") kvs')
          | _, _, _ => JObj kvs'
          end
      end
  | _ => j
  end.

(* the arguments of the catch call: [:error:.$.error_code; :error:.$.message; :error:; %last_error%] *)
Definition canon_catch_args (l : list json) : list json :=
  match l with
  | JInt z :: JStr m :: rest =>
      JInt z :: JStr (match catch_token z with Some t => t | None => m end) :: map canon_json rest
  | _ => map canon_json l
  end.
Definition is_catch (service function : string) : bool := String.eqb service "s18" && String.eqb function "catch".

Fixpoint canon_cid (c : cid) : cid :=
  match c with
  | CValue j => CValue (canon_json j)
  | CArgs a => CArgs (map canon_json a)
  | CService v a t =>
      CService (canon_cid v)
               match a, t with
               | CArgs l, CTetraplet tq => if is_catch (tp_service tq) (tp_function tq) then CArgs (canon_catch_args l) else CArgs (map canon_json l)
               | _, _ => canon_cid a
               end
               (canon_cid t)
  | CCanonElem v t p =>
      CCanonElem (canon_cid v) (canon_cid t) match p with Some (b, c') => Some (b, canon_cid c') | None => None end
  | CCanonResult t vs => CCanonResult (canon_cid t) (map canon_cid vs)
  | CTetraplet t => CTetraplet t
  | COpaque s => COpaque s
  end.

Definition canon_state (s : state cid) : state cid :=
  match s with
  | SCall (Executed (VRScalar c)) => SCall (Executed (VRScalar (canon_cid c)))
  | SCall (Executed (VRStream c g)) => SCall (Executed (VRStream (canon_cid c) g))
  | SCall (Executed (VRUnused c)) => SCall (Executed (VRUnused (canon_cid c)))
  | SCall (Failed c) => SCall (Failed (canon_cid c))
  | SCanon (CanonExecuted c) => SCanon (CanonExecuted (canon_cid c))
  | o => o
  end.
Definition canon_cids (s : cid_state) : cid_state :=
  {| cs_values := map canon_cid (cs_values s); cs_tetraplets := map canon_cid (cs_tetraplets s);
     cs_canon_elems := map canon_cid (cs_canon_elems s); cs_canon_results := map canon_cid (cs_canon_results s);
     cs_services := map canon_cid (cs_services s) |}.
Definition canon_idata (d : idata) : idata :=
  {| d_trace := map canon_state (d_trace d); d_lcid := d_lcid d; d_cids := canon_cids (d_cids d) |}.
Definition canon_request (r : request) : request :=
  {| rq_service := rq_service r; rq_function := rq_function r;
     rq_args := if is_catch (rq_service r) (rq_function r) then canon_catch_args (rq_args r) else map canon_json (rq_args r);
     rq_tetraplets := rq_tetraplets r |}.
Definition canon_case (c : ecase) : ecase :=
  let i := ec_input c in let o := ec_obs c in
  {| ec_input := {| ri_script := ri_script i; ri_params := ri_params i; ri_prev := canon_idata (ri_prev i);
                    ri_cur := canon_idata (ri_cur i); ri_results := ri_results i |};
     ec_obs := {| eo_kind := eo_kind o; eo_code := eo_code o; eo_trace := map canon_state (eo_trace o); eo_lcid := eo_lcid o;
                  eo_next := eo_next o; eo_requests := map (fun p => (fst p, canon_request (snd p))) (eo_requests o);
                  eo_signed := map canon_cid (eo_signed o); eo_cids := canon_cids (eo_cids o) |} |}.

Definition check_case18 (c : ecase) : bool := check_case (canon_case c).
Definition is_supported18 (c : ecase) : bool := is_supported (canon_case c).
