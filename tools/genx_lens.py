"""Translator piece for C24 (lens selection): the LambdaError enum of
air/src/execution_step/lambda_applier/errors.rs as a Coq table

    lambda_error_variants : list (string * string)      (variant name, #[error("...")] template)

in declaration order.  model/Lens.v proves that its own enumeration of the variants is this list
([lambda_error_table_agrees]); the harness driver `lens` recognises a variant by the fixed parts of
its message, so the templates are part of what is tied.  Also reads the accepted JSON types of the
three places where an index / key is taken from a scalar (utils.rs) as a small decision table."""
import re

import gen_model
from gen_model import TranslationError, coq_list, coq_str, read, strip_comments

ERRORS = "air/src/execution_step/lambda_applier/errors.rs"
UTILS = "air/src/execution_step/lambda_applier/utils.rs"


def lambda_error_variants():
    src = read(ERRORS)
    m = re.search(r"\benum\s+LambdaError\s*\{", src)
    if not m:
        raise TranslationError("enum LambdaError not found in " + ERRORS)
    i, depth = m.end(), 1
    while i < len(src) and depth > 0:
        depth += {"{": 1, "}": -1}.get(src[i], 0)
        i += 1
    body = src[m.end():i - 1]
    out = []
    # every variant is preceded by exactly one #[error("...")] attribute
    for am in re.finditer(r'#\[error\(\s*"((?:[^"\\]|\\.)*)"\s*\)\]\s*(?:///[^\n]*\n\s*)*([A-Z]\w*)', body):
        out.append((am.group(2), am.group(1).replace('\\"', '"')))
    names = gen_model.enum_variants(ERRORS, "LambdaError")
    if [n for n, _ in out] != names:
        raise TranslationError("LambdaError: variants %s do not match their #[error] attributes %s" % (names, [n for n, _ in out]))
    if not out:
        raise TranslationError("LambdaError has no variants")
    return out


def accessor_type_table():
    """For each of select_by_jvalue / try_jvalue_as_idx: the JValue constructors matched explicitly
    (in order) and the error of the catch-all arm."""
    src = strip_comments(read(UTILS))
    rows = []
    for fn in ("select_by_jvalue", "try_jvalue_as_idx"):
        m = re.search(r"fn\s+" + fn + r"\b.*?\n\}", src, flags=re.S)
        if not m:
            raise TranslationError("function %s not found in %s" % (fn, UTILS))
        body = m.group(0)
        arms = re.findall(r"JValue::(\w+)\s*\(", body)
        fallback = re.search(r"=>\s*Err\(LambdaError::(\w+)", body)
        if not arms or not fallback:
            raise TranslationError("cannot read the match of %s" % fn)
        rows.append((fn, arms, fallback.group(1)))
    m = re.search(r"fn\s+try_number_to_u32\b.*?\n\}", src, flags=re.S)
    if not m or not re.search(r"\.as_u64\(\)\s*\.and_then\(\|v\|\s*u32::try_from\(v\)\.ok\(\)\)\s*\.ok_or\(LambdaError::IndexAccessNotU32", m.group(0)):
        raise TranslationError("try_number_to_u32 is not `as_u64().and_then(u32::try_from).ok_or(IndexAccessNotU32)` any more")
    return rows


def generate():
    lines = ["(* --- tools/genx_lens.py: lambda applier (C24) --- *)"]
    vs = lambda_error_variants()
    lines.append("Definition lambda_error_variants : list (string * string) := %s." %
                 coq_list(["(%s, %s)" % (coq_str(n), coq_str(t)) for n, t in vs]))
    rows = accessor_type_table()
    lines.append("Definition lens_accessor_type_table : list (string * list string * string) := %s." %
                 coq_list(["(%s, %s, %s)" % (coq_str(f), coq_list([coq_str(a) for a in arms]), coq_str(fb)) for f, arms, fb in rows]))
    lines.append("")
    return lines
