#!/usr/bin/env python3
"""Authoring aid for coq/model/Catalogue.v (C01).  NOT run by ./check.

The classification of every panic-capable site is hand-written below as rules
(file suffix, enclosing fn, kind) -> class + text, decided by reading the source.  This script prints
coq/model/Catalogue.v for the sites the translator piece tools/genx_panics.py finds in /repo NOW.
The check itself never regenerates Catalogue.v: when a site appears in or disappears from the source,
`C01_catalogue_closed` (props/C01.v) stops holding until a person looks at the new site, extends the
rules, and re-runs this script.  A site no rule matches makes the script fail.

usage: python3 tools/dev_catalogue.py > coq/model/Catalogue.v"""
import sys

import gen_model
import genx_panics

M, U, O = "Modelled", "Unreachable", "OutOfModel"

PEEK = (M, "Exec.v scalar_ref_parts / apply_to_arg / create_fold_iterable / lens_env: PCrash \"peek on an empty iterable\" (it_peek = None)")
THIRD = "infallible serializer of an in-memory value (serde_json / rmp-serde / rkyv on owned data); third-party code"
LEXER = "hand-written lexer, not modelled (DESIGN 2: lexer and LR tables are outside the model); slice bounds come from char_indices of the same string; exercised by the byte-level script mutation probes of checks/C01.py"
HOST = "host-side (marine IValue) conversion of the outcome record: not on the execute_air path, the input is the interpreter's own output"

# (file suffix, fn or None, kind or None) -> (class, text).  First match wins.
RULES = [
    # ---------------- air: execution context ----------------
    (("execution_context/context.rs", "next_call_request_id", "arith"),
     (M, "Exec.v resolved_call_execute: XCrash \"next_call_request_id: u32 overflow\" (x_lcid = 2^32-1; needs 2^32 requests of one particle on one peer, DESIGN 7-10)")),
    (("execution_context/streams_variables.rs", "meet_scope_end", "unwrap"),
     (M, "Stream.v streams_meet_scope_end: SCrash SiteScopeEndNoStream / SiteScopeEndNoDescriptor")),
    (("execution_context/stream_maps_variables.rs", "meet_scope_end", "unwrap"),
     (O, "stream maps are the second modelling stage (Exec.v answers XUnsupported \"stream map\"); same shape as Streams::meet_scope_end: scope end always follows scope start of the same `new`")),
    (("stream_maps_variables/stream_map_key.rs", None, "unwrap"),
     (O, "guarded by the match guard `n.is_i64()` / `n.is_u64()` on the same arm (as_i64 / as_u64 are Some exactly then); stream maps not modelled")),
    # ---------------- air: instructions ----------------
    (("instructions/fail.rs", None, "remove"),
     (U, "fail_tetraplets_nonempty")),
    (("instructions/ap/apply_to_arguments.rs", None, "remove"),
     (U, "ap_tetraplets_nonempty")),
    (("instructions/ap/apply_to_arguments.rs", "apply_scalar", "expect"), PEEK),
    (("instructions/fold_stream.rs", "execute", "unwrap"),
     (O, "guarded by the `is_none()` early return ten lines above on the same (name, position) key; a stream descriptor is only removed at the end of its own `new` scope, which encloses the fold; stream lookup by span is modelled in Stream.v streams_get, the closure is not")),
    (("instructions/fold_stream_map.rs", "execute", "unwrap"),
     (O, "stream maps not modelled; same guard as fold_stream.rs")),
    (("instructions/mod.rs", "execute", "unreachable"),
     (M, "Exec.v exec: XCrash \"Instruction::Error executed\"; air_parser::parse returns Err whenever it built an Error node (C23 grammar-action table, genx_grammar.py), so prepare() never hands one to execute")),
    (("instructions/next.rs", "maybe_meet_iteration_start", "expect"), PEEK),
    (("instructions/call/prev_result_handler.rs", "handle_prev_state", "expect"),
     (O, "serde_json::to_value of a JValue (\"serde_json serializer shouldn't fail\"): " + THIRD)),
    (("instructions/call/resolved_call.rs", "execute", "expect"),
     (O, "value_to_json_cid of resolved JSON arguments (\"serializer shouldn't fail\"): " + THIRD)),
    (("instructions/fold/utils.rs", None, None), PEEK),
    # ---------------- air: lambda applier ----------------
    (("lambda_applier/applier.rs", None, "unreachable"),
     (M, "Lens.v: LCrash SiteAccessorError (ValueAccessor::Error is built only together with a parser error, see C23)")),
    (("lambda_applier/utils.rs", None, "expect"), PEEK),
    # ---------------- air: value types ----------------
    (("value_types/scalar.rs", "into_jvaluable", "expect"), PEEK),
    (("value_types/iterable/canon_stream.rs", "peek", "expect"),
     (O, "`self.canon_stream.nth(self.cursor)` after the `is_empty()` early return: cursor < len is the foldable_next!/foldable_prev! invariant (Exec.v it_peek ItCanon: nth_N, None never observed by the lock-step)")),
    (("value_types/iterable/canon_stream_map.rs", "peek", "expect"),
     (O, "canon stream maps not modelled; same cursor invariant as canon_stream.rs")),
    (("value_types/iterable/lambda_result.rs", "peek", "index"),
     (M, "Exec.v it_peek ItLambdaResult: nth_N items cursor (None is the panic; cursor < len invariant of it_next / it_prev: CrashProofs.it_next_in_range)")),
    (("value_types/iterable/resolved_call.rs", "peek", "index"),
     (M, "Exec.v it_peek ItResolvedCall: nth_N arr cursor (CrashProofs.it_next_in_range)")),
    (("value_types/iterable/resolved_call.rs", None, "unimplemented"),
     (O, "value is not an array: IterableResolvedCall::init is only called by fold/utils.rs from_value under `JValue::Array(array)` (Exec.v from_value builds ItResolvedCall only from JArr)")),
    (("value_types/iterable/vec_resolved_call.rs", "peek", "index"),
     (M, "Exec.v it_peek ItVec: nth_N values cursor (CrashProofs.it_next_in_range)")),
    (("value_types/jvaluable/canon_stream.rs", "apply_lambda_with_tetraplets", "expect"),
     (M, "Exec.v resolve_canon_l: PCrash \"TETRAPLET_IDX_CORRECT\" (the index was just used to select the element: Lens.v split_to_idx / select_by_lambda_from_stream agree, LensProofs)")),
    (("value_types/jvaluable/cell_vec_resolved_call_result.rs", None, "index"),
     (O, "dead code on the execution path: JValuable for streams-as-vectors is not reachable from any instruction of this version (streams are canonicalised first); same index discipline as canon_stream.rs")),
    (("value_types/stream/stream_definition.rs", "check_stream_size_limit", "arith"),
     (O, "sum of three usize element counts of in-memory vectors (each < 2^32 by the size limit itself)")),
    (("value_types/stream/stream_definition.rs", "compactify", "unwrap"),
     (M, "Stream.v stream_compactify: plan_crash SiteCompactifyStartIdx")),
    (("value_types/stream/stream_definition.rs", "update_generations", "unwrap"),
     (M, "Stream.v update_generations: SiteCompactifyPosition")),
    (("value_types/stream/stream_definition.rs", "add_value", None),
     (O, "comparison only")),
    (("value_types/stream/values_matrix.rs", "add_value_to_generation", "unwrap"),
     (M, "Stream.v add_value_to_generation: SCrash SiteGenCheckedAddOne (generation = 2^32-1); since the fix of Stream::add_value the generation is < STREAM_MAX_SIZE here: CrashProofs.stream_add_value_no_crash")),
    (("value_types/stream/values_matrix.rs", "add_value_to_generation", "index"),
     (O, "`self.values[generation_idx]` right after the resize to generation_idx + 1 (or under generation_idx < len): Stream.v models the rows sparsely, cells_add is total")),
    (("value_types/stream/values_matrix.rs", "add_value_to_generation", "arith"),
     (O, "`self.size += 1`: usize count of stored values")),
    (("value_types/stream/values_matrix.rs", "last_generation_is_empty", "index"),
     (O, "index len-1 under the `is_empty()` early return (Stream.v new_last_generation_is_empty)")),
    (("value_types/stream/values_matrix.rs", "last_non_empty_generation_idx", "arith"),
     (O, "`values_len - 1` under the `values_len == 0` early return (Stream.v new_last_non_empty_generation_idx)")),
    # ---------------- air: farewell / preparation / utils ----------------
    (("farewell_step/outcome.rs", None, "expect"),
     (O, "serializers of the interpreter's own outcome and the crate version constant: " + THIRD)),
    (("preparation_step/interpreter_versions.rs", None, "expect"),
     (O, "semver::Version::from_str of two compile-time constant texts (checked by the repository's tests and by RunTop.v's version table, C21)")),
    (("utils/to_error_code.rs", "generate_to_error_code", "unwrap"),
     (O, "position of an enum's own discriminant in the EnumIter of the same enum (strum): always found; Generated.v *_error_variants tie the tables")),
    # ---------------- trace handler ----------------
    (("data_keeper/merge_ctx.rs", "try_get_generation", "index"),
     (M, "Handler.v try_get_generation: Crash SiteApGenerationIndex")),
    (("data_keeper/trace_slider.rs", "next_state", "index"),
     (U, "slider_next_state_index_defined")),
    (("data_keeper/trace_slider.rs", "next_state", "arith"),
     (U, "slider_next_state_no_overflow")),
    (("data_keeper/trace_slider.rs", "subtrace_len", "arith"),
     (U, "slider_subtrace_len_defined")),
    (("data_keeper/trace_slider.rs", "set_position_and_len", "arith"),
     (M, "Handler.v set_position_and_len: Crash SitePosPlusLen")),
    (("data_keeper/trace_slider.rs", "set_subtrace_len", "arith"),
     (M, "Handler.v set_subtrace_len: Crash SiteRemainder")),
    (("merger/ap_merger.rs", "to_maybe_generation", "index"),
     (U, "ap_generation_guarded")),
    (("merger/errors.rs", "incompatible_states", "unreachable"),
     (O, "(None, None): every caller (the five try_merge_next_state_as_* functions) matches (None, None) in an earlier arm; Handler.v incompatible_states is total and only applied in the catch-all arms")),
    (("merger/position_mapping.rs", "prepare_positions_mapping", "arith"),
     (U, "handler_pos_minus_one_unreachable")),
    (("merger/fold_merger/fold_lore_resolver.rs", "resolve_fold_lore", "index"),
     (U, "fold_descs_checked")),
    (("merger/fold_merger/fold_lore_resolver.rs", "resolve_fold_lore", "cast"),
     (O, "`as _` from u32 to usize: widening")),
    (("merger/fold_merger/fold_lore_resolver.rs", "compute_lens_convolution", "index"),
     (U, "fold_descs_checked")),
    (("merger/fold_merger/fold_lore_resolver.rs", "compute_lens_convolution", "arith"),
     (U, "fold_lens_bounded")),
    (("merger/fold_merger/fold_lore_resolver.rs", "compute_before_lens", "index"),
     (O, "loop index within begin_pos..=end_pos < lens.len(): Handler.v before_lens_rev recurses structurally over the group")),
    (("merger/fold_merger/fold_lore_resolver.rs", "compute_before_lens", "arith"),
     (U, "fold_lens_bounded")),
    (("state_automata/state_inserter.rs", "insert", "index"),
     (U, "handler_inserter_index_unreachable")),
    (("fold_fsm/lore_ctor.rs", "len", "arith"),
     (M, "Handler.v ctor_into_lore: Crash SiteTrackerLen (reachable only by API misuse: CrashProofs.C01_api_misuse_tracker_len)")),
    (("fold_fsm/lore_ctor_queue.rs", "current", None),
     (M, "Handler.v queue_current: Crash SiteCtorQueueCurrent (reachable only by API misuse: meet_back_iterator / meet_iteration_end before any meet_iteration_start)")),
    (("fold_fsm/lore_ctor_queue.rs", "add_element", "arith"),
     (O, "usize counter bounded by the length of the Vec it just pushed to")),
    (("fold_fsm/lore_ctor_queue.rs", "traverse_back", "arith"),
     (U, "handler_traverse_back_unreachable")),
    (("par_fsm/par_builder.rs", "track", "arith"),
     (U, "handler_par_track_unreachable")),
    (("par_fsm/state_handler/new_states_calculation.rs", "compute_new_state", "assert"),
     (O, "size_of::<u32>() <= size_of::<usize>(): a constant, true on every supported target")),
    # ---------------- interpreter-data ----------------
    (("interpreter-data/src/executed_state.rs", "to_value", "expect"),
     (O, "serde_json::to_value of a two-field struct: " + THIRD)),
    (("interpreter-data/src/generation_idx.rs", "next", None),
     (M, "Stream.v gen_idx_from_usize: SCrash SiteGenIdxFromUsize (`self.0 as usize + 1` then `as u32`)")),
    (("interpreter-data/src/generation_idx.rs", "prev", None),
     (O, "GenerationIdx::prev has no caller in the non-test sources (grep); `self.0 as usize - 1` would underflow at 0")),
    (("interpreter-data/src/generation_idx.rs", "from", "cast"),
     (M, "Stream.v gen_idx_from_usize: SCrash SiteGenIdxFromUsize (usize -> u32 narrowing; u32 -> usize is widening)")),
    (("interpreter-data/src/interpreter_data.rs", None, "expect"),
     (O, "rkyv serialisation of in-memory data the interpreter built itself: " + THIRD)),
    (("interpreter-data/src/lib.rs", "<top>", "expect"),
     (O, "semver::Version::from_str(env!(\"CARGO_PKG_VERSION\")): compile-time constant")),
    (("interpreter-data/src/raw_value.rs", "get_value", "expect"),
     (O, "since the fix the interpreter calls try_get_value (cid_state.rs get_value_by_cid -> UncatchableError); get_value is kept for values built by from_value and for tests")),
    (("interpreter-data/src/trace.rs", "trace_states_count", "expect"),
     (M, "Handler.v SiteResultLen: a trace of 2^32 states (>= 2^32 * 40 bytes of input; excluded by the u32 bound of every theorem)")),
    (("interpreter-data/src/trace.rs", None, "index"),
     (U, "slider_next_state_index_defined")),
    (("interpreter_data/verification.rs", None, "expect"),
     (O, "public_key.to_peer_id() after public_key.validate() succeeded for every key of the same store at the top of DataVerifier::new (C15 model Sig.v: validate is the gate)")),
    # ---------------- interpreter-cid / signatures / value ----------------
    (("interpreter-cid/src/lib.rs", None, "expect"),
     (O, "multihash wrap of a 32-byte digest with a supported code: constant sizes (cid / multihash crates)")),
    (("interpreter-signatures/src/lib.rs", None, "expect"),
     (O, "borsh serialisation into a Vec and secret-key export of a key the process created itself: " + THIRD)),
    (("interpreter-value/src/value/index.rs", "index_into", "index"),
     (O, "`self[..]`: the full-range slice of a String is always in range (JValue indexing itself returns Option)")),
    (("interpreter-value/src/value/partial_eq.rs", None, "index"),
     (O, "macro_rules repetition syntax `$($ty:ident)*` / `[$($eq)*]` inside partialeq_numeric!: not an index expression")),
    # ---------------- parser / lexer / beautifier ----------------
    (("air-parser/src/parser/air_parser.rs", "report_errors", "expect"),
     (O, "codespan_reporting::term::emit into stderr / an in-memory buffer while rendering the parser's own error list: " + THIRD)),
    (("air-parser/src/parser/errors.rs", "from", "unreachable"),
     (O, "From<Infallible> for ParserError: the source type has no values")),
    (("air-parser/src/parser/lexer/errors.rs", "from", "unreachable"),
     (O, "From<Infallible> for LexerError: the source type has no values")),
    (("air-parser/src/parser/lexer/air_lexer.rs", None, None), (O, LEXER)),
    (("air-parser/src/parser/lexer/call_variable_parser.rs", None, None), (O, LEXER)),
    (("lambda/parser/src/parser/lexer/lambda_ast_lexer.rs", None, None), (O, LEXER)),
    (("beautifier/src/lib.rs", "beautify_to_string", "unwrap"),
     (O, "io::Write into a Vec<u8> cannot fail; the only BeautifyError is an io::Error (Beautify.v: the writer is a Vec)")),
    (("beautifier/src/beautifier.rs", None, "arith"),
     (M, "Beautify.v walker_overflows: BCrash (indent * step in usize; needs nesting depth * step >= 2^64)")),
    # ---------------- interface ----------------
    (("interpreter-interface/src/interpreter_outcome.rs", "from_ivalue", "unwrap"), (O, HOST)),
    (("interpreter-interface/src/run_parameters.rs", "into_ivalue", "unwrap"), (O, HOST)),
]


def classify(site):
    rel, fn, kind, _ = site
    for (suffix, rfn, rkind), cls in RULES:
        if rel.endswith(suffix) and (rfn is None or rfn == fn) and (rkind is None or rkind == kind):
            return cls
    raise SystemExit("no classification rule for %r: read the source and extend RULES" % (site,))


def main():
    sites, _ = genx_panics.all_sites()
    q = gen_model.coq_str
    out = []
    w = out.append
    w("(* Catalogue.v -- C01: classification of every panic-capable site of the non-test sources.")
    w("")
    w("   [Generated.panic_sites] (tools/genx_panics.py, re-read from /repo on every check) lists the sites as")
    w("   (file, enclosing fn, kind, ordinal of that kind inside the fn).  This file says, for each of them,")
    w("   what stands for it in the model:")
    w("     Modelled w     the model has an explicit crash outcome for it; w names the model function and constructor")
    w("     Unreachable l  the guard in front of it makes the operation defined: lemma l of proofs/CrashProofs.v")
    w("                    (CrashProofs.unreachable_lemmas holds the proofs; C01_unreachable_lemmas_proved ties the names)")
    w("     OutOfModel r   not represented in the model; r says why (third-party serializer, lexer, constant, host side, ...);")
    w("                    such sites are covered by the process-level probes of checks/C01.py only")
    w("   Classification decided by reading the source (authoring aid: tools/dev_catalogue.py holds the decisions per")
    w("   (file, fn, kind)); the check never regenerates this file, so a new or vanished site breaks C01_catalogue_closed.")
    w("   Definitions only. *)")
    w("From Aqua Require Import Base.")
    w("Open Scope N_scope.")
    w("Open Scope string_scope.")
    w("Open Scope list_scope.")
    w("")
    w("Inductive site_class :=")
    w("| Modelled (where_ : string)")
    w("| Unreachable (lemma : string)")
    w("| OutOfModel (reason : string).")
    w("")
    w("Definition site_key : Type := (string * string * string * N)%type.")
    w("")
    w("Definition classified : list (site_key * site_class) := [")
    body = []
    for s in sites:
        cls, text = classify(s)
        body.append("  ((%s, %s, %s, %d), %s %s)" % (q(s[0]), q(s[1]), q(s[2]), s[3], cls, q(text)))
    w(";\n".join(body))
    w("].")
    w("")
    w("Definition site_key_eqb (a b : site_key) : bool :=")
    w("  let '(f1, g1, k1, n1) := a in let '(f2, g2, k2, n2) := b in")
    w("  String.eqb f1 f2 && String.eqb g1 g2 && String.eqb k1 k2 && N.eqb n1 n2.")
    w("")
    w("(* the generated list is exactly the classified list, in order *)")
    w("Definition catalogue_closed : bool := list_eqb site_key_eqb panic_sites (map fst classified).")
    w("")
    w("Definition unreachable_names : list string :=")
    w("  flat_map (fun e => match snd e with Unreachable l => [l] | _ => [] end) classified.")
    w("Definition count_class (p : site_class -> bool) : N := N.of_nat (length (filter (fun e => p (snd e)) classified)).")
    w("Definition is_modelled (c : site_class) : bool := match c with Modelled _ => true | _ => false end.")
    w("Definition is_unreachable (c : site_class) : bool := match c with Unreachable _ => true | _ => false end.")
    w("Definition is_out_of_model (c : site_class) : bool := match c with OutOfModel _ => true | _ => false end.")
    w("")
    w("Fixpoint mem_string (s : string) (l : list string) : bool :=")
    w("  match l with [] => false | x :: r => String.eqb s x || mem_string s r end.")
    w("")
    w("(* statements *)")
    w("Definition C01_catalogue_closed_stmt : Prop := catalogue_closed = true.")
    w("(* every Unreachable entry names a lemma of the given table (the table pairs names with proofs) *)")
    w("Definition C01_unreachable_named_stmt (proved : list string) : Prop :=")
    w("  forallb (fun l => mem_string l proved) unreachable_names = true.")
    print("\n".join(out))


if __name__ == "__main__":
    main()
