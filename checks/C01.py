"""C01 -- the interpreter never crashes or runs out of memory on adversarial input."""
import json
import os
import sys

import airgen
import handlergen
import vlib

sys.path.insert(0, os.path.join(vlib.ROOT, "tools"))

PID = "C01"
MODEL_TARGETS = ["model/CrashCases.vo", "model/Catalogue.vo"]
HARNESS_BINS = ["crash01", "handler"]
COQCHK = True
RULE = ("two streams. (1) process level (driver crash01; every case runs in a child process with RLIMIT_AS 2 GB, the default 8 MB stack "
        "and a timeout): an honest generated history is run, an in-flight particle is intercepted, its data is tampered by its SENDER "
        "(structurally valid, CID-consistent stores, re-signed with the sender's own key) or mutated at byte level, delivered to its "
        "receiver and followed up (call results return, particles travel on); also script-level recipes, air_parser::parse, "
        "air_beautifier and air::to_human_readable_data on mutated text / bytes. Oracle c01_oracle: an outcome came back (any code), "
        "no panic, no process death, no timeout, and the case raised the peak RSS by at most 64 MB + 40 x input bytes. "
        "(2) trace-handler level (driver handler): protocol-following op sequences over traces with boundary-value mutations; "
        "correspondence HandlerCases.check_case (the model crashes exactly when the real TraceHandler panics), oracle "
        "c01_handler_oracle (no panic observed). distinct = different (input class, outcome class, code) for stream 1 and a "
        "different Coq term for stream 2; non-trivial = the tampering/mutation applied (stream 1) or the round used a mutated trace (stream 2)")
PARTIAL = [
    "native stack: recursion depth of parse/validate/execute/drop is proportional to the nesting depth of the script; a script nested "
    "about 4000 deep (52 kB) overflows the 8 MB stack of the native build inside execute (known finding stack-overflow-deep-nesting); "
    "generated cases stay at depth <= 1000 (documented bound), the finding itself is probed with depth 16000",
    "allocator failure, panics inside third-party crates (rkyv, rmp-serde, serde_json, ed25519, cid, multihash) and in the generated "
    "LR driver cannot be exhibited by a Gallina function; they are covered by the process-level probes only (OutOfModel entries of the catalogue)",
    "C01_handler_no_crash_except is about the TraceHandler under ARBITRARY sequences of its public API and arbitrary traces: the two "
    "sites left (SiteCtorQueueCurrent, SiteTrackerLen) are reachable by a caller that breaks the protocol (witnesses "
    "C01_api_misuse_*); that the executor keeps to the protocol is not proved here (lock-step of C10 / exec stands in)",
    "executor-level: the remaining PCrash/XCrash constructors of Exec.v (peek on an empty iterable, TETRAPLET_IDX_CORRECT, "
    "Instruction::Error, call-request-id overflow) are not proved unreachable over whole runs; C01 proves the local lemmas "
    "(iterable cursors stay in range, remove(0) sites see one tetraplet, repaired sites return errors) and names the rest as Modelled",
    "the memory measure is the peak RSS of the child process (cumulative per child; a child that grew by more than 64 MB is replaced), "
    "not an exact per-run allocation count",
]
ASSUMPTIONS = [
    "decoded position / length / generation fields are u32 (rkyv check_bytes); traces shorter than 2^32 states",
    "the child process observes what the production Wasm build would trap on: panics (catch_unwind), aborts, allocation failure under RLIMIT_AS",
    "Print Assumptions of every theorem: closed under the global context",
]
TRUSTED_EXTRA = [
    "tools/genx_panics.py: regex-level scan for panic-capable constructs (unwrap, expect, macros, indexing, position-based remove, "
    "arithmetic and `as` casts in the position/generation files); the hand-written classification coq/model/Catalogue.v",
]

KNOWN_STACK = "stack-overflow-deep-nesting"
KNOWN_RKYV = "rkyv-empty-str-null-box"
# (source file suffix, enclosing fn) of a panic -> key of a known finding (none is open today)
KNOWN_SITES = {}

HEADER_C = "From Aqua Require Import Base Trace Handler HandlerCases CrashCases.\nOpen Scope N_scope.\nOpen Scope Z_scope.\nOpen Scope list_scope.\n"
HEADER_H = "From Aqua Require Import Base Trace Handler HandlerCases CrashCases.\nOpen Scope N_scope.\nOpen Scope list_scope.\n"

# ------------------------------------------------------------------------------------------------
# templates whose honest runs contain every state kind at the sender (A) before the particle goes to B

SV = [["s", "id", {"echo": 0}]] + airgen.DEFAULT_SERVICES
T_FOLD_SEQ = ('(seq (seq (call "@A" ("s" "a") [] $s) (seq (call "@A" ("s" "b") [] $s) (ap "lit" $s))) '
              '(seq (par (call "@A" ("s" "p1") [] y) (call "@A" ("s" "p2") [] z)) '
              '(seq (fold $s i (seq (call "@A" ("s" "id") [i] $r) (next i)) (null)) '
              '(seq (canon "@A" $s #canon) (call "@B" ("s" "end") [#canon y])))))')
T_FOLD_PAR = ('(seq (seq (call "@A" ("s" "a") [] $s) (call "@A" ("s" "b") [] $s)) '
              '(seq (fold $s i (par (call "@A" ("s" "id") [i] $r) (next i)) (null)) '
              '(seq (canon "@A" $s #canon) (call "@B" ("s" "end") [#canon]))))')
T_UNRESOLVED = '(par (call "@C" ("s" "a") [] x) (call "@B" ("s" "g") [x] w))'
T_UNRESOLVED2 = '(par (par (call "@C" ("s" "h") [] y) (call "@B" ("s" "g") [y] w)) (call "@B" ("s" "f") [] x))'
T_AP_AFTER = ('(seq (call "@A" ("s" "a") [] $s) (seq (fold $s i (seq (call "@A" ("s" "id") [i] $r) (next i)) (null)) '
              '(seq (ap "x" $t) (call "@B" ("s" "end") []))))')
T_NESTED = ('(seq (seq (call "@A" ("s" "arr") [] xs) (call "@A" ("s" "a") [] $s)) '
            '(seq (fold xs j (seq (ap j $s) (next j))) '
            '(seq (new $n (seq (ap "v" $n) (seq (canon "@A" $n #cn) (call "@A" ("s" "id") [#cn] q)))) '
            '(seq (fold $s i (par (seq (call "@A" ("s" "id") [i] $r) (xor (call "@A" ("s" "fail") []) (null))) (next i)) (null)) '
            '(seq (canon "@A" $r #cr) (call "@B" ("s" "end") [#cr q]))))))')
TEMPLATES = [T_FOLD_SEQ, T_FOLD_PAR, T_AP_AFTER, T_NESTED]

BOUNDS = [0, 1, "len-1", "len", "len+1", "2^31", "max", "max-1"]
GENS = [0, 1, 1023, 1024, 1025, "2^31", "max", "max-1", "stub", 100000000]
LORE_FIELDS = ["value_pos", "before_pos", "before_len", "after_pos", "after_len"]
NOT_JSON = ["{not json", "nul", "[1,", "\"unterminated", "{\"a\":}", "1e99999", "\ud800", " ", "{not json", "]"]


def rand_state(rng):
    x = rng.random()
    if x < 0.25:
        return ["st_par", rng.choice(BOUNDS), rng.choice(BOUNDS)]
    if x < 0.5:
        return ["st_call", rng.choice([["sent", "p"], ["sent_id", "@B", 1], ["scalar", "@svc"], ["stream", "@svc", rng.choice([0, 1, 1023, 4294967295])],
                                        ["unused", "@svc"], ["failed", "@svc"], ["scalar", "not-a-cid"]])]
    if x < 0.65:
        return ["st_ap", [rng.choice(GENS) for _ in range(rng.choice([0, 1, 1, 2]))]]
    if x < 0.8:
        return ["st_canon", rng.choice([["csent", "p"], ["cexec", "@canon"], ["cexec", "zz"]])]
    lore = []
    for _ in range(rng.choice([0, 1, 2])):
        lore.append([rng.choice(BOUNDS), [[rng.choice(BOUNDS), rng.choice(BOUNDS)] for _ in range(rng.choice([2, 2, 2, 0, 1, 3]))]])
    return ["st_fold", lore]


def rand_tamper(rng):
    x = rng.random()
    if x < 0.22:
        return ["lore", rng.randrange(3), rng.randrange(4), rng.choice(LORE_FIELDS), rng.choice(BOUNDS)]
    if x < 0.32:
        return ["par", rng.randrange(4), rng.choice(BOUNDS), rng.choice(BOUNDS)]
    if x < 0.44:
        return ["gen", rng.randrange(6), rng.choice(GENS)]
    if x < 0.50:
        return ["dangling", rng.randrange(8)]
    if x < 0.56:
        return ["illtyped", rng.randrange(8), rng.choice(["value", "tetraplet", "service", "canon", "not-a-cid", "bagaaihra", "x"])]
    if x < 0.62:
        return ["nonjson", rng.randrange(6), rng.choice(NOT_JSON)]
    if x < 0.66:
        return ["nonjson_canon", rng.randrange(3), rng.choice(NOT_JSON)]
    if x < 0.76:
        return ["kind", rng.randrange(16), rand_state(rng)]
    if x < 0.82:
        return ["forge_call", rng.randrange(6), rng.choice(["scalar", "stream", "unused", "failed"]),
                rng.choice(['"v"', '{"ret_code":1,"message":"m"}', '{"ret_code":"x"}', "[1,2]", "{not json"]),
                "s", rng.choice(["g", "id", "end"]), rng.choice(["hash", "h"]), rng.choice(["attacker", "@B", ""]), rng.choice(GENS)]
    if x < 0.86:
        return ["lore_desc", rng.randrange(3), rng.randrange(4), rng.randrange(5)]
    if x < 0.88:
        return ["lore_dup", rng.randrange(3)]
    if x < 0.91:
        return ["ap_gens", rng.randrange(4), [rng.choice(GENS) for _ in range(rng.choice([0, 2, 3]))]]
    if x < 0.93:
        return ["swap", rng.randrange(16), rng.randrange(16)]
    if x < 0.95:
        return ["dup", rng.randrange(16)]
    if x < 0.97:
        return ["del", rng.randrange(16)]
    if x < 0.985:
        return ["push", rand_state(rng)]
    if x < 0.995:
        return ["trunc", rng.randrange(16)]
    return ["lcid", rng.choice(BOUNDS)]


def rand_mut(rng, k=None):
    out = []
    for _ in range(k or rng.choice([1, 1, 2, 3, 6])):
        out.append([rng.choice(["flip", "flip", "set", "trunc", "insert", "del", "dup", "u32", "u32"]), rng.randrange(1 << 30), rng.randrange(256)])
    return out


def history_fields(rng, template_share=0.5):
    if rng.random() < template_share:
        script = rng.choice(TEMPLATES)
        return {"script": script, "peers": ["A", "B", "C"], "init": 0, "services": SV, "pick": rng.randrange(4), "hops": rng.choice([0, 0, 0, 1, 2])}
    prof = airgen.Profile(peers=3, depth=rng.choice([3, 4, 5]))
    script = airgen.gen_script(rng, prof)
    n = rng.choice([3, 6, 10, 16])
    ops = airgen.gen_schedule(rng, n_ops=n)[: n + 1]
    return {"script": script, "peers": airgen.PEERS[:3], "init": 0, "services": airgen.DEFAULT_SERVICES, "ops": ops, "pick": rng.randrange(8)}


def nest(d, kind="seq", leaf="(null)", left=False):
    s = leaf
    for _ in range(d):
        s = "(%s %s (null))" % (kind, s) if left else "(%s (null) %s)" % (kind, s)
    return s


SCRIPT_RECIPES = [
    ("fail-code-above-i64", '(seq (call "@A" ("s" "big") [] x) (fail x))', [["s", "big", {"const": {"error_code": 18446744073709551615, "message": "m"}}]]),
    ("fail-code-i64-min", '(seq (call "@A" ("s" "big") [] x) (fail x))', [["s", "big", {"const": {"error_code": -9223372036854775808, "message": "m"}}]]),
    ("fail-code-float", '(seq (call "@A" ("s" "big") [] x) (xor (fail x) (fail %last_error%)))', [["s", "big", {"const": {"error_code": 1.5e300, "message": "m"}}]]),
    ("name-clash-call", '(seq (call "@A" ("s" "arr") [] xs) (seq (call "@A" ("s" "num") [] i) (fold xs i (seq (call "@A" ("s" "id") [i]) (next i)))))', SV),
    ("name-clash-ap", '(seq (call "@A" ("s" "arr") [] xs) (seq (ap "v" i) (fold xs i (seq (ap i $s) (next i)))))', SV),
    ("name-clash-inner", '(seq (call "@A" ("s" "arr") [] xs) (fold xs i (seq (xor (call "@A" ("s" "num") [] i) (null)) (next i))))', SV),
    ("name-clash-nested-folds", '(seq (call "@A" ("s" "arr") [] xs) (fold xs i (seq (fold xs i (next i)) (next i))))', SV),
    ("double-next", '(seq (call "@A" ("s" "a") [] $s) (fold $s i (seq (next i) (next i))))', SV),
    ("next-both-par", '(seq (seq (call "@A" ("s" "a") [] $s) (call "@A" ("s" "b") [] $s)) (fold $s i (par (next i) (next i))))', SV),
    ("next-in-xor", '(seq (call "@A" ("s" "a") [] $s) (fold $s i (xor (seq (call "@A" ("s" "fail") []) (next i)) (next i))))', SV),
    ("next-outside", '(seq (call "@A" ("s" "arr") [] xs) (seq (fold xs i (seq (null) (next i))) (next i)))', SV),
    ("iterator-outside", '(seq (call "@A" ("s" "arr") [] xs) (seq (fold xs i (seq (null) (next i))) (call "@A" ("s" "id") [i])))', SV),
    ("fold-stream-append-self", '(seq (call "@A" ("s" "a") [] $s) (fold $s i (seq (ap i $s) (next i))))', SV),
    ("new-same-stream-in-fold", '(seq (call "@A" ("s" "a") [] $s) (fold $s i (seq (new $s (ap i $s)) (next i)) (null)))', SV),
    ("canon-empty-lens", '(seq (canon "@A" $none #c) (call "@A" ("s" "id") [#c.$.[0]]))', SV),
    ("lens-on-iterator", '(seq (call "@A" ("s" "arr2") [] xs) (fold xs i (seq (call "@A" ("s" "id") [i.$.[0]]) (next i))))', SV),
    ("last-error-lens", '(xor (call "@A" ("s" "fail") []) (call "@A" ("s" "id") [%last_error%.$.message.[0]]))', SV),
    ("huge-number", '(seq (ap 99999999999999999999999999999999999999 x) (call "@A" ("s" "id") [x]))', SV),
    ("unused-variable-fail", "(fail x)", SV),
    ("service-returns-garbage", '(seq (call "@A" ("s" "raw") [] x) (call "@A" ("s" "id") [x]))', [["s", "raw", {"raw": [0, "{not json"]}], ["s", "id", {"echo": 0}]]),
    ("service-error-code-min", '(xor (call "@A" ("s" "e") [] x) (call "@A" ("s" "id") [%last_error%]))', [["s", "e", {"raw": [-2147483648, "x"]}], ["s", "id", {"echo": 0}]]),
]


# ---- adversarial values at every place where a script reads a value (added after the seeded change
# C01-map-key-float-unwrap was missed: a float used as a canon-map key through a scalar accessor panicked) ----
GRID_VALUES = [1.5, -0.25, 1e300, -1, 4294967296, 9223372036854775808, 18446744073709551615, -9223372036854775808,
               None, True, "", "\u00e9", [], {}, [1.5], {"a": None}, "x" * 300, 0, "a"]
GRID_SITES = [
    ("canon-map-key", '(seq (ap ("a" 1) %m) (seq (ap (7 2) %m) (seq (canon "@A" %m #%cm) (xor (call "@A" ("s" "id") [#%cm.$.[k]]) (call "@A" ("s" "id") [#%cm.$.[k].[0]])))))'),
    ("scalar-lens-key", '(seq (call "@A" ("s" "obj") [] o) (xor (call "@A" ("s" "id") [o.$.[k]]) (call "@A" ("s" "id") [o.$.l.[k]])))'),
    ("canon-stream-idx", '(seq (ap 1 $s) (seq (canon "@A" $s #cs) (xor (call "@A" ("s" "id") [#cs.$.[k]]) (null))))'),
    ("iterator-lens-key", '(seq (call "@A" ("s" "arr2") [] xs) (fold xs it (seq (xor (call "@A" ("s" "id") [it.$.[k]]) (null)) (next it))))'),
    ("ap-map-key", '(xor (ap (k 1) %m) (seq (canon "@A" %m #%cm) (call "@A" ("s" "id") [#%cm])))'),
    ("peer", '(xor (call k ("s" "id") [1]) (null))'),
    ("service", '(xor (call "@A" (k "id") [1]) (null))'),
    ("function", '(xor (call "@A" ("s" k) [1]) (null))'),
    ("fold-iterable", '(xor (fold k it (seq (call "@A" ("s" "id") [it]) (next it))) (null))'),
    ("fail", '(xor (fail k) (call "@A" ("s" "id") [%last_error%]))'),
    ("match", '(xor (match k 1.5 (null)) (xor (mismatch k k (null)) (null)))'),
    ("canon-peer", '(seq (ap 1 $s) (xor (canon k $s #cs) (null)))'),
    ("map-to-scalar", '(seq (ap (k k) %m) (seq (canon "@A" %m sc) (call "@A" ("s" "id") [sc])))'),
    ("canon-map-fold", '(seq (xor (ap (k 1) %m) (ap ("z" k) %m)) (seq (canon "@A" %m #%cm) (fold #%cm it (seq (call "@A" ("s" "id") [it]) (next it)))))'),
]


def grid_cases(rng, big):
    out = []
    for label, body in GRID_SITES:
        vals = GRID_VALUES if big else rng.sample(GRID_VALUES, 9)
        for v in vals:
            out.append({"stream": "crash", "kind": "script", "label": "grid-%s" % label,
                        "script": '(seq (call "@A" ("s" "v") [] k) %s)' % body, "peers": ["A", "B"],
                        "services": SV + [["s", "v", {"const": v}]]})
    return out


def gen_cases(rng, tier, escalate=False):
    big = tier == "thorough" or escalate
    n_tamper = 1500 if big else 270
    n_bytes = 1200 if big else 180
    n_text = 1200 if big else 150
    n_handler = 400 if big else 40
    cases = []
    # ---- tamper catalogue
    for _ in range(n_tamper):
        c = {"stream": "crash", "kind": "exec"}
        c.update(history_fields(rng))
        c["tamper"] = [rand_tamper(rng) for _ in range(rng.choice([1, 1, 1, 2, 3]))]
        c["resign"] = rng.random() < 0.9
        c["post"] = 6
        if rng.random() < 0.15:
            c["answer_pending"] = True
        cases.append(c)
    # unresolved arguments against Executed / Failed / RequestSentBy(me, id)
    for variant in ["scalar", "stream", "unused", "failed"]:
        for script in (T_UNRESOLVED, T_UNRESOLVED2):
            for k in (0, 1, 2):
                cases.append({"stream": "crash", "kind": "exec", "script": script, "peers": ["A", "B", "C"], "init": 0, "services": [],
                              "pick": k, "post": 4,
                              "tamper": [["forge_call", k2, variant, '"v"', "s", "g", "hash", "attacker", 0] for k2 in (1, 2)]})
    for k in (0, 1):
        cases.append({"stream": "crash", "kind": "exec", "script": T_UNRESOLVED2, "peers": ["A", "B", "C"], "init": 0, "services": [],
                      "pick": k, "post": 4, "answer_pending": True,
                      "tamper": [["kind", 3, ["st_call", ["sent_id", "@B", 1]]], ["kind", 2, ["st_call", ["sent_id", "@B", 1]]]]})
    # ---- script-level recipes and nesting (documented depth: 1000)
    for label, script, services in SCRIPT_RECIPES:
        cases.append({"stream": "crash", "kind": "script", "label": label, "script": script, "peers": ["A", "B"], "services": services})
    cases.extend(grid_cases(rng, big))
    for d in ([10, 100, 1000] if not big else [10, 100, 300, 1000]):
        for kind in ("seq", "par", "xor"):
            cases.append({"stream": "crash", "kind": "script", "label": "deep-%s-%d" % (kind, d), "script": nest(d, kind), "peers": ["A", "B"], "services": []})
        cases.append({"stream": "crash", "kind": "script", "label": "deep-left-%d" % d, "script": nest(d, "seq", left=True), "peers": ["A", "B"], "services": []})
        cases.append({"stream": "crash", "kind": "script", "label": "deep-new-%d" % d,
                      "script": "(new $s " * d + "(null)" + ")" * d, "peers": ["A", "B"], "services": []})
        cases.append({"stream": "crash", "kind": "script", "label": "deep-fold-%d" % min(d, 100),
                      "script": '(seq (call "@A" ("s" "arr") [] xs) ' + "".join("(fold xs i%d " % k for k in range(min(d, 100))) + "(null)" + ")" * min(d, 100) + ")",
                      "peers": ["A", "B"], "services": SV})
        cases.append({"stream": "crash", "kind": "parse", "text": nest(d * 10)})
        cases.append({"stream": "crash", "kind": "beautify", "text": nest(d, "par")})
        cases.append({"stream": "crash", "kind": "beautify", "text": nest(d * 10)})
    # the known finding: native stack exhaustion
    cases.append({"stream": "crash", "kind": "script", "label": "deep-seq-16000", "script": nest(16000), "peers": ["A", "B"], "services": [],
                  "expect_key": KNOWN_STACK})
    # the known finding in rkyv 0.7.43: an empty str inside the data (three places an attacker controls)
    for t in ([["nonjson", 0, ""]], [["illtyped", 0, "empty"]], [["forge_call", 0, "scalar", '"v"', "s", "g", "", "attacker", 0]]):
        cases.append({"stream": "crash", "kind": "exec", "script": T_FOLD_SEQ, "peers": ["A", "B", "C"], "init": 0, "services": SV,
                      "pick": 0, "post": 2, "tamper": t, "expect_key": KNOWN_RKYV})
    # ---- byte-level mutation of data / call results / script given to execute_air, and of data given to the printer
    for _ in range(n_bytes):
        c = {"stream": "crash"}
        c.update(history_fields(rng, 0.35))
        x = rng.random()
        if x < 0.45:
            c.update({"kind": "exec", "mut": rand_mut(rng), "mut_level": rng.choice(["envelope", "inner", "inner"]), "post": 3})
        elif x < 0.6:
            c.update({"kind": "exec", "mut_results": rand_mut(rng), "answer_pending": True, "post": 2})
        elif x < 0.75:
            c.update({"kind": "exec", "mut_script": rand_mut(rng), "post": 2})
        else:
            c.update({"kind": "human", "mut": rand_mut(rng), "mut_level": rng.choice(["envelope", "inner"])})
            if rng.random() < 0.4:
                c["tamper"] = [rand_tamper(rng)]
        cases.append(c)
    # ---- text entry points
    alphabet = ['(', ')', '[', ']', '"', ' ', '$', '#', '%', '.', '!', 'é', '\n', '\\', '0', 'x', '-', ';', ' ', '\U0001F600', '\t']
    seeds = ['x.$.é', '(call "p" ("s" "f") [x.$.é])', '#c.$.[0]!', '$s.$.length', '%last_error%.$.[é]', 'x.$.["é"]', "x.$.a.é.b", '(ap ("k" x) %m)',
             '(canon "p" #%m #c)', '(fail 18446744073709551616 "m")', '(fail -9223372036854775809 "m")', '(call %init_peer_id% ("" "") [])']
    for i in range(n_text):
        x = rng.random()
        if x < 0.45:
            base = airgen.gen_script(rng, airgen.Profile(peers=3, depth=rng.choice([2, 3, 4])))
        elif x < 0.7:
            base = rng.choice(seeds)
            if rng.random() < 0.5:
                base = '(call "p" ("s" "f") [%s] y)' % base
        else:
            base = "".join(rng.choice(alphabet) for _ in range(rng.randrange(1, 40)))
        t = list(base)
        for _ in range(rng.choice([0, 1, 1, 2, 4])):
            j = rng.randrange(len(t) + 1)
            op = rng.random()
            if op < 0.4:
                t.insert(j, rng.choice(alphabet))
            elif op < 0.7 and t:
                del t[min(j, len(t) - 1)]
            elif t:
                t[min(j, len(t) - 1)] = rng.choice(alphabet)
        cases.append({"stream": "crash", "kind": rng.choice(["parse", "parse", "beautify"]), "text": "".join(t)})
    # ---- trace-handler level: protocol-following drivers over mutated traces
    for _ in range(n_handler):
        cases.append(handler_case(rng))
    cases.extend(handler_boundary_cases(big))
    return cases


HB = [0, 1, 2, 3, 7, 2 ** 31, 2 ** 32 - 2, 2 ** 32 - 1]


def handler_boundary_cases(big=False):
    """the position / length fields of one fold lore entry over the whole boundary grid, on a trace built from scratch
    (current data only): every combination reaches set_position_and_len / set_subtrace_len of the current slider"""
    grid = [0, 1, 2, 3, 4, 2 ** 31, 2 ** 32 - 2, 2 ** 32 - 1] if big else [0, 1, 3, 2 ** 31, 2 ** 32 - 1]
    ops_seq = [["ap_auto", 0], ["fold_start", 1], ["iter_pos", 1, 0], ["call_auto", ["scalar", "q"], True], ["iter_end", 1], ["back", 1],
               ["call_auto", ["scalar", "r"], True], ["gen_end", 1], ["fold_end", 1], ["sizes"]]
    ops_par = [["ap_auto", 0], ["fold_start", 1], ["iter_pos", 1, 0], ["par_start"], ["call_auto", ["scalar", "q"], True], ["par_end", True],
               ["iter_end", 1], ["back", 1], ["par_end", False], ["gen_end", 1], ["fold_end", 1]]
    rounds = []
    for which in ("before", "after"):
        for pos in grid:
            for ln in grid:
                b = [pos, ln] if which == "before" else [2, 1]
                a = [pos, ln] if which == "after" else [3, 1]
                for ops in (ops_seq, ops_par):
                    trace = [["push", ["st_ap", [0]]], ["push", ["st_fold", [[0, [b, a]]]]], ["push", ["st_call", ["scalar", "q"]]],
                             ["push", ["st_call", ["scalar", "r"]]], ["push", ["st_par", 1, 0]], ["push", ["st_call", ["scalar", "q"]]]]
                    rounds.append({"prev": -1, "cur": -1, "mut_prev": [], "mut_cur": trace, "ops": ops})
    # generations and value positions
    for vp in grid:
        for gens in ([], [0], [2 ** 32 - 1], [1, 2]):
            trace = [["push", ["st_ap", gens]], ["push", ["st_fold", [[vp, [[2, 1], [3, 0]]]]]], ["push", ["st_call", ["scalar", "q"]]]]
            rounds.append({"prev": -1, "cur": -1, "mut_prev": [], "mut_cur": trace, "ops": [["fold_start", 1], ["iter_pos", 1, vp], ["gen_end", 1], ["fold_end", 1]]})
    # par sizes
    for l in grid:
        for r in grid:
            trace = [["push", ["st_par", l, r]], ["push", ["st_call", ["scalar", "q"]]], ["push", ["st_call", ["scalar", "r"]]]]
            rounds.append({"prev": -1, "cur": -1, "mut_prev": [], "mut_cur": trace,
                           "ops": [["par_start"], ["call_auto", ["scalar", "q"], True], ["par_end", True], ["call_auto", ["scalar", "r"], True], ["par_end", False], ["sizes"]]})
    return [{"stream": "handler", "rounds": rounds[i:i + 24], "boundary": True} for i in range(0, len(rounds), 24)]


def handler_case(rng):
    """rounds of lib/handlergen.py with the honest driver only (no arbitrary API use), traces mutated with boundary values"""
    ids = {"fold": 0, "cid": 0}
    skel = handlergen.gen_skeleton(rng, rng.choice([1, 2, 2, 3]), ids)
    rounds = []
    for r in range(rng.choice([4, 5, 6])):
        peer = "p%d" % (r % 3)
        known = rng.choice([0.0, 0.3, 0.6, 0.9, 1.0])
        prev, cur = (-1, -1) if r < 2 else (rng.randrange(-1, r), rng.randrange(-1, r))
        mut_prev, mut_cur = [], []
        if r >= 2 and rng.random() < 0.7:
            for _ in range(rng.choice([1, 1, 2, 3])):
                (mut_cur if rng.random() < 0.8 else mut_prev).append(handlergen.random_mutation(rng))
        ops = []
        handlergen.drive(skel, rng, known, peer, ops, wrong=0.2 if rng.random() < 0.15 else 0.0)
        rounds.append({"prev": prev, "cur": cur, "mut_prev": mut_prev, "mut_cur": mut_cur, "ops": ops})
    return {"stream": "handler", "rounds": rounds}


# ------------------------------------------------------------------------------------------------

_FN_CACHE = {}


def panic_site(panic_at):
    """(file relative to the repository, enclosing fn) of a `file:line` panic location"""
    if not panic_at or ":" not in panic_at:
        return None
    path, _, line = panic_at.rpartition(":")
    try:
        line = int(line)
    except ValueError:
        return None
    rel = path
    for root in (vlib.REPO.rstrip("/") + "/", "/repo/"):
        if rel.startswith(root):
            rel = rel[len(root):]
    full = os.path.join(vlib.REPO, rel)
    if not os.path.exists(full):
        return (rel, "?")
    try:
        import genx_panics
        if full not in _FN_CACHE:
            src = open(full, encoding="utf-8").read()
            code = genx_panics.remove_cfg_test_items(genx_panics.blank_strings_and_comments(src))
            starts = [0]
            for i, ch in enumerate(code):
                if ch == "\n":
                    starts.append(i + 1)
            _FN_CACHE[full] = (genx_panics.enclosing_fn_map(code), starts, len(code))
        fn_of, starts, n = _FN_CACHE[full]
        pos = starts[min(max(line - 1, 0), len(starts) - 1)]
        # first non-blank character of the line
        return (rel, fn_of(min(pos + 1, n - 1)))
    except Exception:
        return (rel, "?")


def known_key_for(case, info):
    if case.get("expect_key") == KNOWN_STACK and str(case.get("label", "")).startswith("deep-") and \
            ((info.get("verdict") == "died" and info.get("death") == "stack-overflow") or info.get("verdict") == "timeout"):
        # (under heavy machine load the runtime's overflow handler was seen to take longer than the time limit once in 40 runs)
        return KNOWN_STACK
    if info.get("verdict") == "died" and info.get("death") == "null-box-precondition":
        return KNOWN_RKYV
    site = panic_site(info.get("panic_at"))
    if site:
        for (suffix, fn), key in KNOWN_SITES.items():
            if site[0].endswith(suffix) and site[1] == fn:
                return key
    return None


def evaluate(cases, result, tier):
    crash = [c for c in cases if c.get("stream", "crash") == "crash"]
    handler = [c for c in cases if c.get("stream") == "handler"]
    dist = result["distribution"]

    # ---------------- stream 1: process level ----------------
    if crash:
        env_timeout = 60000
        lines = [json.dumps(dict(c, timeout_ms=c.get("timeout_ms", env_timeout))) for c in crash]
        try:
            outs = vlib.harness_lines("crash01", lines, shards=12, timeout=3000)
        except Exception as e:
            result["errors"].append("crash01: %s" % e)
            outs = []
        terms, owner = [], []
        for ci, o in enumerate(outs):
            info = o["info"][0]
            cls = o["classes"][0]
            verdict = info.get("verdict")
            group = cls.split(".")[0] + "." + (cls.split(".")[1] if "." in cls else "")
            dist["crash01 " + group] = dist.get("crash01 " + group, 0) + 1
            dist["outcome " + str(verdict)] = dist.get("outcome " + str(verdict), 0) + 1
            d = info.get("detail") or {}
            for code, k in (d.get("codes") or {}).items():
                dist["run code " + code] = dist.get("run code " + code, 0) + k
            if d.get("accepted") is True:
                dist["tampered data accepted by the victim"] = dist.get("tampered data accepted by the victim", 0) + 1
            result["evaluations"] += 1
            applied = d.get("tamper_applied")
            if applied or crash[ci].get("kind") in ("script", "parse", "beautify"):
                result["distinct"].add(json.dumps([cls, verdict, info.get("code"), d.get("victim_code"), sorted((d.get("codes") or {}).keys())]))
            if len(result["samples"]) < 3 and applied:
                result["samples"].append({"case": crash[ci], "observation": {k: info.get(k) for k in ("verdict", "code", "panic", "grew_kb", "input_bytes")}})
            terms.append(o["coq"][0])
            owner.append(ci)
        if terms:
            fails, errs = vlib.coq_eval_cases("C01", HEADER_C, "ccase", {"oracle": "c01_oracle"}, terms, shard_size=400)
            result["errors"].extend(errs)
            for i in fails.get("oracle", []):
                ci = owner[i]
                info = outs[ci]["info"][0]
                site = panic_site(info.get("panic_at"))
                result["oracle_fail"].append({
                    "case": crash[ci], "key": known_key_for(crash[ci], info),
                    "what": "c01_oracle false on the implementation's observation: %s%s%s" % (
                        info.get("verdict"),
                        (" at %s in fn %s: %s" % (info.get("panic_at"), site[1] if site else "?", info.get("panic"))) if info.get("panic") else "",
                        (" (%s, signal %s, %s)" % (info.get("death"), info.get("signal"), info.get("stderr_tail"))) if info.get("verdict") == "died" else ""),
                    "observation": {k: info.get(k) for k in ("verdict", "code", "panic", "panic_at", "signal", "death", "grew_kb", "hwm_kb", "input_bytes")},
                    "site": site})

    # ---------------- stream 2: trace-handler level ----------------
    if handler:
        try:
            outs = vlib.harness_lines("handler", [json.dumps({"rounds": c["rounds"]}) for c in handler], timeout=1800)
        except Exception as e:
            result["errors"].append("handler: %s" % e)
            outs = []
        terms, owner = [], []
        seen = set()
        for ci, o in enumerate(outs):
            for ti, t in enumerate(o["coq"]):
                terms.append(t)
                owner.append((ci, ti))
                cl = o["classes"][ti]
                dist["handler round " + ("err" if cl.startswith("err") else cl)] = dist.get("handler round " + ("err" if cl.startswith("err") else cl), 0) + 1
                result["evaluations"] += 1
                rd = handler[ci]["rounds"][ti]
                if (rd["mut_prev"] or rd["mut_cur"]) and t not in seen:  # a tampered / crafted trace
                    seen.add(t)
                    result["distinct"].add("h:" + str(hash(t)))
        if terms:
            checks = {"model": "HandlerCases.check_case", "oracle": "c01_handler_oracle"}
            fails, errs = vlib.coq_eval_cases("C01-handler", HEADER_H, "hcase", checks, terms, shard_size=120)
            result["errors"].extend(errs)
            for i in fails.get("model", []):
                ci, ti = owner[i]
                result["mismatch"].append({"case": handler[ci], "round": ti,
                                           "what": "the trace-handler model and the real TraceHandler disagree (observations or result trace; a crash on one side only counts)"})
            for i in fails.get("oracle", []):
                ci, ti = owner[i]
                result["oracle_fail"].append({"case": handler[ci], "round": ti, "key": None,
                                              "what": "the real TraceHandler panicked on a protocol-following driver over tampered traces",
                                              "info": outs[ci]["info"][ti]})
