//! calls19: property oracles for C19 ("calls run only where addressed; the particle is forwarded
//! exactly where needed"), evaluated on what the IMPLEMENTATION does in simulated histories.
//! Written from the property text (properties.jsonl), not from the model.
//!
//! input : {"script","peers","init","services","ops","seed",
//!          "sites": {function name -> name of the peer the call site is addressed to},
//!          "drain": bool, "probe": bool}
//! output: {"oracle_failures": [...], "classes": [...], "info": {...}, "runs": n}
//!
//! Oracles (per run of peer `me` unless stated otherwise):
//!  (a)  every call request handed to the host of `me` belongs to a call site addressed to `me`
//!       (the generator gives every call site its own function name);
//!  (a2) every call result / canon result that is NEW in the produced trace (more occurrences of its
//!       content id than in the previous and in the current data) is attributed to `me`: calls are
//!       executed and streams canonicalized only where addressed;
//!  (b)  the next peers contain neither `me` nor duplicates (oracles::c19_local);
//!  (c)  when the produced trace has more `sent by me` marks than previous + current data together,
//!       next peers is not empty; and when the inputs carry no mark of `me` at all (so every mark of
//!       `me` in the produced trace is new), every peer that can take over one of them is among the
//!       next peers;
//!  (d)  end of a drained, clean history: everything merged at an observer; no peer of the network
//!       can take over a mark that another peer of the network left (such a call/canon is executable
//!       given everything that is known, yet it stays marked as sent).  When the peer has the mark in
//!       its own final data the failure is tagged `forwarded-before-arguments-known` (known finding:
//!       the particle did reach the peer, but before the arguments were known to the sender).

use air_interpreter_data::*;
use aquah::oracles;
use aquah::sim::*;
use serde_json::json;
use serde_json::Value as J;
use std::collections::BTreeMap;
use std::io::BufRead;

fn is_prev_code(c: i64) -> bool {
    (1..=9999).contains(&c) || (20000..=29999).contains(&c)
}

/// marks: call states RequestSentBy(PeerId p) and canon states RequestSentBy(p), by sender
fn marks(trace: &[ExecutedState]) -> BTreeMap<String, usize> {
    let mut m = BTreeMap::new();
    for st in trace {
        let p = match st {
            ExecutedState::Call(CallResult::RequestSentBy(Sender::PeerId(p))) => Some(p.to_string()),
            ExecutedState::Canon(CanonResult::RequestSentBy(p)) => Some(p.to_string()),
            _ => None,
        };
        if let Some(p) = p {
            *m.entry(p).or_insert(0) += 1;
        }
    }
    m
}

fn marks_of(trace: &[ExecutedState], who: &str) -> usize {
    marks(trace).get(who).cloned().unwrap_or(0)
}

/// marks left by peers other than `who` (and other than `except`: the observer's own marks are not the history's)
fn marks_of_others(trace: &[ExecutedState], who: &str, except: &str) -> usize {
    marks(trace).iter().filter(|(p, _)| p.as_str() != who && p.as_str() != except).map(|(_, n)| *n).sum()
}

fn pending_own(trace: &[ExecutedState]) -> usize {
    trace.iter().filter(|s| matches!(s, ExecutedState::Call(CallResult::RequestSentBy(Sender::PeerIdWithCallId { .. })))).count()
}

/// run peer `q` over `data` as its previous data, nothing else: what can q execute given this data?
fn probe(net: &Net, q: usize, data: &[u8]) -> Option<(i64, Vec<ExecutedState>, Vec<String>)> {
    let mut i = net.make_input(q, vec![], BTreeMap::new());
    i.prev = data.to_vec();
    let out = run(&i);
    if out.panic.is_some() || is_prev_code(out.code) {
        return None;
    }
    let t = oracles::trace_of(&out.data)?;
    let nreq: Vec<String> = out.requests.as_ref().map(|r| r.values().map(|q| q.function.clone()).collect()).unwrap_or_default();
    Some((out.code, t, nreq))
}

/// how many of `me`'s marks in `data` peer q takes over (0 when the probe does not run to a clean end)
fn takeover(net: &Net, q: usize, data: &[u8], me: &str) -> usize {
    if data.is_empty() {
        return 0;
    }
    let before = match oracles::trace_of(data) { Some(t) => marks_of(&t, me), None => return 0 };
    if before == 0 {
        return 0;
    }
    match probe(net, q, data) {
        Some((0, t, _)) => before.saturating_sub(marks_of(&t, me)),
        _ => 0,
    }
}

struct Stats {
    requests: usize,
    requests_by_site: BTreeMap<String, usize>,
    new_results: usize,
    new_canons: usize,
    new_marks_runs: usize,
    probes: usize,
    forwards: usize,
}

fn step_oracles(net: &Net, rec: &StepRecord, sites: &BTreeMap<String, String>, do_probe: bool, st: &mut Stats) -> Vec<J> {
    let mut v = oracles::c19_local(rec);
    let o = &rec.out;
    if o.panic.is_some() {
        return v;
    }
    let me = &rec.input.current_peer_id;
    let me_name = &net.hosts[rec.peer].peer.name;
    // (a)
    if let Some(reqs) = &o.requests {
        for (id, r) in reqs {
            st.requests += 1;
            *st.requests_by_site.entry(r.function.clone()).or_insert(0) += 1;
            if let Some(addr) = sites.get(&r.function) {
                if addr == "@arg0" {
                    // the addressed peer id is the first argument (call sites under a fold over peers)
                    if let Some(J::String(a)) = r.args.get(0) {
                        if a != me {
                            v.push(oracles::fail("C19", rec.step, format!("peer {} hands request {} for call site {} to its host, but this instance is addressed to {}", me_name, id, r.function, a), "request-at-wrong-peer"));
                        }
                    }
                } else if addr != me_name {
                    v.push(oracles::fail("C19", rec.step, format!("peer {} hands request {} for call site {} to its host, but the site is addressed to {}", me_name, id, r.function, addr), "request-at-wrong-peer"));
                }
            }
        }
    }
    if is_prev_code(o.code) || o.data.is_empty() {
        return v;
    }
    let (tp, tc, tn) = match (oracles::trace_of(&rec.input.prev), oracles::trace_of(&rec.input.cur), oracles::trace_of(&o.data)) {
        (Some(p), Some(c), Some(n)) => (p, c, n),
        _ => return v,
    };
    // (a2)
    if let Ok(d) = decode_data(&o.data) {
        let kp = oracles::knowledge(&tp);
        let kc = oracles::knowledge(&tc);
        let kn = oracles::knowledge(&tn);
        let ci = &d.data.cid_info;
        for (k, n) in kn.iter() {
            let before = kp.get(k).cloned().unwrap_or(0).max(kc.get(k).cloned().unwrap_or(0));
            if *n <= before {
                continue;
            }
            let (kind, cid) = match k.split_once(':') { Some(x) => x, None => continue };
            let peer = match kind {
                "call" | "failed" => ci
                    .service_result_store
                    .get(&air_interpreter_cid::CID::new(cid))
                    .and_then(|sr| ci.tetraplet_store.get(&sr.tetraplet_cid))
                    .map(|t| t.peer_pk.clone()),
                "canon" => ci
                    .canon_result_store
                    .get(&air_interpreter_cid::CID::new(cid))
                    .and_then(|cr| ci.tetraplet_store.get(&cr.tetraplet))
                    .map(|t| t.peer_pk.clone()),
                _ => None,
            };
            if kind == "canon" { st.new_canons += 1 } else if kind != "unused" { st.new_results += 1 }
            if let Some(p) = peer {
                if &p != me {
                    let key = if kind == "canon" { "canon-at-non-designated-peer" } else { "call-result-foreign-peer" };
                    v.push(oracles::fail("C19", rec.step, format!("the run of {} produces a new {} result attributed to peer {}", me_name, kind, p), key));
                }
            }
        }
    }
    // (c)
    st.forwards += o.next.len();
    let n_out = marks_of(&tn, me);
    let n_in = marks_of(&tp, me) + marks_of(&tc, me);
    if n_out > n_in {
        st.new_marks_runs += 1;
        if o.next.is_empty() {
            v.push(oracles::fail("C19", rec.step, format!("{} new state(s) marked as sent by {} but no next peer", n_out - n_in, me_name), "mark-without-forward"));
        }
    }
    // when neither input carries a mark of `me`, every mark of `me` in the produced trace is new in this run:
    // the peers that can take one over are exactly the peers newly marked calls/canons are addressed to
    if do_probe && n_out > 0 && n_in == 0 {
        for q in 0..net.hosts.len() {
            if q == rec.peer {
                continue;
            }
            st.probes += 1;
            let d_out = takeover(net, q, &o.data, me);
            if d_out > 0 && !o.next.iter().any(|p| p == &net.hosts[q].peer.id) {
                v.push(oracles::fail("C19", rec.step, format!("{} newly marks {} call(s)/canon(s) executable at {} as sent, but {} is not among the {} next peer(s)",
                    me_name, d_out, net.hosts[q].peer.name, net.hosts[q].peer.name, o.next.len()), "mark-target-not-in-next-peers"));
            }
        }
    }
    v
}

fn run_case(case: &J) -> J {
    let peers: Vec<String> = case["peers"].as_array().map(|a| a.iter().filter_map(|x| x.as_str().map(String::from)).collect()).unwrap_or_default();
    let script = Net::instantiate(case["script"].as_str().unwrap_or("(null)"), &peers);
    let services_json = Net::instantiate(&case["services"].to_string(), &peers);
    let services = Services::from_json(&serde_json::from_str(&services_json).unwrap_or(J::Null));
    let init = case["init"].as_u64().unwrap_or(0) as usize;
    let ops = ops_from_json(&case["ops"]);
    let do_probe = case["probe"].as_bool().unwrap_or(true);
    let do_drain = case["drain"].as_bool().unwrap_or(true);
    let mut sites: BTreeMap<String, String> = BTreeMap::new();
    if let Some(o) = case["sites"].as_object() {
        for (k, v) in o {
            if let Some(s) = v.as_str() {
                sites.insert(k.clone(), s.to_string());
            }
        }
    }
    if let Err(e) = air_parser::parse(&script) {
        return json!({"error": format!("script does not parse: {}", e.chars().take(300).collect::<String>())});
    }
    let mut net = Net::new(&script, &peers, init, services, case["particle_id"].as_str().unwrap_or("particle-1"));
    let mut st = Stats { requests: 0, requests_by_site: BTreeMap::new(), new_results: 0, new_canons: 0, new_marks_runs: 0, probes: 0, forwards: 0 };
    let mut failures: Vec<J> = vec![];
    let mut classes: Vec<String> = vec![];
    let mut clean = true;
    let dump_steps = case["dump_steps"].as_bool().unwrap_or(false);
    let mut dump: Vec<J> = vec![];
    let show = |t: &[ExecutedState]| -> Vec<String> {
        t.iter().map(|s| match s {
            ExecutedState::Call(CallResult::RequestSentBy(Sender::PeerId(p))) => format!("sent({})", &p[p.len().saturating_sub(4)..]),
            ExecutedState::Call(CallResult::RequestSentBy(Sender::PeerIdWithCallId { peer_id, call_id })) => format!("req({},{})", &peer_id[peer_id.len().saturating_sub(4)..], call_id),
            ExecutedState::Call(CallResult::Executed(_)) => "exec".to_string(),
            ExecutedState::Call(CallResult::Failed(_)) => "failed".to_string(),
            ExecutedState::Par(p) => format!("par({},{})", p.left_size, p.right_size),
            ExecutedState::Ap(_) => "ap".to_string(),
            ExecutedState::Canon(CanonResult::RequestSentBy(p)) => format!("canon-sent({})", &p[p.len().saturating_sub(4)..]),
            ExecutedState::Canon(CanonResult::Executed(_)) => "canon".to_string(),
            ExecutedState::Fold(f) => format!("fold({})", f.lore.len()),
        }).collect()
    };
    let one = |net: &Net, rec: &StepRecord, failures: &mut Vec<J>, classes: &mut Vec<String>, clean: &mut bool, st: &mut Stats| {
        if rec.out.panic.is_some() || is_prev_code(rec.out.code) {
            *clean = false;
        }
        classes.push(if rec.out.panic.is_some() { "panic".to_string() } else { format!("code:{}", rec.out.code) });
        failures.extend(step_oracles(net, rec, &sites, do_probe, st));
    };
    for op in ops.iter() {
        if let Some(rec) = net.exec(op) {
            one(&net, &rec, &mut failures, &mut classes, &mut clean, &mut st);
            if dump_steps {
                let id = &rec.input.current_peer_id;
                dump.push(json!({"step": rec.step, "op": format!("{:?}", op), "peer": net.hosts[rec.peer].peer.name, "id4": &id[id.len() - 4..], "code": rec.out.code,
                    "prev": oracles::trace_of(&rec.input.prev).map(|t| show(&t)), "cur": oracles::trace_of(&rec.input.cur).map(|t| show(&t)),
                    "out": oracles::trace_of(&rec.out.data).map(|t| show(&t)),
                    "next": rec.out.next.iter().map(|p| p[p.len() - 4..].to_string()).collect::<Vec<_>>(),
                    "requests": rec.out.requests.as_ref().map(|r| r.values().map(|q| q.function.clone()).collect::<Vec<_>>())}));
            }
        }
    }
    if do_drain {
        // bring the history to quiescence: answer everything, deliver everything
        for _ in 0..400 {
            let mut progressed = false;
            for p in 0..net.hosts.len() {
                if !net.hosts[p].pending.is_empty() {
                    if let Some(rec) = net.exec(&Op::Return(p, 0)) {
                        one(&net, &rec, &mut failures, &mut classes, &mut clean, &mut st);
                        progressed = true;
                    }
                }
            }
            if !net.inflight.is_empty() {
                if let Some(rec) = net.exec(&Op::Deliver(0, false)) {
                    one(&net, &rec, &mut failures, &mut classes, &mut clean, &mut st);
                    progressed = true;
                }
            }
            if !progressed {
                break;
            }
        }
    }
    // (d)
    let quiescent = net.inflight.is_empty() && net.hosts.iter().all(|h| h.pending.is_empty());
    let mut qinfo = json!({"quiescent": quiescent, "clean": clean});
    if do_drain && quiescent && clean {
        let obs = Peer::new("observer-peer");
        let mut acc: Vec<u8> = vec![];
        let mut merged_ok = true;
        for h in &net.hosts {
            if h.prev.is_empty() {
                continue;
            }
            let mut i = net.make_input(0, h.prev.clone(), BTreeMap::new());
            i.prev = acc.clone();
            i.current_peer_id = obs.id.clone();
            i.secret = obs.secret.clone();
            let out = run(&i);
            if out.panic.is_some() || is_prev_code(out.code) {
                merged_ok = false;
                break;
            }
            acc = out.data;
        }
        qinfo["merged"] = json!(merged_ok);
        if merged_ok && !acc.is_empty() {
            if let Some(tm) = oracles::trace_of(&acc) {
                let all_marks: usize = marks(&tm).iter().filter(|(p, _)| p.as_str() != obs.id).map(|(_, n)| *n).sum();
                qinfo["leftover_marks"] = json!(all_marks);
                qinfo["leftover_own_requests"] = json!(pending_own(&tm));
                qinfo["merged_len"] = json!(tm.len());
                let mut skipped = 0;
                if all_marks > 0 {
                    for q in 0..net.hosts.len() {
                        let qid = net.hosts[q].peer.id.clone();
                        let before = marks_of_others(&tm, &qid, &obs.id);
                        if before == 0 {
                            continue;
                        }
                        match probe(&net, q, &acc) {
                            Some((0, t, nreq)) => {
                                let after = marks_of_others(&t, &qid, &obs.id);
                                if after < before {
                                    // did the marks reach q at all?  per sender p: q's own final data carries at least as many
                                    // marks of p as q takes over from the merged data, and q cannot execute them with what
                                    // it knows (its own data is stable: the history is quiescent)
                                    let mm = marks(&tm);
                                    let ma = marks(&t);
                                    let mo = oracles::trace_of(&net.hosts[q].prev).map(|t| marks(&t)).unwrap_or_default();
                                    let delivered = mm.iter().filter(|(p, _)| p.as_str() != qid && p.as_str() != obs.id).all(|(p, n)| {
                                        let taken = n.saturating_sub(ma.get(p).cloned().unwrap_or(0));
                                        taken <= mo.get(p).cloned().unwrap_or(0)
                                    });
                                    let own = oracles::trace_of(&net.hosts[q].prev).map(|t| marks_of_others(&t, &qid, &obs.id)).unwrap_or(0);
                                    let own_stable = match probe(&net, q, &net.hosts[q].prev) {
                                        Some((0, t2, _)) => marks_of_others(&t2, &qid, &obs.id) == own,
                                        _ => false,
                                    };
                                    let key = if delivered && own_stable { "forwarded-before-arguments-known" } else { "sent-but-unexecuted-at-quiescence" };
                                    failures.push(oracles::fail("C19", net.step, format!(
                                        "after every particle and call result was delivered, {} call(s)/canon(s) executable at {} given the merged data are still only marked as sent by other peers (the probe issues requests for {:?}; {} such mark(s) are in {}'s own final data)",
                                        before - after, net.hosts[q].peer.name, nreq, own, net.hosts[q].peer.name), key));
                                }
                            }
                            _ => skipped += 1,
                        }
                    }
                }
                qinfo["probes_skipped"] = json!(skipped);
            }
        }
    }
    json!({"oracle_failures": failures, "classes": classes, "runs": net.step, "dump": dump,
           "info": {"requests": st.requests, "by_site": st.requests_by_site, "new_results": st.new_results, "new_canons": st.new_canons,
                    "new_mark_runs": st.new_marks_runs, "probes": st.probes, "forwards": st.forwards, "end": qinfo}})
}

fn main() {
    quiet_panics();
    for line in std::io::stdin().lock().lines() {
        let line = match line { Ok(l) => l, Err(_) => break };
        if line.trim().is_empty() { continue; }
        let case: J = serde_json::from_str(&line).unwrap_or(J::Null);
        println!("{}", run_case(&case));
    }
}
