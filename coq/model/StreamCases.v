(* StreamCases.v -- correspondence of model/Stream.v with the real interpreter (harness driver
   `streams`) and the executable oracles of C12 and C13.  Definitions only.

   A case is ONE STREAM INSTANCE (a global stream, or the stream of one `new` scope) IN ONE RUN of
   execute_air on one peer of a simulated history.  The driver attributes every state of the previous,
   current and produced trace to the instruction instance that wrote it (identities are numbers) and
   prints:

     c_events  what the run did to the instance, in execution order (= position order of the produced
               trace): [EAdd v g] an append replayed or performed, with the Generation the interpreter
               must have used (executed in prev data: Previous g; else in current data: Current g;
               else New); [ECanon pos labels arg] a canon executed in THIS run: the content of the canon
               result in the produced data and the argument of the `see` service request;
               [EFold pos owner body lore] a fold over the instance: for every iterated value what its
               body appended to the folded stream and whether the body reached `next`; [lore] is the
               order of the iterations in the produced trace.
     c_out     [OData]: (identity, trace position, generation) of every value of the instance in the
               produced trace (after compactify); [OErr code]: the run failed with that code.
     c_prev, c_cur   generation of the values in the previous / current data (oracles only).
     c_final   this is the last run of this peer in a history that reached quiescence.
     c_visits  for the folds this peer owns: arguments of all `visit` invocations of the host.
     c_prev_lore for every fold of [c_events] (keyed by its position): the values the fold had iterated in the
               previous data of this run.

   [check_case]: the model functions of Stream.v (stream_add_value, stream_iter, met_fold_start,
   met_iteration_end, stream_compactify), driven the way stream_execute_helpers.rs drives them, reproduce
   every observation.  [c12_oracle], [c13_oracle]: the property texts evaluated on the observation alone. *)
From Aqua Require Import Base Stream.
Open Scope N_scope.
Open Scope list_scope.

Inductive event :=
| EAdd (v : N) (g : generation)
| ECanon (pos : N) (labels : list string) (arg : option (list string))
| EFold (pos : N) (owner : bool) (body : list (N * (list (N * generation) * bool))) (lore : list N).

Inductive outcome := OData (vals : list (N * N * N)) | OErr (code : Z).

Record case_t := {
  c_labels : list (N * string * string);     (* identity, label (provenance + value), plain value *)
  c_prev : list (N * N);
  c_cur : list (N * N);
  c_events : list event;
  c_out : outcome;
  c_final : bool;
  c_visits : list (N * list string);
  c_prev_lore : list (N * list N) }.

(* ---------------- helpers ---------------- *)
Fixpoint assocN {A} (k : N) (l : list (N * A)) : option A :=
  match l with [] => None | (j, a) :: t => if j =? k then Some a else assocN k t end.
Definition memN (k : N) (l : list N) : bool := existsb (N.eqb k) l.
Fixpoint nodupN (l : list N) : bool :=
  match l with [] => true | x :: t => negb (memN x t) && nodupN t end.
Fixpoint count_str (x : string) (l : list string) : N :=
  match l with [] => 0 | y :: t => (if String.eqb x y then 1 else 0) + count_str x t end.
Fixpoint distinct_str (l acc : list string) : list string :=
  match l with [] => acc | x :: t => distinct_str t (if existsb (String.eqb x) acc then acc else x :: acc) end.
(* equal as multisets *)
Definition multiset_eq (a b : list string) : bool :=
  (N.of_nat (length a) =? N.of_nat (length b)) && forallb (fun x => count_str x a =? count_str x b) (distinct_str a []).
(* a is a sub-multiset of b *)
Definition multiset_le (a b : list string) : bool := forallb (fun x => count_str x a <=? count_str x b) (distinct_str a []).

Fixpoint insert_by_fst (x : N * N) (l : list (N * N)) : list (N * N) :=
  match l with
  | [] => [x]
  | y :: t => if fst x <=? fst y then x :: l else y :: insert_by_fst x t
  end.
Definition sort_by_fst (l : list (N * N)) : list (N * N) := fold_right insert_by_fst [] l.

Definition label_of (c : case_t) (v : N) : string :=
  match find (fun x => fst (fst x) =? v) (c_labels c) with Some x => snd (fst x) | None => "?" end.
Definition value_of (c : case_t) (v : N) : string :=
  match find (fun x => fst (fst x) =? v) (c_labels c) with Some x => snd x | None => "?" end.
Definition out_vals (c : case_t) : list (N * N * N) := match c_out c with OData v => v | OErr _ => [] end.
Definition o_id (x : N * N * N) : N := fst (fst x).
Definition o_pos (x : N * N * N) : N := snd (fst x).
Definition o_gen (x : N * N * N) : N := snd x.
Definition pos_of_case (c : case_t) (v : N) : N :=
  match find (fun x => o_id x =? v) (out_vals c) with Some x => o_pos x | None => 0 end.

(* air/src/utils/error_codes.rs + uncatchable_errors.rs: code = start id + position of the variant *)
Definition uncatchable_code (name : string) : option Z :=
  option_map (fun i => (uncatchable_errors_start_id + Z.of_N i)%Z) (index_of (String.eqb name) uncatchable_error_variants).

(* ---------------- the model, driven as fold_stream/stream_execute_helpers.rs drives it ---------------- *)
Definition body_t := list (N * (list (N * generation) * bool)).
Definition body_get (b : body_t) (v : N) : list (N * generation) * bool :=
  match assocN v b with Some x => x | None => ([], false) end.

(* fold_scalar.rs fold + next.rs over one batch (the values of one generation): the body runs for the
   first value; `next` -- reached only when every call of the body is executed -- runs it for the
   following one *)
Fixpoint run_batch (b : body_t) (s : stream N) (batch : list N) : sres (stream N * list N) :=
  match batch with
  | [] => SOk (s, [])
  | v :: t =>
      let '(adds, cont) := body_get b v in
      sbind (add_all N s adds) (fun s1 =>
        if cont then sbind (run_batch b s1 t) (fun r => SOk (fst r, v :: snd r))
        else SOk (s1, [v]))
  end.
(* execute_iterations: every batch handed out, in order; a batch that stops early does not stop the others *)
Fixpoint run_batches (b : body_t) (s : stream N) (bs : list (list N)) : sres (stream N * list N) :=
  match bs with
  | [] => SOk (s, [])
  | x :: t => sbind (run_batch b s x) (fun r => sbind (run_batches b (fst r) t) (fun r2 => SOk (fst r2, snd r ++ snd r2)))
  end.
(* execute_with_stream: `while let Continue(iterables) = cursor_state { ..; cursor_state = met_iteration_end }`.
   The third component is false when the fuel ran out (C13_cursor_terminates: it cannot). *)
Fixpoint run_rounds (fuel : nat) (b : body_t) (rc : rcursor) (s : stream N) (st : cursor_state N)
  : sres (stream N * list N * bool) :=
  match st with
  | Exhausted => SOk (s, [], true)
  | Continue bs =>
      match fuel with
      | O => SOk (s, [], false)
      | S f =>
          sbind (run_batches b s bs) (fun r =>
          sbind (met_iteration_end N rc (fst r)) (fun r2 =>
            let '(st', rc', s2) := r2 in
            sbind (run_rounds f b rc' s2 st') (fun r3 =>
              let '(s3, it3, ok) := r3 in SOk (s3, snd r ++ it3, ok))))
      end
  end.
Definition fold_fuel : nat := S (S (N.to_nat stream_max_size)).
Definition model_fold (b : body_t) (s : stream N) : sres (stream N * list N * bool) :=
  sbind (met_fold_start N rcursor_new s) (fun r => let '(st, rc, s1) := r in run_rounds fold_fuel b rc s1 st).

(* the whole run on the instance; the boolean says that every observation so far agreed *)
Fixpoint replay (c : case_t) (evs : list event) (s : stream N) : sres (stream N * bool) :=
  match evs with
  | [] => SOk (s, true)
  | EAdd v g :: t => sbind (stream_add_value N s v g) (fun s1 => replay c t s1)
  | ECanon _ labels arg :: t =>
      let it := stream_iter N s in
      let ok := list_eqb String.eqb (map (label_of c) it) labels &&
                match arg with Some a => list_eqb String.eqb (map (value_of c) it) a | None => true end in
      sbind (replay c t s) (fun r => SOk (fst r, ok && snd r))
  | EFold _ _ body lore :: t =>
      sbind (model_fold body s) (fun r =>
        let '(s1, iterated, fuel_ok) := r in
        let ok := fuel_ok && list_eqb N.eqb iterated lore in
        sbind (replay c t s1) (fun r2 => SOk (fst r2, ok && snd r2)))
  end.

Definition obs_updates (c : case_t) : list (N * N) := sort_by_fst (map (fun x => (o_pos x, o_gen x)) (out_vals c)).

Definition check_case (c : case_t) : bool :=
  match replay c (c_events c) (stream_new N), c_out c with
  | SOk (s, ok), OData _ =>
      ok &&
      let pl := snd (stream_compactify N (pos_of_case c) s) in
      match cp_crash pl with
      | None => list_eqb (pair_eqb N.eqb N.eqb) (sort_by_fst (cp_updates pl)) (obs_updates c)
      | Some _ => false
      end
  | SErr StreamSizeLimitExceeded, OErr code => option_eqb Z.eqb (Some code) (uncatchable_code "StreamSizeLimitExceeded")
  | _, _ => false
  end.

(* what the model says (for replay files / debugging) *)
Definition model_view (c : case_t) :=
  match replay c (c_events c) (stream_new N) with
  | SOk (s, ok) => (ok, sort_by_fst (cp_updates (snd (stream_compactify N (pos_of_case c) s))), obs_updates c)
  | _ => (false, [], obs_updates c)
  end.

(* ---------------- C12: written from the property text, on the observation only ---------------- *)
(* "Stream values a peer has seen keep their relative order (by generation) in every later run of the
   same particle on that peer: values from the previous data come before values from the current data,
   which come before values produced in the run.  Generation numbers are renumbered densely but never
   swapped."   The produced data of a run is the previous data of the peer's next run, so consecutive
   outputs are compared run by run as (previous data, produced data). *)
Definition same_order (a b : N * N) : bool :=
  Bool.eqb (fst a <? fst b) (snd a <? snd b) && Bool.eqb (fst a =? fst b) (snd a =? snd b).
Definition all_pairs {A B} (f : A -> B -> bool) (l1 : list A) (l2 : list B) : bool :=
  forallb (fun a => forallb (fun b => f a b) l2) l1.
Definition getN (l : list (N * N)) (v : N) : N := match assocN v l with Some g => g | None => 0 end.
Definition hasN (l : list (N * N)) (v : N) : bool := match assocN v l with Some _ => true | None => false end.

Definition c12_oracle (c : case_t) : bool :=
  match c_out c with
  | OErr _ => true                                   (* a failed run hands back the previous data *)
  | OData vals =>
      let ids := map o_id vals in
      (* (generation in the earlier data, generation in the produced data) of the values in both outputs;
         the same for the values taken from the current data; produced generations of the rest *)
      let seen := concat (map (fun x => match assocN (o_id x) (c_prev c) with Some g => [(g, o_gen x)] | None => [] end) vals) in
      let learnt := concat (map (fun x => match assocN (o_id x) (c_prev c), assocN (o_id x) (c_cur c) with
                                          | None, Some g => [(g, o_gen x)] | _, _ => [] end) vals) in
      let made := concat (map (fun x => match assocN (o_id x) (c_prev c), assocN (o_id x) (c_cur c) with
                                        | None, None => [o_gen x] | _, _ => [] end) vals) in
      nodupN ids &&
      (* never swapped: order and equality of generations are kept, among the values already seen and
         among those taken from the current data *)
      all_pairs same_order seen seen &&
      all_pairs same_order learnt learnt &&
      (* previous before current before new *)
      all_pairs (fun a b => snd a <? b) seen (map snd learnt ++ made) &&
      all_pairs (fun a b => snd a <? b) learnt made &&
      (* dense from 0: every number below the largest one is used *)
      let gens := map o_gen vals in
      let n := N.of_nat (length vals) in
      forallb (fun g => g <? n) gens &&
      forallb (fun g => (g =? 0) || existsb (N.eqb (g - 1)) gens) gens
  end.

(* ---------------- C13: written from the property text, on the observation only ---------------- *)
(* "At any point of a run, a stream as seen by the peer holds exactly one entry for each append to it
   that the run has replayed from the merged data or performed so far, with nothing duplicated or lost
   by merging."  Point of observation: a canon executed in this run.  The appends replayed or performed
   so far are the values of the instance that the produced trace holds before the canon state. *)
Definition before (c : case_t) (pos : N) : list N := map o_id (filter (fun x => o_pos x <? pos) (out_vals c)).
Definition c13_canon (c : case_t) : bool :=
  forallb (fun e => match e with
    | ECanon pos labels arg =>
        multiset_eq (map (label_of c) (before c pos)) labels &&
        match arg with Some a => multiset_eq (map (value_of c) (before c pos)) a | None => true end
    | _ => true end) (c_events c).

(* "A fold over a stream visits each of those values exactly once per peer, including values appended
   while the fold runs."  The values the fold has to visit: those in the stream when it starts and
   those appended by its own iterations. *)
Definition fold_domain (c : case_t) (pos : N) (body : body_t) : list N :=
  before c pos ++ map fst (concat (map (fun x => fst (snd x)) body)).
(* in every run: no value twice, only values of the stream *)
Definition c13_fold_once (c : case_t) : bool :=
  forallb (fun e => match e with
    | EFold pos _ body lore => nodupN lore && forallb (fun v => memN v (fold_domain c pos body)) lore
    | _ => true end) (c_events c).
(* at the owner's last run of a quiescent history: every value *)
Definition fold_missing (c : case_t) (pos : N) (body : body_t) (lore : list N) : list N :=
  filter (fun v => negb (memN v lore)) (fold_domain c pos body).
Definition c13_fold_cover (c : case_t) : bool :=
  forallb (fun e => match e with
    | EFold pos true body lore => negb (c_final c) || match fold_missing c pos body lore with [] => true | _ => false end
    | _ => true end) (c_events c).
(* the host's log: one `visit` invocation per value, over the whole history *)
Definition c13_visits (c : case_t) : bool :=
  forallb (fun e => match e with
    | EFold pos true body lore =>
        negb (c_final c) ||
        match assocN pos (c_visits c) with
        | Some log => multiset_eq log (map (value_of c) (fold_domain c pos body))
        | None => true
        end
    | _ => true end) (c_events c).

Definition c13_oracle (c : case_t) : bool :=
  match c_out c with
  | OErr _ => true
  | OData _ => c13_canon c && c13_fold_once c && c13_fold_cover c && c13_visits c
  end.

(* ---- the documented deviation (DESIGN 7-11, known_findings key stream-fold-cursor-hole) ----
   The cursor counts ALL generations of a matrix, slice_iter skips that many NON-EMPTY ones.  As soon as
   the previous matrix has an empty generation below the cursor, a value that a fold iteration appended
   in an earlier run (it is replayed as `Previous g`) is not handed out again: its iteration -- with the
   executed calls and the appends of that iteration -- disappears from the peer's data (and may come back
   in a later run, when the shape of the matrix has changed: the value is then visited a second time).
   Shape recognised here: a value the fold loses -- it had an iteration in the previous data and has
   none now, or, at the owner's last run, it has none at all -- is an append of the fold's own body
   replayed from the data, and the generations of its matrix that entered the stream before it in this
   run are not gap-free (there is a hole). *)
(* generations of one source (previous: [cur = false], current: [cur = true]) *)
Definition gen_of_source (cur : bool) (g : generation) : list N :=
  match g, cur with GPrevious h, false => [h] | GCurrent h, true => [h] | _, _ => [] end.
Fixpoint gens_before (cur : bool) (evs : list event) (pos : N) : list N :=
  match evs with
  | [] => []
  | EAdd _ g :: t => gen_of_source cur g ++ gens_before cur t pos
  | EFold p _ body _ :: t =>
      if p =? pos then [] else
      concat (map (fun x => concat (map (fun a => gen_of_source cur (snd a)) (fst (snd x)))) body) ++ gens_before cur t pos
  | _ :: t => gens_before cur t pos
  end.
Definition body_adds (body : body_t) : list (N * generation) := concat (map (fun x => fst (snd x)) body).
Fixpoint adds_before (m : N) (l : list (N * generation)) : list (N * generation) :=
  match l with [] => [] | x :: t => if fst x =? m then [] else x :: adds_before m t end.
Definition gap_free (l : list N) : bool := forallb (fun h => (h =? 0) || existsb (N.eqb (h - 1)) l) l.
(* [m] was appended by the fold's own body and is replayed from the data (`Previous g`, or `Current g` when
   another peer's fold made it); the generations of the same matrix that entered the stream before it in
   this run leave a hole.  Values the fold loses do not count: they went into the hole after the cursor
   had passed it. *)
Definition hole_shape (c : case_t) (pos : N) (body : body_t) (missing : list N) (m : N) : bool :=
  let shape cur :=
    negb (gap_free (gens_before cur (c_events c) pos ++
                    concat (map (fun x => if memN (fst x) missing then [] else gen_of_source cur (snd x))
                                (adds_before m (body_adds body))))) in
  match assocN m (body_adds body) with
  | Some (GPrevious _) => shape false
  | Some (GCurrent _) => shape true
  | _ => false
  end.

(* ---- second documented deviation (known_findings key stream-second-fold-skips-new) ----
   A fold leaves an empty trailing generation in the `new` matrix (met_iteration_end adds it after the
   last round).  A later fold over the same stream in the same run counts it in its cursor, so the values
   its own body appends (`New`) in the first round are skipped by slice_iter: they are not iterated in
   this run (they are in the next run, where they come back as `Previous`).
   Shape: the missed value is a `New` append of the fold's own body and an earlier fold over the same
   instance ran in this run. *)
Fixpoint fold_before (evs : list event) (pos : N) : bool :=
  match evs with
  | [] => false
  | EFold p _ _ _ :: t => if p =? pos then false else true
  | _ :: t => fold_before t pos
  end.
Definition second_fold_shape (c : case_t) (pos : N) (body : body_t) (m : N) : bool :=
  match assocN m (body_adds body) with
  | Some GNew => fold_before (c_events c) pos
  | _ => false
  end.

Definition prev_lore_of (c : case_t) (pos : N) : list N := match assocN pos (c_prev_lore c) with Some l => l | None => [] end.
(* iterated according to the previous data, still in the stream, not iterated by this run *)
Definition lost_now (c : case_t) (pos : N) (body : body_t) (lore : list N) : list N :=
  filter (fun v => negb (memN v lore) && memN v (fold_domain c pos body)) (prev_lore_of c pos).
Definition lost_values (c : case_t) (pos : N) (body : body_t) (lore : list N) : list N :=
  lost_now c pos body lore ++ (if c_final c then fold_missing c pos body lore else []).

(* this run shows the first deviation: it loses at least one value and every lost value has the hole shape *)
Definition c13_hole_evidence (c : case_t) : bool :=
  existsb (fun e => match e with
    | EFold pos true body lore =>
        let lost := lost_values c pos body lore in
        negb (is_nil lost) && forallb (hole_shape c pos body lost) lost
    | _ => false end) (c_events c).
Definition c13_no_hole_evidence (c : case_t) : bool := negb (c13_hole_evidence c).

(* a failure of c13_oracle has a recognised shape: the canon observations and at-most-once hold; every value
   the last run's fold misses has the hole shape ([strict]) or the second-fold shape; every value the fold
   iterated was visited.  (What the host's log holds beyond that is not constrained here: the plugin accepts
   it only in a history with hole evidence -- a lost iteration can come back and be visited twice.) *)
Definition c13_shape_ok (strict : bool) (c : case_t) : bool :=
  match c_out c with
  | OErr _ => false
  | OData _ =>
      c13_canon c && c13_fold_once c &&
      forallb (fun e => match e with
        | EFold pos true body lore =>
            let missing := if c_final c then fold_missing c pos body lore else [] in
            forallb (fun m => hole_shape c pos body (lost_values c pos body lore) m ||
                              (negb strict && second_fold_shape c pos body m)) missing &&
            match assocN pos (c_visits c) with
            | Some log => negb (c_final c) || multiset_le (map (value_of c) lore) log
            | None => true
            end
        | _ => true end) (c_events c)
  end.
(* false exactly on the failures of C13 whose shape is not the first / not one of the two documented deviations *)
Definition c13_not_hole (c : case_t) : bool := c13_oracle c || c13_shape_ok true c.
Definition c13_unexplained (c : case_t) : bool := c13_oracle c || c13_shape_ok false c.
(* the failure is in the fold's coverage (as opposed to the host's log only) *)
Definition c13_cover_ok (c : case_t) : bool := match c_out c with OErr _ => true | OData _ => c13_fold_cover c end.
