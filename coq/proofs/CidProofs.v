(* CidProofs.v -- lemmas for property C25: string_ltb is a strict total order, insertion into an
   object commutes, hence jobj_of does not depend on insertion order (and yields sorted keys);
   verification of (content id, value) pairs characterised exactly, with every error variant. *)
From Coq Require Import Lia Permutation.
From Aqua Require Import Base Json Cid.
Open Scope list_scope.
Open Scope N_scope.

(* ---- string_ltb is a strict total order compatible with String.eqb ---- *)
Lemma N_of_ascii_inj : forall a b, N_of_ascii a = N_of_ascii b -> a = b.
Proof. intros a b H. rewrite <- (ascii_N_embedding a), <- (ascii_N_embedding b), H. reflexivity. Qed.

Lemma ltb_cons : forall x a y b, string_ltb (String x a) (String y b) =
  if N_of_ascii x <? N_of_ascii y then true else if N_of_ascii y <? N_of_ascii x then false else string_ltb a b.
Proof. reflexivity. Qed.

Lemma ltb_irrefl : forall a, string_ltb a a = false.
Proof.
  induction a as [|x a IH]; [reflexivity|]. rewrite ltb_cons, N.ltb_irrefl. exact IH.
Qed.

Lemma ltb_antisym : forall a b, string_ltb a b = true -> string_ltb b a = false.
Proof.
  induction a as [|x a IH]; intros [|y b] H; try reflexivity; try discriminate H.
  rewrite ltb_cons in *.
  destruct (N_of_ascii x <? N_of_ascii y) eqn:E1.
  - apply N.ltb_lt in E1. replace (N_of_ascii y <? N_of_ascii x) with false by (symmetry; apply N.ltb_ge; lia).
    reflexivity.
  - destruct (N_of_ascii y <? N_of_ascii x) eqn:E2; [discriminate H|]. apply IH. exact H.
Qed.

Lemma ltb_trans : forall a b c, string_ltb a b = true -> string_ltb b c = true -> string_ltb a c = true.
Proof.
  induction a as [|x a IH]; intros [|y b] [|z c] H1 H2; try reflexivity; try discriminate H1; try discriminate H2.
  rewrite ltb_cons in *.
  destruct (N_of_ascii x <? N_of_ascii y) eqn:E1; destruct (N_of_ascii y <? N_of_ascii z) eqn:E2;
    destruct (N_of_ascii y <? N_of_ascii x) eqn:E3; destruct (N_of_ascii z <? N_of_ascii y) eqn:E4;
    try discriminate H1; try discriminate H2;
    repeat match goal with
           | H : (_ <? _) = true |- _ => apply N.ltb_lt in H
           | H : (_ <? _) = false |- _ => apply N.ltb_ge in H
           end; try lia.
  - replace (N_of_ascii x <? N_of_ascii z) with true by (symmetry; apply N.ltb_lt; lia). reflexivity.
  - replace (N_of_ascii x <? N_of_ascii z) with true by (symmetry; apply N.ltb_lt; lia). reflexivity.
  - replace (N_of_ascii x <? N_of_ascii z) with true by (symmetry; apply N.ltb_lt; lia). reflexivity.
  - replace (N_of_ascii x <? N_of_ascii z) with false by (symmetry; apply N.ltb_ge; lia).
    replace (N_of_ascii z <? N_of_ascii x) with false by (symmetry; apply N.ltb_ge; lia).
    eapply IH; eassumption.
Qed.

Lemma ltb_total : forall a b, string_ltb a b = false -> String.eqb a b = false -> string_ltb b a = true.
Proof.
  induction a as [|x a IH]; intros [|y b] H1 H2; try reflexivity; try discriminate H1; try discriminate H2.
  rewrite ltb_cons in *. cbn [String.eqb] in H2.
  destruct (N_of_ascii x <? N_of_ascii y) eqn:E1; [discriminate H1|].
  destruct (N_of_ascii y <? N_of_ascii x) eqn:E2; [reflexivity|].
  apply N.ltb_ge in E1, E2. assert (E : N_of_ascii x = N_of_ascii y) by lia.
  apply N_of_ascii_inj in E. subst y. rewrite Ascii.eqb_refl in H2. apply IH; assumption.
Qed.

Lemma eqb_false_sym : forall a b, String.eqb a b = false -> String.eqb b a = false.
Proof. intros a b H. rewrite String.eqb_sym. exact H. Qed.

Definition lt_facts (a b : string) : Prop :=
  string_ltb a b = true /\ string_ltb b a = false /\ String.eqb a b = false /\ String.eqb b a = false.

Lemma tri : forall a b, a = b \/ lt_facts a b \/ lt_facts b a.
Proof.
  intros a b. destruct (String.eqb a b) eqn:E.
  - left. apply String.eqb_eq. exact E.
  - right. pose proof (eqb_false_sym _ _ E) as E'. destruct (string_ltb a b) eqn:L.
    + left. unfold lt_facts. auto using ltb_antisym.
    + right. pose proof (ltb_total _ _ L E) as L'. unfold lt_facts. auto.
Qed.

Lemma obj_insert_cons : forall k v k' v' rest, obj_insert k v ((k', v') :: rest) =
  if String.eqb k k' then (k, v) :: rest
  else if string_ltb k k' then (k, v) :: (k', v') :: rest
  else (k', v') :: obj_insert k v rest.
Proof. reflexivity. Qed.

Lemma obj_insert_nil : forall k v, obj_insert k v [] = [(k, v)].
Proof. reflexivity. Qed.

Ltac trans_contra :=
  match goal with
  | H1 : string_ltb ?a ?b = true, H2 : string_ltb ?b ?c = true, H3 : string_ltb ?a ?c = false |- _ =>
      rewrite (ltb_trans _ _ _ H1 H2) in H3; discriminate H3
  end.

Ltac use_facts :=
  repeat match goal with
         | H : lt_facts _ _ |- _ => destruct H as (? & ? & ? & ?)
         end.

Ltac rw_cmp :=
  repeat (rewrite ?obj_insert_cons, ?obj_insert_nil;
          repeat match goal with
                 | H : string_ltb ?a ?b = _ |- context [string_ltb ?a ?b] => rewrite H
                 | H : String.eqb ?a ?b = _ |- context [String.eqb ?a ?b] => rewrite H
                 | |- context [String.eqb ?a ?a] => rewrite String.eqb_refl
                 | |- context [string_ltb ?a ?a] => rewrite ltb_irrefl
                 end).

Lemma obj_insert_comm : forall l k1 v1 k2 v2, k1 <> k2 ->
  obj_insert k1 v1 (obj_insert k2 v2 l) = obj_insert k2 v2 (obj_insert k1 v1 l).
Proof.
  induction l as [|[k' v'] rest IH]; intros k1 v1 k2 v2 Hne.
  - destruct (tri k1 k2) as [E|[F|F]]; [contradiction| |]; use_facts; rw_cmp; reflexivity.
  - destruct (tri k1 k2) as [E|[F12|F12]]; [contradiction| |];
      destruct (tri k1 k') as [E1|[F1|F1]];
      destruct (tri k2 k') as [E2|[F2|F2]];
      use_facts; try congruence; subst; try trans_contra; rw_cmp; try reflexivity; try trans_contra;
      try (rewrite IH by exact Hne; reflexivity).
Qed.

Definition ins_all (kvs acc : list (string * json)) : list (string * json) :=
  fold_left (fun acc kv => obj_insert (fst kv) (snd kv) acc) kvs acc.

Lemma jobj_of_ins_all : forall kvs, jobj_of kvs = JObj (ins_all kvs []).
Proof. reflexivity. Qed.

Lemma ins_all_perm : forall kvs kvs', Permutation kvs kvs' -> NoDup (map fst kvs) ->
  forall acc, ins_all kvs acc = ins_all kvs' acc.
Proof.
  intros kvs kvs' HP. induction HP as [|x l l' HP IH|x y l|l l' l'' HP1 IH1 HP2 IH2]; intros Hnd acc.
  - reflexivity.
  - cbn [ins_all fold_left]. apply IH. inversion Hnd; assumption.
  - cbn [ins_all fold_left]. f_equal. apply obj_insert_comm.
    cbn [map] in Hnd. inversion Hnd as [|? ? Hnotin _]. intro E. apply Hnotin. left. exact E.
  - rewrite IH1 by exact Hnd. apply IH2.
    apply (Permutation_NoDup (Permutation_map fst HP1)). exact Hnd.
Qed.

Theorem jobj_of_perm : forall kvs kvs', Permutation kvs kvs' -> NoDup (map fst kvs) -> jobj_of kvs = jobj_of kvs'.
Proof. intros kvs kvs' HP Hnd. rewrite !jobj_of_ins_all. f_equal. apply ins_all_perm; assumption. Qed.

(* the object built by insertion is in canonical form: keys strictly increasing *)
Lemma keys_sorted_cons2 : forall k k' r, keys_sorted (k :: k' :: r) = string_ltb k k' && keys_sorted (k' :: r).
Proof. reflexivity. Qed.

Lemma insert_sorted : forall l k v, keys_sorted (map fst l) = true -> keys_sorted (map fst (obj_insert k v l)) = true.
Proof.
  induction l as [|[k' v'] rest IH]; intros k v Hs.
  - reflexivity.
  - destruct (tri k k') as [E|[F|F]]; use_facts.
    + subst k'. rw_cmp. exact Hs.
    + rw_cmp. cbn [map fst]. rewrite keys_sorted_cons2. cbn [map fst] in Hs. rewrite Hs.
      match goal with H : string_ltb k k' = true |- _ => rewrite H end. reflexivity.
    + rw_cmp. specialize (IH k v).
      destruct rest as [|[k'' v''] rest'].
      * rw_cmp. cbn [map fst]. rewrite keys_sorted_cons2.
        match goal with H : string_ltb k' k = true |- _ => rewrite H end. reflexivity.
      * cbn [map fst] in Hs. rewrite keys_sorted_cons2 in Hs. apply andb_prop in Hs. destruct Hs as [Hk1 Hk2].
        specialize (IH Hk2).
        destruct (tri k k'') as [E|[G|G]]; use_facts.
        -- subst k''. rw_cmp. cbn [map fst]. rewrite keys_sorted_cons2. rewrite Hk1. exact Hk2.
        -- rw_cmp. rw_cmp. cbn [map fst]. rewrite !keys_sorted_cons2.
           repeat match goal with H : string_ltb _ _ = true |- _ => rewrite H end. cbn [andb]. exact Hk2.
        -- revert IH. rw_cmp. intro IH. cbn [map fst] in *. rewrite keys_sorted_cons2. rewrite Hk1. exact IH.
Qed.

Lemma ins_all_sorted : forall kvs acc, keys_sorted (map fst acc) = true -> keys_sorted (map fst (ins_all kvs acc)) = true.
Proof.
  induction kvs as [|[k v] kvs IH]; intros acc H; [exact H|].
  cbn [ins_all fold_left fst snd]. apply IH. apply insert_sorted. exact H.
Qed.

Theorem jobj_of_sorted : forall kvs, exists l, jobj_of kvs = JObj l /\ keys_sorted (map fst l) = true.
Proof. intro kvs. exists (ins_all kvs []). split; [reflexivity|]. apply ins_all_sorted. reflexivity. Qed.

(* lookup in the built object: a key bound once is found with its value *)
Lemma get_insert_same : forall l k v, obj_get k (obj_insert k v l) = Some v.
Proof.
  induction l as [|[k' v'] rest IH]; intros k v.
  - cbn [obj_insert obj_get]. rewrite String.eqb_refl. reflexivity.
  - rewrite obj_insert_cons. destruct (String.eqb k k') eqn:E.
    + cbn [obj_get]. rewrite String.eqb_refl. reflexivity.
    + destruct (string_ltb k k').
      * cbn [obj_get]. rewrite String.eqb_refl. reflexivity.
      * cbn [obj_get]. rewrite E. apply IH.
Qed.

Lemma get_insert_other : forall l k v k0, k0 <> k -> obj_get k0 (obj_insert k v l) = obj_get k0 l.
Proof.
  induction l as [|[k' v'] rest IH]; intros k v k0 Hne.
  - cbn [obj_insert obj_get]. replace (String.eqb k0 k) with false by (symmetry; apply String.eqb_neq; exact Hne). reflexivity.
  - assert (Hf : String.eqb k0 k = false) by (apply String.eqb_neq; exact Hne).
    rewrite obj_insert_cons. destruct (String.eqb k k') eqn:E.
    + apply String.eqb_eq in E. subst k'. cbn [obj_get]. rewrite Hf. reflexivity.
    + destruct (string_ltb k k').
      * cbn [obj_get]. rewrite Hf. reflexivity.
      * cbn [obj_get]. destruct (String.eqb k0 k'); [reflexivity|]. apply IH. exact Hne.
Qed.

Lemma get_ins_all_notin : forall kvs acc k, ~ In k (map fst kvs) -> obj_get k (ins_all kvs acc) = obj_get k acc.
Proof.
  induction kvs as [|[k' v'] kvs IH]; intros acc k Hn; [reflexivity|].
  cbn [ins_all fold_left fst snd]. cbn [map fst] in Hn.
  change (obj_get k (ins_all kvs (obj_insert k' v' acc)) = obj_get k acc).
  rewrite IH by (intro; apply Hn; right; assumption).
  apply get_insert_other. intro E. apply Hn. left. symmetry. exact E.
Qed.

Theorem jobj_of_get : forall kvs k v, NoDup (map fst kvs) -> In (k, v) kvs ->
  exists l, jobj_of kvs = JObj l /\ obj_get k l = Some v.
Proof.
  intros kvs k v Hnd Hin. exists (ins_all kvs []). split; [reflexivity|].
  generalize (@nil (string * json)). revert Hnd Hin.
  induction kvs as [|[k' v'] kvs IH]; intros Hnd Hin acc; [destruct Hin|].
  cbn [ins_all fold_left fst snd]. change (obj_get k (ins_all kvs (obj_insert k' v' acc)) = Some v).
  cbn [map fst] in Hnd. inversion Hnd as [|? ? Hnotin Hnd']. subst.
  destruct Hin as [E|Hin].
  - inversion E. subst k' v'. rewrite get_ins_all_notin by exact Hnotin. apply get_insert_same.
  - apply IH; assumption.
Qed.

(* ---- verification ---- *)
Lemma list_eqb_N_eq : forall a b, digest_eqb a b = true <-> a = b.
Proof.
  unfold digest_eqb. induction a as [|x a IH]; intros [|y b]; cbn [list_eqb]; split; intro H;
    try reflexivity; try discriminate H.
  - apply andb_prop in H. destruct H as [H1 H2]. apply N.eqb_eq in H1. apply IH in H2. subst. reflexivity.
  - inversion H. subst. rewrite N.eqb_refl. cbn [andb]. apply IH. reflexivity.
Qed.

Lemma supported_hash_spec : forall code,
  (supported_hash code = Some HSha2_256 <-> code = sha2_256_code) /\
  (supported_hash code = Some HBlake3_256 <-> code = blake3_256_code) /\
  (supported_hash code = None <-> code <> sha2_256_code /\ code <> blake3_256_code).
Proof.
  intro code. unfold supported_hash.
  destruct (N.eqb_spec code sha2_256_code) as [E1|E1]; [|destruct (N.eqb_spec code blake3_256_code) as [E2|E2]].
  - subst code. split; [split; intro; reflexivity|]. split.
    + split; intro H; [discriminate H|vm_compute in H; discriminate H].
    + split; intro H; [discriminate H|]. destruct H as [H _]. contradiction H. reflexivity.
  - subst code. split.
    + split; intro H; [discriminate H|vm_compute in H; discriminate H].
    + split; [split; intro; reflexivity|]. split; intro H; [discriminate H|]. destruct H as [_ H]. contradiction H. reflexivity.
  - split; [split; intro H; [discriminate H|contradiction]|].
    split; [split; intro H; [discriminate H|contradiction]|]. split; intro; [split; assumption|reflexivity].
Qed.

Section CidVerifyProofs.
  Variable parse_cid : string -> option parsed_cid.
  Variable sha256 : list N -> list N.
  Variable blake3 : list N -> list N.
  Variable bytes_of : json -> list N.

  Notation verify_value := (verify_value parse_cid sha256 blake3 bytes_of).
  Notation verify_raw_value := (verify_raw_value parse_cid sha256 blake3).

  (* verify_value is verify_raw_value on the canonical bytes *)
  Lemma verify_value_as_raw : forall cid v, verify_value cid v = verify_raw_value cid (bytes_of v).
  Proof.
    intros cid v. unfold Cid.verify_value, Cid.verify_raw_value, verify_json_value.
    destruct (parse_cid cid) as [p|]; [|reflexivity].
    destruct (cid_codec p =? json_codec); reflexivity.
  Qed.

  Theorem verify_raw_characterised : C25_verify_raw_stmt parse_cid sha256 blake3.
  Proof.
    intros cid raw. unfold Cid.verify_raw_value. split.
    - intro H. destruct (parse_cid cid) as [p|]; [|discriminate H]. exists p. split; [reflexivity|].
      destruct (cid_codec p =? json_codec) eqn:Ec; cbn [negb] in H; [|discriminate H].
      apply N.eqb_eq in Ec. split; [exact Ec|].
      destruct (supported_hash (cid_hash_code p)) as [alg|] eqn:Es; [|discriminate H].
      destruct (digest_eqb (run_hash sha256 blake3 alg raw) (cid_digest p)) eqn:Ed; [|discriminate H].
      apply list_eqb_N_eq in Ed. destruct (supported_hash_spec (cid_hash_code p)) as (S1 & S2 & _).
      destruct alg; [left; split; [apply S1; exact Es|]|right; split; [apply S2; exact Es|]]; symmetry; exact Ed.
    - intros (p & Hp & Hc & Hd). rewrite Hp, Hc, N.eqb_refl. cbn [negb].
      destruct (supported_hash_spec (cid_hash_code p)) as (S1 & S2 & _).
      destruct Hd as [[Hh Hd]|[Hh Hd]].
      + apply S1 in Hh. rewrite Hh. cbn [run_hash]. rewrite Hd.
        replace (digest_eqb (sha256 raw) (sha256 raw)) with true by (symmetry; apply list_eqb_N_eq; reflexivity). reflexivity.
      + apply S2 in Hh. rewrite Hh. cbn [run_hash]. rewrite Hd.
        replace (digest_eqb (blake3 raw) (blake3 raw)) with true by (symmetry; apply list_eqb_N_eq; reflexivity). reflexivity.
  Qed.

  Theorem verify_characterised : C25_verify_stmt parse_cid sha256 blake3 bytes_of.
  Proof. intros cid v. rewrite verify_value_as_raw. apply verify_raw_characterised. Qed.

  (* every failure, with its error variant *)
  Theorem verify_errors : forall cid v,
    (verify_value cid v = VerErr MalformedCid <-> parse_cid cid = None) /\
    (forall c, verify_value cid v = VerErr (UnsupportedCidCodec c) <->
               exists p, parse_cid cid = Some p /\ cid_codec p = c /\ c <> json_codec) /\
    (forall h, verify_value cid v = VerErr (UnsupportedHashCode h) <->
               exists p, parse_cid cid = Some p /\ cid_codec p = json_codec /\ cid_hash_code p = h /\
                         h <> sha2_256_code /\ h <> blake3_256_code) /\
    (verify_value cid v = VerErr ValueMismatch <->
               exists p alg, parse_cid cid = Some p /\ cid_codec p = json_codec /\
                         supported_hash (cid_hash_code p) = Some alg /\
                         cid_digest p <> run_hash sha256 blake3 alg (bytes_of v)).
  Proof.
    intros cid v. rewrite verify_value_as_raw. unfold Cid.verify_raw_value.
    destruct (parse_cid cid) as [p|] eqn:Ep.
    2:{ repeat split; intros; try reflexivity; try discriminate;
        repeat match goal with H : exists _, _ |- _ => destruct H end;
        repeat match goal with H : _ /\ _ |- _ => destruct H end; discriminate. }
    destruct (cid_codec p =? json_codec) eqn:Ec; cbn [negb].
    - apply N.eqb_eq in Ec.
      destruct (supported_hash_spec (cid_hash_code p)) as (S1 & S2 & S3).
      destruct (supported_hash (cid_hash_code p)) as [alg|] eqn:Es.
      + destruct (digest_eqb (run_hash sha256 blake3 alg (bytes_of v)) (cid_digest p)) eqn:Ed.
        * apply list_eqb_N_eq in Ed.
          repeat split; intros; try discriminate.
          -- destruct H as (q & Hq & H1 & H2). inversion Hq. subst q. congruence.
          -- destruct H as (q & Hq & _ & Hh & H1 & H2). inversion Hq. subst q.
             assert (X : Some alg = None) by (apply S3; subst h; auto). discriminate X.
          -- destruct H as (q & alg' & Hq & _ & Ha & Hd). inversion Hq. subst q.
             rewrite Es in Ha. inversion Ha. subst alg'. congruence.
        * assert (Hne : cid_digest p <> run_hash sha256 blake3 alg (bytes_of v)).
          { intro E. rewrite E in Ed. assert (T : digest_eqb (run_hash sha256 blake3 alg (bytes_of v)) (run_hash sha256 blake3 alg (bytes_of v)) = true)
              by (apply list_eqb_N_eq; reflexivity). congruence. }
          repeat split; intros; try discriminate.
          -- destruct H as (q & Hq & H1 & H2). inversion Hq. subst q. congruence.
          -- destruct H as (q & Hq & _ & Hh & H1 & H2). inversion Hq. subst q.
             assert (X : Some alg = None) by (apply S3; subst h; auto). discriminate X.
          -- exists p, alg. auto.
      + assert (Hn : cid_hash_code p <> sha2_256_code /\ cid_hash_code p <> blake3_256_code) by (apply S3; reflexivity).
        repeat split; intros; try discriminate.
        * destruct H as (q & Hq & H1 & H2). inversion Hq. subst q. congruence.
        * inversion H. subst h. exists p. tauto.
        * destruct H as (q & Hq & _ & Hh & _). inversion Hq. subst q. congruence.
        * destruct H as (q & alg' & Hq & _ & Ha & _). inversion Hq. subst q. congruence.
    - apply N.eqb_neq in Ec.
      repeat split; intros; try discriminate.
      * inversion H. subst c. exists p. auto.
      * destruct H as (q & Hq & H1 & _). inversion Hq. subst q. congruence.
      * destruct H as (q & Hq & H1 & _). inversion Hq. subst q. congruence.
      * destruct H as (q & alg' & Hq & H1 & _). inversion Hq. subst q. congruence.
  Qed.

  (* a digest of another length (in particular a truncated one) never verifies *)
  Theorem truncated_digest_fails : forall cid v p,
    parse_cid cid = Some p ->
    length (cid_digest p) <> length (sha256 (bytes_of v)) -> length (cid_digest p) <> length (blake3 (bytes_of v)) ->
    verify_value cid v <> VerOk.
  Proof.
    intros cid v p Hp H1 H2 H. apply verify_characterised in H. destruct H as (q & Hq & _ & Hd).
    rewrite Hp in Hq. inversion Hq. subst q.
    destruct Hd as [[_ Hd]|[_ Hd]]; rewrite Hd in *; congruence.
  Qed.

End CidVerifyProofs.

Section CidIdProofs.
  Variable parse_cid : string -> option parsed_cid.
  Variable print_cid : parsed_cid -> string.
  Variable sha256 : list N -> list N.
  Variable blake3 : list N -> list N.
  Variable bytes_of : json -> list N.

  Notation verify_value := (verify_value parse_cid sha256 blake3 bytes_of).
  Notation value_to_json_cid := (value_to_json_cid print_cid blake3 bytes_of).
  Notation raw_value_to_json_cid := (raw_value_to_json_cid print_cid blake3).

  (* the id computed for a value verifies against it, when the cid text round-trips *)
  Hypothesis cid_text_roundtrip : forall p, parse_cid (print_cid p) = Some p.

  Theorem own_id_verifies : forall v c, value_to_json_cid v = CidOk c -> verify_value c v = VerOk.
  Proof.
    intros v c H. unfold Cid.value_to_json_cid, Cid.raw_value_to_json_cid in H.
    destruct (lenN' (blake3 (bytes_of v)) <=? multihash_max_digest); [|discriminate H].
    inversion H. apply (verify_characterised parse_cid sha256 blake3 bytes_of). eexists. split; [apply cid_text_roundtrip|].
    cbn [cid_codec cid_hash_code cid_digest]. split; [reflexivity|]. right. split; reflexivity.
  Qed.

  Theorem value_id_is_raw_id : forall v, value_to_json_cid v = raw_value_to_json_cid (bytes_of v).
  Proof. reflexivity. Qed.

  (* no crash when the hash has its nominal length *)
  Theorem id_total : forall v, length (blake3 (bytes_of v)) = 32%nat -> exists c, value_to_json_cid v = CidOk c.
  Proof.
    intros v H. unfold Cid.value_to_json_cid, Cid.raw_value_to_json_cid.
    assert (E : lenN' (blake3 (bytes_of v)) = 32).
    { assert (G : forall l, lenN' l = N.of_nat (length l)).
      { induction l as [|x l IH]; [reflexivity|]. cbn [lenN' length]. rewrite IH, Nat2N.inj_succ. reflexivity. }
      rewrite G, H. reflexivity. }
    rewrite E. eexists. reflexivity.
  Qed.

  (* canonical: the id of an object does not depend on the order its members were inserted in *)
  Theorem id_insertion_order_free : forall kvs kvs', Permutation kvs kvs' -> NoDup (map fst kvs) ->
    value_to_json_cid (jobj_of kvs) = value_to_json_cid (jobj_of kvs').
  Proof. intros kvs kvs' HP Hnd. rewrite (jobj_of_perm _ _ HP Hnd). reflexivity. Qed.

  (* different values get different ids, under collision-freeness and injectivity of the outside parts *)
  Theorem distinct_values_distinct_ids :
    (forall a b, blake3 a = blake3 b -> a = b) ->
    (forall v w, bytes_of v = bytes_of w -> v = w) ->
    forall v w c, value_to_json_cid v = CidOk c -> value_to_json_cid w = CidOk c -> v = w.
  Proof.
    intros Hinj Hb v w c Hv Hw. unfold Cid.value_to_json_cid, Cid.raw_value_to_json_cid in *.
    destruct (lenN' (blake3 (bytes_of v)) <=? multihash_max_digest); [|discriminate Hv].
    destruct (lenN' (blake3 (bytes_of w)) <=? multihash_max_digest); [|discriminate Hw].
    inversion Hv as [E1]. inversion Hw as [E2]. rewrite <- E2 in E1.
    apply (f_equal parse_cid) in E1. rewrite !cid_text_roundtrip in E1. inversion E1 as [E].
    apply Hb, Hinj. exact E.
  Qed.
End CidIdProofs.

Lemma cid_constants_ok : cid_constants_agree = true.
Proof. vm_compute. reflexivity. Qed.
