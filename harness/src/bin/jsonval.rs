//! `jsonval`: driver of C26 (the interpreter's JSON value type is faithful to JSON).
//! One JSON case per input line -> one JSON line {"coq": [case_t terms], "classes": [...], "info": [...]}.
//!
//! cases
//!   {"kind":"text", "text": T, "other": T2?, "mixed": M?}
//!        T is parsed by serde_json::from_str::<JValue> and by serde_json::from_str::<serde_json::Value>  -> CText
//!        when the standard parse succeeds: v = JValue::from(std)                                   -> CValue
//!        when T2 parses too: w = JValue::from(std2), v == w                                        -> CEq
//!   {"kind":"deep", "depth": k, "shape": "array"|"object"|"mixed", "mixed": M?}
//!        a value nested k containers deep, built with the JValue constructors                      -> CValue
//!   {"kind":"f64", "bits": "<u64>", "other_bits": "<u64>"?, "mixed": M?}
//!        JValue::from(f64::from_bits(bits)) (Null when not finite)                                 -> CValue (+ CEq)
//!   M = {"i64": ["-1",..], "u64": [..], "f64_bits": [..], "f32_bits": [..], "str": [..], "bool": [true,..]}
//!
//! All values are printed in the concrete syntax of model/Json.v (`json`), object members in the
//! iteration order of the implementation's own map; floats as serde_json's own text.

use air_interpreter_value::JValue;
use aquah::coqfmt as c;
use aquah::sim::*;
use serde_json::Value as J;
use std::io::BufRead;

/// Coq string term: a literal for printable ASCII, `(hx "..")` otherwise
fn cs(x: &str) -> String {
    if x.bytes().all(|b| (0x20..0x7f).contains(&b)) {
        c::s(x)
    } else {
        let mut h = String::with_capacity(x.len() * 2 + 8);
        for b in x.bytes() {
            h.push_str(&format!("{:02x}", b));
        }
        format!("(hx \"{}\")", h)
    }
}

fn num_term(n: &serde_json::Number) -> String {
    if let Some(u) = n.as_u64() {
        format!("(JInt {}%Z)", u)
    } else if let Some(i) = n.as_i64() {
        format!("(JInt ({})%Z)", i)
    } else {
        format!("(JFloat {})", cs(&n.to_string()))
    }
}

fn jv_term(v: &JValue) -> String {
    match v {
        JValue::Null => "JNull".into(),
        JValue::Bool(b) => format!("(JBool {})", c::b(*b)),
        JValue::Number(n) => num_term(n),
        JValue::String(s) => format!("(JStr {})", cs(s)),
        JValue::Array(a) => format!("(JArr {})", c::list(a.iter().map(jv_term))),
        JValue::Object(o) => format!("(JObj {})", c::list(o.iter().map(|(k, x)| format!("({}, {})", cs(k), jv_term(x))))),
    }
}

fn std_term(v: &J) -> String {
    match v {
        J::Null => "JNull".into(),
        J::Bool(b) => format!("(JBool {})", c::b(*b)),
        J::Number(n) => num_term(n),
        J::String(s) => format!("(JStr {})", cs(s)),
        J::Array(a) => format!("(JArr {})", c::list(a.iter().map(std_term))),
        J::Object(o) => format!("(JObj {})", c::list(o.iter().map(|(k, x)| format!("({}, {})", cs(k), std_term(x))))),
    }
}

fn depth_of(v: &JValue) -> usize {
    match v {
        JValue::Array(a) => 1 + a.iter().map(depth_of).max().unwrap_or(0),
        JValue::Object(o) => 1 + o.values().map(depth_of).max().unwrap_or(0),
        _ => 0,
    }
}

fn kinds_of(v: &JValue, out: &mut Vec<String>) {
    match v {
        JValue::Null => out.push("null".into()),
        JValue::Bool(_) => out.push("bool".into()),
        JValue::Number(n) => out.push(if n.is_f64() { "float".into() } else if n.is_u64() { "uint".into() } else { "negint".into() }),
        JValue::String(s) => {
            out.push("string".into());
            if s.bytes().any(|b| b < 0x20) { out.push("str:control".into()); }
            if s.bytes().any(|b| b == b'"' || b == b'\\') { out.push("str:quote-backslash".into()); }
            if s.chars().any(|ch| (ch as u32) >= 0x80 && (ch as u32) < 0x10000) { out.push("str:bmp-non-ascii".into()); }
            if s.chars().any(|ch| (ch as u32) >= 0x10000) { out.push("str:non-bmp".into()); }
        }
        JValue::Array(a) => {
            out.push(if a.is_empty() { "array:empty".into() } else { "array".into() });
            a.iter().for_each(|x| kinds_of(x, out));
        }
        JValue::Object(o) => {
            out.push(if o.is_empty() { "object:empty".into() } else { "object".into() });
            o.values().for_each(|x| kinds_of(x, out));
        }
    }
}

/// how two values differ: "none", "float-only" (only float leaves differ), "other"
fn diff(a: &JValue, b: &JValue) -> &'static str {
    fn go(a: &JValue, b: &JValue, float_diff: &mut bool) -> bool {
        match (a, b) {
            (JValue::Number(x), JValue::Number(y)) => {
                if x.to_string() == y.to_string() && x.is_f64() == y.is_f64() && x.is_u64() == y.is_u64() {
                    true
                } else if x.is_f64() && y.is_f64() {
                    *float_diff = true;
                    true
                } else {
                    false
                }
            }
            (JValue::Array(x), JValue::Array(y)) => x.len() == y.len() && x.iter().zip(y.iter()).all(|(p, q)| go(p, q, float_diff)),
            (JValue::Object(x), JValue::Object(y)) => {
                x.len() == y.len() && x.iter().zip(y.iter()).all(|((k1, p), (k2, q))| k1 == k2 && go(p, q, float_diff))
            }
            (JValue::Null, JValue::Null) => true,
            (JValue::Bool(x), JValue::Bool(y)) => x == y,
            (JValue::String(x), JValue::String(y)) => x == y,
            _ => false,
        }
    }
    let mut fd = false;
    if !go(a, b, &mut fd) {
        "other"
    } else if fd {
        "float-only"
    } else {
        "none"
    }
}

/// The number tokens of a text (outside string literals), each read alone by serde_json::from_str::<JValue>:
/// `(token, Some canonical)` for a float, `(token, None)` when rejected; integer tokens are not listed.
/// The token grammar is the one of the model's lexer: -? (0|[1-9][0-9]*) (\.[0-9]+)? ([eE][+-]?[0-9]+)?
fn float_table(text: &str) -> String {
    let b = text.as_bytes();
    let mut i = 0;
    let mut seen: Vec<String> = vec![];
    let mut items = vec![];
    let mut in_str = false;
    while i < b.len() {
        let ch = b[i];
        if in_str {
            if ch == b'\\' { i += 2; continue; }
            if ch == b'"' { in_str = false; }
            i += 1;
            continue;
        }
        if ch == b'"' { in_str = true; i += 1; continue; }
        if ch == b'-' || ch.is_ascii_digit() {
            let start = i;
            let mut j = i;
            if b[j] == b'-' { j += 1; }
            let d0 = j;
            while j < b.len() && b[j].is_ascii_digit() { j += 1; }
            if j == d0 { i = j.max(start + 1); continue; }
            if j < b.len() && b[j] == b'.' {
                let mut k = j + 1;
                while k < b.len() && b[k].is_ascii_digit() { k += 1; }
                if k > j + 1 { j = k; }
            }
            if j < b.len() && (b[j] == b'e' || b[j] == b'E') {
                let mut k = j + 1;
                if k < b.len() && (b[k] == b'+' || b[k] == b'-') { k += 1; }
                let e0 = k;
                while k < b.len() && b[k].is_ascii_digit() { k += 1; }
                if k > e0 { j = k; }
            }
            let tok = &text[start..j];
            if !seen.iter().any(|t| t == tok) {
                seen.push(tok.to_string());
                match serde_json::from_str::<JValue>(tok) {
                    Ok(JValue::Number(n)) if n.is_f64() => items.push(format!("({}, Some {})", cs(tok), cs(&n.to_string()))),
                    Ok(_) => {}
                    Err(_) => items.push(format!("({}, None)", cs(tok))),
                }
            }
            i = j;
            continue;
        }
        i += 1;
    }
    c::list(items)
}

fn parse_u64s(m: &J, key: &str) -> Vec<u64> {
    m[key].as_array().map(|a| a.iter().filter_map(|x| x.as_str().and_then(|s| s.parse::<u64>().ok())).collect()).unwrap_or_default()
}

fn f64_text(f: f64) -> Option<String> {
    serde_json::Number::from_f64(f).map(|n| n.to_string())
}

fn mixed_terms(v: &JValue, std: &J, m: &J) -> Vec<String> {
    let mut out = vec![];
    if let Some(a) = m["i64"].as_array() {
        for x in a.iter().filter_map(|x| x.as_str().and_then(|s| s.parse::<i64>().ok())) {
            out.push(format!("MI64 {} {} {} {}", c::z(x as i128), jv_term(&JValue::from(x)), c::b(*v == x), c::b(*std == x)));
        }
    }
    for x in parse_u64s(m, "u64") {
        out.push(format!("MU64 {} {} {} {}", c::z(x as i128), jv_term(&JValue::from(x)), c::b(*v == x), c::b(*std == x)));
    }
    if let Some(a) = m["bool"].as_array() {
        for x in a.iter().filter_map(|x| x.as_bool()) {
            out.push(format!("MBool {} {} {} {}", c::b(x), jv_term(&JValue::from(x)), c::b(*v == x), c::b(*std == x)));
        }
    }
    if let Some(a) = m["str"].as_array() {
        for x in a.iter().filter_map(|x| x.as_str()) {
            let owned: String = x.to_string();
            // all three spellings of the string comparison must agree
            let r = *v == x;
            let r2 = *v == owned;
            let r3 = *x == *v;
            let obs = if r == r2 && r2 == r3 { r } else { !(JValue::from(x) == *v) };
            out.push(format!("MStr {} {} {} {}", cs(x), jv_term(&JValue::from(x)), c::b(obs), c::b(*std == x)));
        }
    }
    for bits in parse_u64s(m, "f64_bits") {
        let f = f64::from_bits(bits);
        if let Some(t) = f64_text(f) {
            out.push(format!("MF64 {} {} {} {}", cs(&t), jv_term(&JValue::from(f)), c::b(*v == f), c::b(*std == f)));
        }
    }
    for bits in parse_u64s(m, "f32_bits") {
        let f = f32::from_bits(bits as u32);
        if let Some(t) = f64_text(f as f64) {
            out.push(format!("MF32 {} {} {} {}", cs(&t), jv_term(&JValue::from(f)), c::b(*v == f), c::b(*v == (f as f64))));
        }
    }
    out
}

struct Out {
    terms: Vec<String>,
    classes: Vec<String>,
    infos: Vec<J>,
}

fn value_case(v: &JValue, m: &J, out: &mut Out, origin: &str) {
    let text = v.to_string();
    let reparsed = serde_json::from_str::<JValue>(&text);
    let std: J = match serde_json::to_value(v) {
        Ok(s) => s,
        Err(e) => {
            out.infos.push(serde_json::json!({"kind": "value", "error": format!("to_value failed: {e}")}));
            out.classes.push("value/to_value-error".into());
            out.terms.push(format!("CValue {} {} None false JNull false [] None []", jv_term(v), cs(&text)));
            return;
        }
    };
    let back = JValue::from(&std);
    // the other direction std -> JValue through Deserialize must agree with From
    let back2 = serde_json::from_value::<JValue>(std.clone()).ok();
    let back_eq = back == *v && back2.as_ref().map_or(false, |b2| *b2 == *v && diff(b2, v) == "none");
    let (re_term, re_eq, d) = match &reparsed {
        Ok(r) => (format!("(Some {})", jv_term(r)), *r == *v, diff(r, v)),
        Err(_) => ("None".to_string(), false, "rejected"),
    };
    let as_f64 = match v.as_f64() {
        Some(f) => match f64_text(f) { Some(t) => format!("(Some {})", cs(&t)), None => "None".into() },
        None => "None".into(),
    };
    let mixed = mixed_terms(v, &std, m);
    out.terms.push(format!(
        "CValue {} {} {} {} {} {} {} {} {}",
        jv_term(v), cs(&text), re_term, c::b(re_eq), jv_term(&back), c::b(back_eq), float_table(&text), as_f64,
        c::list(mixed.into_iter())
    ));
    let mut kinds = vec![];
    kinds_of(v, &mut kinds);
    kinds.sort();
    kinds.dedup();
    let depth = depth_of(v);
    out.classes.push(format!("value/{}", origin));
    for k in &kinds { out.classes.push(format!("kind/{}", k)); }
    out.infos.push(serde_json::json!({"kind": "value", "origin": origin, "depth": depth, "reparse": d, "kinds": kinds,
                                      "canonical": if text.len() <= 300 { text.clone() } else { format!("{}..#{}", &text[..200], text.len()) }}));
}

fn build_deep(depth: u64, shape: &str) -> JValue {
    let mut v = JValue::from(7u64);
    for i in 0..depth {
        let as_array = match shape { "array" => true, "object" => false, _ => i % 2 == 0 };
        v = if as_array { JValue::array(vec![v]) } else { JValue::object_from_pairs(vec![("k", v)]) };
    }
    v
}

fn run_case(case: &J) -> J {
    let mut out = Out { terms: vec![], classes: vec![], infos: vec![] };
    let m = &case["mixed"];
    match case["kind"].as_str().unwrap_or("text") {
        "deep" => {
            let v = build_deep(case["depth"].as_u64().unwrap_or(1).min(400), case["shape"].as_str().unwrap_or("array"));
            value_case(&v, m, &mut out, "deep");
        }
        "f64" => {
            let bits = case["bits"].as_str().and_then(|s| s.parse::<u64>().ok()).unwrap_or(0);
            let v = JValue::from(f64::from_bits(bits));
            value_case(&v, m, &mut out, "f64");
            if let Some(ob) = case["other_bits"].as_str().and_then(|s| s.parse::<u64>().ok()) {
                let w = JValue::from(f64::from_bits(ob));
                eq_case(&v, &w, &mut out);
            }
        }
        _ => {
            let text = case["text"].as_str().unwrap_or("");
            let r = serde_json::from_str::<JValue>(text);
            let s = serde_json::from_str::<J>(text);
            let rt = match &r { Ok(v) => format!("(Some {})", jv_term(v)), Err(_) => "None".into() };
            let st = match &s { Ok(v) => format!("(Some {})", std_term(v)), Err(_) => "None".into() };
            out.terms.push(format!("CText {} {} {} {}", cs(text), rt, st, float_table(text)));
            let cls = match &r {
                Ok(_) => "text/accepted".to_string(),
                Err(e) => {
                    // the error kind: serde_json's message without its position
                    let msg = e.to_string();
                    let kind = msg.split(" at line").next().unwrap_or("").to_string();
                    format!("text/rejected/{}", kind)
                }
            };
            out.classes.push(cls.clone());
            out.infos.push(serde_json::json!({"kind": "text", "class": cls, "error": r.as_ref().err().map(|e| e.to_string())}));
            if let Ok(sv) = &s {
                let v = JValue::from(sv);
                value_case(&v, m, &mut out, "text");
                if let Some(t2) = case["other"].as_str() {
                    if let Ok(s2) = serde_json::from_str::<J>(t2) {
                        let w = JValue::from(&s2);
                        eq_case(&v, &w, &mut out);
                    }
                }
            }
        }
    }
    serde_json::json!({"coq": out.terms, "classes": out.classes, "info": out.infos})
}

fn eq_case(v: &JValue, w: &JValue, out: &mut Out) {
    let e = *v == *w && *w == *v;
    let e_sym_ok = (*v == *w) == (*w == *v);
    let sv = serde_json::to_value(v).unwrap_or(J::Null);
    let sw = serde_json::to_value(w).unwrap_or(J::Null);
    // an asymmetric == would be reported as a disagreement with the standard type
    let se = if e_sym_ok { sv == sw } else { !e };
    out.terms.push(format!("CEq {} {} {} {}", jv_term(v), jv_term(w), c::b(e), c::b(se)));
    out.classes.push(format!("eq/{}", if e { "equal" } else { "different" }));
    out.infos.push(serde_json::json!({"kind": "eq", "equal": e}));
}

fn main() {
    quiet_panics();
    let stdin = std::io::stdin();
    for line in stdin.lock().lines() {
        let line = match line { Ok(l) => l, Err(_) => break };
        if line.trim().is_empty() { continue; }
        let case: J = match serde_json::from_str(&line) {
            Ok(cj) => cj,
            Err(e) => { println!("{}", serde_json::json!({"error": format!("bad case: {e}")})); continue; }
        };
        let res = std::panic::catch_unwind(|| run_case(&case));
        match res {
            Ok(j) => println!("{}", j),
            Err(_) => println!("{}", serde_json::json!({"error": "panic in the implementation", "case": case})),
        }
    }
}
