(* CrashExecProofs.v -- C01: local lemmas about the crash outcomes of the executor model (Exec.v)
   and the stream component (Stream.v, proofs by StreamProofs.v).

   * sites repaired by the fix: commits now return errors (positive lemmas, for all inputs);
   * the `remove(0)` sites of fail.rs / apply_to_arguments.rs always see exactly one tetraplet;
   * iterable cursors stay in range under foldable_next! / foldable_prev!, so `peek` is defined on
     every iterable built by the fold instructions;
   * allocation measure of Stream::add_value. *)
From Coq Require Import Lia.
From Aqua Require Import Base Json Air Trace Handler HandlerCases Values Scalars Lens Stream Exec CrashCases Catalogue CrashSpec.
From Aqua Require StreamProofs.
Open Scope N_scope.
Open Scope list_scope.

Definition pres_no_crash {A} (r : pres A) : Prop := match r with PCrash _ => False | _ => True end.
Definition xres_no_crash (r : xres) : Prop := match r with XCrash _ => False | _ => True end.

(* ------------------------------------------------------------------------------------------ *)
(* scalar_variables.rs Scalars::get_value: since the fix the (scalar, iterator) name clash is
   UncatchableError::IterableShadowing, not unreachable!() *)
Lemma scalars_get_value_no_crash : forall x name, pres_no_crash (scalars_get_value x name).
Proof.
  intros x name. unfold scalars_get_value.
  destruct (Scalars.get_value vagg (x_scalars x) name) as [[a|]|e]; destruct (iter_get (x_iterables x) name); exact I.
Qed.

(* the clash itself is still constructible (a scalar and a fold iterator with one name): the model
   answers with the uncatchable error *)
Definition clash_answer (x : ctx) (name : string) : Prop :=
  scalars_get_value x name = PErr (EUncatch (UIterableShadowing name)).

(* cid_state.rs resolve_service_info never panics (since the fix of RawValue: try_get_value) *)
Lemma resolve_service_info_no_crash : forall x c, pres_no_crash (resolve_service_info x c).
Proof.
  intros x c. unfold resolve_service_info.
  repeat match goal with |- context [match ?y with _ => _ end] => destruct y end; exact I.
Qed.

Lemma verify_call_no_crash : forall a b c d, pres_no_crash (verify_call a b c d).
Proof. intros. unfold verify_call. repeat match goal with |- context [if ?y then _ else _] => destruct y end; exact I. Qed.

(* prev_result_handler.rs handle_prev_state: a state met while the call's arguments are still
   unresolved (argument_hash = None) is an InstructionParametersMismatch / a wait, never a panic *)
Lemma handle_prev_state_unresolved_no_crash : forall x met pos src t out,
  xres_no_crash (fst (handle_prev_state x met pos src t None out)).
Proof.
  intros x met pos src t out. unfold handle_prev_state.
  destruct met as [[p|p id]|v|fc]; simpl.
  - destruct (String.eqb (tp_peer t) (current_peer x)); exact I.
  - destruct (String.eqb p (current_peer x)).
    + destruct (results_take (x_call_results x) id) as [[ans|] rest]; exact I.
    + destruct (String.eqb (tp_peer t) (current_peer x)); exact I.
  - exact I.
  - pose proof (resolve_service_info_no_crash x fc) as R.
    destruct (resolve_service_info x fc); simpl in *; auto.
Qed.

(* ------------------------------------------------------------------------------------------ *)
(* `tetraplets.remove(0)`: the resolvers used by fail / ap return exactly one tetraplet *)

Lemma scalar_ref_parts_shape : forall r p, scalar_ref_parts r = POk p -> True.
Proof. auto. Qed.

Lemma resolve_scalar_one_tetraplet : forall x name r, resolve_scalar x name = POk r -> exists t, snd (fst r) = [t].
Proof.
  intros x name r H. unfold resolve_scalar in H.
  destruct (scalars_get_value x name) as [sr|e|s|w]; simpl in H; try discriminate.
  destruct (scalar_ref_parts sr) as [[[j t] pr]|e|s|w]; simpl in H; try discriminate.
  inversion H; subst; simpl. eauto.
Qed.

Lemma resolve_scalar_l_one_tetraplet : forall x v r, resolve_scalar_l x v = POk r -> exists t, snd (fst r) = [t].
Proof.
  intros x v r H. unfold resolve_scalar_l in H.
  destruct (scalars_get_value x (vl_name v)) as [sr|e|s|w]; simpl in H; try discriminate.
  destruct (scalar_ref_parts sr) as [[[j t] pr]|e|s|w]; simpl in H; try discriminate.
  destruct (of_lres (select_by_lambda_from_scalar (lens_env x) j (vl_lambda v))) as [sel|e|s|w]; simpl in H; try discriminate.
  inversion H; subst; simpl. eauto.
Qed.

Lemma resolve_canon_l_one_tetraplet : forall x v r, resolve_canon_l x v = POk r -> exists t, snd (fst r) = [t].
Proof.
  intros x v r H. unfold resolve_canon_l in H.
  destruct (get_canon_stream x (vl_name v)) as [c|e|s|w]; simpl in H; try discriminate.
  destruct (of_lres (select_by_lambda_from_stream (lens_env x) (map va_result (cw_values c)) (vl_lambda v))) as [sel|e|s|w];
    simpl in H; try discriminate.
  destruct (vl_lambda v) as [|path].
  - inversion H; subst; simpl. eauto.
  - destruct (of_lres (split_to_idx (lens_env x) path)) as [ib|e|s|w]; simpl in H; try discriminate.
    destruct (nth_N (cw_values c) (fst ib)); try discriminate.
    inversion H; subst; simpl. eauto.
Qed.

Lemma resolve_errors_one_tetraplet : forall x ie lens r, resolve_errors x ie lens = POk r -> exists t, snd (fst r) = [t].
Proof.
  intros x ie lens r H. unfold resolve_errors in H.
  destruct lens as [l|]; simpl in H.
  - destruct (of_lres (select_by_lambda_from_scalar (lens_env x) (ie_error ie) l)) as [j|e|s|w]; simpl in H; try discriminate.
    inversion H; subst; simpl. destruct (ie_tetraplet ie); eauto.
  - inversion H; subst; simpl. destruct (ie_tetraplet ie); eauto.
Qed.

(* fail.rs fail_with_scalar / fail_with_scalar_wl / fail_with_canon_stream *)
Definition fail_tetraplets_nonempty_stmt : Prop :=
  (forall x name r, resolve_scalar x name = POk r -> snd (fst r) <> []) /\
  (forall x v r, resolve_scalar_l x v = POk r -> snd (fst r) <> []) /\
  (forall x v r, resolve_canon_l x v = POk r -> snd (fst r) <> []).
Lemma fail_tetraplets_nonempty : fail_tetraplets_nonempty_stmt.
Proof.
  repeat split; intros.
  - destruct (resolve_scalar_one_tetraplet _ _ _ H) as [t E]. rewrite E. discriminate.
  - destruct (resolve_scalar_l_one_tetraplet _ _ _ H) as [t E]. rewrite E. discriminate.
  - destruct (resolve_canon_l_one_tetraplet _ _ _ H) as [t E]. rewrite E. discriminate.
Qed.

(* apply_to_arguments.rs apply_error / apply_last_error / apply_scalar_wl (and the canon-with-lens form) *)
Definition ap_tetraplets_nonempty_stmt : Prop :=
  (forall x ie lens r, resolve_errors x ie lens = POk r -> snd (fst r) <> []) /\
  (forall x v r, resolve_scalar_l x v = POk r -> snd (fst r) <> []) /\
  (forall x v r, resolve_canon_l x v = POk r -> snd (fst r) <> []).
Lemma ap_tetraplets_nonempty : ap_tetraplets_nonempty_stmt.
Proof.
  repeat split; intros.
  - destruct (resolve_errors_one_tetraplet _ _ _ _ H) as [t E]. rewrite E. discriminate.
  - destruct (resolve_scalar_l_one_tetraplet _ _ _ H) as [t E]. rewrite E. discriminate.
  - destruct (resolve_canon_l_one_tetraplet _ _ _ H) as [t E]. rewrite E. discriminate.
Qed.

(* ------------------------------------------------------------------------------------------ *)
(* iterables: foldable_next! / foldable_prev! keep the cursor inside, so peek is defined *)

(* Exec.v uses Lens.nth_N (structural) *)
Lemma nth_N_lt_some : forall A (l : list A) n, n < len_N l -> Lens.nth_N l n <> None.
Proof.
  intros A l. induction l as [|x r IH]; intros n H.
  - unfold len_N in H; simpl in H. lia.
  - simpl. destruct (N.eqb_spec n 0); [discriminate|].
    apply IH. unfold len_N in *. simpl length in H. lia.
Qed.

Lemma it_peek_defined : forall i, it_wf i -> it_peek i <> None.
Proof.
  intros i [L S]. destruct i as [v c l|items t p c|vs c|vs c]; simpl in *.
  - destruct S as [arr [E1 E2]]. rewrite E1. subst l.
    pose proof (nth_N_lt_some _ arr c L). destruct (nth_N arr c); [discriminate|congruence].
  - pose proof (nth_N_lt_some _ items c L). destruct (nth_N items c); [discriminate|congruence].
  - pose proof (nth_N_lt_some _ vs c L). destruct (nth_N vs c); [discriminate|congruence].
  - pose proof (nth_N_lt_some _ vs c L). destruct (nth_N vs c); [discriminate|congruence].
Qed.

Lemma it_next_in_range : forall i b i', it_wf i -> it_next i = (b, i') -> it_wf i'.
Proof.
  intros i b i' [L S] H. unfold it_next in H.
  destruct (N.ltb_spec (it_cursor i + 1) (it_len i)); inversion H; subst; [|split; assumption].
  destruct i; simpl in *; (split; [simpl; lia|auto]).
Qed.

Lemma it_prev_in_range : forall i b i', it_wf i -> it_prev i = (b, i') -> it_wf i'.
Proof.
  intros i b i' [L S] H. unfold it_prev in H.
  destruct (N.leb_spec 1 (it_cursor i)); inversion H; subst; [|split; assumption].
  destruct i; simpl in *; (split; [simpl; lia|auto]).
Qed.

(* the iterables the fold instructions build are well formed *)
Lemma from_value_wf : forall v name i, from_value v name = POk (FoldOver i) -> it_wf i.
Proof.
  intros v name i H. unfold from_value in H.
  destruct (va_result v) as [ | | | | |arr| ] eqn:E; try discriminate.
  destruct arr as [|a r]; try discriminate. inversion H; subst. split; simpl.
  - unfold len_N; simpl. lia.
  - exists (a :: r). split; [exact E|reflexivity].
Qed.

Lemma from_jvalue_wf : forall j t p l i, from_jvalue j t p l = POk (FoldOver i) -> it_wf i.
Proof.
  intros j t p l i H. unfold from_jvalue in H.
  destruct j as [ | | | | |arr| ]; try discriminate.
  destruct arr as [|a r]; try discriminate. inversion H; subst. split; simpl; auto.
  unfold len_N; simpl. lia.
Qed.

(* ------------------------------------------------------------------------------------------ *)
(* streams: Stream::add_value (values_matrix.rs Stream.add_value_to_generation under the generation guard) *)

Section StreamAlloc.
  Variable V : Type.

  (* rows `resize` allocates in one matrix: never more than generation + 1 -- which is NOT bounded by the
     size of the input: the generation is a 32-bit field of one trace state *)
  Lemma matrix_rows_le_generation : forall (m : Stream.matrix V) g, Stream.matrix_grow_rows V m g <= g + 1.
  Proof. intros m g. unfold Stream.matrix_grow_rows. destruct (m_len m <=? g); lia. Qed.

  Lemma matrix_rows_attained : forall g, Stream.matrix_grow_rows V (Stream.matrix_new V) g = g + 1.
  Proof. intros g. unfold Stream.matrix_grow_rows, Stream.matrix_new; cbn [m_len]. destruct (N.leb_spec 0 g); lia. Qed.

  (* the unguarded matrix operation still accepts any generation below 2^32 - 1 (the guard lives in Stream::add_value) *)
  Lemma matrix_add_accepts_huge_generation : forall v,
    exists m', Stream.add_value_to_generation V (Stream.matrix_new V) v 3405691582 = Stream.SOk m' /\ Stream.matrix_grow_rows V (Stream.matrix_new V) 3405691582 = 3405691583.
  Proof. intros v. eexists. split; vm_compute; reflexivity. Qed.

  (* since the fix: an accepted add_value allocates at most STREAM_MAX_SIZE rows *)
  Lemma stream_add_value_rows_bounded : forall (s s' : Stream.stream V) v g,
    Stream.stream_add_value V s v g = Stream.SOk s' -> Stream.stream_grow_rows V s g <= stream_max_size.
  Proof.
    intros s s' v g H. apply StreamProofs.add_value_resize_bounded.
    eapply StreamProofs.stream_add_in_range. exact H.
  Qed.

  (* and it cannot reach `checked_add(1).unwrap()` *)
  Lemma stream_add_value_no_crash : forall (s : Stream.stream V) v g, Stream.stream_add_value V s v g <> Stream.SCrash Stream.SiteGenCheckedAddOne.
  Proof. intros. apply StreamProofs.add_value_no_checked_add_crash. Qed.

  (* a crafted generation index is refused before anything is allocated *)
  Lemma stream_add_value_refuses_crafted_generation : forall (s : Stream.stream V) v n,
    stream_max_size <= n ->
    Stream.stream_add_value V s v (Stream.GCurrent n) = Stream.SErr Stream.StreamSizeLimitExceeded /\
    Stream.stream_add_value V s v (Stream.GPrevious n) = Stream.SErr Stream.StreamSizeLimitExceeded.
  Proof.
    intros s v n H. split; apply StreamProofs.add_value_refused_untouched; simpl; apply N.ltb_ge; exact H.
  Qed.
End StreamAlloc.
