(* KeepExec.v -- C09 over the executor model: the executor drives the trace handler by the call/par
   protocol and re-emits what the call merger met (C09_exec_driven_stmt); a run that returns new
   data keeps every result when the windows of that run are consumed (C09_consumed_partial_stmt);
   the compactification of stream generations at the end of a run does not touch any result. *)
From Coq Require Import Lia.
From Aqua Require Import Base Json Air Trace Handler Values Scalars Lens Exec RunExec ExecStreams ExecCases KeepSpec.
From Aqua Require Import KeepProofs KeepHandler.
From Aqua Require Stream.
Open Scope N_scope.
Open Scope list_scope.

Lemma drive_app : forall C ceqb b ds1 ds2 h h1,
  drive C ceqb b ds1 h = Some (Ok h1) -> drive C ceqb b (ds1 ++ ds2) h = drive C ceqb b ds2 h1.
Proof.
  intros C ceqb b ds1. induction ds1 as [| d ds1 IH]; intros ds2 h h1 H; cbn [drive app] in *.
  - inversion H; subst. reflexivity.
  - destruct (drive_tree C ceqb b d h) as [[h' | |] |]; try discriminate H. apply IH. exact H.
Qed.

Lemma drive_single : forall C ceqb b d h h1,
  drive_tree C ceqb b d h = Some (Ok h1) -> drive C ceqb b [d] h = Some (Ok h1).
Proof. intros C ceqb b d h h1 H. cbn [drive]. rewrite H. reflexivity. Qed.

Theorem exec_is_driven : C09_exec_driven_stmt.
Proof.
  intros E Hoff. apply keep_inv.
  - intros x. exists []. reflexivity.
  - intros x y z [d1 H1] [d2 H2]. exists (d1 ++ d2). unfold driven in *. rewrite (drive_app _ _ _ _ _ _ _ H1). exact H2.
  - intros x y _ Eh. exists []. unfold driven. rewrite Eh. reflexivity.
  - intros x text tr args out. apply xsat_to_xres_sat.
    eapply xsat_impl; [| apply exec_call_spec]. intros y [_ [Eh | [push Hd]]].
    + exists []. unfold driven. rewrite Eh. reflexivity.
    + exists [DCall push]. apply drive_single. exact Hd.
  - intros x h1 y1 h2 y2 h3 Es [dl Hl] E2 [dr Hr] E3. cbn [x_handler set_handler] in *.
    exists [DPar dl dr]. apply drive_single. rewrite drive_tree_par, Es. unfold driven in *. rewrite Hl. cbn [andb].
    rewrite E2, Hr. rewrite E3. reflexivity.
  - intros run _ i x r Hr. rewrite Hoff in Hr. discriminate Hr.
Qed.

(* ---- the first handler of a run ---- *)

Lemma window_slider_new : forall C (t : list (state C)), window C (slider_new C t) = t.
Proof.
  intros C t. unfold window, slider_new, subtrace_len. cbn. rewrite N.sub_0_r.
  unfold len_N. rewrite Nat2N.id. apply firstn_all.
Qed.
Lemma handler_from_ok : forall C p c, len_N p <= Handler.u32_max -> len_N c <= Handler.u32_max ->
  handler_ok C (handler_from C p c).
Proof. intros C p c Hp Hc. split; (split; [| split]); cbn; lia. Qed.

Lemma strict_forest_is_run : forall C ceqb ds h r,
  drive C ceqb true ds h = Some r -> drive C ceqb false ds h = Some r.
Proof.
  intros C ceqb ds. induction ds as [| d ds IH]; intros h r H; cbn [drive] in *; [exact H |].
  destruct (drive_tree C ceqb true d h) as [[h1 | |] |] eqn:E1; try discriminate H;
    rewrite (strict_tree_is_run C ceqb d _ _ E1); [apply IH; exact H | exact H | exact H].
Qed.

Theorem consumed_partial : C09_consumed_partial_stmt.
Proof.
  intros E finish Hoff Hfin fuel i code d next reqs signed Lp Lc Hrun. unfold run in Hrun.
  pose proof (exec_is_driven E Hoff fuel (ri_script i) (initial_ctx i)) as Hd.
  set (h0 := handler_from cid (d_trace (ri_prev i)) (d_trace (ri_cur i))).
  assert (Hpop : forall c x, (match finish x with
                              | inr u => OutPrevData (uncatchable_code u)
                              | inl x1 => OutNewData c (data_of_ctx x1) (dedup (x_next_peers x1) []) (x_requests x1) (x_tracker x1)
                              end) = OutNewData code d next reqs signed ->
                             exec_driven (initial_ctx i) x ->
            exists ds,
              (exists h', driven cid cid_eqb false ds h0 h' /\
                          knowledge cid (d_trace d) = knowledge cid (k_result cid (h_keeper cid h'))) /\
              (windows_consumed_b cid cid_eqb ds h0 = true ->
               keeps_both cid cid_eqb (d_trace (ri_prev i)) (d_trace (ri_cur i)) (d_trace d))).
  { intros c x Hq [ds Hds]. destruct (finish x) as [x1 | u] eqn:Ef; [| discriminate Hq]. inversion Hq; subst. clear Hq.
    pose proof (Hfin _ _ Ef) as Hk. cbn [data_of_ctx d_trace]. unfold result_trace in *.
    change (x_handler (initial_ctx i)) with h0 in Hds.
    exists ds. split; [exists (x_handler x); split; [exact Hds | exact Hk] |].
    intros Hw. unfold windows_consumed_b in Hw.
    destruct (drive cid cid_eqb true ds h0) as [[h' | |] |] eqn:Et; try discriminate Hw.
    pose proof (strict_forest_is_run _ _ _ _ _ Et) as Ef'. unfold driven in Hds. rewrite Hds in Ef'. inversion Ef'; subst h'.
    pose proof (handler_consumed cid cid_eqb cid_ceqb_spec cid_ceqb_spec ds h0 (x_handler x) (handler_from_ok _ _ _ Lp Lc)
                  (conj Et Hw)) as [Kp Kc].
    unfold prev_window, cur_window, emitted in Kp, Kc. unfold h0 in Kp, Kc. cbn [handler_from h_keeper keeper_from k_prev k_cur k_result] in Kp, Kc.
    rewrite window_slider_new in Kp, Kc. cbn [length skipn] in Kp, Kc.
    unfold keeps_both. rewrite Hk. split; assumption. }
  destruct (exec E fuel (ri_script i) (initial_ctx i)) as [x | [c | u] x | | |]; cbn [xres_sat] in Hd; try discriminate Hrun.
  - eapply Hpop; eassumption.
  - eapply Hpop; eassumption.
Qed.

(* ---- the farewell compactification renumbers generations only ---- *)

Lemma knowledge_set_nth : forall C (l : list (state C)) n s s',
  nth_error l n = Some s -> state_key C s' = state_key C s -> knowledge C (set_nth l n s') = knowledge C l.
Proof.
  intros C l. induction l as [| a l IH]; intros n s s' H K; destruct n as [| n]; cbn in *; try discriminate H.
  - inversion H; subst. rewrite K. reflexivity.
  - rewrite (IH _ _ _ H K). reflexivity.
Qed.

Lemma update_generation_knowledge : forall h p g h', update_generation cid h p g = inl h' ->
  knowledge cid (result_trace cid h') = knowledge cid (result_trace cid h).
Proof.
  intros h p g h' H. unfold update_generation in H. unfold result_trace.
  destruct (Trace.nth_N (k_result cid (h_keeper cid h)) p) as [st |] eqn:En; [| discriminate H].
  unfold Trace.nth_N in En. destruct (p <? N.of_nat (length (k_result cid (h_keeper cid h)))); [| discriminate En].
  destruct st as [l r | [s | [c | c g0 | c] | c] | gens | cn | f]; try discriminate H; inversion H; subst; cbn [h_keeper with_keeper k_result with_result].
  - eapply knowledge_set_nth; [exact En | reflexivity].
  - eapply knowledge_set_nth; [exact En | reflexivity].
Qed.

Lemma apply_updates_knowledge : forall ups h h', Stream.apply_updates (update_generation cid) h ups = inl h' ->
  knowledge cid (result_trace cid h') = knowledge cid (result_trace cid h).
Proof.
  induction ups as [| [p g] ups IH]; intros h h' H; cbn [Stream.apply_updates] in H.
  - inversion H; subst. reflexivity.
  - destruct (update_generation cid h p g) as [h1 | e] eqn:E1; [| discriminate H].
    rewrite (IH _ _ H). apply (update_generation_knowledge _ _ _ _ E1).
Qed.

Lemma compactify_table_knowledge : forall t x y, compactify_table t x = XOk y ->
  knowledge cid (result_trace cid (x_handler y)) = knowledge cid (result_trace cid (x_handler x)).
Proof.
  intros t x y H. unfold compactify_table in H.
  destruct (Stream.streams_compactify vagg va_pos _ (table_of t x)) as [m pl].
  unfold run_compact_plan, Stream.run_plan in H.
  destruct (Stream.apply_updates (update_generation cid) (x_handler (with_table t x m)) (Stream.cp_updates pl)) as [h1 | e] eqn:Ea;
    [| discriminate H].
  destruct (Stream.cp_crash pl); [discriminate H |]. inversion H; subst. cbn [x_handler set_handler].
  rewrite (apply_updates_knowledge _ _ _ Ea). destruct t; reflexivity.
Qed.

Theorem finish_streams_keeps_knowledge : finish_keeps_knowledge finish_streams.
Proof.
  intros x x1 H. unfold finish_streams in H.
  destruct (compactify_table TStreams x) as [y | [c | u] y | | |] eqn:E1; try discriminate H.
  destruct (compactify_table TMaps y) as [z | [c | u] z | | |] eqn:E2; try discriminate H.
  inversion H; subst.
  rewrite (compactify_table_knowledge _ _ _ E2). apply (compactify_table_knowledge _ _ _ E1).
Qed.
Theorem no_finish_keeps_knowledge : finish_keeps_knowledge no_finish.
Proof. intros x x1 H. inversion H; subst. reflexivity. Qed.
Theorem no_streams_off : streams_off no_streams.
Proof. intros run i x. reflexivity. Qed.
