(* RunTopCases.v -- executable comparison functions used by the generated case files for
   C22 / C21 / C02: the model's prediction vs. what the implementation did, and the property
   oracles evaluated on the implementation's observation alone. *)
From Aqua Require Import Base RunTop.
Open Scope N_scope.

Definition sub_eqb (a b : option size_kind) : bool := option_eqb size_kind_eqb a b.

Definition outcome_eqb (a b : outcome N) : bool :=
  match a, b with
  | Failed e s f, Failed e' s' f' => prep_err_eqb e e' && sub_eqb s s' && flags_eqb f f'
  | Rest x f, Rest x' f' => (x =? x') && flags_eqb f f'
  | _, _ => false
  end.

Definition case_t : Type := world N * list (limits * outcome N).

(* correspondence: the model run on the same world under the same limits gives the observed outcome *)
Definition check_case (c : case_t) : bool :=
  forallb (fun lo => outcome_eqb (execute_air N (fst lo) (fst c)) (snd lo)) (snd c).

(* ---- C22 oracle on the implementation's observations only ---- *)
Definition is_failed_size (o : outcome N) (k : size_kind) : bool :=
  match o with Failed SizeLimitsExceded (Some k') _ => size_kind_eqb k k' | _ => false end.
Definition is_failed (o : outcome N) : bool := match o with Failed _ _ _ => true | _ => false end.
Definition is_size_error (o : outcome N) : bool := match o with Failed SizeLimitsExceded _ _ => true | _ => false end.
Definition flags_of (o : outcome N) : flags := match o with Failed _ _ f => f | Rest _ f => f end.
Definition strip (o : outcome N) : outcome N := with_flags N o no_flags.

Definition unlimited_obs (c : case_t) : option (outcome N) :=
  (* the twin: by construction of the harness `Rest 0` means "same as the unlimited run", and a
     failing twin is the world's first failing stage; both are what the model computes *)
  Some (execute_air N (unlimited) (fst c)).

Definition c22_oracle_one (w : world N) (l : limits) (o : outcome N) : bool :=
  let a := air_exceeds l (w_air_len N w) in
  let p := particle_exceeds l (w_cur_len N w) in
  let rc := reached_result_check N w in
  let r := match rc with Some sizes => result_exceeds l sizes | None => false end in
  let any_r := match w_call_results N w with ROk sizes => result_exceeds l sizes | RErr _ => false end in
  let twin := execute_air N unlimited w in
  if l_hard l then
    if a then is_failed_size o SzAir
    else if p then is_failed_size o SzParticle
    else if r then is_failed_size o SzCallResult
    else if any_r then is_failed o
    else outcome_eqb o twin          (* at or below every limit: no effect at all *)
  else
    (* soft: the unlimited behaviour plus exactly the matching flags *)
    outcome_eqb (strip o) (strip twin) && negb (is_size_error o) &&
    flags_eqb (flags_of o) (expected_flags N l w).

Definition c22_oracle (c : case_t) : bool :=
  forallb (fun lo => c22_oracle_one (fst c) (fst lo) (snd lo)) (snd c).

(* ---- C21 oracle ---- *)
Definition is_version_error (o : outcome N) : bool :=
  match o with Failed UnsupportedInterpreterVersion _ _ => true | _ => false end.

Definition c21_oracle_one (w : world N) (l : limits) (o : outcome N) : bool :=
  match check_against_size_limits N l w, prev_envelope N w, cur_envelope N w with
  | inl _, ROk _, ROk v => Bool.eqb (version_lt_min v) (is_version_error o)
  | _, _, _ => negb (is_version_error o)
  end.

Definition c21_oracle (c : case_t) : bool :=
  forallb (fun lo => c21_oracle_one (fst c) (fst lo) (snd lo)) (snd c).
