"""C17 -- security tetraplets describe where each argument came from.

Two independent legs on the same generated multi-peer histories (lib/tetra17.py: scripts in which every call
site has its own (service, function) and the producing call of every value is known syntactically):

 (1) property oracle (lib/tetra17.py: check_history), written from the property TEXT and knowing nothing of the
     model or of the interpreter's sources: the expected tetraplets of every argument of every call request are
     computed from the script text alone (origin = the producing call site's resolved (peer, service, function),
     or the init peer for literals and built-ins; lens = the lenses written on the way, ".$.[i]" per fold step)
     and compared with CallRequestParams.tetraplets as the hosts of the REAL interpreter received them
     (harness/src/bin/tetra17.rs): values produced locally, received from other peers (2-4 hops), fold iterators
     over arrays / lens results / nested arrays / canon streams / streams, canon streams as whole arguments,
     lenses and `.length` on canon streams, canon stream maps (whole, key.[i], key.[i].path, length), `new`-shadowed names, values copied by `ap`, %last_error% / :error:,
     calls addressed through scalars, and a peer that receives data recorded for ANOTHER call instruction;
 (2) correspondence: the same histories through harness/src/bin/exec.rs and the executor model
     (model/ExecCases.v), compared on the projection C17 talks about: the call requests of every run (service,
     function, number of arguments and tetraplets, exactly).

The three deviations of the code from the property text are known findings (corpus/C17, known_findings.txt);
the oracle tags exactly those shapes, everything else is reported."""
import json
import os
import shutil
import sys

sys.path.insert(0, os.path.join(os.path.dirname(os.path.abspath(__file__)), "..", "lib"))
import exec_common
import tetra17
import vlib

PID = "C17"
MODEL_TARGETS = ["model/ExecCases.vo"]
HARNESS_BINS = ["tetra17", "exec"]
RULE = ("a case is one honest multi-peer history (generated script of the analysed class, deterministic services returning "
        "distinct constants, fifo or random schedule with duplicates / re-deliveries / partial answers, then drained) run on the "
        "real interpreter; every call request every host received is compared with the tetraplets computed from the script text; "
        "distinct = distinct (script, call site, argument values, observed tetraplets) with at least one argument that is not a "
        "literal; a sample of the histories is also run in lock-step with the executor model (requests compared exactly)")
PARTIAL = [
    "C17_full (the property text for every argument kind) is REFUTED by the model and by the code (C17_full_refuted): `.length` "
    "functors (scalars, canon streams, canon maps), lenses into canon streams and lenses on %last_error% / :error: (three known "
    "findings); C17_partial is the proved rest",
    "C17_stored_is_read assumes the scalars store is in a state where the current fold depth is allowed (matrix_ok) and no iterator has "
    "the variable's name; that this holds in every state reached by exec is not proved (the lock-step compares every request)",
    "canon stream maps: the model states exactly what the code does (C17_canon_map); the oracle judges the map as a whole (one tetraplet "
    "per value, as multisets), #%m.$.key.[i](.rest) and #%m.length; a key group #%m.$.key (it comes with the canon peer's tetraplet and "
    "the lens text) and fold iterators over a canon map ({key, value} objects carrying the value's tetraplet) are not judged: the "
    "property text does not decide them",
    "`ap #canon x` gives x the canon stream's own tetraplet (canon peer, \"\", \"\"), so elements later taken from x do not name their "
    "producing calls; the property text does not say what a copied canon stream should carry: not generated, not judged",
    "the oracle identifies the element a fold iterator / canon element stands for by its VALUE (services return distinct constants)",
]
ASSUMPTIONS = [
    "the host follows air/README.md (harness/src/sim.rs): stores the returned data, answers each request once under its id, forwards "
    "the particle to the next peers",
    "SecurityTetraplet::literal_tetraplet / add_lens are read from the marine-call-parameters source in the cargo registry (the "
    "version Cargo.lock pins); everything else from /repo",
]

EXEC_KEYS = ("script", "peers", "init", "services", "ops")
# the projection of a run C17 talks about: per request its id, service, function, number of arguments and the tetraplets
# (argument VALUES are not compared: error messages inside %last_error% / :error: are opaque tokens in the model)
MODEL_CHECK = ("fun c => match model_outcome c with "
               "| OutUnsupported _ => true "
               "| OutNewData _ _ _ reqs _ => "
               "list_eqb (fun a b => N.eqb (fst a) (fst b) && String.eqb (rq_service (snd a)) (rq_service (snd b)) && "
               "String.eqb (rq_function (snd a)) (rq_function (snd b)) && N.eqb (len_N (rq_args (snd a))) (len_N (rq_args (snd b))) && "
               "list_eqb (list_eqb tetraplet_eqb) (rq_tetraplets (snd a)) (rq_tetraplets (snd b))) reqs (eo_requests (ec_obs c)) "
               "| OutFuel => false "
               "| _ => match eo_requests (ec_obs c) with [] => true | _ => false end end")


def gen_cases(rng, tier, escalate=False):
    n = {"quick": 260, "thorough": 3000}[tier] * (3 if escalate else 1)
    n_model = {"quick": 8, "thorough": 60}[tier]
    cases = []
    for i in range(n):
        lock = i < n_model
        if i % 25 == 24:
            c = tetra17.gen_tamper_case(rng)
        elif lock:
            c = tetra17.gen_case(rng, n_segments=1 if tier == "quick" else None)
        else:
            c = tetra17.gen_case(rng)
        c["lockstep"] = lock and c["kind"] != "tamper"
        cases.append(c)
    return cases


def evaluate(cases, result, tier):
    if not cases:
        return
    dist = result["distribution"]
    keep = ("script", "peers", "init", "services", "ops", "drain", "scripts_by_peer", "particle_id")
    outs = vlib.harness_lines("tetra17", [json.dumps({k: c[k] for k in keep if k in c}) for c in cases], timeout=1700)
    stats = {}
    for c, o in zip(cases, outs):
        if "error" in o:
            result["errors"].append("tetra17: " + o["error"][:400])
            continue
        result["evaluations"] += 1
        dist["histories/" + c.get("kind", "corpus")] = dist.get("histories/" + c.get("kind", "corpus"), 0) + 1
        dist["schedule/" + c.get("how", "given")] = dist.get("schedule/" + c.get("how", "given"), 0) + 1
        dist["runs"] = dist.get("runs", 0) + o["runs"]
        for k, v in (c.get("segments") or {}).items():
            dist["segment/" + k] = dist.get("segment/" + k, 0) + v
        for k, v in o["codes"].items():
            if k != "0":
                dist["runs ending with code " + k] = dist.get("runs ending with code " + k, 0) + v
        if o["panics"]:
            dist["panics"] = dist.get("panics", 0) + o["panics"]
        if not o["quiescent"]:
            dist["histories not quiescent after the drain"] = dist.get("histories not quiescent after the drain", 0) + 1
        try:
            fails = tetra17.check_history(c, o, stats)
        except Exception as e:  # the analyser must never take the check down silently
            result["errors"].append("analyser: %s: %s on %s" % (type(e).__name__, e, c["script"][:300]))
            continue
        for r in o["requests"]:
            if any(ts and any(t["service_id"] or t["lens"] for t in ts) for ts in r["tetraplets"]):
                result["distinct"].add(json.dumps([c["script"], r["service"], r["function"], r["args"], r["tetraplets"]], sort_keys=True))
        seen = set()
        for f in fails:
            sig = (f["key"], tuple(f["site"]), f["arg"])
            if sig in seen:
                continue
            seen.add(sig)
            case = {k: c[k] for k in keep if k in c}
            case["kind"] = c.get("kind", "corpus")
            result["oracle_fail"].append({"case": case, "key": f["key"], "detail": f,
                                          "what": "tetraplets observed at the host differ from the property text: " + f["what"]})
        if len(result["samples"]) < 3 and o["requests"] and c.get("kind") == "generated" and len(c["script"]) < 900:
            result["samples"].append({"script": c["script"], "peers": c["peers"], "init": c["init"],
                                      "a request": o["requests"][-1]})
    for k, v in stats.items():
        dist["oracle/" + k] = dist.get("oracle/" + k, 0) + v

    # ---- correspondence with the executor model on the requests of every run
    lock = [c for c in cases if c.get("lockstep", c.get("kind", "corpus") == "corpus") and not c.get("scripts_by_peer")]
    if not lock:
        return
    ecases = []
    for c in lock:
        e = {k: c[k] for k in EXEC_KEYS}
        e.update({"oracles": [], "drain": True, "model_drain": True, "seed": 0})
        ecases.append(e)
    sub = {"evaluations": 0, "distinct": set(), "samples": [], "distribution": {}, "mismatch": [], "oracle_fail": [], "errors": []}
    # own directory per process: two concurrent runs of this check must not wipe each other's case files
    tag = "%s-%d" % (PID, os.getpid())
    try:
        exec_common.evaluate(ecases, sub, {"model": MODEL_CHECK}, tag=tag, shard_size=8, distinct_of=lambda c, inf: None)
    finally:
        if not sub["mismatch"] and not sub["errors"]:
            shutil.rmtree(os.path.join(vlib.CACHE, "cases", tag), ignore_errors=True)
    dist["lock-step/histories"] = len(ecases)
    dist["lock-step/runs compared with the model"] = sum(v for k, v in sub["distribution"].items()
                                                        if k.startswith(("new:", "prev:", "empty:", "panic")))
    result["errors"].extend(sub["errors"])
    for m in sub["mismatch"]:
        m["what"] = "the call requests (arguments, tetraplets) of this run differ between the executor model and the implementation"
        result["mismatch"].append(m)
