(* RunExec.v -- one run of the interpreter after the preparation stages: context creation from
   the two data, execution, farewell (air/src/runner.rs from `prepare` on, preparation.rs
   make_exec_ctx, farewell_step/outcome.rs), over decoded data.

   A data is its trace, last call request id and CID stores (sets of content ids: with symbolic
   ids an honest store entry is determined by its id).  Signature verification is modelled in
   Sig.v; here the run starts from data that passed it.
   Definitions only. *)
From Aqua Require Import Base Json Air Trace Handler Values Scalars Lens Exec.
Open Scope N_scope.
Open Scope list_scope.

Record idata := { d_trace : list (state cid); d_lcid : N; d_cids : cid_state }.
Definition empty_cids : cid_state :=
  {| cs_values := []; cs_tetraplets := []; cs_canon_elems := []; cs_canon_results := []; cs_services := [] |}.
Definition empty_data : idata := {| d_trace := []; d_lcid := 0; d_cids := empty_cids |}.

Record run_input := {
  ri_script : instr;
  ri_params : run_params;
  ri_prev : idata;
  ri_cur : idata;
  ri_results : list (N * service_answer)
}.

(* CidTracker::from_cid_stores: the previous map extended with the current one *)
Definition union_cids (a b : list cid) : list cid := fold_left (fun acc c => cid_track c acc) b a.
Definition merge_cid_states (p c : cid_state) : cid_state :=
  {| cs_values := union_cids (cs_values p) (cs_values c);
     cs_tetraplets := union_cids (cs_tetraplets p) (cs_tetraplets c);
     cs_canon_elems := union_cids (cs_canon_elems p) (cs_canon_elems c);
     cs_canon_results := union_cids (cs_canon_results p) (cs_canon_results c);
     cs_services := union_cids (cs_services p) (cs_services c) |}.

(* ExecutionCtx::new + TraceHandler::from_trace *)
Definition initial_ctx (i : run_input) : ctx :=
  {| x_params := ri_params i;
     x_scalars := matrix_new; x_canons := matrix_new; x_iterables := [];
     x_next_peers := [];
     x_last_error := no_error; x_last_error_can_set := true;
     x_error := no_error; x_error_can_set := true;
     x_complete := true;
     x_lcid := d_lcid (ri_prev i);                       (* the current data's lcid is ignored *)
     x_call_results := ri_results i; x_requests := [];
     x_cids := merge_cid_states (d_cids (ri_prev i)) (d_cids (ri_cur i));
     x_tracker := [];
     x_fold_counter := 0;
     x_ext := ext_new;
     x_handler := handler_from cid (d_trace (ri_prev i)) (d_trace (ri_cur i)) |}.

(* farewell_step/outcome.rs: dedup keeps the first occurrence (through a HashSet) *)
Fixpoint dedup (l : list string) (seen : list string) : list string :=
  match l with
  | [] => []
  | x :: r => if existsb (String.eqb x) seen then dedup r seen else x :: dedup r (x :: seen)
  end.

Inductive outcome :=
| OutNewData (code : Z) (d : idata) (next : list string) (requests : list (N * request)) (signed : list cid)
| OutPrevData (code : Z)                 (* uncatchable error: the previous data, no peers, no requests *)
| OutCrash (site : string)
| OutFuel
| OutUnsupported (what : string).

Definition farewell_error_code : Z := farewell_errors_start_id.     (* UnprocessedCallResult is the first variant *)

Definition data_of_ctx (x : ctx) : idata :=
  {| d_trace := result_trace cid (x_handler x); d_lcid := x_lcid x; d_cids := x_cids x |}.

Section Run.
  Variable exec_stream_instr : (instr -> ctx -> xres) -> instr -> ctx -> option xres.
  (* compactification of stream generations at the end of the run (stage 2); identity without streams *)
  Variable finish_streams : ctx -> ctx + uncatchable.

  Definition run (fuel : nat) (i : run_input) : outcome :=
    let populate (code : Z) (x : ctx) : outcome :=
      match finish_streams x with
      | inr u => OutPrevData (uncatchable_code u)      (* execution_error_into_outcome: empty data in the code; see C02 *)
      | inl x1 => OutNewData code (data_of_ctx x1) (dedup (x_next_peers x1) []) (x_requests x1) (x_tracker x1)
      end in
    match exec exec_stream_instr fuel (ri_script i) (initial_ctx i) with
    | XOk x =>
        populate (match x_call_results x with [] => 0%Z | _ => farewell_error_code end) x
    | XErr (ECatch c) x => populate (catchable_code c) x
    | XErr (EUncatch u) _ => OutPrevData (uncatchable_code u)
    | XCrash s => OutCrash s
    | XFuel => OutFuel
    | XUnsupported w => OutUnsupported w
    end.
End Run.

(* stage 1 instantiation: no stream instruction is supported *)
Definition no_streams : (instr -> ctx -> xres) -> instr -> ctx -> option xres := fun _ _ _ => None.
Definition no_finish : ctx -> ctx + uncatchable := fun x => inl x.
Definition run1 := run no_streams no_finish.
